/-
Model of `flax/struct.py`: `struct.dataclass` / `PyTreeNode`.

What the decorator does, and what is modelled:
* `dataclasses.dataclass(frozen=True)` unless the caller passes `frozen=` explicitly   → `Cls.frozen`, `setattr`
* fields are split by `metadata['pytree_node']` (default True) into `data_fields` / `meta_fields`,
  each keeping declaration order                                                        → `Field.node`
* `replace = dataclasses.replace` (rebuilds through `__init__`; an unknown name is a TypeError) → `replace`
* `jax.tree_util.register_dataclass(cls, data_fields, meta_fields)`: flatten gives the data field
  values as children (in `data_fields` order) and the meta field values as static aux data;
  unflatten calls the class with both                                                   → `flatten` / `unflatten`

An instance is `inst cls fs` with `fs` in declaration order, each field carrying its `pytree_node`
flag and its value; a value is a leaf or again an instance (nested structs).  Meta field values are
arbitrary (hashable) Python values; they are modelled by the same value type and travel whole in the
treedef (`SDef.static`).  Core Lean only.
-/

namespace Flax.Struct

inductive PV where
  | leaf (n : Int)
  | inst (cls : String) (frozen : Bool) (fs : List (String × Bool × PV))
  deriving Repr, Inhabited

/-- treedef: `leaf` = one leaf slot, `static v` = a meta field and its value, `inst` = a registered dataclass -/
inductive SDef where
  | leaf
  | static (v : PV)
  | inst (cls : String) (frozen : Bool) (fs : List (String × SDef))
  deriving Repr, Inhabited

inductive Err where
  | frozenInstance     -- dataclasses.FrozenInstanceError
  | typeError          -- unexpected keyword argument in `replace` / not a dataclass instance
  | attributeError
  | structure          -- too few / too many leaves for the treedef
  deriving DecidableEq, Repr

mutual
  def flatten : PV → List Int × SDef
    | .leaf n => ([n], .leaf)
    | .inst cls fr fs =>
      let r := flattenFs fs
      (r.1, .inst cls fr r.2)
  def flattenFs : List (String × Bool × PV) → List Int × List (String × SDef)
    | [] => ([], [])
    | (name, true, v) :: rest =>
      let a := flatten v
      let b := flattenFs rest
      (a.1 ++ b.1, (name, a.2) :: b.2)
    | (name, false, v) :: rest =>
      let b := flattenFs rest
      (b.1, (name, .static v) :: b.2)
end

mutual
  def unflatten : SDef → List Int → Option (PV × List Int)
    | .leaf, [] => none
    | .leaf, l :: ls => some (.leaf l, ls)
    | .static v, ls => some (v, ls)
    | .inst cls fr ds, ls =>
      match unflattenFs ds ls with
      | some (fs, rest) => some (.inst cls fr fs, rest)
      | none => none
  def unflattenFs : List (String × SDef) → List Int → Option (List (String × Bool × PV) × List Int)
    | [], ls => some ([], ls)
    | (name, d) :: rest, ls =>
      match unflatten d ls with
      | none => none
      | some (v, ls1) =>
        match unflattenFs rest ls1 with
        | none => none
        | some (fs, ls2) =>
          some ((name, (match d with | .static _ => false | _ => true), v) :: fs, ls2)
end

/-- `jax.tree_util.tree_unflatten(treedef, leaves)`: all leaves must be consumed -/
def unflattenAll (d : SDef) (ls : List Int) : Except Err PV :=
  match unflatten d ls with
  | some (v, []) => .ok v
  | _ => .error .structure

mutual
  /-- `jax.tree_util.tree_map(f, x)` -/
  def mapLeaves (f : Int → Int) : PV → PV
    | .leaf n => .leaf (f n)
    | .inst cls fr fs => .inst cls fr (mapLeavesFs f fs)
  def mapLeavesFs (f : Int → Int) : List (String × Bool × PV) → List (String × Bool × PV)
    | [] => []
    | (name, true, v) :: rest => (name, true, mapLeaves f v) :: mapLeavesFs f rest
    | (name, false, v) :: rest => (name, false, v) :: mapLeavesFs f rest
end

def getField : List (String × Bool × PV) → String → Option PV
  | [], _ => none
  | (n, _, v) :: rest, name => if n = name then some v else getField rest name

def setField : List (String × Bool × PV) → String → PV → Option (List (String × Bool × PV))
  | [], _, _ => none
  | (n, b, v) :: rest, name, x =>
    if n = name then some ((n, b, x) :: rest)
    else (setField rest name x).map (fun r => (n, b, v) :: r)

/-- `x.name` -/
def getattr (x : PV) (name : String) : Except Err PV :=
  match x with
  | .leaf _ => .error .attributeError
  | .inst _ _ fs =>
    match getField fs name with
    | some v => .ok v
    | none => .error .attributeError

/-- `x.name = v`: the generated `__setattr__` of a frozen dataclass raises; with `frozen=False`
(explicitly requested by the caller) it is an ordinary attribute write -/
def setattr (x : PV) (name : String) (v : PV) : Except Err PV :=
  match x with
  | .leaf _ => .error .attributeError
  | .inst cls fr fs =>
    if fr then .error .frozenInstance
    else
      match setField fs name v with
      | some fs' => .ok (.inst cls fr fs')
      | none => .ok (.inst cls fr fs)     -- a non-field attribute lands in `__dict__`; the fields are untouched

/-- `x.replace(**updates)` = `dataclasses.replace`: every name must be a field -/
def replaceFs : List (String × Bool × PV) → List (String × PV) → Except Err (List (String × Bool × PV))
  | fs, [] => .ok fs
  | fs, (name, v) :: ups =>
    match setField fs name v with
    | none => .error .typeError
    | some fs' => replaceFs fs' ups

def replace (x : PV) (ups : List (String × PV)) : Except Err PV :=
  match x with
  | .leaf _ => .error .typeError
  | .inst cls fr fs =>
    match replaceFs fs ups with
    | .ok fs' => .ok (.inst cls fr fs')
    | .error e => .error e

/-! ### `struct.field(pytree_node=…, metadata=m)`

`dataclasses.field(metadata=(m or {}) | {'pytree_node': pytree_node}, **kwargs)`: every call builds a
NEW mapping (dict union, the right operand wins), so the caller's dict `m` is only read — also when one
dict object is passed to several `field` calls, and also when it already carries a (stale)
`'pytree_node'` entry.  `struct.dataclass` later reads each field's flag with
`field_info.metadata.get('pytree_node', True)`. -/

/-- a metadata mapping; values are opaque ints, `'pytree_node'` holds 1 / 0 -/
abbrev Meta := List (String × Int)

def metaGet : Meta → String → Option Int
  | [], _ => none
  | (k, v) :: r, key => if k = key then some v else metaGet r key

/-- `m | {key: v}` -/
def metaSet : Meta → String → Int → Meta
  | [], key, v => [(key, v)]
  | (k, x) :: r, key, v => if k = key then (k, v) :: r else (k, x) :: metaSet r key v

/-- one field declaration: its name, the `pytree_node` argument, and which of the caller's metadata dict
objects was passed (`none` = `metadata=None`; equal ids = the *same* dict object) -/
structure FieldSpec where
  name : String
  node : Bool
  metaId : Option Nat
  deriving Repr, DecidableEq

def callerMeta (store : List Meta) : Option Nat → Meta
  | none => []
  | some i =>
    match store[i]? with
    | some m => m
    | none => []         -- (an id outside the store is a harness bug; it reads as an empty dict)

/-- the metadata mapping `struct.field` gives to the field -/
def fieldMeta (store : List Meta) (f : FieldSpec) : Meta :=
  metaSet (callerMeta store f.metaId) "pytree_node" (if f.node then 1 else 0)

/-- `field_info.metadata.get('pytree_node', True)` -/
def metaFlag (m : Meta) : Bool :=
  match metaGet m "pytree_node" with
  | some v => decide (v ≠ 0)
  | none => true

/-- the data / static partition `struct.dataclass` computes for a class body (the caller's `store` is not
an output: nothing writes to it) -/
def declare (store : List Meta) (fs : List FieldSpec) : List (String × Bool) :=
  fs.map (fun f => (f.name, metaFlag (fieldMeta store f)))

/-- NOT the shipped behaviour (kept for the counter-example): a `field` that writes `'pytree_node'` into the
caller's dict and hands that same object to `dataclasses.field`; the flags are read when the class is
created, i.e. after all `field` calls of the body have run -/
def declareMutatingOrig (store : List Meta) (fs : List FieldSpec) : List Meta × List (String × Bool) :=
  let store' := fs.foldl (fun st f =>
    match f.metaId with
    | some i =>
      match st[i]? with
      | some m => st.set i (metaSet m "pytree_node" (if f.node then 1 else 0))
      | none => st
    | none => st) store
  (store', fs.map (fun f =>
    match f.metaId with
    | some _ => (f.name, metaFlag (callerMeta store' f.metaId))
    | none => (f.name, f.node)))

/-! ### class creation: which class object gets registered as a pytree

`data_clz = dataclasses.dataclass(**kwargs)(clz)`; then `jax.tree_util.register_dataclass(data_clz, data_fields,
meta_fields)` and `return data_clz`.  With `slots=True` the standard library builds a NEW class object (slots
cannot be added to an existing class), so `data_clz is not clz`; with every other option it decorates `clz` in
place.  Class objects are modelled by ids; `fresh` is the id a newly built class would get. -/

structure StyleKw where
  slots : Bool
  kwOnly : Bool
  frozen : Bool
  subclass : Bool      -- the decorated class inherits from another struct dataclass
  deriving Repr, DecidableEq

/-- `dataclasses.dataclass(**kw)(clz)` -/
def dataClz (kw : StyleKw) (clz fresh : Nat) : Nat := if kw.slots then fresh else clz

structure Created where
  returned : Nat                      -- the class the user gets (and instantiates)
  registered : Nat                    -- the class registered with jax.tree_util
  partition : List (String × Bool)    -- (field, is a pytree leaf)
  deriving Repr, DecidableEq

/-- `struct.dataclass(clz, **kw)` -/
def structDataclass (kw : StyleKw) (clz fresh : Nat) (store : List Meta) (fs : List FieldSpec) : Created :=
  let d := dataClz kw clz fresh
  ⟨d, d, declare store fs⟩

/-- NOT the shipped behaviour (kept for the counter-example): registering the class that was passed in -/
def structDataclassRegistersArgOrig (kw : StyleKw) (clz fresh : Nat) (store : List Meta) (fs : List FieldSpec) : Created :=
  ⟨dataClz kw clz fresh, clz, declare store fs⟩

end Flax.Struct
