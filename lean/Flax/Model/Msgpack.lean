/-
Byte-level model of the msgpack wire format, as used by `flax/serialization.py`
(`msgpack.packb(..., strict_types=True)` / `msgpack.unpackb`).

Transcribed from the msgpack specification and from the packing policy of msgpack-python
(`msgpack/fallback.py::Packer._pack`, which the C extension mirrors): every value is written in the
shortest format that holds it; floats are always float64; `str` is written as str, `bytes` as bin.

A byte is a `Nat` (the packer only ever emits numbers < 256: theorem `pack_bytes_lt` in
`Flax/Proofs/Msgpack.lean`); payload bytes of str / bin / ext are passed through untouched.

Core Lean only: this file is in the import closure of the compiled driver.
-/

namespace Flax.Msgpack

abbrev Bytes := List Nat

/-- a msgpack value. `str` carries the raw (UTF-8) bytes, `f64` the 64 bit pattern of the double,
`ext` the application type code (0..127) and its payload. -/
inductive MVal where
  | nil
  | bool (b : Bool)
  | int (i : Int)
  | f64 (bits : Nat)
  | str (s : Bytes)
  | bin (b : Bytes)
  | arr (xs : List MVal)
  | map (kvs : List (MVal × MVal))
  | ext (code : Nat) (data : Bytes)
  deriving Repr, Inhabited

/-! ### big-endian fixed-width integers -/

/-- `be k n`: the `k` low-order bytes of `n`, most significant first -/
def be : Nat → Nat → Bytes
  | 0, _ => []
  | k + 1, n => (n / 256 ^ k % 256) :: be k n

/-- big-endian value of a byte string -/
def fromBe (bs : Bytes) : Nat := bs.foldl (fun acc b => acc * 256 + b) 0

/-- reads exactly `k` bytes (`none` when fewer are left); linear in `k`, not in the input -/
def takeN (k : Nat) (bs : Bytes) : Option (Bytes × Bytes) :=
  match k with
  | 0 => some ([], bs)
  | k' + 1 =>
    match bs.drop k' with
    | [] => none
    | _ :: r => some (bs.take (k' + 1), r)

/-- two's complement decoding of a `k`-byte field -/
def toSigned (k : Nat) (n : Nat) : Int :=
  if n < 2 ^ (8 * k - 1) then (n : Int) else (n : Int) - (2 ^ (8 * k) : Nat)

/-- two's complement encoding of a negative number in `k` bytes -/
def ofSigned (k : Nat) (i : Int) : Nat := (i + (2 ^ (8 * k) : Nat)).toNat

/-! ### packer -/

/-- msgpack-python's integer policy: shortest of positive fixint, uint8/16/32/64 for `i ≥ 0`;
negative fixint, int8/16/32/64 for `i < 0`. (Outside `[-2^63, 2^64)` the real packer raises
`OverflowError`; the model writes the low 8 bytes — excluded by `MVal.WF`.) -/
def packInt (i : Int) : Bytes :=
  if 0 ≤ i then
    let n := i.toNat
    if n < 0x80 then [n]
    else if n < 0x100 then 0xcc :: be 1 n
    else if n < 0x10000 then 0xcd :: be 2 n
    else if n < 0x100000000 then 0xce :: be 4 n
    else 0xcf :: be 8 n
  else
    if -0x20 ≤ i then [ofSigned 1 i]
    else if -0x80 ≤ i then 0xd0 :: be 1 (ofSigned 1 i)
    else if -0x8000 ≤ i then 0xd1 :: be 2 (ofSigned 2 i)
    else if -0x80000000 ≤ i then 0xd2 :: be 4 (ofSigned 4 i)
    else 0xd3 :: be 8 (ofSigned 8 i)

def strHdr (n : Nat) : Bytes :=
  if n < 32 then [0xa0 + n]
  else if n < 0x100 then 0xd9 :: be 1 n
  else if n < 0x10000 then 0xda :: be 2 n
  else 0xdb :: be 4 n

def binHdr (n : Nat) : Bytes :=
  if n < 0x100 then 0xc4 :: be 1 n
  else if n < 0x10000 then 0xc5 :: be 2 n
  else 0xc6 :: be 4 n

def arrHdr (n : Nat) : Bytes :=
  if n < 16 then [0x90 + n]
  else if n < 0x10000 then 0xdc :: be 2 n
  else 0xdd :: be 4 n

def mapHdr (n : Nat) : Bytes :=
  if n < 16 then [0x80 + n]
  else if n < 0x10000 then 0xde :: be 2 n
  else 0xdf :: be 4 n

/-- header of an ext value: fixext 1/2/4/8/16, else ext8/16/32; the type code follows the length -/
def extHdr (code n : Nat) : Bytes :=
  if n = 1 then [0xd4, code]
  else if n = 2 then [0xd5, code]
  else if n = 4 then [0xd6, code]
  else if n = 8 then [0xd7, code]
  else if n = 16 then [0xd8, code]
  else if n < 0x100 then 0xc7 :: be 1 n ++ [code]
  else if n < 0x10000 then 0xc8 :: be 2 n ++ [code]
  else 0xc9 :: be 4 n ++ [code]

mutual
  /-- `msgpack.packb` -/
  def pack : MVal → Bytes
    | .nil => [0xc0]
    | .bool false => [0xc2]
    | .bool true => [0xc3]
    | .int i => packInt i
    | .f64 bits => 0xcb :: be 8 bits
    | .str s => strHdr s.length ++ s
    | .bin b => binHdr b.length ++ b
    | .arr xs => arrHdr xs.length ++ packList xs
    | .map kvs => mapHdr kvs.length ++ packPairs kvs
    | .ext code data => extHdr code data.length ++ data
  def packList : List MVal → Bytes
    | [] => []
    | x :: xs => pack x ++ packList xs
  def packPairs : List (MVal × MVal) → Bytes
    | [] => []
    | (k, v) :: r => pack k ++ (pack v ++ packPairs r)
end

/-! ### unpacker -/

/-- reads `n` consecutive values with the reader `f` -/
def unpackMany (f : Bytes → Option (MVal × Bytes)) : Nat → Bytes → Option (List MVal × Bytes)
  | 0, bs => some ([], bs)
  | n + 1, bs =>
    match f bs with
    | none => none
    | some (v, r) =>
      match unpackMany f n r with
      | none => none
      | some (vs, r') => some (v :: vs, r')

/-- reads `n` consecutive key/value pairs with the reader `f` -/
def unpackPairs (f : Bytes → Option (MVal × Bytes)) : Nat → Bytes → Option (List (MVal × MVal) × Bytes)
  | 0, bs => some ([], bs)
  | n + 1, bs =>
    match f bs with
    | none => none
    | some (k, r) =>
      match f r with
      | none => none
      | some (v, r') =>
        match unpackPairs f n r' with
        | none => none
        | some (kvs, r'') => some ((k, v) :: kvs, r'')

/-- reads a `k`-byte big-endian length/number -/
def readBe (k : Nat) (bs : Bytes) : Option (Nat × Bytes) :=
  match takeN k bs with
  | none => none
  | some (h, r) => some (fromBe h, r)

def readStr (n : Nat) (bs : Bytes) : Option (MVal × Bytes) :=
  match takeN n bs with
  | none => none
  | some (s, r) => some (.str s, r)

def readBin (n : Nat) (bs : Bytes) : Option (MVal × Bytes) :=
  match takeN n bs with
  | none => none
  | some (s, r) => some (.bin s, r)

/-- ext body: one type byte (application codes 0..127 only; negative = reserved codes are not
modelled) followed by `n` payload bytes -/
def readExt (n : Nat) (bs : Bytes) : Option (MVal × Bytes) :=
  match bs with
  | [] => none
  | code :: r =>
    if code < 128 then
      match takeN n r with
      | none => none
      | some (d, r') => some (.ext code d, r')
    else none

def readArr (f : Bytes → Option (MVal × Bytes)) (n : Nat) (bs : Bytes) : Option (MVal × Bytes) :=
  match unpackMany f n bs with
  | none => none
  | some (xs, r) => some (.arr xs, r)

def readMap (f : Bytes → Option (MVal × Bytes)) (n : Nat) (bs : Bytes) : Option (MVal × Bytes) :=
  match unpackPairs f n bs with
  | none => none
  | some (kvs, r) => some (.map kvs, r)

/-- with a length field of `k` bytes in front -/
def withLen (k : Nat) (bs : Bytes) (body : Nat → Bytes → Option (MVal × Bytes)) : Option (MVal × Bytes) :=
  match readBe k bs with
  | none => none
  | some (n, r) => body n r

def readUInt (k : Nat) (bs : Bytes) : Option (MVal × Bytes) :=
  match readBe k bs with
  | none => none
  | some (n, r) => some (.int n, r)

def readSInt (k : Nat) (bs : Bytes) : Option (MVal × Bytes) :=
  match readBe k bs with
  | none => none
  | some (n, r) => some (.int (toSigned k n), r)

/-- one value; `fuel` bounds the nesting depth (containers recurse with `fuel - 1`).
Formats: all of the msgpack spec except float32 (0xca, never written by the packer used here)
and the reserved/negative ext codes. -/
def unpackF : Nat → Bytes → Option (MVal × Bytes)
  | 0, _ => none
  | _ + 1, [] => none
  | fuel + 1, b :: rest =>
    if b < 0x80 then some (.int b, rest)                               -- positive fixint
    else if b < 0x90 then readMap (unpackF fuel) (b - 0x80) rest       -- fixmap
    else if b < 0xa0 then readArr (unpackF fuel) (b - 0x90) rest       -- fixarray
    else if b < 0xc0 then readStr (b - 0xa0) rest                      -- fixstr
    else if b = 0xc0 then some (.nil, rest)
    else if b = 0xc2 then some (.bool false, rest)
    else if b = 0xc3 then some (.bool true, rest)
    else if b = 0xc4 then withLen 1 rest readBin
    else if b = 0xc5 then withLen 2 rest readBin
    else if b = 0xc6 then withLen 4 rest readBin
    else if b = 0xc7 then withLen 1 rest readExt
    else if b = 0xc8 then withLen 2 rest readExt
    else if b = 0xc9 then withLen 4 rest readExt
    else if b = 0xcb then
      match readBe 8 rest with
      | none => none
      | some (n, r) => some (.f64 n, r)
    else if b = 0xcc then readUInt 1 rest
    else if b = 0xcd then readUInt 2 rest
    else if b = 0xce then readUInt 4 rest
    else if b = 0xcf then readUInt 8 rest
    else if b = 0xd0 then readSInt 1 rest
    else if b = 0xd1 then readSInt 2 rest
    else if b = 0xd2 then readSInt 4 rest
    else if b = 0xd3 then readSInt 8 rest
    else if b = 0xd4 then readExt 1 rest
    else if b = 0xd5 then readExt 2 rest
    else if b = 0xd6 then readExt 4 rest
    else if b = 0xd7 then readExt 8 rest
    else if b = 0xd8 then readExt 16 rest
    else if b = 0xd9 then withLen 1 rest readStr
    else if b = 0xda then withLen 2 rest readStr
    else if b = 0xdb then withLen 4 rest readStr
    else if b = 0xdc then withLen 2 rest (readArr (unpackF fuel))
    else if b = 0xdd then withLen 4 rest (readArr (unpackF fuel))
    else if b = 0xde then withLen 2 rest (readMap (unpackF fuel))
    else if b = 0xdf then withLen 4 rest (readMap (unpackF fuel))
    else if 0xe0 ≤ b ∧ b < 0x100 then some (.int (toSigned 1 b), rest)  -- negative fixint
    else none                                                          -- 0xc1, 0xca, not a byte

/-- `msgpack.unpackb`: exactly one value, no trailing bytes (`ExtraData` otherwise). Every level of
nesting consumes at least one byte, so `length + 1` is enough fuel for any input. -/
def unpack (bs : Bytes) : Option MVal :=
  match unpackF (bs.length + 1) bs with
  | some (v, []) => some v
  | _ => none

end Flax.Msgpack
