/-
Model of flax/nnx/training/metrics.py: Average, Welford, Accuracy, MultiMetric
(update / compute / reset), over exact rationals (core `Rat`).

What is transcribed, line by line, from the code at the pinned commit:
  * `Average.update`: `total += values if scalar else values.sum()`, `count += 1 if scalar else values.size`
  * `Average.compute`: `total / count` (NaN when `count == 0`: `none`)
  * `Welford.update`: the count / delta / mean / m2 recurrences with `original_count` and the *new*
    `self.count` in the denominators; `values.mean()`, `values.var() * count` for arrays, `0.0` for scalars
  * `Welford.compute`: `variance = m2 / count` (population variance); `standard_deviation = variance ** 0.5`
    and `standard_error_of_mean = standard_deviation / count ** 0.5` are real-valued functions of
    `(variance, count)` only and are not rational: the model reports `(mean, variance, count)`.
  * `Accuracy.update`: ndim checks, `argmax(axis=-1) == labels` / `(logits >= threshold) == (labels > 0)`,
    then `super().update(values=…)` (a bool array), including the quirk that an `Accuracy` built with a
    non-default `argname` always raises (it calls `Average.update(values=…)`).
  * `MultiMetric`: every metric gets all keyword arguments; `compute` is a dict name ↦ value.

An array is its flattened element list (sum, size, mean, var do not depend on the shape).
What the model cannot exhibit: float32 rounding of the accumulators (all numbers are exact `Rat`).
An empty array makes `values.mean()` NaN in the real code, which poisons `mean`/`m2` until `reset`;
the model's `welfordUpdate` returns `none` there (nothing is totalised to a number).

Core Lean only (no Mathlib): this file is linked into the driver.
-/

namespace Flax.Metrics

/-- `Σ xs` (structural, so that induction is direct) -/
def sum : List Rat → Rat
  | [] => 0
  | x :: xs => x + sum xs

/-- the `values` argument of `update`: a Python `int`/`float`, or an array (flattened) -/
inductive Batch where
  | scalar (v : Rat)
  | array (xs : List Rat)
  deriving Repr, DecidableEq, Inhabited

/-- the values a batch contributes to the stream -/
def Batch.values : Batch → List Rat
  | .scalar v => [v]
  | .array xs => xs

/-! ### Average -/

structure AvgState where
  total : Rat
  count : Nat
  deriving Repr, DecidableEq, Inhabited

/-- `Average.__init__` / `Average.reset` -/
def AvgState.init : AvgState := { total := 0, count := 0 }

/-- `Average.update(values=…)` -/
def avgUpdate (s : AvgState) : Batch → AvgState
  | .scalar v => { total := s.total + v, count := s.count + 1 }
  | .array xs => { total := s.total + sum xs, count := s.count + xs.length }

/-- `Average.compute()`; `none` is the NaN of `0. / 0` -/
def avgCompute (s : AvgState) : Option Rat :=
  if s.count = 0 then none else some (s.total / (s.count : Rat))

def avgReset (_ : AvgState) : AvgState := AvgState.init

/-! ### Welford -/

structure WState where
  count : Nat
  mean : Rat
  m2 : Rat
  deriving Repr, DecidableEq, Inhabited

/-- `Welford.__init__` / `Welford.reset` -/
def WState.init : WState := { count := 0, mean := 0, m2 := 0 }

/-- `values.mean()` -/
def mean (xs : List Rat) : Rat := sum xs / (xs.length : Rat)

/-- `Σ (x - c)²` -/
def sqDev (c : Rat) (xs : List Rat) : Rat := sum (xs.map (fun x => (x - c) * (x - c)))

/-- `values.var()`: population variance `mean(|x - x.mean()|²)` -/
def var (xs : List Rat) : Rat := sqDev (mean xs) xs / (xs.length : Rat)

/-- the body of `Welford.update` once `count`, the batch mean and the batch `m2` are known -/
def welfordMerge (s : WState) (count : Nat) (batchMean batchM2 : Rat) : WState :=
  let originalCount := s.count
  let newCount := s.count + count
  let delta := batchMean - s.mean
  { count := newCount,
    mean := s.mean + delta * (count : Rat) / (newCount : Rat),
    m2 := s.m2 + (batchM2 + delta * delta * (count : Rat) * (originalCount : Rat) / (newCount : Rat)) }

/-- `Welford.update(values=…)`; `none` = NaN-poisoned (empty array: `values.mean()` is NaN) -/
def welfordUpdate (s : WState) : Batch → Option WState
  | .scalar v => some (welfordMerge s 1 v 0)
  | .array [] => none
  | .array (x :: xs) =>
      let vs := x :: xs
      some (welfordMerge s vs.length (mean vs) (var vs * (vs.length : Rat)))

structure WStats where
  mean : Rat
  /-- `m2 / count`; `none` when `count = 0` (NaN). `standard_deviation = √variance`,
  `standard_error_of_mean = √variance / √count`. -/
  variance : Option Rat
  count : Nat
  deriving Repr, DecidableEq, Inhabited

/-- `Welford.compute()` up to the two square roots -/
def welfordCompute (s : WState) : WStats :=
  { mean := s.mean,
    variance := if s.count = 0 then none else some (s.m2 / (s.count : Rat)),
    count := s.count }

def welfordReset (_ : WState) : WState := WState.init

/-! ### Accuracy -/

/-- `jnp.argmax` of one row: index of the first maximal entry. `best`/`bi` = running maximum and its
index, `i` = index of the head of the remaining list. -/
def argmaxFrom (best : Rat) (bi : Nat) (i : Nat) : List Rat → Nat
  | [] => bi
  | x :: xs => if best < x then argmaxFrom x i (i + 1) xs else argmaxFrom best bi (i + 1) xs

def argmax : List Rat → Nat
  | [] => 0
  | x :: xs => argmaxFrom x 0 1 xs

/-- the `logits` argument: `rows` has `ndim = labels.ndim + 1` (leading dims flattened, last axis =
classes), `flat` has `ndim = labels.ndim` -/
inductive Logits where
  | rows (rs : List (List Rat))
  | flat (xs : List Rat)
  deriving Repr, DecidableEq, Inhabited

inductive Err where
  | typeError        -- missing keyword argument
  | valueError       -- ndim mismatch
  | outsideModel     -- shapes the model does not cover (different leading sizes, empty class axis)
  deriving Repr, DecidableEq, Inhabited

def boolRat (b : Bool) : Rat := if b then 1 else 0

/-- element-wise `pred == label` as 0/1 values; `none` when the leading sizes differ -/
def indicators : List Int → List Int → Option (List Rat)
  | [], [] => some []
  | p :: ps, l :: ls => (indicators ps ls).map (fun r => boolRat (decide (p = l)) :: r)
  | _, _ => none

/-- the boolean array handed to `Average.update` by `Accuracy.update` -/
def accuracyValues (threshold : Option Rat) (logits : Logits) (labels : List Int) : Except Err (List Rat) :=
  match threshold, logits with
  | some t, .flat xs =>
      match indicators (xs.map (fun x => if t ≤ x then 1 else 0)) (labels.map (fun l => if 0 < l then 1 else 0)) with
      | some v => .ok v
      | none => .error .outsideModel
  | some _, .rows _ => .error .valueError
  | none, .rows rs =>
      if rs.any (fun r => r.isEmpty) then .error .outsideModel
      else match indicators (rs.map (fun r => (argmax r : Int))) labels with
        | some v => .ok v
        | none => .error .outsideModel
  | none, .flat _ => .error .valueError

/-! ### keyword arguments, Metric objects, MultiMetric -/

/-- one keyword argument of `update(**kwargs)` -/
inductive Arg where
  | num (b : Batch)                  -- scalar or float/int array
  | rows (rs : List (List Rat))      -- 2-d (…, classes) array
  | ints (ls : List Int)             -- int32 array
  deriving Repr, DecidableEq, Inhabited

abbrev Kwargs := List (String × Arg)

def Kwargs.get (kw : Kwargs) (name : String) : Option Arg :=
  (kw.find? (fun e => decide (e.1 = name))).map (·.2)

/-- an argument read as the `values` of Average / Welford -/
def Arg.asBatch : Arg → Batch
  | .num b => b
  | .rows rs => .array rs.flatten
  | .ints ls => .array (ls.map (fun (i : Int) => (i : Rat)))

inductive Metric where
  | average (argname : String) (s : AvgState)
  /-- `none` = NaN-poisoned `mean`/`m2` (an empty array was seen since the last reset) -/
  | welford (argname : String) (s : Option WState)
  | accuracy (threshold : Option Rat) (argname : String) (s : AvgState)
  deriving Repr, DecidableEq, Inhabited

inductive Value where
  | avg (v : Option Rat)
  | stats (s : WStats)
  | nanStats
  deriving Repr, DecidableEq, Inhabited

/-- `metric.update(**kw)` -/
def metricUpdate (m : Metric) (kw : Kwargs) : Except Err Metric :=
  match m with
  | .average an s =>
      match kw.get an with
      | none => .error .typeError
      | some a => .ok (.average an (avgUpdate s a.asBatch))
  | .welford an s =>
      match kw.get an with
      | none => .error .typeError
      | some a => .ok (.welford an (s.bind (fun w => welfordUpdate w a.asBatch)))
  | .accuracy th an s =>
      match kw.get "logits", kw.get "labels" with
      | some lg, some (.ints labels) =>
          let logits? : Option Logits := match lg with
            | .rows rs => some (.rows rs)
            | .num (.array xs) => some (.flat xs)
            | _ => none
          match logits? with
          | none => .error .outsideModel
          | some logits =>
            match accuracyValues th logits labels with
            | .error e => .error e
            | .ok vals =>
                -- `super().update(values=vals)`: Average.update looks for `self.argname` in {'values': …}
                if an = "values" then .ok (.accuracy th an (avgUpdate s (.array vals)))
                else .error .typeError
      | some _, some _ => .error .outsideModel
      | _, _ => .error .typeError

def metricCompute : Metric → Value
  | .average _ s => .avg (avgCompute s)
  | .welford _ (some s) => .stats (welfordCompute s)
  | .welford _ none => .nanStats
  | .accuracy _ _ s => .avg (avgCompute s)

def metricReset : Metric → Metric
  | .average an s => .average an (avgReset s)
  | .welford an _ => .welford an (some WState.init)
  | .accuracy th an s => .accuracy th an (avgReset s)

/-- `MultiMetric(**metrics)`: names in keyword order -/
abbrev Multi := List (String × Metric)

/-- `MultiMetric.update(**updates)`: every metric receives all keyword arguments, in order.
(On an exception the real object keeps the in-place updates of the earlier members; that partial
state is not modelled: the result is just the error.) -/
def multiUpdate : Multi → Kwargs → Except Err Multi
  | [], _ => .ok []
  | (n, m) :: rest, kw =>
      match metricUpdate m kw with
      | .error e => .error e
      | .ok m' =>
          match multiUpdate rest kw with
          | .error e => .error e
          | .ok rest' => .ok ((n, m') :: rest')

def multiCompute (ms : Multi) : List (String × Value) := ms.map (fun e => (e.1, metricCompute e.2))

def multiReset (ms : Multi) : Multi := ms.map (fun e => (e.1, metricReset e.2))

/-- a history of `update` calls on one metric; stops at the first exception -/
def metricRun : Metric → List Kwargs → Except Err Metric
  | m, [] => .ok m
  | m, kw :: rest =>
      match metricUpdate m kw with
      | .error e => .error e
      | .ok m' => metricRun m' rest

def multiRun : Multi → List Kwargs → Except Err Multi
  | ms, [] => .ok ms
  | ms, kw :: rest =>
      match multiUpdate ms kw with
      | .error e => .error e
      | .ok ms' => multiRun ms' rest

/-- Average over a list of batches -/
def avgRun (s : AvgState) (bs : List Batch) : AvgState := bs.foldl avgUpdate s

/-- Welford over a list of batches (`none` once poisoned) -/
def welfordRun : WState → List Batch → Option WState
  | s, [] => some s
  | s, b :: bs =>
      match welfordUpdate s b with
      | none => none
      | some s' => welfordRun s' bs

/-! ### histories with `reset` -/

/-- one call on a metric object: `update(values=b)` or `reset()` -/
inductive Call where
  | update (b : Batch)
  | reset
  deriving Repr, DecidableEq, Inhabited

/-- the batches passed to `update` after the last `reset` (all of them when there was none) -/
def sinceReset (calls : List Call) : List Batch :=
  calls.foldl (fun acc c => match c with | .update b => acc ++ [b] | .reset => []) []

/-- Average under a history of calls -/
def avgCalls (s : AvgState) (calls : List Call) : AvgState :=
  calls.foldl (fun s c => match c with | .update b => avgUpdate s b | .reset => avgReset s) s

/-- Welford under a history of calls (`none` = NaN-poisoned; `reset` un-poisons) -/
def welfordCalls (s : Option WState) (calls : List Call) : Option WState :=
  calls.foldl (fun s c => match c with
    | .update b => s.bind (fun w => welfordUpdate w b)
    | .reset => some WState.init) s

end Flax.Metrics
