/-
Character-level model of `natural_sort` (flax/training/checkpoints.py:347-372, `signed=True`, the only mode the
checkpoint code uses):

    SIGNED_FLOAT_RE = ([-+]?(?:\d+(?:\.\d*)?|\.\d+)(?:[eE][-+]?\d+)?)
    split_keys(s)   = [maybe_num(c) for c in SIGNED_FLOAT_RE.split(s)]     # text, number, text, …, text
    natural_sort    = sorted(file_list, key=split_keys)

* `matchNum` is the regex match at the head of a string.  The pattern needs no backtracking beyond what is written
  here: the sign is optional but a sign that is not followed by a mantissa cannot start a match at that position
  (a sign is neither a digit nor a dot); the exponent group is optional and is dropped as a whole when `e`, an
  optional sign and at least one digit do not follow; nothing after an optional group can fail.
* `tokens` is `re.split` with one capturing group: leftmost non-overlapping matches, the text between them (possibly
  empty) before, between and after.
* a number token is valued exactly as the decimal it denotes (`Dec`: sign, digits, power of ten).  Python converts it
  with `float()`, which is monotone; it is injective on the literals that occur as step names (ints below 2^53,
  `repr` of distinct doubles) — that part stays an assumption (A-FLOAT), as does `\d` = ASCII digit (ASCII names).
* `sorted` is modelled as a stable insertion sort by the key order (Python list comparison: first differing element
  decides, a proper prefix is smaller).

Core Lean only (linked into the driver).
-/

namespace Flax.NatSort

def isDigit (c : Char) : Bool := decide ('0' ≤ c) && decide (c ≤ '9')
def isSign (c : Char) : Bool := decide (c = '+') || decide (c = '-')
def isExp (c : Char) : Bool := decide (c = 'e') || decide (c = 'E')

/-- leading digits and the rest (`\d*`) -/
def spanDigits : List Char → List Char × List Char
  | [] => ([], [])
  | c :: r => if isDigit c then ((spanDigits r).1.cons c, (spanDigits r).2) else ([], c :: r)

/-- `[-+]?` -/
def optSign : List Char → List Char × List Char
  | [] => ([], [])
  | c :: r => if isSign c then ([c], r) else ([], c :: r)

/-- `(?:[eE][-+]?\d+)?` appended to the mantissa `m` already matched -/
def withExp (m : List Char) : List Char → List Char × List Char
  | [] => (m, [])
  | c :: r =>
    if isExp c then
      let sg := optSign r
      let ds := spanDigits sg.2
      if ds.1.isEmpty then (m, c :: r) else (m ++ c :: (sg.1 ++ ds.1), ds.2)
    else (m, c :: r)

/-- `(?:\.\d*)?` -/
def optFrac : List Char → List Char × List Char
  | [] => ([], [])
  | c :: r => if c = '.' then ('.' :: (spanDigits r).1, (spanDigits r).2) else ([], c :: r)

/-- `(?:\d+(?:\.\d*)?|\.\d+)(?:[eE][-+]?\d+)?` after the optional sign `sg` -/
def matchMantissa (sg : List Char) : List Char → Option (List Char × List Char)
  | [] => none
  | c :: r =>
    if isDigit c then
      let ds := spanDigits (c :: r)
      let fr := optFrac ds.2
      some (withExp (sg ++ ds.1 ++ fr.1) fr.2)
    else if c = '.' then
      let fd := spanDigits r
      if fd.1.isEmpty then none else some (withExp (sg ++ '.' :: fd.1) fd.2)
    else none

/-- the regex matched at the head of the string: `(matched text, rest)` -/
def matchNum (cs : List Char) : Option (List Char × List Char) :=
  matchMantissa (optSign cs).1 (optSign cs).2

inductive Tok where
  | text (s : List Char)
  | num (s : List Char)
  deriving DecidableEq, Repr, Inhabited

/-- the scanner: `skip` characters still belong to the number emitted last, `acc` is the text since then -/
def scan : List Char → Nat → List Char → List Tok
  | [], _, acc => [.text acc]
  | c :: r, skip + 1, acc => scan r skip acc
  | c :: r, 0, acc =>
    match matchNum (c :: r) with
    | some (m, _) => .text acc :: .num m :: scan r (m.length - 1) []
    | none => scan r 0 (acc ++ [c])

/-- `SIGNED_FLOAT_RE.split(s)` -/
def tokens (s : List Char) : List Tok := scan s 0 []

/-! ### values of number tokens -/

/-- `± m · 10^e` -/
structure Dec where
  neg : Bool
  m : Nat
  e : Int
  deriving DecidableEq, Repr, Inhabited

def digitVal (c : Char) : Nat := c.toNat - 48

def parseNat (ds : List Char) : Nat := ds.foldl (fun a c => a * 10 + digitVal c) 0

/-- decimal denoted by a matched number token -/
def decOf (s : List Char) : Dec :=
  let sg := optSign s
  let ip := spanDigits sg.2
  let fr := optFrac ip.2
  let fd := fr.1.drop 1
  let ex : Int :=
    match fr.2 with
    | _ :: r =>
      let sg2 := optSign r
      let v : Int := parseNat (spanDigits sg2.2).1
      if sg2.1 = ['-'] then -v else v
    | [] => 0
  { neg := decide (sg.1 = ['-']), m := parseNat (ip.1 ++ fd), e := ex - fd.length }

def Dec.signed (d : Dec) : Int := if d.neg then -(d.m : Int) else d.m

/-- the value times `10^(-emin)`, an integer when `emin ≤ d.e`: the common-denominator form used to compare -/
def Dec.scaled (d : Dec) (emin : Int) : Int :=
  let v : Int := ((d.m * 10 ^ (d.e - emin).toNat : Nat) : Int)
  if d.neg then -v else v

/-- number of decimal digits (0 for 0) -/
def numDigits (n : Nat) : Nat := if n = 0 then 0 else (Nat.toDigits 10 n).length

/-- position of the leading digit: a non-zero `m · 10^e` lies in `[10^(rank-1), 10^rank)` -/
def Dec.rank (d : Dec) : Int := (numDigits d.m : Int) + d.e

/-- exact comparison of the denoted values `± m · 10^e`.  Equal exponents (integers in particular): compare the signed
mantissas.  Exponents at most 4096 apart (every pair of printed doubles): bring both to the smaller exponent and
compare the integers.  Beyond that (only adversarial strings): sign, then position of the leading digit, so that no
astronomically large power is ever built. -/
def decCmp (a b : Dec) : Ordering :=
  if a.e = b.e then compare a.signed b.signed
  else if (a.e - b.e).natAbs ≤ 4096 then
    let emin := if a.e ≤ b.e then a.e else b.e
    compare (a.scaled emin) (b.scaled emin)
  else
    let sa : Int := if a.m = 0 then 0 else if a.neg then -1 else 1
    let sb : Int := if b.m = 0 then 0 else if b.neg then -1 else 1
    if sa ≠ sb then compare sa sb
    else if sa = 0 then .eq
    else if a.rank ≠ b.rank then
      (if sa = 1 then compare a.rank b.rank else compare b.rank a.rank)
    else
      let emin := if a.e ≤ b.e then a.e else b.e
      compare (a.scaled emin) (b.scaled emin)

/-! ### keys and their order -/

inductive KElem where
  | str (s : List Char)
  | num (d : Dec)
  deriving DecidableEq, Repr, Inhabited

def keyOfTok : Tok → KElem
  | .text s => .str s
  | .num s => .num (decOf s)

/-- `split_keys(s)` -/
def natKey (s : List Char) : List KElem := (tokens s).map keyOfTok

/-- Python `str` comparison: code points, lexicographic -/
def strCmp : List Char → List Char → Ordering
  | [], [] => .eq
  | [], _ :: _ => .lt
  | _ :: _, [] => .gt
  | a :: x, b :: y => if a.toNat < b.toNat then .lt else if b.toNat < a.toNat then .gt else strCmp x y

/-- elements at equal positions of two keys have the same kind (text at even, number at odd positions); the mixed
cases (a `TypeError` in Python) cannot arise and are ordered arbitrarily -/
def elemCmp : KElem → KElem → Ordering
  | .str a, .str b => strCmp a b
  | .num a, .num b => decCmp a b
  | .str _, .num _ => .lt
  | .num _, .str _ => .gt

/-- Python list comparison -/
def keyCmp : List KElem → List KElem → Ordering
  | [], [] => .eq
  | [], _ :: _ => .lt
  | _ :: _, [] => .gt
  | a :: x, b :: y =>
    match elemCmp a b with
    | .eq => keyCmp x y
    | o => o

def natLe (a b : List Char) : Bool := keyCmp (natKey a) (natKey b) != .gt

/-- insertion keeping equal keys in arrival order (stable) -/
def insertBy (le : α → α → Bool) (a : α) : List α → List α
  | [] => [a]
  | b :: r => if le b a then b :: insertBy le a r else a :: b :: r

/-- stable insertion sort: the first element of the input ends up before later equal ones -/
def sortBy (le : α → α → Bool) (l : List α) : List α :=
  l.foldl (fun acc a => insertBy le a acc) []

/-- `natural_sort(file_list)` -/
def natSort (l : List (List Char)) : List (List Char) := sortBy natLe l

/-! ### `_checkpoint_path_step` -/

/-- the last number token, if any -/
def lastNum : List Tok → Option (List Char)
  | [] => none
  | .num s :: r => (lastNum r).orElse (fun _ => some s)
  | .text _ :: r => lastNum r

/-- `_checkpoint_path_step(path)`: the split pieces are walked from the end and the first one that is a number is
converted — the LAST number of the whole path -/
def pathStepTok (path : List Char) : Option (List Char) := lastNum (tokens path)

def pathStep (path : List Char) : Option Dec := (pathStepTok path).map decOf

/-! ### printed step names -/

def digitChar : Nat → Char
  | 0 => '0' | 1 => '1' | 2 => '2' | 3 => '3' | 4 => '4'
  | 5 => '5' | 6 => '6' | 7 => '7' | 8 => '8' | _ => '9'

/-- decimal digits of a natural number, most significant first, no leading zero (`str(n)`) -/
def showNat (n : Nat) : List Char :=
  if h : n < 10 then [digitChar n] else showNat (n / 10) ++ [digitChar (n % 10)]
termination_by n
decreasing_by omega

/-- `str(n)` for a Python int -/
def showInt : Int → List Char
  | .ofNat n => showNat n
  | .negSucc n => '-' :: showNat (n + 1)

/-- `f'{prefix}{step}'` -/
def stepName (pfx : List Char) (n : Int) : List Char := pfx ++ showInt n

end Flax.NatSort
