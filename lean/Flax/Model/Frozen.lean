/-
Model of `flax/core/frozen_dict.py` (FrozenDict, freeze, unfreeze, copy, pop, pytree registration)
on an explicit heap, because the property (C15) is about aliasing.

* `Addr = Nat`, `Heap = List Obj`, allocation = append, so *fresh* means `≥ old length`.
* Objects: a Python `dict` (insertion-ordered association list) or a `FrozenDict` (`frozen inner`,
  `inner` = address of its `_dict`).  Leaves are opaque (ints, None, tuples, lists, arrays: the code
  never looks inside anything that is not a `dict`/`FrozenDict`).
* `Obj.dict` carries a **ghost** flag `own` ("allocated as part of some FrozenDict's `_dict`").  No
  function of the model ever branches on it; it only records which allocation site created the
  object, so that the separation invariant of `Props/C15.lean` is a local, decidable predicate.  The
  theorems `frozen_separation`/`frozen_never_changes` are stated without it (reachability / abstract
  values).
* The *world* is the list of values the user holds (`roots`): source dicts, every returned value.
  User mutations are ordinary dict writes through a held handle (`setKey`, `delKey`), nested dicts
  are reached with `getitem` on a dict handle (which returns the stored object itself, as Python does).

Temporaries that the Python code creates and drops before returning (`dict(*args)` in `__init__`,
the intermediate FrozenDicts' wrappers when they are immediately unwrapped by `_prepare_freeze`) are
allocated too whenever they arise from a call that the model transcribes (`wrapVal`), and are not
allocated when they are plain shallow copies that nothing can reference (`dict(xs)`).
`copy(dict, add)` / `pop(dict, k)` build the final entry list before allocating the result instead of
allocating and then updating it; the result is the same object graph.

Core Lean only (linked into the driver).
-/

namespace Flax.Frozen

abbrev Addr := Nat
abbrev Key := String

/-- opaque leaves; `atom` = hashable (int, None, str, tuple of atoms), `opq` = unhashable (list, array) -/
inductive Leaf where
  | atom (n : Int)
  | opq (n : Int)
  deriving DecidableEq, Repr, Inhabited

inductive Val where
  | leaf (l : Leaf)
  | ref (a : Addr)
  deriving DecidableEq, Repr, Inhabited

inductive Obj where
  | dict (own : Bool) (kvs : List (Key × Val))
  | frozen (inner : Addr)
  deriving DecidableEq, Repr, Inhabited

abbrev Heap := List Obj

inductive Err where
  | typeError      -- TypeError / AttributeError of an operation applied to the wrong kind of value
  | keyError
  | immutable      -- any attempt to write through a FrozenDict (`__setitem__` raises ValueError, `del` fails)
  | recursion      -- fuel exhausted (cyclic user structure: Python raises RecursionError)
  | dangling       -- unreachable for well-formed worlds
  | badHandle      -- handle index out of range (harness bug, never a flax behaviour)
  deriving DecidableEq, Repr, Inhabited

/-! ### association lists (Python dict with insertion order) -/

def kvGet {α : Type} : List (Key × α) → Key → Option α
  | [], _ => none
  | (k', v) :: r, k => if k' = k then some v else kvGet r k

def kvSet {α : Type} : List (Key × α) → Key → α → List (Key × α)
  | [], k, v => [(k, v)]
  | (k', v') :: r, k, v => if k' = k then (k, v) :: r else (k', v') :: kvSet r k v

def kvErase {α : Type} (kvs : List (Key × α)) (k : Key) : List (Key × α) :=
  kvs.filter (fun p => !decide (p.1 = k))

/-- `d.update(other)` / `{**d, **other}` -/
def kvUpdate {α : Type} (kvs other : List (Key × α)) : List (Key × α) :=
  other.foldl (fun acc p => kvSet acc p.1 p.2) kvs

/-- insertion into a key-sorted entry list (before the first entry with a key that is not smaller) -/
def insertKv {α : Type} (p : Key × α) : List (Key × α) → List (Key × α)
  | [] => [p]
  | q :: r => if p.1 ≤ q.1 then p :: q :: r else q :: insertKv p r

/-- `sorted(keys)`; jax rebuilds dicts in sorted key order (insertion sort: structural, so closed
examples evaluate in the kernel) -/
def sortKvs {α : Type} (kvs : List (Key × α)) : List (Key × α) :=
  kvs.foldr insertKv []

/-! ### deep walks -/

/-- thread the heap through a function applied to every value of an entry list, in order -/
def mapKvs (f : Heap → Val → Except Err (Heap × Val)) :
    Heap → List (Key × Val) → Except Err (Heap × List (Key × Val))
  | h, [] => .ok (h, [])
  | h, (k, v) :: rest =>
    match f h v with
    | .error e => .error e
    | .ok (h1, v') =>
      match mapKvs f h1 rest with
      | .error e => .error e
      | .ok (h2, rest') => .ok (h2, (k, v') :: rest')

inductive Mode where
  | prepare    -- `_prepare_freeze`: copy dicts, share the `_dict` of FrozenDicts
  | unfreeze   -- module-level `unfreeze`: dict → rebuilt dict (same key order), FrozenDict → tree_map copy of `_dict`
  | tree       -- `jax.tree_util.tree_map(lambda x: x, ·)`: dicts and FrozenDicts rebuilt with sorted keys
  deriving DecidableEq, Repr

/-- The three recursive walks of the file.  `own` is the ghost flag given to the dicts allocated by
this walk (`true` exactly when they become (part of) a FrozenDict's `_dict`). -/
def deep (m : Mode) (own : Bool) : Nat → Heap → Val → Except Err (Heap × Val)
  | _, h, .leaf l => .ok (h, .leaf l)
  | 0, _, .ref _ => .error .recursion
  | n + 1, h, .ref a =>
    match h[a]? with
    | none => .error .dangling
    | some (.dict _ kvs) =>
      match mapKvs (deep m own n) h (if m = .tree then sortKvs kvs else kvs) with
      | .error e => .error e
      | .ok (h1, kvs') => .ok (h1 ++ [.dict own kvs'], .ref h1.length)
    | some (.frozen i) =>
      match m with
      | .prepare => .ok (h, .ref i)
      | .unfreeze => deep .tree own n h (.ref i)
      | .tree =>
        -- tree_flatten_with_keys hands out the raw `_dict` values; tree_unflatten wraps the rebuilt
        -- children with `__unsafe_skip_copy__=True`
        match deep .tree true n h (.ref i) with
        | .error e => .error e
        | .ok (h1, .ref j) => .ok (h1 ++ [.frozen j], .ref h1.length)
        | .ok (_, .leaf _) => .error .dangling

/-- fuel that suffices for every acyclic structure inside `h` -/
def fuelOf (h : Heap) : Nat := h.length + 1

/-- `FrozenDict(xs)` where `xs` is a dict with the given entries:
`self._dict = _prepare_freeze(xs)` (a new dict), then the wrapper object -/
def mkFrozen (h : Heap) (kvs : List (Key × Val)) : Except Err (Heap × Val) :=
  match mapKvs (deep .prepare true (fuelOf h)) h kvs with
  | .error e => .error e
  | .ok (h1, kvs') => .ok (h1 ++ [.dict true kvs', .frozen h1.length], .ref (h1.length + 1))

/-- the tail of `FrozenDict.__getitem__`: `if isinstance(v, dict): return FrozenDict(v)`; `return v` -/
def wrapVal (h : Heap) (v : Val) : Except Err (Heap × Val) :=
  match v with
  | .leaf l => .ok (h, .leaf l)
  | .ref a =>
    match h[a]? with
    | none => .error .dangling
    | some (.dict _ kvs) => mkFrozen h kvs
    | some (.frozen _) => .ok (h, .ref a)

/-- entries of `fd._dict` -/
def innerKvs (h : Heap) (i : Addr) : Except Err (List (Key × Val)) :=
  match h[i]? with
  | some (.dict _ kvs) => .ok kvs
  | _ => .error .dangling

/-- `dict(x)` / `{**x}` / what `dict.update(x)` reads: for a dict its entries, for a FrozenDict
`[(k, x[k]) for k in x]` (every nested dict re-wrapped, hence copied) -/
def dictOf (h : Heap) (x : Val) : Except Err (Heap × List (Key × Val)) :=
  match x with
  | .leaf _ => .error .typeError
  | .ref a =>
    match h[a]? with
    | none => .error .dangling
    | some (.dict _ kvs) => .ok (h, kvs)
    | some (.frozen i) =>
      match innerKvs h i with
      | .error e => .error e
      | .ok kvs => mapKvs wrapVal h kvs

/-! ### the world and its operations -/

structure World where
  heap : Heap
  roots : List Val
  deriving Repr, Inhabited, DecidableEq

def World.init : World := ⟨[], []⟩

inductive Op where
  -- plain Python on the user's side
  | newDict                                  -- `{}`
  | newLeaf (l : Leaf)
  | setKey (d : Nat) (k : Key) (src : Nat)   -- `roots[d][k] = roots[src]`
  | delKey (d : Nat) (k : Key)               -- `del roots[d][k]`
  -- the API
  | getitem (x : Nat) (k : Key)              -- `roots[x][k]`
  | get (x : Nat) (k : Key) (dflt : Leaf)    -- `roots[x].get(k, dflt)` (`Mapping.get`: `self[k]`, `dflt` on KeyError)
  | items (x : Nat)                          -- `[v for _, v in roots[x].items()]`
  | freeze (x : Nat)                         -- `freeze(x)` = `FrozenDict(x)`
  | unfreeze (x : Nat)                       -- `unfreeze(x)` (= `x.unfreeze()`)
  | copy (x : Nat) (add : Option Nat)        -- `copy(x, add)` (= `x.copy(add)` on a FrozenDict)
  | copyView (x : Nat) (add : Nat)           -- `copy(x, M(roots[add]))`, `M` a Mapping that is neither dict nor FrozenDict
                                             --  (MappingProxyType / ChainMap / UserDict view of a held dict or FrozenDict)
  | pop (x : Nat) (k : Key)                  -- `pop(x, k)` (= `x.pop(k)`); returns (rest, value)
  | pickle (x : Nat)                         -- `__reduce__`: `FrozenDict(x.unfreeze())`
  | treeMap (x : Nat)                        -- `jax.tree_util.tree_map(lambda y: y, x)` (flatten ∘ unflatten)
  | unflatten (ks : List (Key × Nat))        -- `tree_unflatten(<FrozenDict treedef with these keys>, [roots[i], …])`
                                             --  (also what `tree_map(f, fd)` does with the values `f` returns)
  deriving DecidableEq, Repr

/-- the held values named by an `unflatten` op -/
def resolveKs (rs : List Val) : List (Key × Nat) → Option (List (Key × Val))
  | [] => some []
  | (k, i) :: r =>
    match rs[i]?, resolveKs rs r with
    | some v, some kvs => some ((k, v) :: kvs)
    | _, _ => none

/-- children that `tree_unflatten` may be given within the modelled domain: leaves and FrozenDict
objects.  (A *mutable dict* passed as a child would be stored by reference — `__unsafe_skip_copy__` —
which is the documented contract of the pytree protocol and outside the no-alias claim, DESIGN §7.) -/
def childOk (h : Heap) (v : Val) : Bool :=
  match v with
  | .leaf _ => true
  | .ref a =>
    match h[a]? with
    | some (.frozen _) => true
    | _ => false

/-- is this op a mutation performed by the user (everything else is an API call) -/
def Op.isUserWrite : Op → Bool
  | .setKey .. => true
  | .delKey .. => true
  | _ => false

def hasKey {α : Type} (kvs : List (Key × α)) (k : Key) : Bool := (kvGet kvs k).isSome

/-- one operation; on success the new world (returned values appended to `roots`) -/
def step (w : World) (op : Op) : Except Err World :=
  let h := w.heap
  let rs := w.roots
  match op with
  | .newDict => .ok ⟨h ++ [.dict false []], rs ++ [.ref h.length]⟩
  | .newLeaf l => .ok ⟨h, rs ++ [.leaf l]⟩
  | .setKey d k src =>
    match rs[d]?, rs[src]? with
    | some (.ref a), some v =>
      match h[a]? with
      | some (.dict o kvs) => .ok ⟨h.set a (.dict o (kvSet kvs k v)), rs⟩
      | some (.frozen _) => .error .immutable
      | none => .error .dangling
    | some (.leaf _), some _ => .error .typeError
    | _, _ => .error .badHandle
  | .delKey d k =>
    match rs[d]? with
    | some (.ref a) =>
      match h[a]? with
      | some (.dict o kvs) =>
        if hasKey kvs k then .ok ⟨h.set a (.dict o (kvErase kvs k)), rs⟩ else .error .keyError
      | some (.frozen _) => .error .immutable
      | none => .error .dangling
    | some (.leaf _) => .error .typeError
    | none => .error .badHandle
  | .getitem x k =>
    match rs[x]? with
    | some (.ref a) =>
      match h[a]? with
      | some (.dict _ kvs) =>
        match kvGet kvs k with
        | some v => .ok ⟨h, rs ++ [v]⟩
        | none => .error .keyError
      | some (.frozen i) =>
        match innerKvs h i with
        | .error e => .error e
        | .ok kvs =>
          match kvGet kvs k with
          | none => .error .keyError
          | some v =>
            match wrapVal h v with
            | .error e => .error e
            | .ok (h1, v') => .ok ⟨h1, rs ++ [v']⟩
      | none => .error .dangling
    | some (.leaf _) => .error .typeError
    | none => .error .badHandle
  | .get x k dflt =>
    -- inherited `Mapping.get`: `try: return self[key]` / `except KeyError: return default` — so a nested dict
    -- comes out re-wrapped exactly as with `__getitem__`; for a plain dict `dict.get`
    match rs[x]? with
    | some (.ref a) =>
      match h[a]? with
      | some (.dict _ kvs) =>
        match kvGet kvs k with
        | some v => .ok ⟨h, rs ++ [v]⟩
        | none => .ok ⟨h, rs ++ [.leaf dflt]⟩
      | some (.frozen i) =>
        match innerKvs h i with
        | .error e => .error e
        | .ok kvs =>
          match kvGet kvs k with
          | none => .ok ⟨h, rs ++ [.leaf dflt]⟩
          | some v =>
            match wrapVal h v with
            | .error e => .error e
            | .ok (h1, v') => .ok ⟨h1, rs ++ [v']⟩
      | none => .error .dangling
    | some (.leaf _) => .error .typeError
    | none => .error .badHandle
  | .items x =>
    match rs[x]? with
    | some (.ref a) =>
      match h[a]? with
      | some (.dict _ kvs) => .ok ⟨h, rs ++ kvs.map (·.2)⟩
      | some (.frozen _) =>
        match dictOf h (.ref a) with
        | .error e => .error e
        | .ok (h1, kvs) => .ok ⟨h1, rs ++ kvs.map (·.2)⟩
      | none => .error .dangling
    | some (.leaf _) => .error .typeError
    | none => .error .badHandle
  | .freeze x =>
    match rs[x]? with
    | some v =>
      match dictOf h v with
      | .error e => .error e
      | .ok (h1, xs) =>
        match mkFrozen h1 xs with
        | .error e => .error e
        | .ok (h2, r) => .ok ⟨h2, rs ++ [r]⟩
    | none => .error .badHandle
  | .unfreeze x =>
    match rs[x]? with
    | some v =>
      match deep .unfreeze false (fuelOf h) h v with
      | .error e => .error e
      | .ok (h1, r) => .ok ⟨h1, rs ++ [r]⟩
    | none => .error .badHandle
  | .copy x add =>
    match rs[x]? with
    | some (.ref a) =>
      match h[a]? with
      | some (.frozen _) =>
        -- `type(self)({**self, **unfreeze(add_or_replace)})`
        match dictOf h (.ref a) with
        | .error e => .error e
        | .ok (h1, xs) =>
          match add with
          | none =>
            match mkFrozen h1 xs with
            | .error e => .error e
            | .ok (h2, r) => .ok ⟨h2, rs ++ [r]⟩
          | some ai =>
            match rs[ai]? with
            | none => .error .badHandle
            | some av =>
              match deep .unfreeze false (fuelOf h1) h1 av with
              | .error e => .error e
              | .ok (h2, u) =>
                match dictOf h2 u with        -- `**u` (a leaf is not a mapping: TypeError)
                | .error e => .error e
                | .ok (h3, ys) =>
                  match mkFrozen h3 (kvUpdate xs ys) with
                  | .error e => .error e
                  | .ok (h4, r) => .ok ⟨h4, rs ++ [r]⟩
      | some (.dict _ kvs) =>
        -- `new_dict = tree_map(lambda x: x, x); new_dict.update(add_or_replace); return new_dict`
        match mapKvs (deep .tree false (fuelOf h)) h (sortKvs kvs) with
        | .error e => .error e
        | .ok (h1, kvs') =>
          match add with
          | none => .ok ⟨h1 ++ [.dict false kvs'], rs ++ [.ref h1.length]⟩
          | some ai =>
            match rs[ai]? with
            | none => .error .badHandle
            | some av =>
              match dictOf h1 av with
              | .error e => .error e
              | .ok (h2, ys) => .ok ⟨h2 ++ [.dict false (kvUpdate kvs' ys)], rs ++ [.ref h2.length]⟩
      | none => .error .dangling
    | some (.leaf _) => .error .typeError
    | none => .error .badHandle
  | .copyView x ai =>
    match rs[x]?, rs[ai]? with
    | some (.ref a), some av =>
      match h[a]? with
      | some (.frozen _) =>
        -- `unfreeze(view)` returns the view itself (it is neither a FrozenDict nor a dict), so `{**self, **view}`
        -- holds the view's values as they are (nested dicts by reference); the *copying constructor*
        -- `type(self)(...)` is what deep-copies them
        match dictOf h (.ref a) with
        | .error e => .error e
        | .ok (h1, xs) =>
          match dictOf h1 av with            -- `**view`: keys() + view[k]
          | .error e => .error e
          | .ok (h2, ys) =>
            match mkFrozen h2 (kvUpdate xs ys) with
            | .error e => .error e
            | .ok (h3, r) => .ok ⟨h3, rs ++ [r]⟩
      | some (.dict _ kvs) =>
        -- `new_dict = tree_map(lambda x: x, x); new_dict.update(view)`: exactly as with a dict argument
        match mapKvs (deep .tree false (fuelOf h)) h (sortKvs kvs) with
        | .error e => .error e
        | .ok (h1, kvs') =>
          match dictOf h1 av with
          | .error e => .error e
          | .ok (h2, ys) => .ok ⟨h2 ++ [.dict false (kvUpdate kvs' ys)], rs ++ [.ref h2.length]⟩
      | none => .error .dangling
    | some (.leaf _), some _ => .error .typeError
    | _, _ => .error .badHandle
  | .pop x k =>
    match rs[x]? with
    | some (.ref a) =>
      match h[a]? with
      | some (.frozen i) =>
        -- `value = self[key]; new_dict = dict(self._dict); new_dict.pop(key); type(self)(new_dict)`
        match innerKvs h i with
        | .error e => .error e
        | .ok kvs =>
          match kvGet kvs k with
          | none => .error .keyError
          | some v =>
            match wrapVal h v with
            | .error e => .error e
            | .ok (h1, value) =>
              match mkFrozen h1 (kvErase kvs k) with
              | .error e => .error e
              | .ok (h2, r) => .ok ⟨h2, rs ++ [r, value]⟩
      | some (.dict _ kvs) =>
        -- `new_dict = tree_map(lambda x: x, x); value = new_dict.pop(key)`
        match mapKvs (deep .tree false (fuelOf h)) h (sortKvs kvs) with
        | .error e => .error e
        | .ok (h1, kvs') =>
          match kvGet kvs' k with
          | none => .error .keyError
          | some value => .ok ⟨h1 ++ [.dict false (kvErase kvs' k)], rs ++ [.ref h1.length, value]⟩
      | none => .error .dangling
    | some (.leaf _) => .error .typeError
    | none => .error .badHandle
  | .pickle x =>
    match rs[x]? with
    | some (.ref a) =>
      match h[a]? with
      | some (.frozen _) =>
        match deep .unfreeze false (fuelOf h) h (.ref a) with
        | .error e => .error e
        | .ok (h1, u) =>
          match dictOf h1 u with
          | .error e => .error e
          | .ok (h2, xs) =>
            match mkFrozen h2 xs with
            | .error e => .error e
            | .ok (h3, r) => .ok ⟨h3, rs ++ [r]⟩
      | some (.dict ..) => .error .typeError
      | none => .error .dangling
    | some (.leaf _) => .error .typeError
    | none => .error .badHandle
  | .unflatten ks =>
    -- `cls({k: v for k, v in zip(keys, values)}, __unsafe_skip_copy__=True)`: the children are stored as they
    -- are, so a FrozenDict child stays a FrozenDict *object* inside `_dict`
    match resolveKs rs ks with
    | none => .error .badHandle
    | some kvs =>
      if kvs.all (fun p => childOk h p.2) && decide ((kvs.map (·.1)).Nodup) then
        .ok ⟨h ++ [.dict true kvs, .frozen h.length], rs ++ [.ref (h.length + 1)]⟩
      else .error .badHandle
  | .treeMap x =>
    match rs[x]? with
    | some v =>
      match deep .tree false (fuelOf h) h v with
      | .error e => .error e
      | .ok (h1, r) => .ok ⟨h1, rs ++ [r]⟩
    | none => .error .badHandle

/-- a history: an operation that raises leaves the world as it was (the exception is the observation) -/
def run : World → List Op → World
  | w, [] => w
  | w, op :: ops =>
    match step w op with
    | .ok w' => run w' ops
    | .error _ => run w ops

/-! ### abstract values -/

inductive Tree where
  | leaf (l : Leaf)
  | node (fz : Bool) (kvs : List (Key × Tree))
  deriving Repr, Inhabited

def absKvs (f : Val → Option Tree) : List (Key × Val) → Option (List (Key × Tree))
  | [] => some []
  | (k, v) :: r =>
    match f v, absKvs f r with
    | some t, some ts => some ((k, t) :: ts)
    | _, _ => none

/-- the value denoted by `v` in heap `h` (`none`: out of fuel or dangling).  Below a FrozenDict every
node is tagged frozen (the API presents nested dicts as FrozenDicts). -/
def absVal (fz : Bool) : Nat → Heap → Val → Option Tree
  | _, _, .leaf l => some (.leaf l)
  | 0, _, .ref _ => none
  | n + 1, h, .ref a =>
    match h[a]? with
    | none => none
    | some (.dict _ kvs) => (absKvs (absVal fz n h) kvs).map (Tree.node fz)
    | some (.frozen i) =>
      match h[i]? with
      | some (.dict _ kvs) => (absKvs (absVal true n h) kvs).map (Tree.node true)
      | _ => none

/-- addresses of the *mutable* dicts reachable from `v` the way a user can reach them: through dict
values, never into a FrozenDict -/
def userDicts : Nat → Heap → Val → List Addr
  | _, _, .leaf _ => []
  | 0, _, .ref _ => []
  | n + 1, h, .ref a =>
    match h[a]? with
    | some (.dict _ kvs) => a :: (kvs.map (fun p => userDicts n h p.2)).flatten
    | _ => []

/-- addresses of the dicts that make up the `_dict` of the FrozenDicts reachable from `v` -/
def frozenDicts : Nat → Heap → Val → List Addr
  | _, _, .leaf _ => []
  | 0, _, .ref _ => []
  | n + 1, h, .ref a =>
    match h[a]? with
    | some (.dict _ kvs) => (kvs.map (fun p => frozenDicts n h p.2)).flatten
    | some (.frozen i) => userDicts n h (.ref i)
    | none => []

/-! ### equality, hash, pytree flatten on abstract values -/

def lookupT : Key → List (Key × Tree) → Option Tree
  | _, [] => none
  | k, (k', t) :: r => if k' = k then some t else lookupT k r

mutual
  /-- `Mapping.__eq__` / `dict.__eq__`: same number of keys, every key of the left present on the
  right with an equal value (the dict/FrozenDict distinction is ignored, as in Python) -/
  def treeEq : Tree → Tree → Bool
    | .leaf a, .leaf b => decide (a = b)
    | .node _ k1, .node _ k2 => decide (k1.length = k2.length) && kvsSub k1 k2
    | _, _ => false
  def kvsSub : List (Key × Tree) → List (Key × Tree) → Bool
    | [], _ => true
    | (k, t) :: r, k2 =>
      (match lookupT k k2 with
       | some t' => treeEq t t'
       | none => false) && kvsSub r k2
end

/-- Python's hashes are parameters: `hk` of keys, `hl` of leaves (`none` = unhashable, TypeError),
`pair a b` = `hash((k, v))` from the two component hashes. -/
structure HashFns where
  hk : Key → Nat
  hl : Leaf → Option Nat
  pair : Nat → Nat → Nat

mutual
  /-- `FrozenDict.__hash__`: `h = 0; for k, v in items(): h ^= hash((k, v))` -/
  def treeHash (H : HashFns) : Tree → Option Nat
    | .leaf l => H.hl l
    | .node _ kvs => kvsHash H kvs
  def kvsHash (H : HashFns) : List (Key × Tree) → Option Nat
    | [] => some 0
    | (k, t) :: r =>
      match treeHash H t, kvsHash H r with
      | some a, some b => some (b ^^^ H.pair (H.hk k) a)
      | _, _ => none
end

/-- the static half of a flattened pytree -/
inductive TDef where
  | leaf
  | node (fz : Bool) (kvs : List (Key × TDef))
  deriving Repr, Inhabited

def sortT {α : Type} (kvs : List (Key × α)) : List (Key × α) := sortKvs kvs

mutual
  /-- `tree_flatten`: children in sorted key order (FrozenDict.tree_flatten_with_keys sorts; jax sorts dict keys) -/
  def flatten : Tree → List Leaf × TDef
    | .leaf l => ([l], .leaf)
    | .node fz kvs =>
      let r := flattenKvs kvs
      (r.1, .node fz r.2)
  /-- flattens the children *in the order given*; `flatten` is applied to `sortTree`-ed input by `flattenS` -/
  def flattenKvs : List (Key × Tree) → List Leaf × List (Key × TDef)
    | [] => ([], [])
    | (k, t) :: r =>
      let a := flatten t
      let b := flattenKvs r
      (a.1 ++ b.1, (k, a.2) :: b.2)
end

mutual
  /-- keys sorted at every level -/
  def sortTree : Tree → Tree
    | .leaf l => .leaf l
    | .node fz kvs => .node fz (sortT (sortTreeKvs kvs))
  def sortTreeKvs : List (Key × Tree) → List (Key × Tree)
    | [] => []
    | (k, t) :: r => (k, sortTree t) :: sortTreeKvs r
end

/-- `jax.tree_util.tree_flatten(fd)` -/
def flattenS (t : Tree) : List Leaf × TDef := flatten (sortTree t)

mutual
  /-- `tree_unflatten`: consumes leaves left to right; `none` when there are too few -/
  def unflatten : TDef → List Leaf → Option (Tree × List Leaf)
    | .leaf, [] => none
    | .leaf, l :: ls => some (.leaf l, ls)
    | .node fz ds, ls =>
      match unflattenKvs ds ls with
      | some (kvs, rest) => some (.node fz kvs, rest)
      | none => none
  def unflattenKvs : List (Key × TDef) → List Leaf → Option (List (Key × Tree) × List Leaf)
    | [], ls => some ([], ls)
    | (k, d) :: r, ls =>
      match unflatten d ls with
      | none => none
      | some (t, ls1) =>
        match unflattenKvs r ls1 with
        | none => none
        | some (ts, ls2) => some ((k, t) :: ts, ls2)
end

/-! ### the `_hash` cache

`FrozenDict._hash` is a per-object memo: `None` until `__hash__` is first called, then the computed
value for ever.  It is modelled as a side table from FrozenDict addresses to hashes next to the world
(the slot is not reachable through any API, so it cannot alias anything). -/

structure HWorld where
  w : World
  cache : List (Addr × Nat)
  deriving Repr, Inhabited

def HWorld.init : HWorld := ⟨World.init, []⟩

inductive HOp where
  | base (op : Op)
  | hash (x : Nat)          -- `hash(roots[x])`
  deriving Repr

def cacheGet : List (Addr × Nat) → Addr → Option Nat
  | [], _ => none
  | (a, c) :: r, f => if a = f then some c else cacheGet r f

/-- what `__hash__` computes when the cache is empty: XOR over `items()` of `hash((k, v))` -/
def freshHash (H : HashFns) (h : Heap) (f : Addr) : Option Nat :=
  (absVal false (fuelOf h) h (.ref f)).bind (treeHash H)

/-- one step; the second component is the value returned by `hash` -/
def hstep (H : HashFns) (hw : HWorld) : HOp → Except Err (HWorld × Option Nat)
  | .base op =>
    match step hw.w op with
    | .ok w' => .ok (⟨w', hw.cache⟩, none)
    | .error e => .error e
  | .hash x =>
    match hw.w.roots[x]? with
    | some (.ref f) =>
      match hw.w.heap[f]? with
      | some (.frozen _) =>
        match cacheGet hw.cache f with
        | some c => .ok (hw, some c)                       -- `return self._hash`
        | none =>
          match freshHash H hw.w.heap f with
          | some c => .ok (⟨hw.w, (f, c) :: hw.cache⟩, some c)
          | none => .error .typeError                       -- unhashable leaf
      | some (.dict ..) => .error .typeError                -- dicts are unhashable
      | none => .error .dangling
    | some (.leaf l) =>
      match H.hl l with
      | some c => .ok (hw, some c)
      | none => .error .typeError
    | none => .error .badHandle

def hrun (H : HashFns) : HWorld → List HOp → HWorld
  | hw, [] => hw
  | hw, op :: ops =>
    match hstep H hw op with
    | .ok (hw', _) => hrun H hw' ops
    | .error _ => hrun H hw ops

/-- Loading a pickle in *another interpreter*: the heap (the unpickled objects) is what it is, but the
hash function is the loading process's own (`PYTHONHASHSEED`), and `__reduce__` = `FrozenDict(unfreeze())`
rebuilds through the constructor, which sets `_hash = None`: nothing of the old cache travels. -/
def HWorld.loadedElsewhere (hw : HWorld) : HWorld := ⟨hw.w, []⟩

/-- the behaviour this model does **not** have (kept for the counter-example): a `__reduce__` that
carries `_hash` along gives the rebuilt object `dst` the cache entry of `src`, which then also travels -/
def HWorld.carryCacheOrig (hw : HWorld) (src dst : Addr) : HWorld :=
  match cacheGet hw.cache src with
  | some c => ⟨hw.w, (dst, c) :: hw.cache⟩
  | none => hw

end Flax.Frozen
