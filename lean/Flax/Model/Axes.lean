/-
Model of flax's partition metadata (axis names of boxed variables) and of the logical-to-mesh rules.

Linen  flax/core/meta.py        Partitioned.add_axis / remove_axis / unbox / replace_boxed /
                                get_partition_spec / to_nnx_metadata, meta.add_axis / remove_axis /
                                unbox / replace_boxed / get_partition_spec
       flax/core/lift.py        vmap / scan: `meta.remove_axis` on the way in, `meta.add_axis` on the way out
       flax/core/scope.py       Variable.value setter (re-boxing with replace_boxed)
       flax/linen/partitioning.py  _add_axis_to_metadata (scan_with_axes / vmap_with_axes, legacy API)
       flax/linen/spmd.py       _mesh_assignment_free, _logical_to_mesh_axes, logical_to_mesh_axes
NNX    flax/nnx/spmd.py         add_axis (insert_field) / remove_axis (remove_field) / get_partition_spec
       flax/nnx/transforms/iteration.py  _update_variable_sharding_metadata around vmap / scan bodies

Definitions named `…Orig` are the code as shipped at the pinned commit, before the `fix:` commits
(findings F3, F4); the unsuffixed definitions transcribe the repaired code that is in /repo now.

The array side (where `jax.vmap` / `lax.scan`+`moveaxis` put or take the mapped axis) is *modelled*, not
flax code: `stackAt` / `sliceAt` (assumption A-VMAP / A-SCAN); the correspondence run compares it with the
shapes the real transforms produce.

Core Lean only (no Mathlib): this file is in the import closure of the compiled driver.
-/

namespace Flax.Axes

/-- one entry of `names` / `sharding`: a logical axis name or Python `None` -/
abbrev Name := Option String
abbrev Names := List Name

inductive Err where
  | indexError      -- `list.pop` / `names[i]` out of range
  | assertion       -- `assert names.pop(index) == axis_name`
  | valueError      -- legacy `_add_axis_to_metadata` mismatch; duplicate logical names
  | unspecified     -- PartitioningUnspecifiedError: no 'partition_name' in metadata_params
  | axisError       -- the array side (jax) rejects the axis index
  deriving Repr, DecidableEq, Inhabited

instance {ε α : Type} [DecidableEq ε] [DecidableEq α] : DecidableEq (Except ε α) := fun a b =>
  match a, b with
  | .ok x, .ok y => if h : x = y then isTrue (by rw [h]) else isFalse (by intro h'; cases h'; exact h rfl)
  | .error x, .error y => if h : x = y then isTrue (by rw [h]) else isFalse (by intro h'; cases h'; exact h rfl)
  | .ok _, .error _ => isFalse (by intro h; cases h)
  | .error _, .ok _ => isFalse (by intro h; cases h)

/-! ### Python list index arithmetic (A-PY) -/

/-- `xs[:j] + [x] + xs[j:]` -/
def insertAt {α : Type} (xs : List α) (j : Nat) (x : α) : List α :=
  xs.take j ++ x :: xs.drop j

/-- position used by `list.insert(i, x)` on a list of length `n`: a negative index counts from the
end, and both ends clamp -/
def insertPos (n : Nat) (i : Int) : Nat :=
  if i < 0 then (i + n).toNat else min i.toNat n

/-- `list.insert(i, x)` -/
def pyInsert {α : Type} (xs : List α) (i : Int) (x : α) : List α :=
  insertAt xs (insertPos xs.length i) x

/-- index used by `xs[i]`, `xs.pop(i)` on a list of length `n`, and by JAX for an axis index of an
array of rank `n`: `none` = out of range -/
def normIdx (n : Nat) (i : Int) : Option Nat :=
  if i < 0 then (if 0 ≤ i + n then some (i + n).toNat else none)
  else (if i.toNat < n then some i.toNat else none)

/-- the loop `while len(names) < index: names.append(None)` -/
def padTo (xs : Names) (k : Int) : Names :=
  xs ++ List.replicate (k.toNat - xs.length) none

/-! ### `Partitioned.add_axis` / `remove_axis`, `nnx.spmd` `insert_field` / `remove_field` -/

/-- `Partitioned.add_axis` / `insert_field` **as shipped at the pinned commit** (finding F3) -/
def addAxisOrig (k : Int) (nm : Name) (names : Names) : Names :=
  pyInsert (padTo names k) k nm

/-- `Partitioned.add_axis` (flax/core/meta.py) and `insert_field` (flax/nnx/spmd.py) after the repair:
a negative index is normalised against the length of the *new* names -/
def addAxis (k : Int) (nm : Name) (names : Names) : Names :=
  let k' : Int := if k < 0 then k + (names.length + 1 : Nat) else k
  pyInsert (padTo names k') k' nm

/-- `Partitioned.remove_axis` / `remove_field`: `assert names.pop(index) == axis_name` -/
def removeAxis (k : Int) (nm : Name) (names : Names) : Except Err Names :=
  match normIdx names.length k with
  | none => .error .indexError
  | some j => if names[j]? = some nm then .ok (names.eraseIdx j) else .error .assertion

/-- legacy `partitioning._add_axis_to_metadata.insert_fn_leaf` as shipped: plain `list.insert` -/
def addAxisLegacyOrig (k : Int) (nm : Name) (names : Names) : Names :=
  pyInsert names k nm

/-- legacy `insert_fn_leaf` after the repair (no padding loop in this API) -/
def addAxisLegacy (k : Int) (nm : Name) (names : Names) : Names :=
  let k' : Int := if k < 0 then k + (names.length + 1 : Nat) else k
  pyInsert names k' nm

/-- legacy `remove_fn_leaf`: `names[axis_pos] != axis_name` raises ValueError, then `pop` -/
def removeAxisLegacy (k : Int) (nm : Name) (names : Names) : Except Err Names :=
  match normIdx names.length k with
  | none => .error .indexError
  | some j => if names[j]? = some nm then .ok (names.eraseIdx j) else .error .valueError

/-- the name an entry-per-dimension reading gives to dimension `i`: a `names` tuple shorter than the
rank leaves the remaining dimensions unnamed (`PartitionSpec` semantics) -/
def effName (names : Names) (i : Nat) : Name := (names[i]?).join

/-! ### the array side (modelled JAX behaviour) -/

/-- `jax.vmap(out_axes=k)` / `lax.scan` + `moveaxis(0, k)`: the result has rank `r+1` and the new
dimension `d` sits at `k` normalised against `r+1`; `none` = jax rejects the axis -/
def stackAt {δ : Type} (k : Int) (d : δ) (dims : List δ) : Option (List δ) :=
  (normIdx (dims.length + 1) k).map (fun j => insertAt dims j d)

/-- `jax.vmap(in_axes=k)` / scanning over axis `k`: dimension `k` (normalised against the rank) is
removed -/
def sliceAt {δ : Type} (k : Int) (dims : List δ) : Option (List δ) :=
  (normIdx dims.length k).map (fun j => dims.eraseIdx j)

/-! ### boxes -/

/-- a variable leaf: a raw value or a (possibly nested) `Partitioned` box around one -/
inductive Box (α : Type) where
  | raw (v : α)
  | boxed (names : Names) (inner : Box α)
  deriving Repr, DecidableEq, Inhabited

namespace Box
variable {α : Type}

/-- `meta.unbox` on a leaf: strips every box (`unbox(x.unbox())`) -/
def unbox : Box α → α
  | raw v => v
  | boxed _ inner => inner.unbox

/-- `meta.replace_boxed` on a leaf: `c.replace_boxed(replace_boxed(c.unbox(), v))` -/
def replaceBoxed : Box α → α → Box α
  | raw _, v => raw v
  | boxed ns inner, v => boxed ns (inner.replaceBoxed v)

/-- names of the outermost box: what `get_partition_spec` and the transforms read -/
def names? : Box α → Option Names
  | raw _ => none
  | boxed ns _ => some ns

def isBoxed : Box α → Bool
  | raw _ => false
  | boxed _ _ => true

/-- `meta.add_axis` on a leaf (`map_axis_meta` stops at the outermost box; raw leaves pass through).
`params` is the value of `metadata_params.get('partition_name')`, `none` when the key is absent. -/
def addAxis (k : Int) (params : Option Name) : Box α → Except Err (Box α)
  | raw v => .ok (raw v)
  | boxed ns inner =>
    match params with
    | none => .error .unspecified
    | some nm => .ok (boxed (Axes.addAxis k nm ns) inner)

/-- `meta.remove_axis` on a leaf -/
def removeAxis (k : Int) (params : Option Name) : Box α → Except Err (Box α)
  | raw v => .ok (raw v)
  | boxed ns inner =>
    match params with
    | none => .error .unspecified
    | some nm => (Axes.removeAxis k nm ns).map (fun ns' => boxed ns' inner)

/-- `scope.Variable.value = v` for an array-like `v` (same tree structure as the stored value):
re-boxes when the stored value carries metadata, stores `v` itself otherwise -/
def setValue (cur : Box α) (v : α) : Box α :=
  if cur.isBoxed then cur.replaceBoxed v else raw v

/-- `meta._get_leaf_pspec`: the box's names; `P()` for an unboxed array; `None` for anything else -/
def partitionSpec (isArray : α → Bool) : Box α → Option Names
  | boxed ns _ => some ns
  | raw v => if isArray v then some [] else none

end Box

/-- `nnx.spmd.get_partition_spec` on one Variable/VariableState without logical rules in scope:
a truthy `sharding` gives its names, otherwise the value is replicated if it is an array -/
def nnxPartitionSpec (sharding : Option Names) (isArray : Bool) : Option Names :=
  match sharding with
  | some (n :: ns) => some (n :: ns)
  | _ => if isArray then some [] else none

/-- `nnx.spmd.add_axis` on one VariableState: only an existing, non-`None` `sharding` is updated -/
def nnxAddAxis (k : Int) (nm : Name) (sharding : Option Names) : Option Names :=
  sharding.map (addAxis k nm)

/-- `nnx.spmd.remove_axis` on one VariableState -/
def nnxRemoveAxis (k : Int) (nm : Name) (sharding : Option Names) : Except Err (Option Names) :=
  match sharding with
  | none => .ok none
  | some ns => (removeAxis k nm ns).map some

/-! ### `flax.nnx.bridge.variables.NNXMeta`: an NNX Variable carried through Linen as a box -/

/-- `NNXMeta.add_axis` **as shipped** (finding F17): a TODO no-op -/
def nnxMetaAddAxisOrig (_k : Int) (_params : Option Name) (sharding : Option Names) :
    Except Err (Option Names) := .ok sharding

/-- `NNXMeta.add_axis` after the repair: `metadata['sharding']` is updated like `Partitioned.names`
(partition name looked up in `metadata_params`); a box without a `sharding` entry is left untouched -/
def nnxMetaAddAxis (k : Int) (params : Option Name) (sharding : Option Names) :
    Except Err (Option Names) :=
  match sharding with
  | none => .ok none
  | some ns =>
    match params with
    | none => .error .unspecified
    | some nm => .ok (some (addAxis k nm ns))

/-- `NNXMeta.remove_axis` after the repair -/
def nnxMetaRemoveAxis (k : Int) (params : Option Name) (sharding : Option Names) :
    Except Err (Option Names) :=
  match sharding with
  | none => .ok none
  | some ns =>
    match params with
    | none => .error .unspecified
    | some nm => (removeAxis k nm ns).map some

/-! ### lifted vmap / scan (Linen `lift.vmap` / `lift.scan`, NNX `VmapFn` / `ScanFn`) -/

/-- one transform level: the variable axis, the partition name given in `metadata_params` /
`transform_metadata`, and the size of the mapped axis -/
structure Level (δ : Type) where
  axis : Int
  pname : Name
  size : δ
  deriving Repr

/-- a variable whose value is abstracted to its list of dimensions -/
abbrev VarBox (δ : Type) := Box (List δ)

/-- the way out of one transform: the array gains the axis, then `add_axis` updates the names -/
def outBox {δ : Type} (l : Level δ) (b : VarBox δ) : Except Err (VarBox δ) :=
  match stackAt l.axis l.size b.unbox with
  | none => .error .axisError
  | some ds => (b.replaceBoxed ds).addAxis l.axis (some l.pname)

/-- the way in: `remove_axis` on the names, then the array is sliced along the axis -/
def inBox {δ : Type} (l : Level δ) (b : VarBox δ) : Except Err (VarBox δ) :=
  match b.removeAxis l.axis (some l.pname) with
  | .error e => .error e
  | .ok b' =>
    match sliceAt l.axis b.unbox with
    | none => .error .axisError
    | some ds => .ok (b'.replaceBoxed ds)

/-- `init` through a stack of transforms, innermost level first: each level stacks on its way out -/
def initThrough {δ : Type} : List (Level δ) → VarBox δ → Except Err (VarBox δ)
  | [], b => .ok b
  | l :: ls, b => (outBox l b).bind (initThrough ls)

/-- what the innermost body sees when the transformed module is applied to stacked variables:
the outermost level slices first (levels are listed innermost first) -/
def applyIn {δ : Type} : List (Level δ) → VarBox δ → Except Err (VarBox δ)
  | [], b => .ok b
  | l :: ls, b => (applyIn ls b).bind (inBox l)

/-! ### `StateAxes` routing in `_update_variable_sharding_metadata` (flax/nnx/transforms/iteration.py) -/

/-- the axis a `StateAxes` filter declares: broadcast (`None`), `Carry`, or an int -/
inductive AxisSpec where
  | bcast
  | carry
  | ax (k : Int)
  deriving Repr, DecidableEq, Inhabited

def AxisSpec.int? : AxisSpec → Option Int
  | .ax k => some k
  | _ => none

/-- vmap / pmap layout: `NodeStates.states` has one state per filter; the states of int-axis filters
are updated with their own axis, the others are left alone -/
def updateStatesVmap {σ : Type} (f : Int → σ → σ) (axes : List AxisSpec) (states : List σ) : List σ :=
  List.zipWith (fun a s => match a with | .ax k => f k s | _ => s) axes states

/-- `nnx.scan` keeps only the states of the int-axis filters in `NodeStates.states` (carry and
broadcast states travel in separate deques), in the order of those filters -/
def vectorizedStates {σ : Type} (layout : List (AxisSpec × σ)) : List σ :=
  layout.filterMap (fun p => match p.1 with | .ax _ => some p.2 | _ => none)

/-- scan layout **as shipped** (finding F39): `zip(states, metadata.axes)` pairs the vectorized
states with *every* declared axis, so a `None`/`Carry` filter listed before an int filter shifts
the pairing -/
def updateStatesScanOrig {σ : Type} (f : Int → σ → σ) (axes : List AxisSpec) (states : List σ) : List σ :=
  List.zipWith (fun s a => match a with | AxisSpec.ax k => f k s | _ => s) states axes

/-- scan layout after the repair: the vectorized states are paired with the int axes only -/
def updateStatesScan {σ : Type} (f : Int → σ → σ) (axes : List AxisSpec) (states : List σ) : List σ :=
  let ints := axes.filterMap AxisSpec.int?
  (List.zipWith (fun k s => f k s) ints states) ++ states.drop ints.length

/-! ### logical axis rules → mesh axes (`flax/linen/spmd.py`) -/

/-- the mesh side of a rule: `None`, one mesh axis, or a tuple of mesh axes -/
inductive MeshVal where
  | none
  | one (a : String)
  | many (as : List String)
  deriving Repr, DecidableEq, Inhabited

/-- `jax.tree_util.tree_leaves` of a mesh value -/
def MeshVal.leaves : MeshVal → List String
  | .none => []
  | .one a => [a]
  | .many as => as

/-- one entry of the working list `result`: the `_unassigned_axis` sentinel or a value -/
inductive Slot where
  | unassigned
  | val (m : MeshVal)
  deriving Repr, DecidableEq, Inhabited

def Slot.leaves : Slot → List String
  | .unassigned => []        -- the sentinel object is a leaf but equals no mesh axis name
  | .val m => m.leaves

structure Rule where
  name : Name
  mesh : MeshVal
  deriving Repr, DecidableEq, Inhabited

/-- `result = [_unassigned_axis if isinstance(name, str) else name for name in array_dim_names]` -/
def initSlots (names : Names) : List Slot :=
  names.map (fun n => match n with | some _ => Slot.unassigned | none => Slot.val .none)

/-- mesh axes already used anywhere in `result` -/
def usedAxes (res : List Slot) : List String := res.flatMap Slot.leaves

/-- `_mesh_assignment_free(new_assignment, existing_assignments)` -/
def meshFree (m : MeshVal) (res : List Slot) : Bool :=
  m.leaves.all (fun a => !decide (a ∈ usedAxes res))

/-- `array_dim_names.index(x)` guarded by `x in array_dim_names` -/
def firstIdx : Names → Name → Option Nat
  | [], _ => none
  | n :: ns, x => if n = x then some 0 else (firstIdx ns x).map (· + 1)

/-- the body of `for rule_model_name, rule_mesh_names in rules:` -/
def stepRule (names : Names) (res : List Slot) (r : Rule) : List Slot :=
  match firstIdx names r.name with
  | none => res
  | some pos =>
    if meshFree r.mesh res && decide (res[pos]? = some Slot.unassigned) then res.set pos (.val r.mesh)
    else res

def runRules (names : Names) (res : List Slot) (rules : List Rule) : List Slot :=
  rules.foldl (stepRule names) res

/-- the `collections.Counter` check: a non-`None` name occurring twice -/
def hasDupName (names : Names) : Bool := !decide ((names.filterMap id).Nodup)

/-- `_logical_to_mesh_axes(array_dim_names, rules)` for explicit names and rules -/
def logicalToMeshRaw (names : Names) (rules : List Rule) : Except Err (List Slot) :=
  if hasDupName names then .error .valueError else .ok (runRules names (initSlots names) rules)

/-- `logical_to_mesh_axes`: unassigned positions become `None` -/
def logicalToMesh (names : Names) (rules : List Rule) : Except Err (List MeshVal) :=
  (logicalToMeshRaw names rules).map
    (fun res => res.map (fun s => match s with | .unassigned => MeshVal.none | .val m => m))

/-! ### `to_nnx_metadata` (finding F4): the instance `__dict__` as an association list -/

inductive Fld where
  | names (ns : Names)
  | other (tag : String)
  deriving Repr, DecidableEq, Inhabited

abbrev PyDict := List (String × Fld)

def dictPop (d : PyDict) (k : String) : Option (Fld × PyDict) :=
  match d.lookup k with
  | none => none
  | some v => some (v, d.filter (fun kv => !decide (kv.1 = k)))

def dictSet (d : PyDict) (k : String) (v : Fld) : PyDict :=
  if (d.lookup k).isSome then d.map (fun kv => if kv.1 = k then (k, v) else kv) else d ++ [(k, v)]

/-- result of a method call that may mutate `self`: the returned dict and `self.__dict__` afterwards -/
structure Call where
  ret : PyDict
  self : PyDict
  deriving Repr, DecidableEq

/-- `Partitioned.to_nnx_metadata` as shipped: `metadata = vars(self)` *is* `self.__dict__` -/
def toNnxMetadataOrig (self : PyDict) : Option Call :=
  (dictPop self "names").map (fun (v, d) => let d' := dictSet d "sharding" v; ⟨d', d'⟩)

/-- after the repair: `metadata = dict(vars(self))` -/
def toNnxMetadata (self : PyDict) : Option Call :=
  (dictPop self "names").map (fun (v, d) => ⟨dictSet d "sharding" v, self⟩)

/-- `Partitioned.from_nnx_metadata` restricted to the `names` field -/
def fromNnxNames (metadata : PyDict) : Option Fld := metadata.lookup "sharding"

end Flax.Axes
