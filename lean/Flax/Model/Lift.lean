/-
Model of flax's lifting machinery (flax/core/lift.py): `_partial_pack` / `pack`, the identity-like lifted
transforms built on it (`jit`, `checkpoint`/`remat`, identity `map_variables`), lifted control flow
(`cond`, `switch`, `while_loop`), the Linen-side `fork_rngs`, `_module_fingerprint`, the jit trace cache
and the rng-counter delta cache (`_side_effect_cache`, `_restore_rng_counters`).

Self-contained scope model (one scope = the view of the module whose method is transformed):
  vars      collection ↦ variable name ↦ Int          (`scope._variables`, a dict of dicts)
  mutable   a Linen collection filter                  (`scope.mutable`)
  frozen    collections held as FrozenDict             (set by `_partial_pack` for in-only groups)
  rngs      stream ↦ LazyRng (key, static suffix)       (`scope.rngs`)
  counters  stream ↦ Nat                               (`scope.rng_counters`; *shared* by reference
                                                        between the outer scope and every inner scope)

Module bodies are programs of a small instruction language over that scope (get / has / put /
variable-with-initialiser / make_rng / sequencing, with integer polynomial expressions over the values read
so far, the call arguments and the module's dataclass attributes).

JAX is not modelled; `jax.jit`, `jax.checkpoint`, `lax.cond/switch/while_loop` enter through their
functional specifications (assumptions A-JIT, A-REMAT, A-COND, A-WHILE of DESIGN.md §5), spelled out at the
definitions `laxCond`, `laxSwitch`, `laxWhile`, `jaxJit…` below.  threefry/SHA-1 are free constructors
(`SymKey`, A-RNG).

Core Lean only (no Mathlib): this file is in the import closure of the compiled drivers.
-/
import Flax.Model.Filter

namespace Flax.Lift
open Flax.Filter

/-! ## Python dicts as association lists (first match wins; a well-formed dict has distinct keys) -/

def alookup (k : String) : List (String × α) → Option α
  | [] => none
  | (k', v) :: r => if k' = k then some v else alookup k r

/-- `d[k] = v`: replace in place when the key exists, append otherwise (Python insertion order) -/
def ainsert (k : String) (v : α) : List (String × α) → List (String × α)
  | [] => [(k, v)]
  | (k', v') :: r => if k' = k then (k', v) :: r else (k', v') :: ainsert k v r

def keys (l : List (String × α)) : List String := l.map (·.1)

abbrev Coll := List (String × Int)
abbrev Vars := List (String × Coll)

/-- `variables[c][n]` if both exist -/
def getVar (vs : Vars) (c n : String) : Option Int :=
  match alookup c vs with
  | none => none
  | some coll => alookup n coll

/-- `_mutable_collection(c)[n] = v` (creates the collection when it is missing) -/
def putVar (vs : Vars) (c n : String) (v : Int) : Vars :=
  match alookup c vs with
  | none => ainsert c [(n, v)] vs
  | some coll => ainsert c (ainsert n v coll) vs

/-- the dict invariant of a variable tree: distinct collection names, distinct names per collection -/
def VarsWF (vs : Vars) : Prop :=
  (keys vs).Nodup ∧ ∀ c coll, (c, coll) ∈ vs → (keys coll).Nodup

/-! ## Symbolic PRNG keys -/

inductive Datum where
  | n (v : Nat)
  | s (v : String)
  deriving Repr, DecidableEq, Inhabited

/-- `random.key(seed)` of a stream, or `_fold_in_static(key, data)` with non-empty `data` -/
inductive SymKey where
  | seed (id : String)
  | fold (k : SymKey) (data : List Datum)
  deriving Repr, DecidableEq, Inhabited

/-- `scope.LazyRng` -/
structure LazyRng where
  key : SymKey
  suffix : List Datum
  deriving Repr, DecidableEq, Inhabited

/-- `scope._fold_in_static`: the key itself when there is nothing to fold -/
def foldStatic (k : SymKey) (data : List Datum) : SymKey :=
  if data.isEmpty then k else .fold k data

/-- `LazyRng.as_jax_rng` -/
def LazyRng.asKey (r : LazyRng) : SymKey := foldStatic r.key r.suffix

/-! ## Scope state and errors -/

inductive Err where
  | modifyImmutable      -- errors.ModifyScopeVariableError
  | notFound             -- ScopeVariableNotFoundError / ScopeCollectionNotFound / the harness's `get` of a missing variable
  | rngMissing           -- errors.InvalidRngError
  | counterMissing       -- KeyError on `rng_counters[name]`
  | frozenWrite          -- assignment into a FrozenDict
  | unmapped             -- ValueError('unmapped output variables')
  | badExpr              -- ill-formed program (register / argument / attribute index out of range)
  | structMismatch       -- JAX: branches / loop carry with different tree structure
  | noBranch             -- lax.switch with an empty branch list
  | diverged             -- model only: `while` fuel exhausted
  deriving Repr, DecidableEq, Inhabited

deriving instance DecidableEq for Except

abbrev Rngs := List (String × LazyRng)
abbrev Counters := List (String × Nat)

structure ScopeSt where
  vars : Vars
  mutable : LFilter
  frozen : List String
  rngs : Rngs
  counters : Counters
  deriving Repr, DecidableEq, Inhabited

/-- FrozenDict collections are never mutable (established by `scopeFn`, needed by `publish`) -/
def ScopeSt.FrozenOk (s : ScopeSt) : Prop := ∀ c, c ∈ s.frozen → inFilter s.mutable c = false

/-- `scope.put_variable(c, n, v)` -/
def ScopeSt.put (s : ScopeSt) (c n : String) (v : Int) : Except Err ScopeSt :=
  if inFilter s.mutable c then
    if c ∈ s.frozen then .error .frozenWrite
    else .ok { s with vars := putVar s.vars c n v }
  else .error .modifyImmutable

/-- the stream `make_rng(name)` actually draws from: `name`, else `'params'`, else InvalidRngError -/
def ScopeSt.rngName (s : ScopeSt) (name : String) : Option String :=
  if (alookup name s.rngs).isSome then some name
  else if (alookup "params" s.rngs).isSome then some "params"
  else none

/-- `scope.make_rng(name)`: bump the counter, fold it into the stream's LazyRng -/
def ScopeSt.makeRng (s : ScopeSt) (name : String) : Except Err (SymKey × ScopeSt) :=
  match s.rngName name with
  | none => .error .rngMissing
  | some nm =>
    match alookup nm s.rngs, alookup nm s.counters with
    | some r, some k =>
      .ok (foldStatic r.key (r.suffix ++ [Datum.n (k + 1)]), { s with counters := ainsert nm (k + 1) s.counters })
    | _, _ => .error .counterMissing

/-- flat key of a counter (what `flatten_dict` calls the path): child tokens then the stream -/
def ctrKey (path : List String) (nm : String) : String := String.intercalate "/" (path ++ [nm])

/-- `make_rng(name)` called on the child scope reached by `push`-ing the names in `path` (`[]` = the scope itself).
A child's streams are its parent's with the child's name appended to the LazyRng suffix; its counters are a dict
nested under the child token in the parent's counter dict (the flat key `ctrKey`), created at 0 by `push`. -/
def ScopeSt.makeRngAt (s : ScopeSt) (path : List String) (name : String) : Except Err (SymKey × ScopeSt) :=
  match s.rngName name with
  | none => .error .rngMissing
  | some nm =>
    match alookup nm s.rngs with
    | none => .error .counterMissing
    | some r =>
      match alookup (ctrKey path nm) s.counters with
      | some k =>
        .ok (foldStatic r.key (r.suffix ++ path.map Datum.s ++ [Datum.n (k + 1)]),
          { s with counters := ainsert (ctrKey path nm) (k + 1) s.counters })
      | none =>
        if path.isEmpty then .error .counterMissing
        else .ok (foldStatic r.key (r.suffix ++ path.map Datum.s ++ [Datum.n 1]),
          { s with counters := ainsert (ctrKey path nm) 1 s.counters })

/-! ## Module bodies -/

/-- integer polynomial expressions -/
inductive Expr where
  | lit (v : Int)
  | reg (i : Nat)          -- i-th value read so far by this body (`get`/`has`/`decl` push one each)
  | arg (i : Nat)          -- i-th call argument
  | attr (name : String)   -- dataclass attribute of the module (`self.<name>`), a static Python int
  | add (a b : Expr)
  | mul (a b : Expr)
  deriving Repr, DecidableEq, Inhabited

inductive Prog where
  | skip
  | seq (p q : Prog)
  | get (c n : String)              -- `v = self.get_variable(c, n)`; the harness raises NotFound on a missing variable
  | has (c n : String)              -- `self.has_variable(c, n)` as 0/1
  | put (c n : String) (e : Expr)   -- `self.put_variable(c, n, e)`
  | decl (c n : String) (e : Expr)  -- `self.variable(c, n, lambda: e).value`
  | rng (stream : String)           -- `self.make_rng(stream)`; the key is part of the output
  | rngAt (path : List String) (stream : String)   -- `child.make_rng(stream)` for the (setup-bound) child at `path`
  deriving Repr, DecidableEq, Inhabited

/-- what an expression can see -/
structure Env where
  args : List Int
  attrs : List (String × Int)
  deriving Repr, Inhabited

def evalExpr (env : Env) (regs : List Int) : Expr → Option Int
  | .lit v => some v
  | .reg i => regs[i]?
  | .arg i => env.args[i]?
  | .attr a => alookup a env.attrs
  | .add a b => match evalExpr env regs a, evalExpr env regs b with
      | some x, some y => some (x + y)
      | _, _ => none
  | .mul a b => match evalExpr env regs a, evalExpr env regs b with
      | some x, some y => some (x * y)
      | _, _ => none

/-- machine state of a running body -/
structure M where
  regs : List Int
  keys : List SymKey
  sc : ScopeSt
  deriving Repr, Inhabited

def M.push (m : M) (v : Int) : M := { m with regs := m.regs ++ [v] }

def eval (env : Env) : Prog → M → Except Err M
  | .skip, m => .ok m
  | .seq p q, m =>
    match eval env p m with
    | .error e => .error e
    | .ok m' => eval env q m'
  | .get c n, m =>
    match getVar m.sc.vars c n with
    | some v => .ok (m.push v)
    | none => .error .notFound
  | .has c n, m => .ok (m.push (if (getVar m.sc.vars c n).isSome then 1 else 0))
  | .put c n e, m =>
    match evalExpr env m.regs e with
    | none => .error .badExpr
    | some v =>
      match m.sc.put c n v with
      | .error e => .error e
      | .ok sc => .ok { m with sc := sc }
  | .decl c n e, m =>
    match getVar m.sc.vars c n with
    | some v => .ok (m.push v)
    | none =>
      if inFilter m.sc.mutable c then
        match evalExpr env m.regs e with
        | none => .error .badExpr
        | some v =>
          match m.sc.put c n v with
          | .error e => .error e
          | .ok sc => .ok ({ m with sc := sc }.push v)
      else .error .notFound
  | .rng s, m =>
    match m.sc.makeRng s with
    | .error e => .error e
    | .ok (k, sc) => .ok { m with keys := m.keys ++ [k], sc := sc }
  | .rngAt p s, m =>
    match m.sc.makeRngAt p s with
    | .error e => .error e
    | .ok (k, sc) => .ok { m with keys := m.keys ++ [k], sc := sc }

/-- collections a body touches / may write / rng streams it names -/
def cols : Prog → List String
  | .skip => []
  | .seq p q => cols p ++ cols q
  | .get c _ => [c]
  | .has c _ => [c]
  | .put c _ _ => [c]
  | .decl c _ _ => [c]
  | .rng _ => []
  | .rngAt _ _ => []

def wcols : Prog → List String
  | .seq p q => wcols p ++ wcols q
  | .put c _ _ => [c]
  | .decl c _ _ => [c]
  | _ => []

def rngNames : Prog → List String
  | .seq p q => rngNames p ++ rngNames q
  | .rng s => [s]
  | .rngAt _ s => [s]
  | _ => []

/-- the body run on the child scope `ch` (a module bound under that name): the child's variables live under the
child's name inside each collection of the parent's view — `{col: {ch: {n: v}}}`, rendered here by the variable name
`ch/n` (Module name reservations keep a variable and a child from sharing a name) —, its mutability is the parent's,
its rng streams and counters are the parent's at path `ch`. -/
def inChild (ch : String) : Prog → Prog
  | .skip => .skip
  | .seq p q => .seq (inChild ch p) (inChild ch q)
  | .get c n => .get c (ch ++ "/" ++ n)
  | .has c n => .has c (ch ++ "/" ++ n)
  | .put c n e => .put c (ch ++ "/" ++ n) e
  | .decl c n e => .decl c (ch ++ "/" ++ n) e
  | .rng s => .rngAt [ch] s
  | .rngAt p s => .rngAt (ch :: p) s

/-- the body run on the descendant scope reached by `push`-ing the names of `path` in turn (any depth) -/
def inPath (path : List String) (p : Prog) : Prog := path.foldr inChild p

/-- the streams a body's draws can resolve to: the named ones and the `'params'` fallback -/
def rngDeps (b : Prog) : List String := if rngNames b = [] then [] else "params" :: rngNames b

/-- a scope function `(scope, *args) -> outputs`: a body followed by the returned expressions -/
structure Fn where
  body : Prog
  ret : List Expr
  deriving Repr, DecidableEq, Inhabited

def evalRets (env : Env) (regs : List Int) : List Expr → Option (List Int)
  | [] => some []
  | e :: es => match evalExpr env regs e, evalRets env regs es with
      | some v, some vs => some (v :: vs)
      | _, _ => none

/-- result of a scope function: returned values and the keys it drew -/
structure Out where
  vals : List Int
  keys : List SymKey
  deriving Repr, DecidableEq, Inhabited

/-- `fn(scope, *args)` run directly on a scope (the *untransformed* code) -/
def runFn (attrs : List (String × Int)) (f : Fn) (args : List Int) (s : ScopeSt) : Except Err (Out × ScopeSt) :=
  match eval ⟨args, attrs⟩ f.body ⟨[], [], s⟩ with
  | .error e => .error e
  | .ok m =>
    match evalRets ⟨args, attrs⟩ m.regs f.ret with
    | none => .error .badExpr
    | some vs => .ok (⟨vs, m.keys⟩, m.sc)

/-! ## `_partial_pack` / `pack`  (flax/core/lift.py:125-334) -/

def anyMatch (fs : List LFilter) (c : String) : Bool := fs.any (fun f => inFilter f c)

/-- `scope.group_collections(xs, filters)` on a dict -/
def groupBy : List (String × α) → List LFilter → List (List (String × α))
  | _, [] => []
  | xs, f :: fs =>
    xs.filter (fun kv => inFilter f kv.1) :: groupBy (xs.filter (fun kv => !(inFilter f kv.1))) fs

/-- `mutable = False; for f in out_variable_filters: mutable = union_filters(mutable, f)` -/
def unionAll (outF : List LFilter) : LFilter := outF.foldl union .ff

/-- the collections `_partial_pack` freezes: those of the in-groups that no out filter matches -/
def frozenNames (groups : List Vars) (outF : List LFilter) : List String :=
  (keys groups.flatten).filter (fun c => !(anyMatch outF c))

/-- `scope_fn(variable_groups, rng_groups, mutable_filter)`; `counters` is the current content of the
counter dict the inner scope shares with the outer one.  Collections of `frozen0` (frozen by `_partial_pack`)
stay frozen however the groups are re-assembled by the caller. -/
def scopeFn (s : ScopeSt) (outF : List LFilter) (frozen0 : List String)
    (varGroups : List Vars) (rngGroups : List Rngs) (mf : LFilter) (counters : Counters) : ScopeSt :=
  { vars := varGroups.flatten
    mutable := intersect (intersect s.mutable (unionAll outF)) mf
    frozen := frozen0
    rngs := rngGroups.flatten
    counters := counters }

/-- `repack_fn(inner_scope)` -/
def repack (outF : List LFilter) (i : ScopeSt) : Except Err (List Vars) :=
  let mv := i.vars.filter (fun kv => inFilter i.mutable kv.1)
  let gs := groupBy mv (outF ++ [LFilter.tt])
  match gs.getLast? with
  | none => .ok []
  | some rem => if rem.isEmpty then .ok gs.dropLast else .error .unmapped

/-- the inner loop of `publish_results_fn` for one collection -/
def publishColl (s : ScopeSt) (c : String) : Coll → Except Err ScopeSt
  | [] => .ok s
  | (n, v) :: rest =>
    match s.put c n v with
    | .error e => .error e
    | .ok s' => publishColl s' c rest

/-- `publish_results_fn`: write back the collections that are mutable in the outer scope -/
def publishAll (s : ScopeSt) : Vars → Except Err ScopeSt
  | [] => .ok s
  | (c, coll) :: rest =>
    if inFilter s.mutable c then
      match publishColl s c coll with
      | .error e => .error e
      | .ok s' => publishAll s' rest
    else publishAll s rest

def publish (s : ScopeSt) (outGroups : List Vars) : Except Err ScopeSt := publishAll s outGroups.flatten

/-- what `_partial_pack` hands to the transform-specific `inner` function -/
structure PackEnv where
  scopeFn : List Vars → List Rngs → LFilter → Counters → ScopeSt
  repack : ScopeSt → Except Err (List Vars)
  varGroups : List Vars
  rngGroups : List Rngs

def partialPack (inF outF rngF : List LFilter) (s : ScopeSt) : PackEnv :=
  let vg := groupBy s.vars inF
  { scopeFn := scopeFn s outF (frozenNames vg outF)
    repack := repack outF
    varGroups := vg
    rngGroups := groupBy s.rngs rngF }

/-- `pack(fn, in_filters, out_filters, rng_filters)(scope, …)`.  `inner` returns the value, the out
variable groups and the content of the shared counter dict when it returns. -/
def pack (inF outF rngF : List LFilter)
    (inner : PackEnv → Counters → Except Err (α × List Vars × Counters)) (s : ScopeSt) : Except Err (α × ScopeSt) :=
  match inner (partialPack inF outF rngF s) s.counters with
  | .error e => .error e
  | .ok (y, out, ctr) =>
    match publish { s with counters := ctr } out with
    | .error e => .error e
    | .ok s' => .ok (y, s')

/-- the wrapper every identity-like transform traces: build the inner scope, run `fn`, repack -/
def runInner (attrs : List (String × Int)) (f : Fn) (args : List Int) (mf : LFilter)
    (pe : PackEnv) (vg : List Vars) (rg : List Rngs) (ctr : Counters) : Except Err (Out × List Vars × Counters) :=
  match runFn attrs f args (pe.scopeFn vg rg mf ctr) with
  | .error e => .error e
  | .ok (y, i') =>
    match pe.repack i' with
    | .error e => .error e
    | .ok out => .ok (y, out, i'.counters)

/-- `lift.checkpoint(fn, variables, rngs)` (A-REMAT: `jax.checkpoint` is the identity on the traced
function), `lift.jit` without its caches (A-JIT), and the shape of every `pack`-with-one-run transform:
arbitrary in/out/rng filter lists and `mutable_filter`. -/
def liftId (inF outF rngF : List LFilter) (mf : LFilter) (attrs : List (String × Int)) (f : Fn)
    (args : List Int) (s : ScopeSt) : Except Err (Out × ScopeSt) :=
  pack inF outF rngF (fun pe ctr => runInner attrs f args mf pe pe.varGroups pe.rngGroups ctr) s

def remat (variables rngs : LFilter) := liftId [variables] [variables] [rngs] .tt

/-- `{**x, **init_x}` -/
def mergeVars (x initX : Vars) : Vars := initX.foldl (fun acc kv => ainsert kv.1 kv.2 acc) x

/-- `lift.map_variables(fn, mapped, id, id, init, mutable, rngs, variables)` with identity maps.
`keepReadOnly = true` is the code after the repair of finding F15 (/repo acbaa69): after the initialisation pass
the target group is the old group updated with what `repack` returned; `false` is the code as shipped, where the
target group was *replaced* by `repack`'s result, which holds only the mutable collections. -/
def mapVariablesIdGen (keepReadOnly : Bool) (mapped : LFilter) (init mutable : Bool) (rngs variables : LFilter)
    (attrs : List (String × Int)) (f : Fn) (args : List Int) (s : ScopeSt) : Except Err (Out × ScopeSt) :=
  let targetOut := mutable || init
  let inF := [mapped, variables]
  let outF := if targetOut then inF else [LFilter.ff, subtract variables mapped]
  let mf := if targetOut then LFilter.tt else subtract LFilter.tt mapped
  pack inF outF [rngs] (fun pe ctr =>
    match pe.varGroups with
    | [target, vars] =>
      if init then
        -- `scopes = scope_fn((target, variables), rng_groups)`; run `fn` once to initialise when anything is mutable
        let sc0 := pe.scopeFn [target, vars] pe.rngGroups .tt ctr
        if !(isFilterEmpty sc0.mutable) then
          match runFn attrs f args sc0 with
          | .error e => .error e
          | .ok (_, i0) =>
            match pe.repack i0 with
            | .error e => .error e
            | .ok out0 =>
              match out0 with
              | [target', _] =>
                runInner attrs f args mf pe [if keepReadOnly then mergeVars target target' else target', vars]
                  pe.rngGroups i0.counters
              | _ => .error .structMismatch
        else runInner attrs f args mf pe [target, vars] pe.rngGroups ctr
      else runInner attrs f args mf pe [target, vars] pe.rngGroups ctr
    | _ => .error .structMismatch) s

def mapVariablesId := mapVariablesIdGen true
def mapVariablesIdOrig := mapVariablesIdGen false

/-! ## Lifted control flow  (flax/core/lift.py:1060-1303)

A-COND: `lax.cond(p, f, g, x)` / `lax.switch(i, fs, x)` trace **every** branch, reject branches whose
results differ in tree structure, and return the result of the selected branch (index clamped into range).
A-WHILE: `lax.while_loop(c, b, x)` traces `c` and `b` once on `x` (any error they raise, and a carry whose
structure changes, is raised before the loop runs), then iterates.  The model needs fuel. -/

/-- tree structure of a branch result: number of values, and the names in the out variable groups -/
def shapeOf (r : Out × List Vars × Counters) : Nat × List (List (String × List String)) :=
  (r.1.vals.length, r.2.1.map (fun g => g.map (fun kv => (kv.1, keys kv.2))))

def clampIdx (i : Int) (n : Nat) : Nat :=
  if i < 0 then 0 else if i.toNat ≥ n then n - 1 else i.toNat

/-- all branch results, or the first error in tracing order -/
def sequence : List (Except Err β) → Except Err (List β)
  | [] => .ok []
  | .error e :: _ => .error e
  | .ok v :: rs =>
    match sequence rs with
    | .error e => .error e
    | .ok vs => .ok (v :: vs)

/-- `lax.switch` over already-evaluated branches (they are pure functions of the same operands) -/
def laxSwitch (i : Int) (rs : List (Except Err (Out × List Vars × Counters))) : Except Err (Out × List Vars × Counters) :=
  match sequence rs with
  | .error e => .error e            -- an error in any traced branch surfaces
  | .ok [] => .error .noBranch
  | .ok (v0 :: vs) =>
    if (v0 :: vs).all (fun v => decide (shapeOf v = shapeOf v0)) then
      match (v0 :: vs)[clampIdx i (v0 :: vs).length]? with
      | some r => .ok r
      | none => .error .noBranch
    else .error .structMismatch

/-- `lax.cond(pred, t, f, *operands)`: traces `t`, then `f`; same structure required; selects -/
def laxCond (p : Bool) (rt rf : Except Err (Out × List Vars × Counters)) : Except Err (Out × List Vars × Counters) :=
  match rt with
  | .error e => .error e
  | .ok vt =>
    match rf with
    | .error e => .error e
    | .ok vf => if shapeOf vt = shapeOf vf then .ok (if p then vt else vf) else .error .structMismatch

/-- `lift.switch(index, branches, scope, *operands, variables, rngs)`.
Every branch is traced on a fresh inner scope that shares the counter dict; bodies here draw no rngs
(`Prog.rng` inside traced branches advances the shared counters once per *traced* branch — not promised by
the property and excluded by the theorems' hypotheses), so the counters are passed unchanged. -/
def liftSwitch (variables rngs : LFilter) (attrs : List (String × Int)) (index : Int) (branches : List Fn)
    (args : List Int) (s : ScopeSt) : Except Err (Out × ScopeSt) :=
  pack [variables] [variables] [rngs] (fun pe ctr =>
    laxSwitch index (branches.map (fun b => runInner attrs b args .tt pe pe.varGroups pe.rngGroups ctr))) s

def liftCond (variables rngs : LFilter) (attrs : List (String × Int)) (pred : Bool) (t f : Fn)
    (args : List Int) (s : ScopeSt) : Except Err (Out × ScopeSt) :=
  pack [variables] [variables] [rngs] (fun pe ctr =>
    laxCond pred (runInner attrs t args .tt pe pe.varGroups pe.rngGroups ctr)
      (runInner attrs f args .tt pe pe.varGroups pe.rngGroups ctr)) s

/-- how `lax.cond` (and Python's `if pred:`) read a numeric predicate: truthiness, `pred != 0` -/
def predOfInt (p : Int) : Bool := decide (p ≠ 0)

/-- the Python control flow the lifted forms are compared with -/
def pyCond (attrs : List (String × Int)) (pred : Bool) (t f : Fn) (args : List Int) (s : ScopeSt) :=
  if pred then runFn attrs t args s else runFn attrs f args s

def pySwitch (attrs : List (String × Int)) (index : Int) (branches : List Fn) (args : List Int) (s : ScopeSt) :
    Except Err (Out × ScopeSt) :=
  match branches[clampIdx index branches.length]? with
  | some b => runFn attrs b args s
  | none => .error .noBranch

/-- loop state of `lift.while_loop`: `(carry_variables, carry)`; the iteration counter `i` only feeds
split rngs, which the modelled bodies do not use -/
abbrev LoopSt := Vars × List Int

/-- `cond_wrapper`: a scope with `mutable_filter=False`; the predicate is `first returned value > 0` -/
def whileCondInner (attrs : List (String × Int)) (condFn : Fn) (pe : PackEnv) (bc : Vars) (ctr : Counters)
    (c : LoopSt) : Except Err Bool :=
  match runFn attrs condFn c.2 (pe.scopeFn [c.1, bc] pe.rngGroups .ff ctr) with
  | .error e => .error e
  | .ok (y, _) =>
    match y.vals with
    | v :: _ => .ok (decide (v > 0))
    | [] => .error .badExpr

/-- `body_wrapper` -/
def whileBodyInner (attrs : List (String × Int)) (bodyFn : Fn) (pe : PackEnv) (bc : Vars) (ctr : Counters)
    (c : LoopSt) : Except Err LoopSt :=
  match runInner attrs bodyFn c.2 .tt pe [c.1, bc] pe.rngGroups ctr with
  | .error e => .error e
  | .ok (y, out, _) =>
    match out with
    | [cv] => .ok (cv, y.vals)
    | _ => .error .structMismatch

def iterate (cond : σ → Except Err Bool) (body : σ → Except Err σ) : Nat → σ → Except Err σ
  | 0, _ => .error .diverged
  | fuel + 1, c =>
    match cond c with
    | .error e => .error e
    | .ok false => .ok c
    | .ok true =>
      match body c with
      | .error e => .error e
      | .ok c' => iterate cond body fuel c'

def loopShape (c : LoopSt) : List (String × List String) × Nat := (c.1.map (fun kv => (kv.1, keys kv.2)), c.2.length)

/-- A-WHILE -/
def laxWhile (cond : LoopSt → Except Err Bool) (body : LoopSt → Except Err LoopSt) (fuel : Nat) (c0 : LoopSt) :
    Except Err LoopSt :=
  match cond c0 with
  | .error e => .error e
  | .ok _ =>
    match body c0 with
    | .error e => .error e
    | .ok c1 => if loopShape c1 = loopShape c0 then iterate cond body fuel c0 else .error .structMismatch

/-- `lift.while_loop(cond_fn, body_fn, scope, init, carry_variables, broadcast_variables)` (no split rngs) -/
def liftWhile (carryF broadcastF : LFilter) (attrs : List (String × Int)) (condFn bodyFn : Fn) (fuel : Nat)
    (init : List Int) (s : ScopeSt) : Except Err (List Int × ScopeSt) :=
  pack [carryF, broadcastF] [carryF] [] (fun pe ctr =>
    match pe.varGroups with
    | [cv, bc] =>
      match laxWhile (whileCondInner attrs condFn pe bc ctr) (whileBodyInner attrs bodyFn pe bc ctr) fuel (cv, init) with
      | .error e => .error e
      | .ok (cv', carry) => .ok (carry, [cv'], ctr)
    | _ => .error .structMismatch) s

/-- `c = init; while cond_fn(mdl, c): c = body_fn(mdl, c)` on the module itself -/
def pyWhile (attrs : List (String × Int)) (condFn bodyFn : Fn) : Nat → List Int → ScopeSt → Except Err (List Int × ScopeSt)
  | 0, _, _ => .error .diverged
  | fuel + 1, c, s =>
    match runFn attrs condFn c s with
    | .error e => .error e
    | .ok (y, s1) =>
      match y.vals with
      | [] => .error .badExpr
      | v :: _ =>
        if v > 0 then
          match runFn attrs bodyFn c s1 with
          | .error e => .error e
          | .ok (y2, s2) => pyWhile attrs condFn bodyFn fuel y2.vals s2
        else .ok (c, s1)

/-! ## nn.jit: `fork_rngs`, fingerprint, trace cache, counter-delta cache
(flax/linen/transforms.py:439-657, flax/core/lift.py:1489-1692) -/

/-- `fork_rngs(module)`: every stream of the scope is replaced by a key drawn from it (the counters advance
by one each); the streams are restored after the call, the counters are not -/
def forkGo : List String → ScopeSt → Rngs → Except Err ScopeSt
  | [], s, acc => .ok { s with rngs := acc }
  | nm :: rest, s, acc =>
    match s.makeRng nm with
    | .error e => .error e
    | .ok (k, s') => forkGo rest s' (acc ++ [(nm, ⟨k, []⟩)])

def forkRngs (s : ScopeSt) : Except Err ScopeSt := forkGo (keys s.rngs) s []

/-- `lift._hashable_filter` -/
def hashableFilter : LFilter → LFilter
  | .name s => .names [s]
  | .names xs => .names xs
  | .deny f => .deny (hashableFilter f)
  | .tt => .tt
  | .ff => .ff

/-- the per-module `_state` fields `_fingerprint_recursive` reads -/
structure ModState where
  inCompact : Bool
  inSetup : Bool
  setupCalled : Bool
  isInitialized : Bool
  autonameCursor : List (String × Nat)
  deriving Repr, DecidableEq, Inhabited

/-- everything a jitted method's behaviour can depend on besides the traced inputs.  The first block is what
`_module_fingerprint` reads; `modName` and `parentPath` exist on the module but are not fingerprinted. -/
structure JitEnv where
  cls : String                              -- `type(obj)`
  attrs : List (String × Int)               -- dataclass fields except parent / name
  state : ModState
  mutable : LFilter                         -- `scope.mutable`
  flags : List (String × Int)               -- `scope.flags`
  counters : Counters                       -- `scope.rng_counters` (after `fork_rngs`)
  reservations : List (String × List String)
  modName : Option String
  parentPath : List String
  deriving Repr, Inhabited

/-- the static argument of the `jax.jit`-ted function: `(tuple(_hashable_filter(inner.mutable)), module fingerprint)` -/
structure Fingerprint where
  innerMutable : LFilter
  cls : String
  attrs : List (String × Int)
  state : ModState
  scopeMutable : LFilter
  flags : List (String × Int)
  counters : Counters
  reservations : List (String × List String)
  deriving Repr, DecidableEq, Inhabited

/-- the inner scope's `mutable` for `lift.jit(fn, variables, rngs)` -/
def jitInnerMutable (variables : LFilter) (outerMutable : LFilter) : LFilter :=
  intersect (intersect outerMutable (unionAll [variables])) .tt

def fingerprint (variables : LFilter) (e : JitEnv) : Fingerprint :=
  { innerMutable := hashableFilter (jitInnerMutable variables e.mutable)
    cls := e.cls, attrs := e.attrs, state := e.state
    scopeMutable := e.mutable     -- `_fingerprint_recursive` keeps a DenyList / str / tuple structurally
    flags := e.flags, counters := e.counters, reservations := e.reservations }

/-- CPython's `hash` on small ints: the identity, except that `-1` is reserved (`hash(-1) == -2`) -/
def pyHashInt (n : Int) : Int := if n = -1 then -2 else n

/-- what `_HashableProxy.__eq__` compared **as shipped** (before /repo cfc8239): only `hash(fingerprint)`; for the
attribute part of the tuple that is determined by the hashes of the values.  The repaired proxy compares the
fingerprint tuples themselves, which is what `jitCall` models (`Fingerprint` equality). -/
def attrsHashOrig (attrs : List (String × Int)) : List (String × Int) := attrs.map (fun kv => (kv.1, pyHashInt kv.2))

/-- the dynamic inputs of the jitted function: variable groups, rng groups, arguments -/
structure JitIn where
  vars : Vars
  rngs : Rngs
  args : List Int
  deriving Repr, DecidableEq, Inhabited

/-- tree structure of the inputs (part of jax.jit's cache key, A-JIT) -/
def JitIn.shape (i : JitIn) : List (String × List String) × List String × Nat :=
  (i.vars.map (fun kv => (kv.1, keys kv.2)), keys i.rngs, i.args.length)

/-- the scope a jit call runs on, rebuilt from the environment and the dynamic inputs -/
def jitScope (e : JitEnv) (i : JitIn) : ScopeSt :=
  { vars := i.vars, mutable := e.mutable, frozen := [], rngs := i.rngs, counters := e.counters }

/-- what tracing computes: the function `jitted(fingerprint, variable_groups, rng_groups, *args)` denotes for
environment `e` (the python body runs with `e`'s attributes, mutability and counters baked in) -/
def traceJit (variables rngs : LFilter) (f : Fn) (e : JitEnv) (i : JitIn) : Except Err (Out × ScopeSt) :=
  liftId [variables] [variables] [rngs] .tt e.attrs f i.args (jitScope e i)

/-- jax.jit's cache for one jitted function: (static args, input structure) ↦ traced function (A-JIT) -/
abbrev TraceKey := Fingerprint × (List (String × List String) × List String × Nat)
abbrev TraceCache := List (TraceKey × (JitIn → Except Err (Out × ScopeSt)))

def TraceCache.find (c : TraceCache) (k : TraceKey) : Option (JitIn → Except Err (Out × ScopeSt)) :=
  match c with
  | [] => none
  | (k', t) :: r => if k' = k then some t else TraceCache.find r k

/-- one call through the trace cache: result, updated cache, and whether python code ran (a trace) -/
def jitCall (variables rngs : LFilter) (f : Fn) (cache : TraceCache) (e : JitEnv) (i : JitIn) :
    Except Err (Out × ScopeSt) × TraceCache × Bool :=
  let k : TraceKey := (fingerprint variables e, i.shape)
  match cache.find k with
  | some t => (t i, cache, false)
  | none =>
    let t := traceJit variables rngs f e
    (t i, (k, t) :: cache, true)

/-- a whole call history through one jitted function -/
def jitHistory (variables rngs : LFilter) (f : Fn) : TraceCache → List (JitEnv × JitIn) →
    List (Except Err (Out × ScopeSt)) × Nat
  | _, [] => ([], 0)
  | cache, (e, i) :: rest =>
    let (r, cache', traced) := jitCall variables rngs f cache e i
    let (rs, n) := jitHistory variables rngs f cache' rest
    (r :: rs, n + (if traced then 1 else 0))

/-! ### rng-counter deltas (`_restore_rng_counters`)

On a trace the python body advances the shared counters; on a cache hit it does not run, so `lift.jit`
replays the recorded delta.  `keyByFn = false` is the code as it stands (the cache is keyed by the fingerprint
alone and shared by every jitted function of the thread, finding F11); `keyByFn = true` is one cache per
transformed function. -/

abbrev DeltaCache := List ((Nat × Fingerprint) × Counters)

def DeltaCache.find (c : DeltaCache) (k : Nat × Fingerprint) : Option Counters :=
  match c with
  | [] => none
  | (k', d) :: r => if k' = k then some d else DeltaCache.find r k

/-- `CountsHolder.sub`: for every key of `new`, `new[k] - old.get(k, 0)` -/
def countsSub (new old : Counters) : Counters :=
  new.map (fun kv => (kv.1, kv.2 - (alookup kv.1 old).getD 0))

/-- `CountsHolder.add` followed by `set_from_dict(counters, …)`: for every key of the delta, set
`counters[k] = delta[k] + old.get(k, 0)` -/
def countsRestore (delta old : Counters) : Counters :=
  delta.foldl (fun acc kv => ainsert kv.1 (kv.2 + (alookup kv.1 old).getD 0) acc) old

/-- `_restore_rng_counters(scopes, fingerprint, capture_old_counts)`: `ran` tells whether the python body ran
(then `now` already holds the advanced counters) -/
def restoreCounters (keyByFn : Bool) (fid : Nat) (fp : Fingerprint) (dc : DeltaCache) (old now : Counters) :
    Counters × DeltaCache :=
  let k := (if keyByFn then fid else 0, fp)
  match dc.find k with
  | none => (now, (k, countsSub now old) :: dc)
  | some d => (countsRestore d old, dc)


/-! ### a whole `nn.jit` call: fork, fingerprint, trace cache, counter restore, un-fork -/

structure JitCaches where
  tc : TraceCache      -- jax.jit's cache of this transformed function
  dc : DeltaCache      -- `lift._side_effect_cache` (thread-global in the code)

/-- one call of a jitted method on scope `s` of a module with class `cls`, attributes `attrs`, state `mst` -/
def nnJitCall (keyByFn : Bool) (fid : Nat) (variables rngs : LFilter) (f : Fn) (cls : String) (mst : ModState)
    (st : JitCaches) (attrs : List (String × Int)) (args : List Int) (s : ScopeSt) :
    Except Err (Out × ScopeSt) × JitCaches × Bool :=
  match forkRngs s with
  | .error e => (.error e, st, false)
  | .ok s1 =>
    let e : JitEnv :=
      { cls := cls, attrs := attrs, state := mst, mutable := s1.mutable, flags := [], counters := s1.counters
        reservations := [], modName := none, parentPath := [] }
    let i : JitIn := { vars := s1.vars, rngs := s1.rngs, args := args }
    match jitCall variables rngs f st.tc e i with
    | (.error err, _, traced) => (.error err, st, traced)       -- an exception while tracing caches nothing
    | (.ok (y, s2), tc', traced) =>
      let now := if traced then s2.counters else s1.counters
      let (ctr, dc') := restoreCounters keyByFn fid (fingerprint variables e) st.dc s1.counters now
      (.ok (y, { s2 with rngs := s.rngs, counters := ctr, frozen := s.frozen }), ⟨tc', dc'⟩, traced)


/-! ### the rng-counter dict as a heap object: nesting and sharing by reference

`scope.rng_counters` is a nested dict: stream ↦ count, and `(child_rng_token, name)` ↦ the counter dict of the child
scope `name` — the *same object* the already-bound child scope holds (`Scope.push`).  `_restore_rng_counters`
replays, on a jit cache hit, the counts a trace would have produced: `CountsHolder.make` (flatten), `sub`/`add`
(`defaultdict(int)` arithmetic per flat key), `unflat`, and `set_from_dict`, which must write *into* the existing
nested dicts.  One level of children is modelled; counts are Python ints. -/

abbrev Cnt := List (String × Int)

/-- the counter dict of a scope with its children's dicts as separate heap objects (address = index in `objs`;
allocation appends) -/
structure CHeap where
  root : Cnt                          -- stream ↦ count in the scope's own dict
  kids : List (String × Nat)          -- child token ↦ address of the child's dict
  objs : List Cnt
  deriving Repr, DecidableEq, Inhabited

/-- a nested counter dict as a value (what `unflat` builds, what `flatten_dict` reads) -/
structure CVal where
  root : Cnt
  kids : List (String × Cnt)
  deriving Repr, DecidableEq, Inhabited

/-- what a scope bound to the dict object at address `a` reads -/
def CHeap.obj (h : CHeap) (a : Nat) : Cnt := match h.objs[a]? with | some c => c | none => []

/-- `CountsHolder.make(scope.rng_counters)` (the flat dict, grouped by first path component) -/
def CHeap.read (h : CHeap) : CVal := ⟨h.root, h.kids.map (fun ka => (ka.1, h.obj ka.2))⟩

def cntGet (c : Cnt) (k : String) : Int := match alookup k c with | some v => v | none => 0   -- defaultdict(int)

/-- `CountsHolder.sub`: for every key of `new`, `new[k] - old[k]` -/
def cntSub (new old : Cnt) : Cnt := new.map (fun kv => (kv.1, kv.2 - cntGet old kv.1))
/-- `CountsHolder.add`: for every key of the delta, `delta[k] + old[k]` -/
def cntAdd (d old : Cnt) : Cnt := d.map (fun kv => (kv.1, kv.2 + cntGet old kv.1))

def kidGet (v : CVal) (k : String) : Cnt := match alookup k v.kids with | some c => c | none => []

def CVal.sub (new old : CVal) : CVal := ⟨cntSub new.root old.root, new.kids.map (fun kc => (kc.1, cntSub kc.2 (kidGet old kc.1)))⟩
def CVal.add (d old : CVal) : CVal := ⟨cntAdd d.root old.root, d.kids.map (fun kc => (kc.1, cntAdd kc.2 (kidGet old kc.1)))⟩

/-- `for k in updates: original[k] = updates[k]` on a leaf-level dict -/
def mergeInto (base u : List (String × α)) : List (String × α) := u.foldl (fun acc kv => ainsert kv.1 kv.2 acc) base

/-- one nested key of `set_from_dict(original, updates)`: a missing child dict is stored (a new object); an existing
one is updated **in place** by the recursive call -/
def setKid (h : CHeap) (kid : String) (u : Cnt) : CHeap :=
  match alookup kid h.kids with
  | none => { h with kids := h.kids ++ [(kid, h.objs.length)], objs := h.objs ++ [u] }
  | some a => { h with objs := h.objs.set a (mergeInto (h.obj a) u) }

/-- `lift.set_from_dict(scope.rng_counters, updates)` -/
def setFromDict (h : CHeap) (u : CVal) : CHeap :=
  u.kids.foldl (fun h kc => setKid h kc.1 kc.2) { h with root := mergeInto h.root u.root }

/-- the non-recursive variant `original.update(updates)`: every nested dict is *replaced* by the fresh dict of
`updates` (same values, new object) -/
def updKid (h : CHeap) (kid : String) (u : Cnt) : CHeap :=
  { h with kids := ainsert kid h.objs.length h.kids, objs := h.objs ++ [u] }

def dictUpdate (h : CHeap) (u : CVal) : CHeap :=
  u.kids.foldl (fun h kc => updKid h kc.1 kc.2) { h with root := mergeInto h.root u.root }

/-- `_restore_rng_counters` on a cache hit: `delta` was recorded when the function was traced, `old` is captured
before this call -/
def restoreHeap (h : CHeap) (delta : CVal) : CHeap := setFromDict h (delta.add h.read)
def restoreHeapUpdate (h : CHeap) (delta : CVal) : CHeap := dictUpdate h (delta.add h.read)

end Flax.Lift
