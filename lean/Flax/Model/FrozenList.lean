/-
Companion heap model for one clause of C15: **`unfreeze` shares no mutable container with the
FrozenDict it was given** — when the FrozenDict holds lists / tuples (lists of per-layer param dicts,
dicts inside lists inside dicts, tuples of lists).

`Model/Frozen.lean` treats lists and tuples as opaque leaves, which is how `_prepare_freeze`,
`__getitem__`, `copy` and `pop` treat them (they never look inside a non-dict, so a list stored in a
FrozenDict is the caller's list object).  `unfreeze(fd)` is different: it is
`jax.tree_util.tree_map(lambda y: y, fd._dict)`, and jax rebuilds **every pytree node** — dict, list,
tuple, and FrozenDict (through its registered flatten/unflatten) — as a new object; only leaves
(numbers, arrays, None …) are passed through.  This file models exactly that walk on a heap with list
and tuple objects.  Addresses are `Nat`, allocation is append: fresh = `≥ old length`.

Core Lean only (linked into the driver).
-/

namespace Flax.FrozenL

abbrev Addr := Nat

inductive Val where
  | leaf (n : Int)
  | ref (a : Addr)
  deriving DecidableEq, Repr, Inhabited

inductive Obj where
  | dict (kvs : List (String × Val))
  | list (xs : List Val)
  | tuple (xs : List Val)
  | frozen (inner : Addr)
  deriving DecidableEq, Repr, Inhabited

abbrev Heap := List Obj

/-- children of an object (the values it refers to) -/
def Obj.children : Obj → List Val
  | .dict kvs => kvs.map (·.2)
  | .list xs => xs
  | .tuple xs => xs
  | .frozen i => [.ref i]

/-- thread the heap through a function applied to every value of a list, in order -/
def mapVals (f : Heap → Val → Option (Heap × Val)) : Heap → List Val → Option (Heap × List Val)
  | h, [] => some (h, [])
  | h, v :: rest =>
    match f h v with
    | none => none
    | some (h1, v') =>
      match mapVals f h1 rest with
      | none => none
      | some (h2, rest') => some (h2, v' :: rest')

/-- which pytree nodes a walk rebuilds -/
inductive Walk where
  | all          -- `tree_map(lambda y: y, x)`: every dict / list / tuple / FrozenDict node
  | dictsOnly    -- NOT shipped (kept for the counter-example): `is_leaf=lambda y: not isinstance(y, dict)`
  deriving DecidableEq, Repr

/-- `jax.tree_util.tree_map(lambda y: y, v)` (`none`: out of fuel / dangling) -/
def rebuild (w : Walk) : Nat → Heap → Val → Option (Heap × Val)
  | _, h, .leaf n => some (h, .leaf n)
  | 0, _, .ref _ => none
  | n + 1, h, .ref a =>
    match h[a]? with
    | none => none
    | some (.dict kvs) =>
      match mapVals (rebuild w n) h (kvs.map (·.2)) with
      | none => none
      | some (h1, vs) => some (h1 ++ [.dict ((kvs.map (·.1)).zip vs)], .ref h1.length)
    | some (.list xs) =>
      match w with
      | .dictsOnly => some (h, .ref a)          -- a non-dict is a leaf for this walk: returned as it is
      | .all =>
        match mapVals (rebuild w n) h xs with
        | none => none
        | some (h1, vs) => some (h1 ++ [.list vs], .ref h1.length)
    | some (.tuple xs) =>
      match w with
      | .dictsOnly => some (h, .ref a)
      | .all =>
        match mapVals (rebuild w n) h xs with
        | none => none
        | some (h1, vs) => some (h1 ++ [.tuple vs], .ref h1.length)
    | some (.frozen i) =>
      match w with
      | .dictsOnly => some (h, .ref a)
      | .all =>
        match rebuild w n h (.ref i) with
        | none => none
        | some (h1, .ref j) => some (h1 ++ [.frozen j], .ref h1.length)
        | some (_, .leaf _) => none

/-- `unfreeze(fd)` for a FrozenDict object at `f`: `tree_map(lambda y: y, fd._dict)` -/
def unfreeze (w : Walk) (h : Heap) (f : Addr) : Option (Heap × Val) :=
  match h[f]? with
  | some (.frozen i) => rebuild w (h.length + 1) h (.ref i)
  | _ => none

/-- addresses of all container objects reachable from `v` (through dicts, lists, tuples and into FrozenDicts) -/
def reachList : Nat → Heap → Val → List Addr
  | _, _, .leaf _ => []
  | 0, _, .ref _ => []
  | n + 1, h, .ref a =>
    match h[a]? with
    | none => []
    | some o => a :: (o.children.map (reachList n h)).flatten

end Flax.FrozenL
