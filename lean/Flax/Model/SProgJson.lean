/-
JSON codec and line-protocol handler for the Scope / ModuleTree model, shared by the C01 and C02
drivers (and available to later properties that extend `SProg`).

Wire format
  Expr    : int | "x" | {"l": i} | {"+": [a, b]} | {"*": [a, b]}
  SProg   : a JSON list of statements (folded into `seq … skip`), each statement an object with "op":
            bind{e} ret{e} param{n,shape,init} variable{c,n,shape,e} get{c,n} put{c,n,e[,rel,more]} sow{c,n,e}
            perturb{c,n,e} child{cls,name|null,body} call{slot,e[,w]}; a param shape entry is a number or "W"
            (`x.shape[-1:]`); put with "rel"/"more" is one dict-valued put_variable (more = [[rel,n,e],…])
  Val     : {"t": shape, "d": ints} | {"tup": [{"t":…,"d":…}, …]}
  Vars    : {"cols": [..], "vars": [[path, val], …]}
  LFilter : as in the C14 driver (true | false | "name" | [names] | {"deny": f})
  Cfg     : {"style": "core"|"compact"|"setup", "sep": "_", "base": 0, "attr": "k", "capture": false}
-/
import Flax.Base.Proto
import Flax.Model.ModuleTree
import Flax.Model.CloneCache

namespace Flax.SProgJson
open Lean Flax.Proto
open Flax.Filter (LFilter)
open Flax.Scope Flax.ModuleTree

def bad {α} : Except String α := .error "bad-args"

def field (j : Json) (k : String) : Except String Json :=
  (j.getObjVal? k).mapError (fun _ => "bad-args")

partial def lfOfJson : Json → Except String LFilter
  | .bool true => .ok .tt
  | .bool false => .ok .ff
  | .str s => .ok (.name s)
  | .arr a => do
      let xs ← a.toList.mapM asStr
      .ok (.names xs)
  | j@(.obj _) => do
      let d ← field j "deny"
      let f ← lfOfJson d
      .ok (.deny f)
  | _ => bad

partial def exprOfJson : Json → Except String Expr
  | .str "x" => .ok .arg
  | j@(.num _) => do .ok (.const (← asInt j))
  | j@(.obj _) =>
    match j.getObjVal? "l", j.getObjVal? "+", j.getObjVal? "*" with
    | .ok i, _, _ => do .ok (.loc (← asNat i))
    | _, .ok ab, _ => do .ok (.add (← exprOfJson (← argAt ab 0)) (← exprOfJson (← argAt ab 1)))
    | _, _, .ok ab => do .ok (.mul (← exprOfJson (← argAt ab 0)) (← exprOfJson (← argAt ab 1)))
    | _, _, _ => bad
  | _ => bad

def dimOfJson : Json → Except String Dim
  | .str "W" => .ok .argLast
  | j => do .ok (.lit (← asNat j))

def optNat (j : Except String Json) : Except String (Option Nat) :=
  match j with
  | .ok .null => .ok none
  | .ok v => do .ok (some (← asNat v))
  | .error _ => .ok none

def optStr (j : Json) : Except String (Option String) :=
  match j with
  | .null => .ok none
  | .str s => .ok (some s)
  | _ => bad

def tensorOfJson (j : Json) : Except String (List Nat × List Int) := do
  .ok (← asList asNat (← field j "t"), ← asList asInt (← field j "d"))

def valOfJson (j : Json) : Except String Val :=
  match j.getObjVal? "tup" with
  | .ok xs => do .ok (.tup (← asList tensorOfJson xs))
  | .error _ => do
      let (sh, d) ← tensorOfJson j
      .ok (.tensor sh d)

def intJson (i : Int) : Json := Json.num (JsonNumber.fromInt i)

def tensorToJson (sh : List Nat) (d : List Int) : Json :=
  Json.mkObj [("t", .arr (sh.map (fun (n : Nat) => Json.num (JsonNumber.fromNat n))).toArray), ("d", .arr (d.map intJson).toArray)]

def valToJson : Val → Json
  | .tensor sh d => tensorToJson sh d
  | .tup xs => Json.mkObj [("tup", .arr (xs.map (fun p => tensorToJson p.1 p.2)).toArray)]

def pathToJson (p : Path) : Json := .arr (p.map Json.str).toArray

def varsOfJson (j : Json) : Except String Vars := do
  let cols ← asList asStr (← field j "cols")
  let vars ← asList (fun kv => do
      let p ← asList asStr (← argAt kv 0)
      let v ← valOfJson (← argAt kv 1)
      pure (p, v)) (← field j "vars")
  .ok { cols, vars }

mutual
  partial def stmtOfJson (j : Json) : Except String SProg := do
    let op ← asStr (← field j "op")
    match op with
    | "bind" => do .ok (.bind (← exprOfJson (← field j "e")))
    | "ret" => do .ok (.ret (← exprOfJson (← field j "e")))
    | "param" => do
        .ok (.param (← asStr (← field j "n")) (← asList dimOfJson (← field j "shape")) (← asInt (← field j "init")))
    | "variable" => do
        .ok (.var (← asStr (← field j "c")) (← asStr (← field j "n")) (← asList asNat (← field j "shape"))
              (← exprOfJson (← field j "e")))
    | "get" => do .ok (.get (← asStr (← field j "c")) (← asStr (← field j "n")))
    | "put" => do
        -- optional "rel" (path below this scope) and "more" (further leaves of the same dict-valued write)
        let c ← asStr (← field j "c")
        let rel ← match j.getObjVal? "rel" with
          | .ok r => asList asStr r
          | .error _ => pure []
        let first := SProg.put c rel (← asStr (← field j "n")) (← exprOfJson (← field j "e"))
        let more ← match j.getObjVal? "more" with
          | .ok m => asList (fun t => do
              pure (SProg.put c (← asList asStr (← argAt t 0)) (← asStr (← argAt t 1)) (← exprOfJson (← argAt t 2)))) m
          | .error _ => pure []
        .ok (more.foldl (fun acc st => SProg.seq acc st) first)
    | "sow" => do .ok (.sow (← asStr (← field j "c")) (← asStr (← field j "n")) (← exprOfJson (← field j "e")))
    | "perturb" => do
        .ok (.perturb (← asStr (← field j "c")) (← asStr (← field j "n")) (← exprOfJson (← field j "e")))
    | "child" => do
        .ok (.child (← asStr (← field j "cls")) (← optStr (← field j "name")) (← progOfJson (← field j "body")))
    | "nested" => do
        .ok (.nested (← progOfJson (← field j "body")) (← lfOfJson (← field j "m")) (← varsOfJson (← field j "vars"))
              (← exprOfJson (← field j "e")))
    | "call" => do .ok (.call (← asNat (← field j "slot")) (← exprOfJson (← field j "e")) (← optNat (j.getObjVal? "w")))
    | _ => bad

  partial def progOfJson (j : Json) : Except String SProg := do
    let stmts ← (← arr j).toList.mapM stmtOfJson
    .ok (stmts.foldr (fun st acc => SProg.seq st acc) SProg.skip)
end

def varsToJson (V : Vars) : Json :=
  Json.mkObj [("cols", .arr (V.cols.map Json.str).toArray),
              ("vars", .arr (V.vars.map (fun kv => Json.arr #[pathToJson kv.1, valToJson kv.2])).toArray)]

def cfgOfJson (j : Json) : Except String Cfg := do
  let style ← match (← asStr (← field j "style")) with
    | "core" => pure Style.core
    | "compact" => pure Style.compact
    | "setup" => pure Style.setup
    | _ => bad
  let sep ← match j.getObjVal? "sep" with
    | .ok s => asStr s
    | .error _ => pure "_"
  let base ← match j.getObjVal? "base" with
    | .ok s => asNat s
    | .error _ => pure 0
  let attr ← match j.getObjVal? "attr" with
    | .ok s => asStr s
    | .error _ => pure "k"
  let capture ← match j.getObjVal? "capture" with
    | .ok s => asBool s
    | .error _ => pure false
  .ok { style, sep, base, attrPrefix := attr, capture }

def leakOpOfJson (j : Json) : Except String LeakOp := do
  match (← asStr (← field j "op")) with
  | "put" => pure (.put (← asStr (← field j "c")) (← asStr (← field j "n")) (.tensor [] [← asInt (← field j "v")]))
  | "get" => pure (.get (← asStr (← field j "c")) (← asStr (← field j "n")))
  | "variable" => pure (.var (← asStr (← field j "c")) (← asStr (← field j "n")) (.tensor [] [← asInt (← field j "v")]))
  | "param" => pure (.param (← asStr (← field j "n")) (← asList asNat (← field j "shape")) (← asInt (← field j "init")))
  | "push" => pure (.push (← asStr (← field j "name")))
  | "rewound" => pure .rewound
  | _ => bad

def errName : Err → String
  | .nameInUse => "nameInUse"
  | .modifyImmutable => "modifyImmutable"
  | .collectionNotFound => "collectionNotFound"
  | .paramNotFound => "paramNotFound"
  | .variableNotFound => "variableNotFound"
  | .paramShape => "paramShape"
  | .noRng => "noRng"
  | .perturbMissing => "perturbMissing"
  | .invalidStructure => "invalidStructure"
  | .sowOnLeaf => "sowOnLeaf"
  | .unsupported => "unsupported"
  | .badSlot => "badSlot"
  | .fuel => "fuel"
  | .invalidScope => "invalidScope"

/-- an `Outcome` on the wire: the result (`out` + returned variables, or the error name) and the
observable ghost facts about the final store -/
def outcomeToJson (o : Outcome) : Json :=
  let ghost : List (String × Json) :=
    [("dirty", .bool o.final.dirty), ("inits", Json.num (JsonNumber.fromNat o.final.inits)),
     ("final_cols", .arr (o.final.cols.map (fun c => Json.str c.1)).toArray),
     ("final_vars", .arr (o.final.vars.map (fun kv => Json.arr #[pathToJson kv.1, valToJson kv.2])).toArray)]
  match o.result with
  | .ok (y, V) => Json.mkObj ([("out", intJson y), ("ret", varsToJson V)] ++ ghost)
  | .error e => Json.mkObj ([("error", .str (errName e))] ++ ghost)

/-- fuel handed to `eval` by the drivers: far above the nesting depth of any generated program -/
def driverFuel : Nat := 100000

/-- request `apply`: args = [cfg, prog, mutable, vars, rngs, x].  `init` is `apply` on empty vars. -/
def handle : Handler := fun fn args =>
  match fn with
  | "apply" => do
      let cfg ← cfgOfJson (← argAt args 0)
      let p ← progOfJson (← argAt args 1)
      let m ← lfOfJson (← argAt args 2)
      let V ← varsOfJson (← argAt args 3)
      let rngs ← asList asStr (← argAt args 4)
      let x ← asInt (← argAt args 5)
      -- optional 7th argument: width of a top-level array argument `full((w,), x)`
      let xw ← optNat (argAt args 6)
      .ok (outcomeToJson (ModuleTree.apply cfg driverFuel (bindArg xw p) m V rngs x))
  | "leak" => do
      -- apply, then a list of operations tried on a scope object that leaked out of the call
      let cfg ← cfgOfJson (← argAt args 0)
      let p ← progOfJson (← argAt args 1)
      let m ← lfOfJson (← argAt args 2)
      let V ← varsOfJson (← argAt args 3)
      let rngs ← asList asStr (← argAt args 4)
      let x ← asInt (← argAt args 5)
      let xw ← optNat (argAt args 6)
      let hj ← argAt args 7
      let h : Handle := ⟨← asList asStr (← field hj "path"), ← asBool (← field hj "invalid")⟩
      let ops ← asList leakOpOfJson (← argAt args 8)
      let o := ModuleTree.apply cfg driverFuel (bindArg xw p) m V rngs x
      let (res, s') := ops.foldl (fun (acc : List Json × Store) op =>
          match leakedOp h [] op acc.2 with
          | (.ok (), s2) => (acc.1 ++ [Json.str "ok"], s2)
          | (.error e, s2) => (acc.1 ++ [Json.str (errName e)], s2)) ([], o.final)
      .ok (Json.mkObj [("results", .arr res.toArray), ("dirty", .bool s'.dirty),
                       ("final_vars", .arr (s'.vars.map (fun kv => Json.arr #[pathToJson kv.1, valToJson kv.2])).toArray)])
  | "unbind" => do
      -- the variables `bound_module.<path>.unbind()` hands out: args = [vars, path]
      let V ← varsOfJson (← argAt args 0)
      let π ← asList asStr (← argAt args 1)
      .ok (varsToJson (scopeVariables π (Scope.bind .ff V [])))
  | "clone" => do
      -- ids at the module-valued positions of each field, in visiting order: args = [fields, fresh]
      let fields ← asList (asList asNat) (← argAt args 0)
      let fresh ← asNat (← argAt args 1)
      .ok (.arr ((Flax.CloneCache.deepClone fields fresh).map
        (fun f => Json.arr (f.map (fun (n : Nat) => Json.num (JsonNumber.fromNat n))).toArray)).toArray)
  | "abstract" => do
      let V ← varsOfJson (← argAt args 0)
      .ok (varsToJson (Vars.abstract V))
  | "erase_sow" => do
      -- returns whether the program is observation-safe and what it sows into
      let p ← progOfJson (← argAt args 0)
      .ok (Json.mkObj [("sow_cols", .arr ((sowCols p).map Json.str).toArray),
                       ("other_cols", .arr ((otherCols p).map Json.str).toArray),
                       ("read_only", .bool (readOnly p)), ("size", Json.num (JsonNumber.fromNat (size p)))])
  | _ => .error "bad-op"

end Flax.SProgJson
