/-
Model of the Linen functional core: `flax/core/scope.py` (class `Scope`, `bind`, `apply`, `init`,
`_unfreeze_variables`) together with the part of `flax/core/frozen_dict.py` it relies on.

Representation choices (read before using this file from another property):

* **Variables are a flat map from full paths to leaves.**  `root._variables` is a dict of
  collections, each a nested dict whose inner keys are scope (= module) names and whose last key is
  the variable name.  It is modelled as `cols` (the top-level keys, i.e. the collections that
  *exist*, possibly empty) plus `vars : List (Path × Val)` keyed by the full path
  `col :: scopePath ++ [name]` (the `flatten_dict` view).  A child `Scope` is not an object here: it
  is the `scopePath` from the root.  In the code a child scope caches references to sub-dicts of the
  root tree (`_collection`, `_mutable_collection`); path addressing is equivalent to that as long as
  no sub-dict is ever replaced by a leaf or vice versa.  `putVar` therefore refuses (error
  `unsupported`) a write that would put a leaf where a dict is or below an existing leaf — the only
  situations in which the cached references of the real code go stale.  Nested *empty* dicts are not
  representable (top-level empty collections are: they are in `cols`).

* **Aliasing is tracked by an ownership flag per collection, not by a heap.**  The only aliasing
  that matters for "init/apply never change their inputs" is between the dict objects of the
  temporary root scope and the dict objects the caller passed in.  `_unfreeze_variables` deep-copies
  (`unfreeze`) exactly the collections selected by `mutable` and stores the caller's own object for
  every other collection, so inside one collection either every dict node is fresh or every node is
  the caller's: one flag per collection (`true` = fresh copy or created by this scope, `false` = the
  caller's object) is exact for the code as written.  Every write records in the ghost field
  `dirty` whether it landed in a caller-owned collection; the frame theorems of C01 show `dirty`
  never becomes true.  The deep-versus-shallow distinction of the copy itself is checked on the
  implementation side by the harness (identity classes of dict objects), not by this model.

* **Failing calls keep their store.**  Every operation has type `Store → Except Err α × Store`: on
  an error the store at the point of failure is returned too, so "a refused write does not take
  effect" and "inputs stay unchanged even when the call raises" are statements about the model.

* Ghost fields: `dirty` (above) and `inits` (number of parameter initialisations, i.e.
  `make_rng('params')` draws made through `Scope.param`).  RNG counters are not modelled beyond
  that: initialisers in the program DSL are constants, so no value depends on a key (C09 owns RNGs).

Core Lean only (no Mathlib): this file is in the import closure of the compiled drivers.
-/
import Flax.Model.Filter

namespace Flax.Scope
open Flax.Filter (LFilter inFilter)

abbrev Path := List String

/-! ### leaves -/

def sumInt : List Int → Int
  | [] => 0
  | x :: xs => x + sumInt xs

def prodNat : List Nat → Nat
  | [] => 1
  | x :: xs => x * prodNat xs

/-- A leaf of a variable collection: an array (shape + row-major integer data; float32 on the
Python side, kept exactly representable) or the tuple of arrays that `Module.sow` accumulates. -/
inductive Val where
  | tensor (shape : List Nat) (data : List Int)
  | tup (xs : List (List Nat × List Int))
  deriving DecidableEq, Repr, Inhabited

namespace Val

/-- `jnp.full(shape, k)` -/
def full (shape : List Nat) (k : Int) : Val := .tensor shape (List.replicate (prodNat shape) k)

/-- the scalar a program reads a leaf as: the sum of all its entries -/
def total : Val → Int
  | .tensor _ d => sumInt d
  | .tup xs => sumInt (xs.map (fun p => sumInt p.2))

/-- number of array entries -/
def count : Val → Nat
  | .tensor _ d => d.length
  | .tup xs => (xs.map (fun p => p.2.length)).foldr (· + ·) 0

/-- shapes of `jax.tree_util.tree_leaves(value)` -/
def leafShapes : Val → List (List Nat)
  | .tensor sh _ => [sh]
  | .tup xs => xs.map (·.1)

end Val

/-! ### errors -/

/-- Error enum shared with the harness (messages are never compared). -/
inductive Err where
  | nameInUse            -- `ValueError('Duplicate use of scope name')` / `errors.NameInUseError`
  | modifyImmutable      -- `errors.ModifyScopeVariableError`
  | collectionNotFound   -- `errors.ScopeCollectionNotFound`
  | paramNotFound        -- `errors.ScopeParamNotFoundError`
  | variableNotFound     -- `errors.ScopeVariableNotFoundError`
  | paramShape           -- `errors.ScopeParamShapeError`
  | noRng                -- `errors.InvalidRngError` from `make_rng`
  | perturbMissing       -- `ValueError` of `Module.perturb` (collection present, variable missing)
  | invalidStructure     -- `errors.ApplyScopeInvalidVariablesStructureError`
  | sowOnLeaf            -- `Module.sow` onto an existing non-tuple value (Python: `array + tuple`)
  | unsupported          -- outside the modelled domain (leaf/dict clash in the tree, see header)
  | badSlot              -- ill-formed program: reference to a local / child that does not exist
  | fuel                 -- evaluator ran out of fuel (never with the fuel the drivers pass)
  | invalidScope         -- `errors.InvalidScopeError`: the scope object was invalidated by `Scope.temporary`
  deriving DecidableEq, Repr, Inhabited

instance {ε α : Type} [DecidableEq ε] [DecidableEq α] : DecidableEq (Except ε α)
  | .ok a, .ok b => if h : a = b then isTrue (by rw [h]) else isFalse (by intro hh; injection hh with hh; exact h hh)
  | .error a, .error b => if h : a = b then isTrue (by rw [h]) else isFalse (by intro hh; injection hh with hh; exact h hh)
  | .ok _, .error _ => isFalse (by intro hh; cases hh)
  | .error _, .ok _ => isFalse (by intro hh; cases hh)

/-! ### association lists keyed by paths -/

def lookupP (q : Path) : List (Path × Val) → Option Val
  | [] => none
  | (k, v) :: rest => if k = q then some v else lookupP q rest

/-- `d[q] = v` on the flat view: replace in place, else append (dict insertion order) -/
def upsert (q : Path) (v : Val) : List (Path × Val) → List (Path × Val)
  | [] => [(q, v)]
  | (k, w) :: rest => if k = q then (k, v) :: rest else (k, w) :: upsert q v rest

/-- `a` is a proper prefix of `b` -/
def properPrefix (a b : Path) : Bool := a.isPrefixOf b && decide (a ≠ b)

/-- a write at `q` would put a leaf where a dict is, or below an existing leaf -/
def conflict (vars : List (Path × Val)) (q : Path) : Bool :=
  vars.any (fun kv => properPrefix kv.1 q || properPrefix q kv.1)

/-! ### the root scope's state -/

/-- `Scope.reservations` of one scope object: `(name, None)` for a child scope, `(name, col)` for a variable -/
abbrev Res := List (String × Option String)

structure Store where
  /-- keys of `root._variables` with the ownership flag (see header) -/
  cols : List (String × Bool)
  /-- leaves by full path `col :: scopePath ++ [name]` -/
  vars : List (Path × Val)
  /-- `Scope.mutable` (the same filter object in the root and every child scope) -/
  mutable : LFilter
  /-- names of the RNG streams passed in (`Scope.rngs.keys()`) -/
  rngs : List String
  /-- ghost: parameter initialisations performed -/
  inits : Nat := 0
  /-- ghost: some write landed in a collection owned by the caller -/
  dirty : Bool := false
  deriving DecidableEq, Repr, Inhabited

/-- the monad of scope operations, written out: result (or error) and the store afterwards -/
abbrev Op (α : Type) := Store → Except Err α × Store

def fullPath (col : String) (π : Path) (n : String) : Path := col :: (π ++ [n])

/-- `col in root._variables` -/
def hasCol (s : Store) (col : String) : Bool := s.cols.any (fun c => decide (c.1 = col))

/-- the collection exists and belongs to the caller -/
def borrowed (s : Store) (col : String) : Bool := s.cols.any (fun c => decide (c.1 = col) && !c.2)

/-- `Scope.get_variable(col, name)` (default `None`) of the scope at `π` -/
def getVar (s : Store) (π : Path) (col n : String) : Option Val := lookupP (fullPath col π n) s.vars

/-- `Scope.has_variable` -/
def hasVar (s : Store) (π : Path) (col n : String) : Bool := (getVar s π col n).isSome

/-- `Scope.is_collection_empty`: the root collection is absent or an empty dict -/
def colEmpty (s : Store) (col : String) : Bool := !(s.vars.any (fun kv => decide (kv.1.head? = some col)))

/-- `Scope.is_mutable_collection` -/
def isMutable (s : Store) (col : String) : Bool := inFilter s.mutable col

/-- `Scope.name_reserved` -/
def nameReserved (r : Res) (name : String) (col : Option String) : Bool :=
  r.any (fun e => decide (e.1 = name) && (decide (e.2 = none) || decide (col = none) || decide (e.2 = col)))

/-- `Scope.reserve` -/
def reserve (r : Res) (name : String) (col : Option String) : Except Err Res :=
  if nameReserved r name col then .error .nameInUse else .ok ((name, col) :: r)

/-- `Scope.put_variable` (+ `_mutable_collection`, which creates the missing dicts on the way):
refused unless `in_filter(mutable, col)`; creates the root collection when absent. -/
def putVar (π : Path) (col n : String) (v : Val) : Op Unit := fun s =>
  if !(isMutable s col) then (.error .modifyImmutable, s)
  else if conflict s.vars (fullPath col π n) then (.error .unsupported, s)
  else (.ok (), { s with
    cols := if hasCol s col then s.cols else s.cols ++ [(col, true)],
    vars := upsert (fullPath col π n) v s.vars,
    dirty := s.dirty || borrowed s col })

/-- `Scope.param(name, init_fn, shape)` with a constant initialiser: reserve the name; reuse an
existing value after the `eval_shape` shape check (which zips the leaves of the stored value with
the single abstract leaf); otherwise initialise — only if `'params'` is mutable. -/
def scopeParam (π : Path) (n : String) (shape : List Nat) (init : Int) (r : Res) : Op (Val × Res) := fun s =>
  match reserve r n (some "params") with
  | .error e => (.error e, s)
  | .ok r' =>
    match getVar s π "params" n with
    | some v =>
      match v.leafShapes with
      | [] => (.ok (v, r'), s)
      | sh :: _ => if sh = shape then (.ok (v, r'), s) else (.error .paramShape, s)
    | none =>
      if !(isMutable s "params") then
        (if colEmpty s "params" then (.error .collectionNotFound, s) else (.error .paramNotFound, s))
      else if !(decide ("params" ∈ s.rngs)) then (.error .noRng, s)     -- `make_rng('params')`
      else
        match putVar π "params" n (Val.full shape init) { s with inits := s.inits + 1 } with
        | (.ok (), s') => (.ok (Val.full shape init, r'), s')
        | (.error e, s') => (.error e, s')

/-- `Scope.variable(col, name, init_fn)` with `init_fn` not `None`; returns the new reservations
(the `Variable` handle is just `(col, name)` at this scope). -/
def scopeVariable (π : Path) (col n : String) (initVal : Val) (r : Res) : Op Res := fun s =>
  match reserve r n (some col) with
  | .error e => (.error e, s)
  | .ok r' =>
    if hasVar s π col n then (.ok r', s)
    else if !(isMutable s col) then
      (if colEmpty s col then (.error .collectionNotFound, s) else (.error .variableNotFound, s))
    else
      match putVar π col n initVal s with
      | (.ok (), s') => (.ok r', s')
      | (.error e, s') => (.error e, s')

/-! ### bind / apply / init -/

/-- a variable dict as passed to / returned from `apply` -/
structure Vars where
  cols : List String
  vars : List (Path × Val)
  deriving DecidableEq, Repr, Inhabited

def Vars.empty : Vars := ⟨[], []⟩

/-- `core.bind` = `Scope(_unfreeze_variables(variables, mutable), rngs, mutable)`: the collections
selected by `mutable` are deep copies (owned), the others are the caller's objects. -/
def bind (m : LFilter) (V : Vars) (rngs : List String) : Store :=
  { cols := V.cols.map (fun c => (c, inFilter m c)), vars := V.vars, mutable := m, rngs := rngs }

/-- `Scope.mutable_variables()`: every existing collection matching `mutable`, and no other -/
def mutableVariables (s : Store) : Vars :=
  { cols := (s.cols.filter (fun c => inFilter s.mutable c.1)).map (·.1),
    vars := s.vars.filter (fun kv => match kv.1 with
      | c :: _ => inFilter s.mutable c
      | [] => false) }

/-- the `{'params': {'params': …}}` guard at the top of `core.apply` -/
def badStructure (V : Vars) : Bool :=
  V.vars.any (fun kv => match kv.1 with
    | "params" :: "params" :: _ => true
    | _ => false)

/-- what a call of `apply`/`init` produced: the value it returned or the error it raised, and
(ghost) the state of the temporary root scope when it ended -/
structure Outcome where
  result : Except Err (Int × Vars)
  final : Store
  deriving Repr

/-- `core.apply(fn, mutable)(variables, rngs=rngs)` for a scope function `fn` (already applied to
its arguments).  The model always returns the mutable variables; the code omits them when
`mutable is False` (they are empty then). -/
def apply (fn : Op Int) (m : LFilter) (V : Vars) (rngs : List String) : Outcome :=
  if badStructure V then { result := .error .invalidStructure, final := bind m V rngs }
  else
    match fn (bind m V rngs) with
    | (.ok y, s) => { result := .ok (y, mutableVariables s), final := s }
    | (.error e, s) => { result := .error e, final := s }

/-- `core.init(fn, mutable)(rngs)` = `apply` on the empty variable dict -/
def init (fn : Op Int) (m : LFilter) (rngs : List String) : Outcome := apply fn m Vars.empty rngs


/-! ### scope objects that outlive the call (`Scope.temporary`, `invalidate`, `_check_valid`)

`core.apply` runs `fn` inside `bind(...).temporary()`, which on exit sets `_invalid = True` **on the root
scope object only**.  `_check_valid` is called by `put_variable`, `push`, `rewound` and `make_rng`; the read
paths (`get_variable`, `has_variable`, the reuse branch of `param`/`variable`) are not guarded.  A child
`Scope` object (`push`, `rewound`) has its own `_invalid` flag, which nothing sets: a leaked child scope keeps
working on the temporary tree — which is also the tree `mutable_variables()` handed back — but, like every
operation, only inside collections the scope owns (see `Flax.C01.leaked_scope_cannot_touch_inputs`). -/

/-- a `Scope` object as user code may still hold it after the call: where it points, and its own `_invalid` -/
structure Handle where
  path : Path
  invalid : Bool
  deriving DecidableEq, Repr, Inhabited

/-- the root scope after `temporary()` exited -/
def Handle.leakedRoot : Handle := ⟨[], true⟩

/-- a scope obtained by `push`/`rewound` during the call -/
def Handle.leakedChild (π : Path) : Handle := ⟨π, false⟩

/-- `_check_valid()` in front of an operation -/
def checked {α : Type} (h : Handle) (op : Op α) : Op α := fun s =>
  if h.invalid then (.error .invalidScope, s) else op s

/-- operations user code can try on a leaked scope object (each with fresh reservations `r`) -/
inductive LeakOp where
  | put (col n : String) (v : Val)                      -- `scope.put_variable`
  | get (col n : String)                                -- `scope.get_variable`
  | var (col n : String) (iv : Val)                     -- `scope.variable(col, n, init_fn)`
  | param (n : String) (shape : List Nat) (init : Int)  -- `scope.param`
  | push (name : String)                                -- `scope.push(name)`
  | rewound                                             -- `scope.rewound()`
  deriving Repr, Inhabited

/-- `Scope.put_variable` through a handle -/
def hPut (h : Handle) (col n : String) (v : Val) : Op Unit := checked h (putVar h.path col n v)

/-- what the operation does: the guarded steps are exactly the ones that call `_check_valid`.
`variable`/`param` reserve and look up first and only reach `put_variable` (hence the check) when they
have to create the variable. -/
def leakedOp (h : Handle) (r : Res) : LeakOp → Op Unit
  | .put col n v => hPut h col n v
  | .get _ _ => fun s => (.ok (), s)
  | .var col n iv => fun s =>
      match reserve r n (some col) with
      | .error e => (.error e, s)
      | .ok _ =>
        if hasVar s h.path col n then (.ok (), s)
        else if !(isMutable s col) then
          (if colEmpty s col then (.error .collectionNotFound, s) else (.error .variableNotFound, s))
        else hPut h col n iv s
  | .param n shape init => fun s =>
      match reserve r n (some "params") with
      | .error e => (.error e, s)
      | .ok _ =>
        match getVar s h.path "params" n with
        | some v =>
          (match v.leafShapes with
           | [] => (.ok (), s)
           | sh :: _ => if sh = shape then (.ok (), s) else (.error .paramShape, s))
        | none =>
          if !(isMutable s "params") then
            (if colEmpty s "params" then (.error .collectionNotFound, s) else (.error .paramNotFound, s))
          else if !(decide ("params" ∈ s.rngs)) then (.error .noRng, s)
          else
            -- `make_rng` checks validity before it draws, then `put_variable` stores the value
            checked h (fun s' => putVar h.path "params" n (Val.full shape init) { s' with inits := s'.inits + 1 }) s
  | .push name => checked h (fun s =>
      match reserve r name none with
      | .error e => (.error e, s)
      | .ok _ => (.ok (), s))
  | .rewound => checked h (fun s => (.ok (), s))

/-- a whole sequence of attempts, errors included: the store after all of them -/
def leakedOps (h : Handle) (r : Res) : List LeakOp → Store → Store
  | [], s => s
  | op :: rest, s => leakedOps h r rest (leakedOp h r op s).2

end Flax.Scope
