/-
Model of the index / shape logic that flax wraps around the `lax` primitives in its feed-forward
layers (property C12).  Core Lean only (this file is linked into the driver).

Transcribed from
  flax/linen/linear.py         DenseGeneral, Dense, Einsum (bias shape), _Conv.__call__, ConvTranspose, Embed
  flax/nnx/nn/linear.py        LinearGeneral, Linear, Einsum, Conv, ConvTranspose, Embed
  flax/linen/pooling.py        pool, avg_pool, max_pool, min_pool
  flax/linen/normalization.py  _canonicalize_axes, _compute_stats, _normalize, BatchNorm, LayerNorm, RMSNorm,
  flax/nnx/nn/normalization.py GroupNorm, InstanceNorm
  flax/linen/stochastic.py, flax/nnx/nn/stochastic.py   Dropout

The `lax` / `jnp` primitives are *specified*, not modelled (assumption A-CONV): `convSpec` is the direct
sum for `lax.conv_general_dilated`, `dotGeneral` for `lax.dot_general`, `padAxisFn` for `jnp.pad`,
`reduceWindow…` for `lax.reduce_window`, `takeRow` for `jnp.take`.  Everything is generic in the
element type `R` (only `0`, `+`, `*` are used), instantiated at `Int` by the driver and at `Rat` for the
normalisation statistics.
-/
namespace Flax.Layers

/-! ## 1. shapes, row-major indexing, tensors -/

def prod : List Nat → Nat
  | [] => 1
  | d :: ds => d * prod ds

/-- row-major flat offset of a multi-index -/
def ravel : List Nat → List Nat → Nat
  | _ :: ds, i :: is => i * prod ds + ravel ds is
  | _, _ => 0

/-- inverse of `ravel` on in-bounds offsets -/
def unravel : List Nat → Nat → List Nat
  | [], _ => []
  | _ :: ds, n => (n / prod ds) :: unravel ds (n % prod ds)

/-- all multi-indices of a shape in row-major order -/
def indices (shape : List Nat) : List (List Nat) := (List.range (prod shape)).map (unravel shape)

def inBounds : List Nat → List Nat → Bool
  | [], [] => true
  | d :: ds, i :: is => decide (i < d) && inBounds ds is
  | _, _ => false

structure Tensor (R : Type) where
  shape : List Nat
  data : Array R
deriving Repr

variable {R : Type} [Zero R] [Add R] [Mul R]

def Tensor.getD {α : Type} (t : Tensor α) (idx : List Nat) (d : α) : α := t.data.getD (ravel t.shape idx) d

def Tensor.get (t : Tensor R) (idx : List Nat) : R := t.getD idx 0

def Tensor.ofFn {α : Type} (shape : List Nat) (f : List Nat → α) : Tensor α :=
  ⟨shape, ((indices shape).map f).toArray⟩

def Tensor.wf (t : Tensor R) : Bool := decide (t.data.size = prod t.shape)

def Tensor.rank (t : Tensor R) : Nat := t.shape.length

/-- `jnp.reshape` of a row-major array: the data do not move -/
def Tensor.reshape {α : Type} (t : Tensor α) (shape : List Nat) : Tensor α := ⟨shape, t.data⟩

def sumOver {α : Type} (xs : List α) (f : α → R) : R := (xs.map f).sum

/-! ## 2. axis canonicalisation -/

/-- `linear.py::_normalize_axes`: negative axes count from the end, result sorted -/
def normAxis (ndim : Nat) (a : Int) : Nat := if a < 0 then (a + ndim).toNat else a.toNat

def insertSorted (a : Nat) : List Nat → List Nat
  | [] => [a]
  | b :: bs => if a ≤ b then a :: b :: bs else b :: insertSorted a bs

def sortNat (xs : List Nat) : List Nat := xs.foldr insertSorted []

def normalizeAxes (ndim : Nat) (axes : List Int) : List Nat := sortNat (axes.map (normAxis ndim))

/-- `normalization.py::_canonicalize_axes`: `tuple({rank + a if a < 0 else a ...})` — a set: deduplicated;
CPython iterates a set of small non-negative ints in increasing order (rank < 8 in every use here). -/
def dedupSorted : List Nat → List Nat
  | a :: b :: rest => if a = b then dedupSorted (b :: rest) else a :: dedupSorted (b :: rest)
  | xs => xs

def canonAxes (rank : Nat) (axes : List Int) : List Nat := dedupSorted (normalizeAxes rank axes)

/-! ## 3. `jnp.pad` index maps and flax's padding amounts -/

inductive PadMode | zeros | wrap | reflect
deriving Repr, DecidableEq

/-- source index of position `i` of an axis of length `n` padded by `lo` on the left (`none` = the fill
value 0).  `wrap` is periodic with period `n`, `reflect` with period `2(n-1)` (numpy semantics, n ≥ 1). -/
def padSrc (m : PadMode) (n lo : Nat) (i : Nat) : Option Nat :=
  match m with
  | .zeros => if lo ≤ i ∧ i < lo + n then some (i - lo) else none
  | .wrap => if n = 0 then none else some (((i : Int) - lo) % n).toNat
  | .reflect =>
    if n = 0 then none
    else if n = 1 then some 0
    else
      let p := 2 * (n - 1)
      let j := (((i : Int) - lo) % p).toNat
      some (if j < n then j else p - j)

/-- dilated kernel extent `k_d = (k-1)·d + 1` -/
def dilatedK (k d : Nat) : Nat := (k - 1) * d + 1

/-- `_Conv.__call__`, CIRCULAR / REFLECT: pads `((k_d − 1) // 2, k_d // 2)` -/
def centrePads (k d : Nat) : Nat × Nat := ((dilatedK k d - 1) / 2, dilatedK k d / 2)

/-- `_Conv.__call__`, CAUSAL: left pad `d·(k − 1)` -/
def causalPad (k d : Nat) : Nat × Nat := (d * (k - 1), 0)

/-- `lax.padtype_to_pads(..., 'SAME')` for one axis (input length `n`, effective window `w`, stride `s`) -/
def samePads (n w s : Nat) : Nat × Nat :=
  let out := (n + s - 1) / s
  let total := ((out - 1) * s + w) - n
  (total / 2, total - total / 2)

/-- output length of a strided window of extent `w` over a (padded) length `m` -/
def outLen (m w s : Nat) : Nat := if m < w then 0 else (m - w) / s + 1

def dilatedLen (n ld : Nat) : Nat := if n = 0 then 0 else (n - 1) * ld + 1

/-- padded, input-dilated coordinate `p` (may be negative / beyond the end) ↦ source index -/
def axisSrc (n ld : Nat) (lo : Int) (p : Int) : Option Nat :=
  let q := p - lo
  if 0 ≤ q ∧ q % (ld : Int) = 0 ∧ q / (ld : Int) < (n : Int) then some (q / (ld : Int)).toNat else none

/-- pad a tensor along every axis with its own mode and amounts (`jnp.pad(x, pads, mode=…)`) -/
def padTensor (x : Tensor R) (pads : List (PadMode × Nat × Nat)) : Tensor R :=
  let shape' := List.zipWith (fun n (p : PadMode × Nat × Nat) => p.2.1 + n + p.2.2) x.shape pads
  Tensor.ofFn shape' (fun idx =>
    let src := (List.zipWith (fun (np : Nat × (PadMode × Nat × Nat)) i => padSrc np.2.1 np.1 np.2.2.1 i)
                  (x.shape.zip pads) idx)
    match src.mapM id with
    | some s => x.get s
    | none => 0)

/-! ### one-axis, one-channel views (the per-axis content of `_Conv.__call__`; N-d is the product over axes) -/

/-- a signal of length `n` padded by `jnp.pad(mode)` with `lo` on the left, as a function of the padded position -/
def pad1 (m : PadMode) (n lo : Nat) (x : Nat → R) (i : Nat) : R :=
  match padSrc m n lo i with
  | some j => x j
  | none => 0

/-- VALID strided, kernel-dilated correlation (what `lax.conv_general_dilated(..., 'VALID')` does on one axis) -/
def conv1 (s d k : Nat) (xp K : Nat → R) (o : Nat) : R :=
  sumOver (List.range k) (fun t => xp (o * s + t * d) * K t)

/-- `padding='CIRCULAR'` on one axis: wrap-pad by `centrePads`, then VALID -/
def circularConv1 (n s d k : Nat) (x K : Nat → R) : Nat → R := conv1 s d k (pad1 .wrap n (centrePads k d).1 x) K

/-- `padding='REFLECT'` on one axis -/
def reflectConv1 (n s d k : Nat) (x K : Nat → R) : Nat → R := conv1 s d k (pad1 .reflect n (centrePads k d).1 x) K

/-- `padding='CAUSAL'`: zero-pad `d(k-1)` on the left only, then VALID -/
def causalConv1 (n s d k : Nat) (x K : Nat → R) : Nat → R := conv1 s d k (pad1 .zeros n (causalPad k d).1 x) K

/-! ## 4. specification of `lax.conv_general_dilated` (NHWC / HWIO / NHWC) as a direct sum -/

structure ConvGeom where
  strides : List Nat
  pads : List (Int × Int)
  lhsDil : List Nat
  rhsDil : List Nat
  groups : Nat
deriving Repr

def nth (xs : List Nat) (i : Nat) (d : Nat := 1) : Nat := xs.getD i d

def convOutSpatial (g : ConvGeom) (inSp kSp : List Nat) : List Nat :=
  (List.range inSp.length).map (fun j =>
    let n' := dilatedLen (nth inSp j) (nth g.lhsDil j)
    let p := g.pads.getD j (0, 0)
    let m : Int := n' + p.1 + p.2
    outLen m.toNat (dilatedK (nth kSp j) (nth g.rhsDil j)) (nth g.strides j))

/-- source multi-index in the input for output position `o` and kernel offset `k` (`none` = padding / hole) -/
def convSrc (g : ConvGeom) (inSp : List Nat) (o k : List Nat) : Option (List Nat) :=
  ((List.range inSp.length).map (fun j =>
    axisSrc (nth inSp j) (nth g.lhsDil j) (g.pads.getD j (0, 0)).1
      ((nth o j 0 : Int) * (nth g.strides j) + (nth k j 0 : Int) * (nth g.rhsDil j)))).mapM id

/-- `x : [B] ++ spatial ++ [C]`, `k : kspatial ++ [C / groups, F]`  ↦  `[B] ++ outSpatial ++ [F]` -/
def convSpec (g : ConvGeom) (x k : Tensor R) : Tensor R :=
  let nsp := x.rank - 2
  let b := x.shape.headD 0
  let inSp := (x.shape.drop 1).take nsp
  let kSp := k.shape.take nsp
  let cg := nth k.shape nsp
  let f := nth k.shape (nsp + 1)
  let fg := f / g.groups
  let outSp := convOutSpatial g inSp kSp
  Tensor.ofFn (b :: outSp ++ [f]) (fun idx =>
    let bi := idx.headD 0
    let o := (idx.drop 1).take nsp
    let fi := idx.getD (nsp + 1) 0
    let grp := if fg = 0 then 0 else fi / fg
    sumOver (indices kSp) (fun kk =>
      match convSrc g inSp o kk with
      | none => 0
      | some src =>
        sumOver (List.range cg) (fun c =>
          x.get (bi :: src ++ [grp * cg + c]) * k.get (kk ++ [c, fi]))))

/-! ## 5. `_Conv.__call__` (Linen `Conv`, `ConvLocal`; NNX `Conv`) -/

inductive Padding
  | same | valid | circular | reflect | causal
  | explicit (ps : List (Int × Int))
deriving Repr

/-- the user-facing `padding` argument (`PaddingLike`) before `canonicalize_padding` -/
inductive PadItem
  | one (p : Int)
  | pair (lo hi : Int)
deriving Repr

inductive PadSpec
  | named (s : String)
  | int (p : Int)
  | items (xs : List PadItem)
deriving Repr

/-- `linear.py::canonicalize_padding` followed by flax's own reading of the padding names.  Names other than the
five below are passed on to lax, which rejects them. -/
def canonicalizePadding (p : PadSpec) (rank : Nat) : Except String Padding :=
  match p with
  | .named "SAME" => .ok .same
  | .named "VALID" => .ok .valid
  | .named "CIRCULAR" => .ok .circular
  | .named "REFLECT" => .ok .reflect
  | .named "CAUSAL" => .ok .causal
  | .named _ => .error "BadPadding"
  | .int n => .ok (.explicit (List.replicate rank (n, n)))
  | .items xs =>
    if xs.length = rank then
      .ok (.explicit (xs.map (fun it => match it with | .one q => (q, q) | .pair lo hi => (lo, hi))))
    else .error "BadPadding"

/-- `maybe_broadcast`: `None` ↦ all ones, an int ↦ repeated, a sequence ↦ itself -/
inductive Bcast
  | none | int (n : Nat) | seq (xs : List Nat)
deriving Repr

def maybeBroadcast (b : Bcast) (rank : Nat) : List Nat :=
  match b with
  | .none => List.replicate rank 1
  | .int n => List.replicate rank n
  | .seq xs => xs

structure ConvCfg where
  kernelSize : List Nat
  strides : List Nat
  padding : Padding
  inputDil : List Nat
  kernelDil : List Nat
  groups : Nat
deriving Repr

/-- `kernel *= mask` (elementwise; the shapes are equal) -/
def mulMaskCore (k : Tensor R) (mask : Option (Tensor R)) : Tensor R :=
  match mask with
  | none => k
  | some m => ⟨k.shape, (List.zipWith (· * ·) k.data.toList m.data.toList).toArray⟩

def mulMask (k : Tensor R) (mask : Option (Tensor R)) : Except String (Tensor R) :=
  match mask with
  | none => .ok k
  | some m => if m.shape ≠ k.shape then .error "MaskShape" else .ok (mulMaskCore k mask)

/-- broadcasting add of a bias whose shape is a suffix of `y`'s shape (`bias.reshape((1,)*… + bias.shape)`) -/
def addBiasSuffix (y : Tensor R) (bias : Option (Tensor R)) : Tensor R :=
  match bias with
  | none => y
  | some b =>
    let skip := y.rank - b.rank
    Tensor.ofFn y.shape (fun idx => y.get idx + b.get (idx.drop skip))

/-- what `_Conv.__call__` decides about padding, per spatial axis: the `jnp.pad` applied to the (batch-flattened) input
before the convolution — `(mode, lo, hi)`, all `(zeros, 0, 0)` for SAME / VALID / explicit padding — and the explicit
pads handed to `lax.conv_general_dilated` (`'VALID'` after a pre-pad) -/
def convPlan (c : ConvCfg) (inSp : List Nat) : List (PadMode × Nat × Nat) × List (Int × Int) :=
  let nsp := c.kernelSize.length
  let noPre := List.replicate nsp (PadMode.zeros, 0, 0)
  let centre (m : PadMode) : List (PadMode × Nat × Nat) × List (Int × Int) :=
    ((List.range nsp).map (fun j => (m, centrePads (nth c.kernelSize j) (nth c.kernelDil j))),
     List.replicate nsp ((0 : Int), (0 : Int)))
  match c.padding with
  | .valid => (noPre, List.replicate nsp (0, 0))
  | .same => (noPre, (List.range nsp).map (fun j =>
      let p := samePads (nth inSp j) (dilatedK (nth c.kernelSize j) (nth c.kernelDil j)) (nth c.strides j)
      ((p.1 : Int), (p.2 : Int))))
  | .explicit ps => (noPre, ps)
  | .circular => centre .wrap
  | .reflect => centre .reflect
  | .causal => ((List.range nsp).map (fun j => (PadMode.zeros, causalPad (nth c.kernelSize j) (nth c.kernelDil j))),
                List.replicate nsp (0, 0))

/-- per-axis `jnp.pad` source map on the spatial axes: padded spatial position `p` ↦ source position in the unpadded
input, `none` when some axis falls in zero fill -/
def padIdx (insp : List Nat) (sp : List (PadMode × Nat × Nat)) (p : List Nat) : Option (List Nat) :=
  (List.zipWith (fun (np : Nat × (PadMode × Nat × Nat)) i => padSrc np.2.1 np.1 np.2.2.1 i) (insp.zip sp) p).mapM id

/-- spatial shape after the pre-padding -/
def paddedSpatial (insp : List Nat) (sp : List (PadMode × Nat × Nat)) : List Nat :=
  List.zipWith (fun n (p : PadMode × Nat × Nat) => p.2.1 + n + p.2.2) insp sp

/-- the direct-sum value of one output element of the convolution layer (without bias) -/
def convElem (c : ConvCfg) (x k' : Tensor R) (insp : List Nat) (b o : List Nat) (fi : Nat) : R :=
  let nsp := c.kernelSize.length
  let plan := convPlan c insp
  let g : ConvGeom := ⟨c.strides, (convPlan c insp).2, c.inputDil, c.kernelDil, c.groups⟩
  let cg := nth k'.shape nsp
  let f := nth k'.shape (nsp + 1)
  let grp := if f / c.groups = 0 then 0 else fi / (f / c.groups)
  sumOver (indices (k'.shape.take nsp)) (fun kk =>
    match convSrc g (paddedSpatial insp (convPlan c insp).1) o kk with
    | none => 0
    | some p =>
      sumOver (List.range cg) (fun ch =>
        (match padIdx insp (convPlan c insp).1 p with
          | some s => x.get (b ++ (s ++ [grp * cg + ch]))
          | none => 0) * k'.get (kk ++ [ch, fi])))

/-- the paddings `_Conv.__call__` rejects -/
def convPadCheck (c : ConvCfg) : Except String Unit :=
  match c.padding with
  | .explicit ps => if ps.length = c.kernelSize.length then .ok () else .error "BadPadding"
  | .causal => if c.kernelSize.length ≠ 1 then .error "CausalRank" else .ok ()
  | _ => .ok ()

/-- batch flattening: all leading dims beyond `spatial + feature` become one; none becomes a batch of 1 -/
def flattenBatch (nsp : Nat) (x : Tensor R) : List Nat × Tensor R :=
  let nb := x.rank - (nsp + 1)
  let bs := x.shape.take nb
  (bs, x.reshape (prod bs :: x.shape.drop nb))

def unflattenBatch (bs : List Nat) (y : Tensor R) : Tensor R := y.reshape (bs ++ y.shape.drop 1)

/-- the pre-padded, batch-flattened input and the lax padding -/
def convPrePadded (c : ConvCfg) (xf : Tensor R) : Tensor R × List (Int × Int) :=
  let nsp := c.kernelSize.length
  let plan := convPlan c ((xf.shape.drop 1).take nsp)
  (padTensor xf ([(PadMode.zeros, 0, 0)] ++ plan.1 ++ [(PadMode.zeros, 0, 0)]), plan.2)

/-- the value `_Conv.__call__` (shared weights) computes once the configuration is accepted: batch flatten →
`jnp.pad` by the plan → `lax.conv_general_dilated` with the masked kernel → bias → batch unflatten -/
def convCore (c : ConvCfg) (x k : Tensor R) (bias mask : Option (Tensor R)) : Tensor R :=
  let nsp := c.kernelSize.length
  let fb := flattenBatch nsp x
  let pp := convPrePadded c fb.2
  let y := convSpec ⟨c.strides, pp.2, c.inputDil, c.kernelDil, c.groups⟩ pp.1 (mulMaskCore k mask)
  unflattenBatch fb.1 (addBiasSuffix y bias)

def convCheck (c : ConvCfg) (x k : Tensor R) (mask : Option (Tensor R)) : Except String Unit := do
  let nsp := c.kernelSize.length
  if x.rank < nsp + 1 then throw "Rank"
  convPadCheck c
  let cin := nth x.shape (x.rank - 1)
  if c.groups = 0 ∨ cin % c.groups ≠ 0 then throw "Groups"
  if k.shape.take nsp ≠ c.kernelSize ∨ nth k.shape nsp ≠ cin / c.groups then throw "KernelShape"
  match mask with
  | some m => if m.shape ≠ k.shape then throw "MaskShape"
  | none => pure ()

def convLayer (c : ConvCfg) (x k : Tensor R) (bias mask : Option (Tensor R)) : Except String (Tensor R) := do
  convCheck c x k mask
  pure (convCore c x k bias mask)

/-- `ConvLocal`: one kernel per output pixel.  kernel `outSpatial ++ [prod(k)·C, F]` (patch feature index is
channel-major: `c · prod(k) + ravel k`), bias `outSpatial ++ [F]`. -/
def convLocalLayer (c : ConvCfg) (x k : Tensor R) (bias mask : Option (Tensor R)) : Except String (Tensor R) := do
  let nsp := c.kernelSize.length
  if x.rank < nsp + 1 then throw "Rank"
  if c.groups ≠ 1 then throw "NotImplemented"
  let (bs, xf) := flattenBatch nsp x
  convPadCheck c
  let (xp, pads) := convPrePadded c xf
  let g : ConvGeom := ⟨c.strides, pads, c.inputDil, c.kernelDil, 1⟩
  let inSp := (xp.shape.drop 1).take nsp
  let cin := nth xp.shape (nsp + 1)
  let outSp := convOutSpatial g inSp c.kernelSize
  let kk := prod c.kernelSize
  let f := nth k.shape (nsp + 1)
  if k.shape.take nsp ≠ outSp ∨ nth k.shape nsp ≠ kk * cin then throw "KernelShape"
  let k' ← mulMask k mask
  let y := Tensor.ofFn (nth xp.shape 0 :: outSp ++ [f]) (fun idx =>
    let bi := idx.headD 0
    let o := (idx.drop 1).take nsp
    let fi := idx.getD (nsp + 1) 0
    sumOver (indices c.kernelSize) (fun kidx =>
      match convSrc g inSp o kidx with
      | none => 0
      | some src =>
        sumOver (List.range cin) (fun ch =>
          xp.get (bi :: src ++ [ch]) * k'.get (o ++ [ch * kk + ravel c.kernelSize kidx, fi]))))
  .ok (unflattenBatch bs (addBiasSuffix y bias))

/-! ## 6. `ConvTranspose` -/

inductive TPadding
  | same | valid | circular
  | explicit (ps : List (Int × Int))
deriving Repr

structure ConvTCfg where
  kernelSize : List Nat
  strides : List Nat
  padding : TPadding
  kernelDil : List Nat
  transposeKernel : Bool
deriving Repr

/-- `lax._conv_transpose_padding(k_d, s, 'SAME' | 'VALID')` -/
def transposePads (kd s : Nat) (same : Bool) : Int × Int :=
  if same then
    let padLen : Int := (kd : Int) + s - 2
    let a : Int := if s + 1 > kd then (kd : Int) - 1 else (padLen + 1) / 2
    (a, padLen - a)
  else
    let padLen : Int := (kd : Int) + s - 2 + (if kd > s then kd - s else 0 : Nat)
    ((kd : Int) - 1, padLen - ((kd : Int) - 1))

/-- `transpose_kernel=True`: flip every spatial axis and swap the two feature axes -/
def flipSwapKernel (nsp : Nat) (k : Tensor R) : Tensor R :=
  let sp := k.shape.take nsp
  let a := nth k.shape nsp
  let b := nth k.shape (nsp + 1)
  Tensor.ofFn (sp ++ [b, a]) (fun idx =>
    let kidx := (List.range nsp).map (fun j => nth sp j - 1 - nth idx j 0)
    k.get (kidx ++ [nth idx (nsp + 1) 0, nth idx nsp 0]))

/-- CIRCULAR post-processing of one spatial axis `ax` (1-based position in `[B] ++ spatial ++ [F]`):
pad to an odd number of periods, then sum the periods (`reshape(-1, period).sum`). -/
def wrapSumAxis (y : Tensor R) (ax period : Nat) (tk : Bool) : Tensor R :=
  let l := nth y.shape ax
  if period = 0 then y else
  let diff := ((-((l : Int) - period)) % (2 * period : Int)).toNat
  let padL := if tk then diff / 2 else (diff + 1) / 2
  let total := l + diff
  let shape' := y.shape.set ax period
  Tensor.ofFn shape' (fun idx =>
    sumOver (List.range (total / period)) (fun j =>
      let pos := j * period + nth idx ax 0
      if padL ≤ pos ∧ pos < padL + l then y.get (idx.set ax (pos - padL)) else 0))

def convTransposeLayer (c : ConvTCfg) (x k : Tensor R) (bias mask : Option (Tensor R)) : Except String (Tensor R) := do
  let nsp := c.kernelSize.length
  if x.rank < nsp + 1 then throw "Rank"
  let (bs, xf) := flattenBatch nsp x
  let cin := nth xf.shape (nsp + 1)
  let kin := if c.transposeKernel then nth k.shape (nsp + 1) else nth k.shape nsp
  if k.shape.take nsp ≠ c.kernelSize ∨ kin ≠ cin then throw "KernelShape"
  let k' ← mulMask k mask
  let strPads (same : Bool) := (List.range nsp).map (fun j =>
    transposePads (dilatedK (nth c.kernelSize j) (nth c.kernelDil j)) (nth c.strides j) same)
  let pads ← match c.padding with
    | .same => pure (strPads true)
    | .valid => pure (strPads false)
    | .circular => pure (strPads false)
    | .explicit ps => if ps.length = nsp then pure ps else throw "BadPadding"
  let k2 := if c.transposeKernel then flipSwapKernel nsp k' else k'
  let y := convSpec ⟨List.replicate nsp 1, pads, c.strides, c.kernelDil, 1⟩ xf k2
  let y := match c.padding with
    | .circular =>
      (List.range nsp).foldl (fun (acc : Tensor R) j =>
        wrapSumAxis acc (j + 1) (nth xf.shape (j + 1) * nth c.strides j) c.transposeKernel) y
    | _ => y
  .ok (unflattenBatch bs (addBiasSuffix y bias))

/-! ## 7. `lax.dot_general` specification, `DenseGeneral` / `LinearGeneral`, `Dense` -/

/-- build an index of length `n`: position `p` takes the value paired with `p` in `assign` if there is one, otherwise
the next unused entry of `rest` (the `t`-th unassigned position takes `rest[t]`) -/
def scatterAt (assign : List (Nat × Nat)) (rest : List Nat) (p : Nat) : Nat :=
  match assign.find? (fun q => q.1 = p) with
  | some q => q.2
  | none => rest.getD ((List.range p).filter (fun j => (assign.find? (fun q => q.1 = j)).isNone)).length 0

def scatterIdx (n : Nat) (assign : List (Nat × Nat)) (rest : List Nat) : List Nat :=
  (List.range n).map (scatterAt assign rest)

/-- `lax.dot_general(lhs, rhs, ((lc, rc), (lb, rb)))`: output dims = batch ++ lhs free ++ rhs free -/
def dotGeneral (lhs rhs : Tensor R) (lc rc lb rb : List Nat) : Tensor R :=
  let bShape := lb.map (nth lhs.shape ·)
  let cShape := lc.map (nth lhs.shape ·)
  let lFreeAx := (List.range lhs.rank).filter (fun a => !(lc.contains a) && !(lb.contains a))
  let rFreeAx := (List.range rhs.rank).filter (fun a => !(rc.contains a) && !(rb.contains a))
  let lFree := lFreeAx.map (nth lhs.shape ·)
  let rFree := rFreeAx.map (nth rhs.shape ·)
  let nb := lb.length
  let nl := lFree.length
  Tensor.ofFn (bShape ++ lFree ++ rFree) (fun idx =>
    let b := idx.take nb
    let lf := (idx.drop nb).take nl
    let rf := idx.drop (nb + nl)
    sumOver (indices cShape) (fun cidx =>
      lhs.get (scatterIdx lhs.rank (lb.zip b ++ lc.zip cidx) lf) *
      rhs.get (scatterIdx rhs.rank (rb.zip b ++ rc.zip cidx) rf)))

def consecutiveFromZero (bd : List Int) : Bool :=
  match bd with
  | [] => true
  | _ =>
    let mx := bd.foldl max 0
    (List.range (mx.toNat + 1)).all (fun i => bd.contains (i : Int)) && bd.all (fun b => decide (0 ≤ b) && decide (b ≤ mx))

/-- the value computed by `DenseGeneral.__call__` / `LinearGeneral.__call__` once the configuration is accepted:
`dot_general(x, K, ((axis, contract_ind), (batch_dims, batch_ind)))` plus the bias reshaped to
`expanded_batch_shape + features` and broadcast -/
def denseGeneralCore (axis batchDims : List Int) (x k : Tensor R) (bias : Option (Tensor R)) : Tensor R :=
  let ndim := x.rank
  let ax := normalizeAxes ndim axis
  let bd := normalizeAxes ndim batchDims
  let nb := bd.length
  let na := ax.length
  let out := dotGeneral x k ax ((List.range na).map (· + nb)) bd (List.range nb)
  match bias with
  | none => out
  | some b =>
    let feats := k.shape.drop (nb + na)
    -- expanded_batch_shape: batch sizes at batch positions, 1 elsewhere (non-contracted axes, input order)
    let expanded := ((List.range ndim).filter (fun a => !(ax.contains a))).map
      (fun a => if bd.contains a then nth x.shape a else 1)
    let b' := b.reshape (expanded ++ feats)
    -- numpy broadcasting of `b'` against `out` (same rank)
    Tensor.ofFn out.shape (fun idx =>
      out.get idx + b'.get (List.zipWith (fun i d => if d = 1 then 0 else i) idx b'.shape))

/-- the configurations `DenseGeneral` / lax reject -/
def denseGeneralCheck (axis batchDims : List Int) (nFeat : Nat) (x k : Tensor R) (bias : Option (Tensor R)) :
    Except String Unit := do
  if !consecutiveFromZero batchDims then throw "BatchDims"
  let ndim := x.rank
  let ax := normalizeAxes ndim axis
  let bd := normalizeAxes ndim batchDims
  let nb := bd.length
  let na := ax.length
  if k.rank ≠ nb + na + nFeat then throw "KernelShape"
  if (bd ++ ax).any (fun a => decide (ndim ≤ a)) then throw "Axis"
  if bd.map (nth x.shape ·) ≠ k.shape.take nb ∨ ax.map (nth x.shape ·) ≠ (k.shape.drop nb).take na then throw "KernelShape"
  match bias with
  | none => pure ()
  | some b =>
    let feats := k.shape.drop (nb + na)
    let expanded := ((List.range ndim).filter (fun a => !(ax.contains a))).map
      (fun a => if bd.contains a then nth x.shape a else 1)
    if prod (expanded ++ feats) ≠ b.data.size then throw "BiasShape"

/-- `DenseGeneral.__call__` / `LinearGeneral.__call__` given kernel `batch ++ in ++ features` and bias
`batch ++ features` -/
def denseGeneral (axis batchDims : List Int) (nFeat : Nat) (x k : Tensor R) (bias : Option (Tensor R)) :
    Except String (Tensor R) := do
  denseGeneralCheck axis batchDims nFeat x k bias
  pure (denseGeneralCore axis batchDims x k bias)

/-- `Dense` / `Linear`: contraction of the last axis, bias broadcast on the last axis -/
def dense (x k : Tensor R) (bias : Option (Tensor R)) : Except String (Tensor R) := do
  if x.rank = 0 ∨ k.rank ≠ 2 then throw "Rank"
  if nth x.shape (x.rank - 1) ≠ nth k.shape 0 then throw "KernelShape"
  let y := dotGeneral x k [x.rank - 1] [0] [] []
  .ok (addBiasSuffix y bias)

/-! ## 8. `Einsum`: direct sum for two explicit operands, and flax's bias-shape inference -/

/-- labels are natural numbers; `lhsL`, `rhsL`, `outL` the label strings after ellipsis expansion -/
def einsumSpec (lhsL rhsL outL : List Nat) (x k : Tensor R) : Tensor R :=
  let dimOf (l : Nat) : Nat :=
    match lhsL.idxOf? l with
    | some i => nth x.shape i
    | none => match rhsL.idxOf? l with
      | some i => nth k.shape i
      | none => 1
  let all := (lhsL ++ rhsL).eraseDups
  let summed := all.filter (fun l => !(outL.contains l))
  let val (asg : List (Nat × Nat)) (l : Nat) : Nat := ((asg.find? (fun p => p.1 = l)).map (·.2)).getD 0
  Tensor.ofFn (outL.map dimOf) (fun oidx =>
    sumOver (indices (summed.map dimOf)) (fun sidx =>
      let asg := outL.zip oidx ++ summed.zip sidx
      x.get (lhsL.map (val asg)) * k.get (rhsL.map (val asg))))

/-- `Einsum._get_bias_shape`: for every result label that occurs in the kernel, the kernel's size there -/
def einsumBiasShapes (rhsL outL : List Nat) (kshape : List Nat) : List Nat × List Nat :=
  let bc := outL.map (fun l => match rhsL.idxOf? l with | some i => nth kshape i | none => 1)
  let bs := outL.filterMap (fun l => (rhsL.idxOf? l).map (nth kshape ·))
  (bs, bc)

def einsumLayer (lhsL rhsL outL : List Nat) (x k : Tensor R) (bias : Option (Tensor R)) : Except String (Tensor R) := do
  if lhsL.length ≠ x.rank ∨ rhsL.length ≠ k.rank then throw "Rank"
  let y := einsumSpec lhsL rhsL outL x k
  match bias with
  | none => .ok y
  | some b =>
    let (bs, bc) := einsumBiasShapes rhsL outL k.shape
    if b.shape ≠ bs then throw "BiasShape"
    let b' := b.reshape bc
    .ok (Tensor.ofFn y.shape (fun idx =>
      y.get idx + b'.get (List.zipWith (fun i d => if d = 1 then 0 else i) idx bc)))

/-! ## 9. `Embed` -/

/-- `jnp.take(embedding, i, axis=0)` (default mode): negative indices count from the end, out of range = fill (NaN) -/
def takeRow (n : Nat) (i : Int) : Option Nat :=
  if 0 ≤ i ∧ i < n then some i.toNat
  else if -(n : Int) ≤ i ∧ i < 0 then some (i + n).toNat
  else none

/-- one output row of `Embed.__call__`: `num_embeddings == 1` broadcasts the single row whatever the index,
otherwise `jnp.take`; `none` entries are NaN -/
def embedRow (table : Tensor R) (i : Int) : List (Option R) :=
  let n := nth table.shape 0
  let f := nth table.shape 1
  (List.range f).map (fun j =>
    if n = 1 then some (table.get [0, j])
    else (takeRow n i).map (fun r => table.get [r, j]))

/-- `Embed.__call__` on the flattened index array: one row per index, in order -/
def embedLookup (table : Tensor R) (idx : List Int) : List (Option R) := idx.flatMap (embedRow table)

/-- the lookup as found before the repair: with a single embedding the 2-D table was broadcast to
`idxShape ++ [features]`, which fails for a scalar index (`idxShape = []`) -/
def embedLookupOrig (table : Tensor R) (idxShape : List Nat) (idx : List Int) : Except String (List (Option R)) :=
  if nth table.shape 0 = 1 ∧ idxShape.length = 0 then .error "Broadcast" else .ok (embedLookup table idx)

/-- `Embed.attend`: `query · embeddingᵀ` -/
def embedAttend (table query : Tensor R) : Tensor R :=
  let n := nth table.shape 0
  let f := nth table.shape 1
  let lead := query.shape.take (query.rank - 1)
  Tensor.ofFn (lead ++ [n]) (fun idx =>
    let q := idx.take (query.rank - 1)
    let v := idx.getD (query.rank - 1) 0
    sumOver (List.range f) (fun j => query.get (q ++ [j]) * table.get [v, j]))

/-! ## 10. pooling (`pooling.py::pool`) -/

inductive PoolPad
  | same | valid
  | explicit (ps : List (Nat × Nat))
deriving Repr

structure PoolGeom where
  window : List Nat
  strides : List Nat
  pads : List (Nat × Nat)
deriving Repr

/-- spatial padding pairs handed to `lax.reduce_window`: `'VALID'` → none, `'SAME'` → the lax rule, explicit
`(lo, hi)` pairs → themselves -/
def poolPadSp (pad : PoolPad) (sp window strides : List Nat) : List (Nat × Nat) :=
  match pad with
  | .valid => List.replicate window.length (0, 0)
  | .same => (List.range window.length).map (fun j => samePads (nth sp j) (nth window j) (nth strides j))
  | .explicit ps => ps

/-- `pool`: window/strides are augmented with 1s for the batch dims and the feature dim; a missing batch dim is
added and removed.  Returns (single-example?, batched shape, per-axis geometry for the full batched rank).
`origPadding = true` reproduces the code before the repair (`((0,0),) + padding + ((0,0),)`: a single leading pair
whatever the number of batch dims, which lax rejects when there are two or more). -/
def poolGeomCore (origPadding : Bool) (shape window strides : List Nat) (pad : PoolPad) : Bool × List Nat × PoolGeom :=
  let nw := window.length
  let strides := if strides.isEmpty then List.replicate nw 1 else strides
  let nb := shape.length - (nw + 1)
  let single := nb = 0
  let shape' := if single then 1 :: shape else shape
  let nb' := if single then 1 else nb
  let ones := List.replicate nb' 1
  let sp := (shape'.drop nb').take nw
  let padSp := poolPadSp pad sp window strides
  let lead := match pad with
    | .explicit _ => if origPadding then [(0, 0)] else List.replicate nb' (0, 0)
    | _ => List.replicate nb' (0, 0)
  (decide single, shape', ⟨ones ++ window ++ [1], ones ++ strides ++ [1], lead ++ padSp ++ [(0, 0)]⟩)

def poolGeomGen (origPadding : Bool) (shape window strides : List Nat) (pad : PoolPad) :
    Except String (Bool × List Nat × PoolGeom) := do
  let nw := window.length
  if shape.length < nw + 1 then throw "Rank"
  if (if strides.isEmpty then List.replicate nw 1 else strides).length ≠ nw then throw "Strides"
  match pad with
  | .explicit ps => if ps.length ≠ nw then throw "BadPadding"
  | _ => pure ()
  let r := poolGeomCore origPadding shape window strides pad
  if r.2.2.pads.length ≠ r.2.1.length then throw "PadRank"
  .ok r

def poolGeom := poolGeomGen false
def poolGeomOrig := poolGeomGen true

def poolOutShape (shape : List Nat) (g : PoolGeom) : List Nat :=
  (List.range shape.length).map (fun j =>
    let p := g.pads.getD j (0, 0)
    outLen (p.1 + nth shape j + p.2) (nth g.window j) (nth g.strides j))

/-- every position of the window placed at output position `o`: `some src` inside the data, `none` in the padding -/
def windowAll (shape : List Nat) (g : PoolGeom) (o : List Nat) : List (Option (List Nat)) :=
  (indices g.window).map (fun w =>
    ((List.range shape.length).map (fun j =>
      let p : Nat := nth o j 0 * nth g.strides j + nth w j 0
      let lo := (g.pads.getD j (0, 0)).1
      if lo ≤ p ∧ p < lo + nth shape j then some (p - lo) else none)).mapM id)

/-- the in-range source indices of the window at output position `o` -/
def windowSrcs (shape : List Nat) (g : PoolGeom) (o : List Nat) : List (List Nat) :=
  (windowAll shape g o).filterMap id

/-- sum pooling (`lax.reduce_window(x, 0, add, …)`): padding contributes 0 -/
def sumPool (x : Tensor R) (g : PoolGeom) : Tensor R :=
  Tensor.ofFn (poolOutShape x.shape g) (fun o => sumOver (windowSrcs x.shape g o) x.get)

/-- the value an all-ones array contributes at a window position (1 inside the data, the init value 0 in the padding) -/
def onesAt {α : Type} (s : Option α) : Nat :=
  match s with
  | some _ => 1
  | none => 0

/-- `pool(jnp.ones(div_shape), 0., lax.add, …)` at one output position: an all-ones array pooled with the same
geometry (padded positions contribute the init value 0) -/
def pooledOnes (shape : List Nat) (g : PoolGeom) (o : List Nat) : Nat :=
  (windowAll shape g o).foldl (fun acc s => acc + onesAt s) 0

/-- `avg_pool`: numerator and denominator.  `count_include_pad` divides by `prod(window)`, otherwise by the
pooled all-ones array. -/
def avgPoolParts (x : Tensor R) (window strides : List Nat) (pad : PoolPad) (countIncludePad : Bool) :
    Except String (List Nat × List (R × Nat)) := do
  let (single, shape', g) ← poolGeom x.shape window strides pad
  let x' := x.reshape shape'
  let num := sumPool x' g
  let outShape := if single then num.shape.drop 1 else num.shape
  let den (o : List Nat) : Nat := if countIncludePad then prod window else pooledOnes shape' g o
  .ok (outShape, (indices num.shape).map (fun o => (num.get o, den o)))

/-- extended integers for `max_pool` / `min_pool`: `none` is the init value (−inf for max, +inf for min), the identity
of the reduction -/
def extCombine (isMax : Bool) (a b : Option Int) : Option Int :=
  match a, b with
  | none, b => b
  | a, none => a
  | some u, some v => some (if isMax then max u v else min u v)

/-- `lax.reduce_window(x, ∓inf, max/min, …)` at one output position: every window position takes part, positions in the
padding carry the init value -/
def extremeAt (isMax : Bool) (x : Tensor Int) (g : PoolGeom) (o : List Nat) : Option Int :=
  (windowAll x.shape g o).foldl (fun acc s => extCombine isMax acc (s.map x.get)) none

/-- `max_pool` / `min_pool` over `Int`; a `none` entry is ∓inf (the window holds padding only) -/
def extremePool (isMax : Bool) (x : Tensor Int) (window strides : List Nat) (pad : PoolPad) :
    Except String (List Nat × List (Option Int)) := do
  let (single, shape', g) ← poolGeom x.shape window strides pad
  let x' := x.reshape shape'
  let outShape := poolOutShape shape' g
  .ok (if single then outShape.drop 1 else outShape, (indices outShape).map (extremeAt isMax x' g))

/-! ## 11. normalisation statistics (`_compute_stats`, `_normalize`) over `Rat` -/

/-- positions of `x` that share the statistics of position `idx`: all indices agreeing with `idx` outside `axes` -/
def reductionGroup (shape : List Nat) (axes : List Nat) (idx : List Nat) : List (List Nat) :=
  let redShape := axes.map (nth shape ·)
  (indices redShape).map (fun r =>
    (List.range shape.length).map (fun a =>
      match axes.idxOf? a with
      | some j => nth r j 0
      | none => nth idx a 0))

def ratMean (vs : List Rat) : Rat := vs.sum / vs.length

structure Stats where
  mean : Rat
  var : Rat
deriving Repr, DecidableEq

/-- `_compute_stats` for one statistics cell given the values it reduces over (mask already applied:
`x.mean(axes, where=mask)` averages the selected entries only) -/
def computeStats (vs : List Rat) (useMean useFast : Bool) : Stats :=
  if useMean then
    if useFast then
      let mu := ratMean vs
      let mu2 := ratMean (vs.map (fun v => v * v))
      ⟨mu, max 0 (mu2 - mu * mu)⟩
    else
      let mu := ratMean vs
      ⟨mu, ratMean (vs.map (fun v => (v - mu) * (v - mu)))⟩
  else ⟨0, ratMean (vs.map (fun v => v * v))⟩

/-- numpy broadcasting index of a mask of shape `mshape` (right-aligned) against index `idx` -/
def bcastIdx (mshape : List Nat) (idx : List Nat) : List Nat :=
  let skip := idx.length - mshape.length
  List.zipWith (fun i d => if d = 1 then 0 else i) (idx.drop skip) mshape

def maskAt (mask : Option (Tensor Int)) (idx : List Nat) : Bool :=
  match mask with
  | none => true
  | some m => m.get (bcastIdx m.shape idx) ≠ 0

/-- per-element pieces of `_normalize`: `(mean, var, scale, bias)` with `y = (x - mean)·rsqrt(var + ε)·scale + bias`.
`none` statistics = empty reduction (0/0). -/
structure NormPiece where
  stats : Option Stats
  scale : Int
  bias : Int
deriving Repr

def featureParam (shape : List Nat) (featAxes : List Nat) (p : Option (Tensor Int)) (dflt : Int) (idx : List Nat) : Int :=
  match p with
  | none => dflt
  | some t => (t.reshape (featAxes.map (nth shape ·))).get (featAxes.map (nth idx · 0))

/-- LayerNorm / RMSNorm / InstanceNorm / BatchNorm(training) share this: statistics over `redAxes`, affine
parameters indexed by `featAxes` -/
def normPieces (x : Tensor Int) (redAxes featAxes : List Nat) (useMean useFast : Bool)
    (mask scale bias : Option (Tensor Int)) : List NormPiece :=
  (indices x.shape).map (fun idx =>
    let grp := (reductionGroup x.shape redAxes idx).filter (maskAt mask)
    let st := if grp.isEmpty then none else some (computeStats (grp.map (fun i => (x.get i : Rat))) useMean useFast)
    ⟨st, featureParam x.shape featAxes scale 1 idx, featureParam x.shape featAxes bias 0 idx⟩)

def layerNormPieces (x : Tensor Int) (redAxes featAxes : List Int) (useMean useFast : Bool)
    (mask scale bias : Option (Tensor Int)) : List NormPiece :=
  normPieces x (canonAxes x.rank redAxes) (canonAxes x.rank featAxes) useMean useFast mask scale bias

/-- `InstanceNorm`: reduce every axis except 0 and the feature axes -/
def instanceNormPieces (x : Tensor Int) (featAxes : List Int) (useFast : Bool)
    (mask scale bias : Option (Tensor Int)) : Except String (List NormPiece) :=
  let fa := canonAxes x.rank featAxes
  if fa.contains 0 then .error "BatchAxis"
  else
    let red := (List.range x.rank).filter (fun i => decide (1 ≤ i) && !(fa.contains i))
    .ok (normPieces x red fa true useFast mask scale bias)

/-- `jnp.repeat(t, reps, axis=ax)` -/
def repeatAxis {α : Type} (t : Tensor α) (ax reps : Nat) (d : α) : Tensor α :=
  Tensor.ofFn (t.shape.set ax (nth t.shape ax * reps)) (fun idx => t.getD (idx.set ax (nth idx ax 0 / reps)) d)

/-- statistics of one cell of the grouped tensor: `sidx = kept coordinates ++ [group]`; reduces over the leading
reduction axes `redLead` and the `gs` channels of the group (masked-in entries only) -/
def groupStatsAt (x : Tensor Int) (gs : Nat) (redLead keepAx : List Nat) (useFast : Bool) (mask : Option (Tensor Int))
    (sidx : List Nat) : Option Stats :=
  let rank := x.rank
  let g := nth sidx keepAx.length 0
  let base := (List.range rank).map (fun a => match keepAx.idxOf? a with | some j => nth sidx j 0 | none => 0)
  let lead := reductionGroup x.shape redLead base
  let grp := (lead.flatMap (fun i => (List.range gs).map (fun j => i.set (rank - 1) (g * gs + j)))).filter (maskAt mask)
  if grp.isEmpty then none else some (computeStats (grp.map (fun i => (x.get i : Rat))) true useFast)

/-- `GroupNorm` once the configuration is accepted (`red` = canonical reduction axes, last one the channel axis):
`x` is viewed as `x.shape[:-1] ++ [G, S]`, statistics are taken over the leading reduction axes and the last axis,
giving a tensor of shape `keep ++ [G]`; it is repeated `S` times along `repeatAx` (Linen, and NNX as repaired: the last
axis; NNX as found: axis 1), viewed with the statistics shape (`x.shape` with the leading reduction axes set to 1) and
broadcast against `x`. -/
def groupNormCore (x : Tensor Int) (numGroups : Nat) (red : List Nat) (useFast : Bool)
    (mask scale bias : Option (Tensor Int)) (rax : Nat) : List NormPiece :=
  let rank := x.rank
  let c := nth x.shape (rank - 1)
  let gs := c / numGroups
  let redLead := red.dropLast
  let keepAx := (List.range (rank - 1)).filter (fun a => !(redLead.contains a))
  let keepShape := keepAx.map (nth x.shape ·)
  let statsT : Tensor (Option Stats) :=
    Tensor.ofFn (keepShape ++ [numGroups]) (groupStatsAt x gs redLead keepAx useFast mask)
  let rep := repeatAxis statsT rax gs none
  let statsShape := (List.range rank).map (fun a => if redLead.contains a then 1 else nth x.shape a)
  let view := rep.reshape statsShape
  (indices x.shape).map (fun idx =>
    ⟨view.getD (List.zipWith (fun i d => if d = 1 then 0 else i) idx statsShape) none,
     featureParam x.shape [rank - 1] scale 1 idx, featureParam x.shape [rank - 1] bias 0 idx⟩)

def groupNormRed (rank : Nat) (redAxes : Option (List Int)) : List Nat :=
  match redAxes with
  | some r => canonAxes rank r
  | none => canonAxes rank (((List.range (rank - 1)).filter (fun i => decide (1 ≤ i))).map (fun (i : Nat) => (i : Int)) ++ [-1])

def groupNormPieces (x : Tensor Int) (numGroups : Nat) (redAxes : Option (List Int)) (useFast : Bool)
    (mask scale bias : Option (Tensor Int)) (repeatAx : Option Nat) : Except String (List NormPiece) := do
  let rank := x.rank
  if rank = 0 then throw "Rank"
  let red := groupNormRed rank redAxes
  if red.getLast? ≠ some (rank - 1) then throw "ReductionAxes"
  let c := nth x.shape (rank - 1)
  if numGroups = 0 ∨ c % numGroups ≠ 0 then throw "Groups"
  let keepLen := ((List.range (rank - 1)).filter (fun a => !(red.dropLast.contains a))).length
  let rax := repeatAx.getD keepLen
  if keepLen + 1 ≤ rax then throw "RepeatAxis"
  .ok (groupNormCore x numGroups red useFast mask scale bias rax)

/-- BatchNorm: feature axis `axis`, reduction over all other axes.  Training returns the pieces computed from
the batch and the new running statistics `m·ra + (1−m)·batch`; inference uses `ra` and leaves it unchanged. -/
structure BNState where
  mean : List (Option Rat)   -- `none` = NaN (a feature whose masked batch was empty; NaN is sticky)
  var : List (Option Rat)
deriving Repr

def ema (m : Rat) (old new : Rat) : Rat := m * old + (1 - m) * new

def emaOpt (m : Rat) (old new : Option Rat) : Option Rat :=
  match old, new with
  | some o, some n => some (ema m o n)
  | _, _ => none

def batchNorm (x : Tensor Int) (axis : Int) (useRunningAverage useFast : Bool) (momentum : Rat)
    (mask scale bias : Option (Tensor Int)) (st : BNState) : List NormPiece × BNState :=
  let fa := canonAxes x.rank [axis]
  let red := (List.range x.rank).filter (fun i => !(fa.contains i))
  let a := fa.headD 0
  if useRunningAverage then
    ((indices x.shape).map (fun idx =>
      let f := nth idx a 0
      let stats := match st.mean.getD f none, st.var.getD f none with
        | some m, some v => some ⟨m, v⟩
        | _, _ => none
      ⟨stats, featureParam x.shape fa scale 1 idx, featureParam x.shape fa bias 0 idx⟩), st)
  else
    let pieces := normPieces x red fa true useFast mask scale bias
    let nf := nth x.shape a
    -- statistics of feature f: the piece of the first element with that feature index
    let statOf (f : Nat) : Option Stats :=
      let idx := (List.range x.rank).map (fun i => if i = a then f else 0)
      (pieces.getD (ravel x.shape idx) ⟨none, 1, 0⟩).stats
    let newMean := (List.range nf).map (fun f => emaOpt momentum (st.mean.getD f none) ((statOf f).map (·.mean)))
    let newVar := (List.range nf).map (fun f => emaOpt momentum (st.var.getD f none) ((statOf f).map (·.var)))
    (pieces, ⟨newMean, newVar⟩)

/-! ### call-time flags (`use_running_average`, `deterministic`) -/

/-- `flax.nnx.module.first_from(call_arg, self.attr)`: the first value that is not `None`; all `None` is an error.
(`Module.eval()` / `.train()` only set the attribute.) -/
def resolveFlag (call attr : Option Bool) : Except String Bool :=
  match call with
  | some b => .ok b
  | none =>
    match attr with
    | some b => .ok b
    | none => .error "NoFlag"

/-- `flax.linen.module.merge_param(name, self.attr, call_arg)`: exactly one of the two must be given -/
def mergeParam (attr call : Option Bool) : Except String Bool :=
  match attr, call with
  | none, some b => .ok b
  | some b, none => .ok b
  | _, _ => .error "MergeParam"

/-- the `None`-vs-falsy slip `call_arg or self.attr` (Python `or` keeps the first *truthy* operand): an explicit `False`
at call time is overridden by the attribute -/
def resolveFlagOr (call attr : Option Bool) : Except String Bool :=
  match call with
  | some true => .ok true
  | _ =>
    match attr with
    | some b => .ok b
    | none => (match call with | some b => .ok b | none => .error "NoFlag")

/-! ## 12. Dropout -/

inductive DropoutOut
  | identity
  | zeros
  | masked (keepNum keepDen : Nat) (maskShape : List Nat)
deriving Repr, DecidableEq

/-- branch structure of `Dropout.__call__`; `rate = num/den`.  In the `masked` branch the output is
`select(broadcast(mask), x / keep, 0)` with `mask = bernoulli(key, keep, maskShape)`. -/
def dropoutBranch (rateNum rateDen : Nat) (deterministic : Bool) (shape : List Nat) (broadcastDims : List Int) :
    DropoutOut :=
  if rateNum = 0 ∨ deterministic then .identity
  else if rateNum = rateDen then .zeros
  else
    let bd := broadcastDims.map (normAxis shape.length)
    .masked (rateDen - rateNum) rateDen ((List.range shape.length).map (fun i => if bd.contains i then 1 else nth shape i))

/-- `select(mask, x/keep, 0)` with the mask broadcast; values returned as numerator over `keepNum` × `keepDen` -/
def dropoutApply (x : Tensor Int) (mask : Tensor Int) (keepNum keepDen : Nat) : List Rat :=
  (indices x.shape).map (fun idx =>
    if mask.get (bcastIdx mask.shape idx) ≠ 0 then (x.get idx : Rat) * keepDen / keepNum else 0)

/-- the whole layer with the Bernoulli sampler as an uninterpreted function of (key, keep probability, mask shape):
`jax.random.bernoulli(rng, p=keep_prob, shape=broadcast_shape)` -/
def dropoutLayer (bern : Nat → Rat → List Nat → Tensor Bool) (key : Nat) (rateNum rateDen : Nat) (deterministic : Bool)
    (broadcastDims : List Int) (x : Tensor Rat) : Tensor Rat :=
  match dropoutBranch rateNum rateDen deterministic x.shape broadcastDims with
  | .identity => x
  | .zeros => Tensor.ofFn x.shape (fun _ => 0)
  | .masked kn kd ms =>
    let keep : Rat := (kn : Rat) / (kd : Rat)
    let mask := bern key keep ms
    Tensor.ofFn x.shape (fun idx => if mask.getD (bcastIdx ms idx) false then x.get idx / keep else 0)

end Flax.Layers
