/-
Model of flax's checkpoint directory management (flax/training/checkpoints.py, flax/io.py).

What is transcribed
  * `save_checkpoint`, legacy msgpack branch: `_check_overwrite_error`, `_save_main_ckpt_file`
    (makedirs, open `<prefix>tmp` for writing, write, close), `_save_commit` (`io.rename(tmp, final,
    overwrite)`), `_remove_invalid_ckpts` (newer ones when `overwrite`, older ones beyond `keep` unless the
    `keep_every_n_steps` recurrence retains them), as a *sequence of atomic file-system steps*, so that a
    crash is a prefix of the sequence (a torn write is the state between `create` and `writeAll`).
  * `save_checkpoint`, Orbax branch: `orbax_checkpointer.save(path, force=overwrite)` as the installed
    Orbax performs it (destination removed first when `force`, stale temp dir removed, temp dir created and
    written, one atomic rename), then the same `_remove_invalid_ckpts`; directories are removed by
    `rmtree`, which is *not* atomic: `damage` then `remove`.
  * `_all_checkpoints` / `latest_checkpoint` / `available_steps` / `restore_checkpoint`.
  * `AsyncManager` (one pending task, `wait_previous_save` before every save) as a two-party state machine.

Representation.  Names that match `<prefix>*` fall in three classes: final names `<prefix><step>`, the
legacy temp file `<prefix>tmp`, Orbax temp dirs `<prefix><step><TMP_DIR_SUFFIX>…`.  The directory keeps the
final names as an association list **in natural_sort order**, i.e. ascending by the numeric value of the
step (assumption A-NAT, validated differentially against the real `natural_sort`); step values are
integers (the harness scales the finitely many rational step values of a history by a common denominator:
order, differences `>= n` and `== 0` are invariant under that scaling: theorem `policy_scale` in Props/C11).
A payload is the identity of the saved tree.

Core Lean only: this file is linked into the driver.
-/

namespace Flax.Ckpt

/-- what a file / checkpoint directory holds -/
inductive Content where
  | complete (p : Nat)   -- the full serialisation of payload `p`
  | torn                 -- "partial": anything else: empty, truncated, torn, half written, half deleted
  deriving DecidableEq, Repr, Inhabited

/-- final-named checkpoints: `(step value, content)` -/
abbrev Files := List (Int × Content)

namespace Files

def get (s : Int) : Files → Option Content
  | [] => none
  | (x, c) :: r => if x = s then some c else get s r

def del (s : Int) (f : Files) : Files := f.filter (fun e => decide (e.1 ≠ s))

/-- insert or replace, keeping ascending order -/
def put (s : Int) (c : Content) : Files → Files
  | [] => [(s, c)]
  | (x, cx) :: r =>
    if s < x then (s, c) :: (x, cx) :: r
    else if s = x then (s, c) :: r
    else (x, cx) :: put s c r

def steps (f : Files) : List Int := f.map (·.1)

end Files

inductive Name where
  | ckpt (s : Int)   -- `<prefix><step>`
  | tmp              -- `<prefix>tmp`  (legacy temp file)
  | otmp (s : Int)   -- `<prefix><step>.orbax-checkpoint-tmp…` (Orbax temp dir)
  deriving DecidableEq, Repr, Inhabited

structure Dir where
  ckpts : Files := []
  tmp : Option Content := none
  otmps : Files := []
  deriving DecidableEq, Repr, Inhabited

def Dir.empty : Dir := {}

def Dir.get (d : Dir) : Name → Option Content
  | .ckpt s => d.ckpts.get s
  | .tmp => d.tmp
  | .otmp s => d.otmps.get s

def Dir.put (d : Dir) (n : Name) (c : Content) : Dir :=
  match n with
  | .ckpt s => { d with ckpts := d.ckpts.put s c }
  | .tmp => { d with tmp := some c }
  | .otmp s => { d with otmps := d.otmps.put s c }

def Dir.del (d : Dir) : Name → Dir
  | .ckpt s => { d with ckpts := d.ckpts.del s }
  | .tmp => { d with tmp := none }
  | .otmp s => { d with otmps := d.otmps.del s }

/-! ### atomic file-system steps -/

inductive FsStep where
  | mkdir                            -- `io.makedirs(ckpt_dir)`
  | create (n : Name)                -- open for writing (truncates) / mkdir of a temp dir: `n ↦ partial`
  | writeAll (n : Name) (p : Nat)    -- the last byte is written and the file closed: `n ↦ complete p`
  | rename (src dst : Name)          -- atomic, replaces `dst`
  | remove (n : Name)                -- unlink of a file / the final rmdir of an `rmtree`
  | damage (n : Name)                -- `rmtree` has deleted some but not all of directory `n`
  deriving DecidableEq, Repr, Inhabited

def apply : FsStep → Dir → Dir
  | .mkdir, d => d
  | .create n, d => d.put n .torn
  | .writeAll n p, d => if (d.get n).isSome then d.put n (.complete p) else d
  | .rename a b, d =>
    match d.get a with
    | some c => (d.del a).put b c
    | none => d
  | .remove n, d => d.del n
  | .damage n, d => if (d.get n).isSome then d.put n .torn else d

def run (st : List FsStep) (d : Dir) : Dir := st.foldl (fun d s => apply s d) d

/-! ### the reading API -/

/-- `_all_checkpoints`: final names only (temp names are excluded), natural_sort order -/
def listing (d : Dir) : List Int := d.ckpts.steps

/-- `latest_checkpoint` -/
def latest (d : Dir) : Option (Int × Content) := d.ckpts.getLast?

inductive Err where
  | invalidCheckpoint    -- errors.InvalidCheckpointError
  | destinationExists    -- Orbax: ValueError("Destination … already exists")
  | notFound             -- restore_checkpoint(step=…): "Matching checkpoint not found"
  | corrupt              -- the bytes / directory found are not a complete checkpoint
  deriving DecidableEq, Repr, Inhabited

/-- `restore_checkpoint(dir, target=None)`: `none` = "no checkpoint, the target is returned" -/
def restoreLatest (d : Dir) : Except Err (Option Nat) :=
  match latest d with
  | none => .ok none
  | some (_, .complete p) => .ok (some p)
  | some (_, .torn) => .error .corrupt

/-- `restore_checkpoint(dir, target=None, step=s)` -/
def restoreStep (d : Dir) (s : Int) : Except Err Nat :=
  match d.ckpts.get s with
  | none => .error .notFound
  | some (.complete p) => .ok p
  | some .torn => .error .corrupt

/-! ### `_remove_invalid_ckpts` -/

/-- "Remove newer checkpoints": `checkpoint_files[index(ckpt_path)+1:]` when `overwrite` and the path is
listed.  On an ascending list that is the elements above `s` (`newerOf_eq_drop`). -/
def newerOf (ovw : Bool) (s : Int) (files : List Int) : List Int :=
  if ovw && files.contains s then files.filter (fun x => decide (s < x)) else []

/-- what is left after the newer ones are dropped: `checkpoint_files[:index+1]` -/
def uptoOf (ovw : Bool) (s : Int) (files : List Int) : List Int :=
  if ovw && files.contains s then files.filter (fun x => decide (x ≤ s)) else files

/-- `old_ckpts = checkpoint_files[:-keep]` under `len(checkpoint_files) > keep`
(Python: `xs[:-0]` is `xs[:0]`, so `keep = 0` removes nothing) -/
def oldOf (keep : Nat) (files : List Int) : List Int :=
  if keep < files.length then (if keep = 0 then [] else files.take (files.length - keep)) else []

/-- the retention test of the `last_kept` loop: `keep_every_n_steps` truthy, `step_number` truthy and
`step_number - last_kept >= keep_every_n_steps`; `last = none` is `-inf`; `n = 0` is `None` (or `0`) -/
def keepCond (n : Int) (last : Option Int) (x : Int) : Bool :=
  decide (n ≠ 0) && decide (x ≠ 0) &&
    (match last with
     | none => true
     | some l => decide (n ≤ x - l))

/-- the `last_kept` loop: returns the paths that are **removed** -/
def greedyRemove (n : Int) : Option Int → List Int → List Int
  | _, [] => []
  | last, x :: xs =>
    if keepCond n last x then greedyRemove n (some x) xs
    else x :: greedyRemove n last xs

/-- the old checkpoints the loop keeps -/
def greedyKeep (n : Int) : Option Int → List Int → List Int
  | _, [] => []
  | last, x :: xs =>
    if keepCond n last x then x :: greedyKeep n (some x) xs
    else greedyKeep n last xs

/-- steps removed by `_remove_invalid_ckpts`, in the order the code removes them -/
def removals (keep : Nat) (n : Int) (ovw : Bool) (s : Int) (files : List Int) : List Int :=
  newerOf ovw s files ++ greedyRemove n none (oldOf keep (uptoOf ovw s files))

/-! ### save_checkpoint -/

inductive Backend where
  | legacy
  | orbax
  deriving DecidableEq, Repr, Inhabited

structure Cfg where
  backend : Backend
  step : Int
  payload : Nat
  keep : Nat
  everyN : Int
  overwrite : Bool
  deriving DecidableEq, Repr, Inhabited

/-- the synchronous checks made before anything is written:
legacy `_check_overwrite_error` (the new path must not exist and must sort last; a trailing `<prefix>tmp`
is ignored; temp names of Orbax are not counted — repaired definition, see `checkOrig`);
Orbax `Checkpointer.save(force=False)` refuses an existing destination. -/
def check (cfg : Cfg) (d : Dir) : Except Err Unit :=
  match cfg.backend with
  | .legacy =>
    if cfg.overwrite then .ok ()
    else if d.ckpts.steps.any (fun x => decide (cfg.step ≤ x)) then .error .invalidCheckpoint
    else .ok ()
  | .orbax =>
    if !cfg.overwrite && (d.ckpts.get cfg.step).isSome then .error .destinationExists else .ok ()

/-- the name written before the commit -/
def tmpName (cfg : Cfg) : Name :=
  match cfg.backend with
  | .legacy => .tmp
  | .orbax => .otmp cfg.step

/-- removing one checkpoint: a file is unlinked atomically, a directory is emptied first -/
def rmSteps : Backend → Int → List FsStep
  | .legacy, x => [.remove (.ckpt x)]
  | .orbax, x => [.damage (.ckpt x), .remove (.ckpt x)]

/-- everything up to (excluding) the commit rename -/
def prepare (cfg : Cfg) (d : Dir) : List FsStep :=
  match cfg.backend with
  | .legacy => [.mkdir, .create .tmp, .writeAll .tmp cfg.payload]
  | .orbax =>
    (if cfg.overwrite && (d.ckpts.get cfg.step).isSome then rmSteps .orbax cfg.step else []) ++
    (if (d.otmps.get cfg.step).isSome then [.damage (.otmp cfg.step), .remove (.otmp cfg.step)] else []) ++
    [.create (.otmp cfg.step), .writeAll (.otmp cfg.step) cfg.payload]

def commit (cfg : Cfg) : FsStep := .rename (tmpName cfg) (.ckpt cfg.step)

/-- `_remove_invalid_ckpts`, run on the directory as it is after the commit -/
def cleanup (cfg : Cfg) (d1 : Dir) : List FsStep :=
  (removals cfg.keep cfg.everyN cfg.overwrite cfg.step (listing d1)).flatMap (rmSteps cfg.backend)

/-- the whole save as a sequence of atomic steps (or the synchronous error) -/
def saveSteps (cfg : Cfg) (d : Dir) : Except Err (List FsStep) :=
  match check cfg d with
  | .error e => .error e
  | .ok () =>
    let pre := prepare cfg d ++ [commit cfg]
    .ok (pre ++ cleanup cfg (run pre d))

/-- a completed save -/
def save (cfg : Cfg) (d : Dir) : Except Err Dir :=
  match saveSteps cfg d with
  | .error e => .error e
  | .ok st => .ok (run st d)

/-- the directory after a crash that let exactly `k` steps of the save happen
(a save that raises synchronously has no steps) -/
def crashed (cfg : Cfg) (d : Dir) (k : Nat) : Dir :=
  match saveSteps cfg d with
  | .error _ => d
  | .ok st => run (st.take k) d

/-- a history of save calls; a call that raises leaves the directory as it is -/
def runHistory : List Cfg → Dir → Dir
  | [], d => d
  | c :: cs, d =>
    match save c d with
    | .ok d' => runHistory cs d'
    | .error _ => runHistory cs d

/-! ### the retention policy, stated on step values only (no file-system steps) -/

/-- insert into an ascending list without duplicating -/
def insertStep (s : Int) : List Int → List Int
  | [] => [s]
  | x :: r => if s < x then s :: x :: r else if s = x then x :: r else x :: insertStep s r

/-- what the policy promises after a completed save of step `s`, given the steps listed before:
the candidates are the old steps and `s`, minus those above `s` when `overwrite`;
the `keep` largest stay; of the others those chosen by the every-n recurrence stay. -/
def policy (keep : Nat) (n : Int) (ovw : Bool) (s : Int) (before : List Int) : List Int :=
  let cand := insertStep s before
  let cand := if ovw then cand.filter (fun x => decide (x ≤ s)) else cand
  if keep = 0 then cand
  else greedyKeep n none (cand.take (cand.length - keep)) ++ cand.drop (cand.length - keep)

/-! ### the definitions as shipped before the `fix:` commit (finding F10) -/

/-- natural_sort key of a listed name: a temp dir of step `s` sorts right after `<prefix><s>` -/
def Name.key : Name → Option (Int × Nat)
  | .ckpt s => some (s, 0)
  | .otmp s => some (s, 1)
  | .tmp => none   -- `<prefix>tmp` sorts after every numbered name

def Name.le (a b : Name) : Bool :=
  match a.key, b.key with
  | some (x, i), some (y, j) => decide (x < y) || (decide (x = y) && decide (i ≤ j))
  | some _, none => true
  | none, some _ => false
  | none, none => true

def insertName (a : Name) : List Name → List Name
  | [] => [a]
  | b :: r => if a.le b then a :: b :: r else b :: insertName a r

/-- the listing `_remove_invalid_ckpts` and `_check_overwrite_error` used: every `<prefix>*` name -/
def listingOrig (d : Dir) : List Name :=
  let xs := (d.ckpts.steps.map Name.ckpt) ++ (d.otmps.steps.map Name.otmp) ++ (if d.tmp.isSome then [Name.tmp] else [])
  xs.foldr insertName []

def Name.stepOf : Name → Option Int
  | .ckpt s => some s
  | .otmp s => some s
  | .tmp => none

def greedyRemoveOrig (n : Int) : Option Int → List Name → List Name
  | _, [] => []
  | last, a :: xs =>
    match a.stepOf with
    | some x =>
      if keepCond n last x then greedyRemoveOrig n (some x) xs
      else a :: greedyRemoveOrig n last xs
    | none => a :: greedyRemoveOrig n last xs

/-- names removed by the shipped `_remove_invalid_ckpts` (temp names counted like checkpoints) -/
def removalsOrig (keep : Nat) (n : Int) (ovw : Bool) (s : Int) (files : List Name) : List Name :=
  let i := files.idxOf (Name.ckpt s)
  let hit := ovw && files.contains (Name.ckpt s)
  let newer := if hit then files.drop (i + 1) else []
  let upto := if hit then files.take (i + 1) else files
  let old := if keep < upto.length then (if keep = 0 then [] else upto.take (upto.length - keep)) else []
  newer ++ greedyRemoveOrig n none old

def cleanupOrig (cfg : Cfg) (d1 : Dir) : List FsStep :=
  (removalsOrig cfg.keep cfg.everyN cfg.overwrite cfg.step (listingOrig d1)).flatMap
    (fun a => match cfg.backend with
      | .legacy => [.remove a]
      | .orbax => [.damage a, .remove a])

/-- the shipped `_check_overwrite_error`: Orbax temp dirs at or above the new step count as "newer" -/
def checkOrig (cfg : Cfg) (d : Dir) : Except Err Unit :=
  match cfg.backend with
  | .legacy =>
    if cfg.overwrite then .ok ()
    else if d.ckpts.steps.any (fun x => decide (cfg.step ≤ x)) || d.otmps.steps.any (fun x => decide (cfg.step ≤ x))
    then .error .invalidCheckpoint
    else .ok ()
  | .orbax => check cfg d

def saveStepsOrig (cfg : Cfg) (d : Dir) : Except Err (List FsStep) :=
  match checkOrig cfg d with
  | .error e => .error e
  | .ok () =>
    let pre := prepare cfg d ++ [commit cfg]
    .ok (pre ++ cleanupOrig cfg (run pre d))

def saveOrig (cfg : Cfg) (d : Dir) : Except Err Dir :=
  match saveStepsOrig cfg d with
  | .error e => .error e
  | .ok st => .ok (run st d)

/-! ### AsyncManager -/

/-- caller + one worker.  `pending` are the steps of the save the worker has not done yet. -/
structure AState where
  dir : Dir
  pending : List FsStep
  queue : List Cfg
  errs : List (Option Err)     -- per issued save: the synchronous error, if any
  deriving DecidableEq, Repr, Inhabited

inductive Move where
  | worker     -- the worker thread performs its next file-system step
  | caller     -- the caller's next `save_checkpoint(..., async_manager=am)` call
  deriving DecidableEq, Repr, Inhabited

/-- one scheduling decision; `none` = that party cannot move now
(the caller is blocked in `wait_previous_save` while a save is pending) -/
def amove (waits : Bool) : Move → AState → Option AState
  | .worker, st =>
    match st.pending with
    | [] => none
    | x :: r => some { st with dir := apply x st.dir, pending := r }
  | .caller, st =>
    match st.queue with
    | [] => none
    | c :: q =>
      if waits && !st.pending.isEmpty then none
      else
        match saveSteps c st.dir with
        | .error e => some { st with queue := q, errs := st.errs ++ [some e] }
        | .ok steps => some { st with queue := q, pending := st.pending ++ steps, errs := st.errs ++ [none] }

/-- run a schedule, ignoring decisions that are not enabled -/
def aexec (waits : Bool) : List Move → AState → AState
  | [], st => st
  | m :: ms, st =>
    match amove waits m st with
    | some st' => aexec waits ms st'
    | none => aexec waits ms st

def AState.done (st : AState) : Bool := st.pending.isEmpty && st.queue.isEmpty

def ainit (d : Dir) (q : List Cfg) : AState := { dir := d, pending := [], queue := q, errs := [] }

/-- synchronous errors of a history, for comparison with `AState.errs` -/
def historyErrs : List Cfg → Dir → List (Option Err)
  | [], _ => []
  | c :: cs, d =>
    match save c d with
    | .ok d' => none :: historyErrs cs d'
    | .error e => some e :: historyErrs cs d

end Flax.Ckpt
