/-
Heap-level model of the *in-place* passes of `flax/serialization.py`, for the clause
"serialising does not modify the input".

Only `dict` objects are ever written by serialization.py (`d[k] = …` in `_np_convert_in_place`,
`_chunk_array_leaves_in_place`), so only dicts are heap objects here: an address (a `Nat`) is an index into the
heap, allocation is append (fresh = not below the old length). Everything that is not a dict is a
`leaf` for these passes (they test `isinstance(v, dict)` and nothing else).

  to_bytes(target)                 = msgpack_serialize(to_state_dict(target), in_place=True)
  msgpack_serialize(x, in_place)   = [copy unless in_place] ; _np_convert_in_place ; _chunk_array_leaves_in_place ; packb

`to_state_dict` builds a new dict for every registered container and returns unregistered values
as they are, i.e. it allocates the pure state dict `Serial.toStateDict t` freshly (`allocSTree`).

Core Lean only.
-/
import Flax.Model.Serial

namespace Flax.SerialHeap
open Flax.Serial

/-- a value as the in-place passes see it: a reference to a `dict` object, or anything else -/
inductive HVal where
  | leaf (v : Leaf)
  | ref (a : Nat)
  deriving Repr, DecidableEq, Inhabited

abbrev DictObj := List (String × HVal)

/-- the Python heap restricted to dict objects; address = index -/
abbrev Heap := List DictObj

/-- `{...}`: a new dict object -/
def alloc (h : Heap) (d : DictObj) : Heap × Nat := (h ++ [d], h.length)

mutual
  /-- builds a state dict out of new dict objects (what `to_state_dict` / `_chunk` return) -/
  def allocSTree (h : Heap) : STree → Heap × HVal
    | .leaf v => (h, .leaf v)
    | .dict kvs =>
      ((alloc (allocKvs h kvs).1 (allocKvs h kvs).2).1, .ref (alloc (allocKvs h kvs).1 (allocKvs h kvs).2).2)
  def allocKvs (h : Heap) : List (String × STree) → Heap × DictObj
    | [] => (h, [])
    | (k, v) :: r =>
      ((allocKvs (allocSTree h v).1 r).1, (k, (allocSTree h v).2) :: (allocKvs (allocSTree h v).1 r).2)
end

/-- `to_state_dict(target)` on the heap: fresh dicts, leaves shared with the target -/
def toStateDictH (h : Heap) (t : Tree) : Heap × HVal := allocSTree h (toStateDict t)

/-- `d[k] = v` on the dict object at address `a`; returns the heap (unchanged if `a` is dangling) -/
def setItem (h : Heap) (a : Nat) (k : String) (v : HVal) : Heap :=
  match h[a]? with
  | none => h
  | some obj => h.set a (dictSet obj k v)

/-- result of an in-place pass: the heap afterwards, the value it returns, and the addresses of the
dict objects it wrote to (in order) -/
structure Out where
  heap : Heap
  val : HVal
  writes : List Nat

/-- the loop `for k, v in d.items(): …` over a snapshot `ks` of the keys of the dict at `a`.
`step` says what to put in place of a leaf (`none` = leave it), `recur` is the pass itself on nested
dicts. -/
def passEntries (step : Leaf → Option STree) (recur : Heap → HVal → Out) (a : Nat) :
    List String → Heap → List Nat → Heap × List Nat
  | [], h, w => (h, w)
  | k :: ks, h, w =>
    match h[a]? with
    | none => (h, w)
    | some obj =>
      match lookup k obj with
      | none => passEntries step recur a ks h w
      | some (.leaf v) =>
        match step v with
        | none => passEntries step recur a ks h w
        | some s =>
          passEntries step recur a ks (setItem (allocSTree h s).1 a k (allocSTree h s).2) (w ++ [a])
      | some (.ref c) =>
        passEntries step recur a ks (recur h (.ref c)).heap (w ++ (recur h (.ref c)).writes)

/-- a generic in-place pass (`_np_convert_in_place`, `_chunk_array_leaves_in_place`): a dict is
walked entry by entry, leaves that `step` selects are replaced *in the dict*, nested dicts are
walked recursively; a leaf at the root is replaced in the return value. `fuel` bounds the depth
(Python recurses without bound on a cyclic structure). -/
def inPlace (step : Leaf → Option STree) : Nat → Heap → HVal → Out
  | 0, h, v => { heap := h, val := v, writes := [] }
  | _ + 1, h, .leaf v =>
    match step v with
    | none => { heap := h, val := .leaf v, writes := [] }
    | some s => { heap := (allocSTree h s).1, val := (allocSTree h s).2, writes := [] }
  | fuel + 1, h, .ref a =>
    match h[a]? with
    | none => { heap := h, val := .ref a, writes := [] }
    | some obj =>
      { heap := (passEntries step (inPlace step fuel) a (keys obj) h []).1, val := .ref a,
        writes := (passEntries step (inPlace step fuel) a (keys obj) h []).2 }

/-- `_np_convert_in_place`: `isJax` recognises `jax.Array` leaves, `toNp` is `np.array(·)` -/
def npStep (isJax : Leaf → Bool) (toNp : Leaf → Leaf) (v : Leaf) : Option STree :=
  if isJax v then some (.leaf (toNp v)) else none

/-- `_chunk_array_leaves_in_place` -/
def chunkStep (T : Nat) (isz : String → Nat) : Leaf → Option STree
  | .ndarray a => if oversize T isz a then some (chunk T isz a) else none
  | _ => none

/-- `jax.tree_util.tree_map(lambda x: x, pytree)` as far as dicts are concerned: every dict
reachable through dicts is rebuilt as a new object (`none`: the structure is deeper than `fuel`) -/
def copyH : Nat → Heap → HVal → Option (Heap × HVal)
  | 0, _, _ => none
  | _ + 1, h, .leaf v => some (h, .leaf v)
  | fuel + 1, h, .ref a =>
    match h[a]? with
    | none => none
    | some obj =>
      match go (copyH fuel) obj h with
      | none => none
      | some (h1, obj') => some ((alloc h1 obj').1, .ref (alloc h1 obj').2)
where
  go (recur : Heap → HVal → Option (Heap × HVal)) : DictObj → Heap → Option (Heap × DictObj)
    | [], h => some (h, [])
    | (k, v) :: r, h =>
      match recur h v with
      | none => none
      | some (h1, v') =>
        match go recur r h1 with
        | none => none
        | some (h2, rest) => some (h2, (k, v') :: rest)

/-- the two in-place passes of `msgpack_serialize`, one after the other -/
def passes (isJax : Leaf → Bool) (toNp : Leaf → Leaf) (T : Nat) (isz : String → Nat) (fuel : Nat)
    (h : Heap) (v : HVal) : Out :=
  { heap := (inPlace (chunkStep T isz) fuel (inPlace (npStep isJax toNp) fuel h v).heap
              (inPlace (npStep isJax toNp) fuel h v).val).heap,
    val := (inPlace (chunkStep T isz) fuel (inPlace (npStep isJax toNp) fuel h v).heap
              (inPlace (npStep isJax toNp) fuel h v).val).val,
    writes := (inPlace (npStep isJax toNp) fuel h v).writes ++
      (inPlace (chunkStep T isz) fuel (inPlace (npStep isJax toNp) fuel h v).heap
              (inPlace (npStep isJax toNp) fuel h v).val).writes }

/-- `msgpack_serialize(pytree, in_place)` up to the final `packb` (which only reads) -/
def msgpackSerializeH (isJax : Leaf → Bool) (toNp : Leaf → Leaf) (T : Nat) (isz : String → Nat)
    (fuel : Nat) (inPlaceFlag : Bool) (h : Heap) (v : HVal) : Option Out :=
  if inPlaceFlag then some (passes isJax toNp T isz fuel h v)
  else
    match copyH fuel h v with
    | none => none
    | some (h1, v1) => some (passes isJax toNp T isz fuel h1 v1)

/-- `to_bytes(target)` up to the final `packb` -/
def toBytesH (isJax : Leaf → Bool) (toNp : Leaf → Leaf) (T : Nat) (isz : String → Nat) (fuel : Nat)
    (h : Heap) (t : Tree) : Out :=
  passes isJax toNp T isz fuel (toStateDictH h t).1 (toStateDictH h t).2

/-- the pure state dict a heap value denotes (`none`: dangling reference or deeper than `fuel`) -/
def readBack : Nat → Heap → HVal → Option STree
  | 0, _, _ => none
  | _ + 1, _, .leaf v => some (.leaf v)
  | fuel + 1, h, .ref a =>
    match h[a]? with
    | none => none
    | some obj =>
      match go (readBack fuel h) obj with
      | none => none
      | some kvs => some (.dict kvs)
where
  go (recur : HVal → Option STree) : DictObj → Option (List (String × STree))
    | [] => some []
    | (k, v) :: r =>
      match recur v, go recur r with
      | some s, some rest => some ((k, s) :: rest)
      | _, _ => none

end Flax.SerialHeap
