/-
Model of flax's nested-dict flatten / unflatten.

  flax/traverse_util.py   : flatten_dict, unflatten_dict, path_aware_map, empty_node
  flax/nnx/traversals.py  : flatten_mapping, flatten_to_sequence, unflatten_mapping  (same algorithm over `Mapping`)

A Python dict is an association list in insertion order (`Dict.set` keeps the position of an existing key, like
`d[k] = v`); keys of one dict are distinct, which is the well-formedness predicate `WF` used by the theorems.
Leaves are opaque (`α`); the sentinel `empty_node` is a separate constructor of the flat value type, so a leaf is
never the sentinel (assumption recorded in the harness SPEC).

Core Lean only (no Mathlib): this file is in the import closure of the compiled driver.
-/

namespace Flax.Traverse

/-- nested dict with keys `κ` and opaque leaves `α` -/
inductive Tree (κ α : Type) where
  | leaf (v : α)
  | dict (kvs : List (κ × Tree κ α))
  deriving Inhabited

/-- a value of a flattened dict: a sub-tree (a leaf, or a dict that `is_leaf` declared a leaf) or `empty_node` -/
inductive FVal (κ α : Type) where
  | val (t : Tree κ α)
  | emptyNode
  deriving Inhabited

inductive Err where
  | notMapping   -- the `assert isinstance(xs, (FrozenDict, dict))` of flatten_dict / flatten_mapping
  | emptyPath    -- `path[-1]` on an empty path: IndexError
  | notDict      -- walking through / assigning into a value that is not a dict: TypeError
  | badSep       -- `str.split('')`: ValueError
  deriving Repr, DecidableEq, Inhabited

def Err.name : Err → String
  | .notMapping => "NotMapping"
  | .emptyPath => "EmptyPath"
  | .notDict => "NotDict"
  | .badSep => "BadSep"

/-! ### Python dict as an insertion-ordered association list -/

namespace Dict
variable {κ β : Type} [DecidableEq κ]

/-- `d.get(k)` -/
def get : List (κ × β) → κ → Option β
  | [], _ => none
  | (k', v) :: rest, k => if k' = k then some v else get rest k

/-- `d[k] = v`: an existing key keeps its position (and its key object), a new key is appended -/
def set : List (κ × β) → κ → β → List (κ × β)
  | [], k, v => [(k, v)]
  | (k', v') :: rest, k, v => if k' = k then (k', v) :: rest else (k', v') :: set rest k v

/-- `dict(items)` / repeated `result.update(...)` in iteration order -/
def ofList (l : List (κ × β)) : List (κ × β) :=
  l.foldl (fun acc kv => set acc kv.1 kv.2) []

/-- `d.update(other)` -/
def update (d other : List (κ × β)) : List (κ × β) :=
  other.foldl (fun acc kv => set acc kv.1 kv.2) d

/-- `del d[k]` for every key satisfying `p` (used for dict comprehensions with a condition) -/
def keys (d : List (κ × β)) : List κ := d.map Prod.fst

end Dict

variable {κ α : Type}

abbrev Path (κ : Type) := List κ

/-- `value = {} if value is empty_node else value` in `unflatten_dict` -/
def FVal.toTree : FVal κ α → Tree κ α
  | .val t => t
  | .emptyNode => .dict []

/-! ### flatten -/

mutual
  /-- `_flatten(xs, prefix)` of `flatten_dict` / `flatten_mapping`, as the sequence of `(path, value)` pairs in the
  order in which the nested `result.update` calls insert them (depth-first, dict order). With `keep = false` and
  on a dict this is literally `flatten_to_sequence`. -/
  def flatT (keep : Bool) (isLeaf : Path κ → Tree κ α → Bool) : Tree κ α → Path κ → List (Path κ × FVal κ α)
    | .leaf v, pre => [(pre, .val (.leaf v))]
    | .dict kvs, pre =>
      if isLeaf pre (.dict kvs) then [(pre, .val (.dict kvs))]
      else if keep && kvs.isEmpty then (if pre.isEmpty then [] else [(pre, .emptyNode)])
      else flatKvs keep isLeaf kvs pre
  def flatKvs (keep : Bool) (isLeaf : Path κ → Tree κ α → Bool) :
      List (κ × Tree κ α) → Path κ → List (Path κ × FVal κ α)
    | [], _ => []
    | (k, c) :: rest, pre => flatT keep isLeaf c (pre ++ [k]) ++ flatKvs keep isLeaf rest pre
end

/-- `is_leaf=None` -/
def noLeaf : Path κ → Tree κ α → Bool := fun _ _ => false

/-- `flatten_dict(xs, keep_empty_nodes, is_leaf, sep)`; `key` is `_key` (identity for `sep=None`, `sep.join`
otherwise); the result is a Python dict, so entries whose keys collide are merged by `Dict.ofList`. -/
def flattenWith {ρ : Type} [DecidableEq ρ] (key : Path κ → ρ) (keep : Bool) (isLeaf : Path κ → Tree κ α → Bool)
    (t : Tree κ α) : Except Err (List (ρ × FVal κ α)) :=
  match t with
  | .leaf _ => .error .notMapping
  | .dict _ => .ok (Dict.ofList ((flatT keep isLeaf t []).map (fun pv => (key pv.1, pv.2))))

/-- tuple keys (`sep=None`) -/
def flatten [DecidableEq κ] (keep : Bool) (isLeaf : Path κ → Tree κ α → Bool) (t : Tree κ α) :
    Except Err (List (Path κ × FVal κ α)) :=
  flattenWith id keep isLeaf t

/-- `flatten_to_sequence(xs, is_leaf)`: no dict is built, empty sub-dicts vanish -/
def flattenToSeq (isLeaf : Path κ → Tree κ α → Bool) (t : Tree κ α) : Except Err (List (Path κ × FVal κ α)) :=
  match t with
  | .leaf _ => .error .notMapping
  | .dict _ => .ok (flatT false isLeaf t [])

/-! ### unflatten -/

section
variable [DecidableEq κ]

/-- the body of the loop of `unflatten_dict`: walk `path[:-1]` from the root creating missing dicts, then assign
`cursor[path[-1]] = value` -/
def insertPath (kvs : List (κ × Tree κ α)) : Path κ → Tree κ α → Except Err (List (κ × Tree κ α))
  | [], _ => .error .emptyPath
  | [k], v => .ok (Dict.set kvs k v)
  | k :: k2 :: rest, v =>
    match Dict.get kvs k with
    | none => do
        let sub ← insertPath [] (k2 :: rest) v
        .ok (Dict.set kvs k (.dict sub))
    | some (.dict sub) => do
        let sub' ← insertPath sub (k2 :: rest) v
        .ok (Dict.set kvs k (.dict sub'))
    | some (.leaf _) => .error .notDict

/-- the loop of `unflatten_dict` over the remaining items -/
def unflattenLoop {ρ : Type} (unkey : ρ → Except Err (Path κ)) :
    List (κ × Tree κ α) → List (ρ × FVal κ α) → Except Err (List (κ × Tree κ α))
  | acc, [] => .ok acc
  | acc, (r, v) :: rest => do
      let p ← unkey r
      let acc' ← insertPath acc p v.toTree
      unflattenLoop unkey acc' rest

/-- `unflatten_dict(xs, sep)`; `unkey` is the identity for `sep=None` and `str.split(sep)` otherwise -/
def unflattenWith {ρ : Type} (unkey : ρ → Except Err (Path κ)) (m : List (ρ × FVal κ α)) : Except Err (Tree κ α) :=
  (unflattenLoop unkey [] m).map Tree.dict

def unflatten (m : List (Path κ × FVal κ α)) : Except Err (Tree κ α) :=
  unflattenWith (fun p => .ok p) m

/-- `path_aware_map(f, nested_dict)`: flatten keeping empty nodes, apply `f(path, value)` to every value that is
not `empty_node`, unflatten. -/
def pathAwareMap (f : Path κ → Tree κ α → Tree κ α) (t : Tree κ α) : Except Err (Tree κ α) := do
  let flat ← flatten true noLeaf t
  unflatten (flat.map (fun pv => (pv.1, match pv.2 with
    | .val x => FVal.val (f pv.1 x)
    | .emptyNode => FVal.emptyNode)))

/-- the calls `f(path, value)` made by `path_aware_map`, in order -/
def pathAwareCalls (t : Tree κ α) : Except Err (List (Path κ × Tree κ α)) := do
  let flat ← flatten true noLeaf t
  .ok (flat.filterMap (fun pv => match pv.2 with
    | .val x => some (pv.1, x)
    | .emptyNode => none))

end

/-! ### separator-joined keys (`sep=...`): `str.join` and `str.split` on character lists -/

/-- `sep.join(parts)` -/
def joinL (sep : List Char) : List (List Char) → List Char
  | [] => []
  | [x] => x
  | x :: y :: rest => x ++ sep ++ joinL sep (y :: rest)

/-- `s.split(sep)` for a non-empty `sep`: cut at the leftmost occurrence, continue after it.
`cur` is the current piece in reverse, `skip` the number of characters of a matched separator still to be
passed over. -/
def splitAux (sep : List Char) : List Char → List Char → Nat → List (List Char)
  | [], cur, _ => [cur.reverse]
  | _ :: s, cur, skip + 1 => splitAux sep s cur skip
  | c :: s, cur, 0 =>
    if sep.isPrefixOf (c :: s) then cur.reverse :: splitAux sep s [] (sep.length - 1)
    else splitAux sep s (c :: cur) 0

def splitL (sep : List Char) (s : List Char) : Except Err (List (List Char)) :=
  if sep.isEmpty then .error .badSep else .ok (splitAux sep s [] 0)

def joinS (sep : String) (path : List String) : String :=
  String.ofList (joinL sep.toList (path.map String.toList))

def splitS (sep : String) (s : String) : Except Err (List String) :=
  (splitL sep.toList s.toList).map (fun l => l.map String.ofList)

/-- `flatten_dict(xs, keep_empty_nodes, is_leaf, sep=sep)` -/
def flattenSep (sep : String) (keep : Bool) (isLeaf : Path String → Tree String α → Bool) (t : Tree String α) :
    Except Err (List (String × FVal String α)) :=
  flattenWith (joinS sep) keep isLeaf t

/-- `unflatten_dict(xs, sep=sep)` -/
def unflattenSep (sep : String) (m : List (String × FVal String α)) : Except Err (Tree String α) :=
  unflattenWith (splitS sep) m

/-! ### well-formedness and the spec-side normal form -/

mutual
  /-- keys of every dict are pairwise distinct (always true of a Python dict) -/
  def WF [DecidableEq κ] : Tree κ α → Prop
    | .leaf _ => True
    | .dict kvs => WFKvs kvs
  def WFKvs [DecidableEq κ] : List (κ × Tree κ α) → Prop
    | [] => True
    | (k, c) :: rest => (∀ kv ∈ rest, kv.1 ≠ k) ∧ WF c ∧ WFKvs rest
end

mutual
  /-- what survives a flatten/unflatten round trip of a *child* (paths are relative to the node: the child below
  key `k` sees the predicate `fun p => isLeaf (k :: p)`): with `keep` everything; without it, dicts that contain
  no leaf vanish (`none`), except at a point where `isLeaf` holds (kept verbatim) -/
  def normT (keep : Bool) (isLeaf : Path κ → Tree κ α → Bool) : Tree κ α → Option (Tree κ α)
    | .leaf v => some (.leaf v)
    | .dict kvs =>
      if isLeaf [] (.dict kvs) then some (.dict kvs)
      else if keep && kvs.isEmpty then some (.dict [])
      else match normKvs keep isLeaf kvs with
        | [] => none
        | l => some (.dict l)
  def normKvs (keep : Bool) (isLeaf : Path κ → Tree κ α → Bool) :
      List (κ × Tree κ α) → List (κ × Tree κ α)
    | [] => []
    | (k, c) :: rest =>
      match normT keep (fun p => isLeaf (k :: p)) c with
      | none => normKvs keep isLeaf rest
      | some c' => (k, c') :: normKvs keep isLeaf rest
end

/-- `prune`: remove, recursively, every sub-dict that contains no leaf (the root stays a dict) -/
def prune (t : Tree κ α) : Tree κ α :=
  match t with
  | .leaf v => .leaf v
  | .dict kvs => .dict (normKvs false noLeaf kvs)

mutual
  /-- `f` applied to every leaf together with its path (relative to the node; the child below `k` sees
  `fun p => f (k :: p)`); structure (incl. empty dicts) untouched -/
  def mapWithPath (f : Path κ → Tree κ α → Tree κ α) : Tree κ α → Tree κ α
    | .leaf v => f [] (.leaf v)
    | .dict kvs => .dict (mapWithPathKvs f kvs)
  def mapWithPathKvs (f : Path κ → Tree κ α → Tree κ α) : List (κ × Tree κ α) → List (κ × Tree κ α)
    | [] => []
    | (k, c) :: rest => (k, mapWithPath (fun p => f (k :: p)) c) :: mapWithPathKvs f rest
end

mutual
  /-- **Python `==` on nested dicts**: leaves are equal; two dicts are equal when they have the same key set
  (whatever the insertion order) and equal values under every key. Meaningful on well-formed trees (`WF`). -/
  def DictEq [DecidableEq κ] : Tree κ α → Tree κ α → Prop
    | .leaf a, u => u = .leaf a
    | .dict xs, u => ∃ ys, u = .dict ys ∧
        (∀ k, (Dict.get ys k).isSome = true → (Dict.get xs k).isSome = true) ∧ EntriesIn xs ys
  /-- every item `(k, c)` of the first dict has a counterpart `ys[k]` that is `DictEq` to `c` -/
  def EntriesIn [DecidableEq κ] : List (κ × Tree κ α) → List (κ × Tree κ α) → Prop
    | [], _ => True
    | (k, c) :: rest, ys => (∃ c', Dict.get ys k = some c' ∧ DictEq c c') ∧ EntriesIn rest ys
end

mutual
  /-- the tree restricted to the leaves whose path (relative to the node) satisfies `keep`; structure untouched -/
  def keepPathsT (keep : Path κ → Bool) : Tree κ α → Option (Tree κ α)
    | .leaf v => if keep [] then some (.leaf v) else none
    | .dict kvs => some (.dict (keepPathsKvs keep kvs))
  def keepPathsKvs (keep : Path κ → Bool) : List (κ × Tree κ α) → List (κ × Tree κ α)
    | [] => []
    | (k, c) :: rest =>
      match keepPathsT (fun p => keep (k :: p)) c with
      | none => keepPathsKvs keep rest
      | some c' => (k, c') :: keepPathsKvs keep rest
end

mutual
  /-- every key that occurs anywhere in the tree -/
  def keysT : Tree κ α → List κ
    | .leaf _ => []
    | .dict kvs => keysKvs kvs
  def keysKvs : List (κ × Tree κ α) → List κ
    | [] => []
    | (k, c) :: rest => k :: (keysT c ++ keysKvs rest)
end

mutual
  /-- the leaves of a tree with their paths (relative to the node), depth-first in dict order -/
  def leavesT : Tree κ α → List (Path κ × α)
    | .leaf v => [([], v)]
    | .dict kvs => leavesKvs kvs
  def leavesKvs : List (κ × Tree κ α) → List (Path κ × α)
    | [] => []
    | (k, c) :: rest => (leavesT c).map (fun pv => (k :: pv.1, pv.2)) ++ leavesKvs rest
end

end Flax.Traverse
