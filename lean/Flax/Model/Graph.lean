/-
Model of flax/nnx/graph.py on the explicit heap of Heap.lean, transcribed from the code at the
pinned commit (plus the `fix:` commit for finding F12 in `_graph_pop`; the shipped definition is
kept as `pop … (fixed := false)`).

  flatten / _graph_flatten            → `flattenVal`, `flattenItems`, `flatten`
  unflatten / _graph_unflatten        → `unflattenDef`, `unflattenAttrs`, `unflatten`
  split / _split_state                → `splitFlat`, `split`
  merge / _merge_to_flat_state        → `mergeFlat`, `merge`
  state, clone, graphdef              → `state`, `clone`, (`flatten`).1
  update / _graph_update_dynamic      → `updateVal`, `updateItems`, `update`
  pop / _graph_pop                    → `popNode`, `popItems`, `pop`
  iter_graph / _iter_graph            → `iterVal`, `iterItems`, `iterGraph`

Conventions
* `ref_index` (identity-keyed `RefMap`, `index = len(ref_index)`) is a `List Addr`: position = index.
* `index_ref` (a `dict`) is an association list, newest binding first.
* Nested `State`s are represented flat (`List (Path × Leaf)`): nesting / un-nesting of prefix-free
  path maps is property C16's subject.  `STree` (used by `update`) is the nested form because
  `_graph_update_dynamic` recurses over it.
* Recursion that follows heap references is fuelled (`fuelFor`); `Err.fuel` is never produced for a
  closed heap with enough fuel (the traversal registers a node before descending into it).
* Deviations (never exercised by split/merge round trips, reported as errors by the model):
  a `VariableState` leaf consumed at an `ArrayAttr` position (`Err.leafKind`; Python stores the
  VariableState object), `update` with a key the node does not have (`Err.updNewKey`; Python calls
  `set_key`), `update` of an array attribute or a Variable's raw value with a nested State
  (`Err.updBadState`).

Core Lean only (linked into the compiled driver).  Imported by C03; C04 / C08 build on it.
-/
import Flax.Model.Heap
import Flax.Model.Filter

namespace Flax.Graph
open Flax.Heap
open Flax.Filter (NFilter VarInfo firstMatch)

inductive Err where
  | fuel              -- model only: recursion budget exhausted
  | dangling          -- model only: address outside the heap
  | unsupported       -- RuntimeError('Unsupported type …')
  | keyError          -- index_ref[i] for an unknown index
  | notEnoughLeaves   -- ValueError('Not enough leaves …')
  | extraLeaves       -- ValueError('Incorrect number of leaves …')
  | indexUsed         -- RuntimeError('GraphDef index … already used.')
  | leafKind          -- deviation, see header
  | nonExhaustive     -- ValueError('Non-exhaustive filters …')
  | ellipsisNotLast   -- ValueError('`...` or `True` can only be used as the last filters')
  | duplicatePath     -- two states carry the same path (Python: comparison of the leaves raises)
  | popFromPytree     -- ValueError('Cannot pop key … from node of type list')
  | noFilter          -- ValueError('Expected at least one filter')
  | emptyPath         -- IndexError: `from_flat_state` on the path `()` (nnx.state of a bare Variable)
  | updExpectedSubgraph   -- ValueError('Expected a subgraph for …')
  | updLeafForNode        -- a raw leaf where a nested State is needed (AttributeError on `.items`)
  | updNonVariable        -- ValueError('Trying to update a non-Variable attribute …')
  | updImmutable          -- ValueError('Cannot set key … on immutable node')
  | updNewKey             -- deviation, see header
  | updBadState           -- deviation, see header
  deriving DecidableEq, Repr, Inhabited

/-- what a flat state stores at a path: a `VariableState` (type, value, metadata) or a raw array -/
inductive Leaf where
  | vstate (ty : VType) (value : Data) (md : Meta)
  | arr (d : Data)
  deriving DecidableEq, Repr, Inhabited

abbrev FlatState := List (Path × Leaf)

/-- `NodeDef.type` for the node kinds of the model -/
inductive NKind where
  | obj (cls : String)      -- a registered graph node type (an `nnx.Object` subclass)
  | seq (isTuple : Bool)    -- list / tuple
  | dict
  | none                    -- NoneType
  deriving DecidableEq, Repr, Inhabited

/-- `GraphDef`: `NodeRef`, `VariableDef`, `NodeDef`, and the two attribute-only forms `Static`,
`ArrayAttr`.  A graph node's `index` is `some i`; pytree nodes carry `none` (the code's `-1`). -/
inductive GDef where
  | ref (ty : String) (idx : Nat)
  | var (ty : VType) (idx : Nat) (md : Meta)
  | node (kind : NKind) (idx : Option Nat) (attrs : List (Key × GDef))
  | static (s : Static)
  | array
  deriving Repr, Inhabited

/-- `ref_index`: identity → index, index = position -/
abbrev RefIndex := List Addr

def indexOf? (a : Addr) : List Addr → Option Nat
  | [] => Option.none
  | b :: rest => if b = a then some 0 else (indexOf? a rest).map (· + 1)

/-- `index_ref`: index → object, newest binding first -/
abbrev IndexRef := List (Nat × Addr)

def irLookup (i : Nat) : IndexRef → Option Addr
  | [] => Option.none
  | (j, a) :: rest => if j = i then some a else irLookup i rest

/-- `type(node).__name__` as recorded in a `NodeRef` -/
def typeName (h : Heap) (a : Addr) : String :=
  match h[a]? with
  | some (.node cls _) => cls
  | some (.var ty _ _) => ty.headD ""
  | Option.none => ""

/-! ### sizes (recursion budget) -/

mutual
  def valSize : PVal → Nat
    | .seq _ xs => 2 + valsSize xs
    | .dict kvs => 2 + kvsSize kvs
    | _ => 1
  def valsSize : List PVal → Nat
    | [] => 0
    | x :: xs => 1 + valSize x + valsSize xs
  def kvsSize : List (Key × PVal) → Nat
    | [] => 0
    | (_, v) :: r => 1 + valSize v + kvsSize r
end

def objSize : Obj → Nat
  | .node _ attrs => 2 + kvsSize attrs
  | .var _ _ _ => 1

def heapSize (h : Heap) : Nat := (h.map objSize).sum

/-- depth budget for one traversal from `root` -/
def fuelFor (h : Heap) (root : PVal) : Nat := heapSize h + valSize root + 2

/-! ### flatten -/

mutual
  /-- `_graph_flatten(node=v, path, ref_index=idx)`; returns the graphdef, the leaves emitted (with
  their paths, in emission order) and the extended `ref_index` -/
  def flattenVal : Nat → Heap → Path → PVal → RefIndex → Except Err (GDef × FlatState × RefIndex)
    | 0, _, _, _, _ => .error .fuel
    | fuel + 1, h, path, v, idx =>
      match v with
      | .static s => .ok (.static s, [], idx)
      | .array d => .ok (.array, [(path, .arr d)], idx)
      | .none => .ok (.node .none Option.none [], [], idx)
      | .seq t xs =>
        match flattenItems fuel h path (enumFrom 0 xs) idx with
        | .error e => .error e
        | .ok (as, ls, idx') => .ok (.node (.seq t) Option.none as, ls, idx')
      | .dict kvs =>
        match flattenItems fuel h path (sortKV kvs) idx with
        | .error e => .error e
        | .ok (as, ls, idx') => .ok (.node .dict Option.none as, ls, idx')
      | .ref a =>
        match indexOf? a idx with
        | some i => .ok (.ref (typeName h a) i, [], idx)
        | Option.none =>
          match h[a]? with
          | Option.none => .error .dangling
          | some (.var ty val md) => .ok (.var ty idx.length md, [(path, .vstate ty val md)], idx ++ [a])
          | some (.node cls attrs) =>
            match flattenItems fuel h path (sortKV attrs) (idx ++ [a]) with
            | .error e => .error e
            | .ok (as, ls, idx') => .ok (.node (.obj cls) (some idx.length) as, ls, idx')
  /-- the `for key, value in values` loop of `_graph_flatten` -/
  def flattenItems : Nat → Heap → Path → List (Key × PVal) → RefIndex →
      Except Err (List (Key × GDef) × FlatState × RefIndex)
    | 0, _, _, _, _ => .error .fuel
    | _ + 1, _, _, [], idx => .ok ([], [], idx)
    | fuel + 1, h, path, (k, v) :: rest, idx =>
      match flattenVal fuel h (path ++ [k]) v idx with
      | .error e => .error e
      | .ok (g, ls1, idx1) =>
        match flattenItems fuel h path rest idx1 with
        | .error e => .error e
        | .ok (gs, ls2, idx2) => .ok ((k, g) :: gs, ls1 ++ ls2, idx2)
end

/-- is `v` something `graph.flatten` accepts as a root (a node or a Variable)? -/
def isRootable : PVal → Bool
  | .static _ => false
  | .array _ => false
  | _ => true

/-- `graph.flatten(node)` with a fresh `ref_index` -/
def flatten (h : Heap) (root : PVal) : Except Err (GDef × FlatState × RefIndex) :=
  if isRootable root then flattenVal (fuelFor h root) h [] root [] else .error .unsupported

/-! ### unflatten -/

/-- `make_variable`: a `VariableState` leaf carries its own type and metadata (`to_variable`), a raw
value takes them from the `VariableDef` (`from_metadata`) -/
def makeVar (ty : VType) (md : Meta) : Leaf → Obj
  | .vstate ty' v m => .var ty' v m
  | .arr d => .var ty d md

mutual
  /-- `_graph_unflatten(nodedef, leaves, index_ref)`: consumes leaves from the front, allocates new
  objects in `H`, extends `index_ref` -/
  def unflattenDef : GDef → List Leaf → Heap → IndexRef → Except Err (PVal × List Leaf × Heap × IndexRef)
    | .ref _ i, ls, H, ir =>
      match irLookup i ir with
      | some a => .ok (.ref a, ls, H, ir)
      | Option.none => .error .keyError
    | .var ty i md, ls, H, ir =>
      match ls with
      | [] => .error .notEnoughLeaves
      | l :: ls' => .ok (.ref H.length, ls', H ++ [makeVar ty md l], (i, H.length) :: ir)
    | .static s, ls, H, ir => .ok (.static s, ls, H, ir)
    | .array, ls, H, ir =>
      match ls with
      | [] => .error .notEnoughLeaves
      | .arr d :: ls' => .ok (.array d, ls', H, ir)
      | .vstate _ _ _ :: _ => .error .leafKind
    | .node (.obj cls) idx attrs, ls, H, ir =>
      match idx with
      | Option.none => .error .unsupported
      | some i =>
        if (irLookup i ir).isSome then .error .indexUsed
        else
          -- create_empty, register in index_ref, then build the children and init
          match unflattenAttrs attrs ls (H ++ [Obj.node cls []]) ((i, H.length) :: ir) with
          | .error e => .error e
          | .ok (children, ls', H', ir') => .ok (.ref H.length, ls', write H' H.length (Obj.node cls children), ir')
    | .node (.seq t) _ attrs, ls, H, ir =>
      match unflattenAttrs attrs ls H ir with
      | .error e => .error e
      | .ok (children, ls', H', ir') => .ok (.seq t (children.map (·.2)), ls', H', ir')
    | .node .dict _ attrs, ls, H, ir =>
      match unflattenAttrs attrs ls H ir with
      | .error e => .error e
      | .ok (children, ls', H', ir') => .ok (.dict children, ls', H', ir')
    | .node .none _ attrs, ls, H, ir =>
      match unflattenAttrs attrs ls H ir with
      | .error e => .error e
      | .ok (_, ls', H', ir') => .ok (.none, ls', H', ir')
  /-- `_get_children` -/
  def unflattenAttrs : List (Key × GDef) → List Leaf → Heap → IndexRef →
      Except Err (List (Key × PVal) × List Leaf × Heap × IndexRef)
    | [], ls, H, ir => .ok ([], ls, H, ir)
    | (k, g) :: rest, ls, H, ir =>
      match unflattenDef g ls H ir with
      | .error e => .error e
      | .ok (v, ls1, H1, ir1) =>
        match unflattenAttrs rest ls1 H1 ir1 with
        | .error e => .error e
        | .ok (vs, ls2, H2, ir2) => .ok ((k, v) :: vs, ls2, H2, ir2)
end

/-- `graph.unflatten(graphdef, leaves)` with a fresh `index_ref`: the new root, the new heap -/
def unflatten (gd : GDef) (leaves : List Leaf) (H : Heap) : Except Err (PVal × Heap × IndexRef) :=
  match gd with
  | .static _ => .error .unsupported
  | .array => .error .unsupported
  | _ =>
    match unflattenDef gd leaves H [] with
    | .error e => .error e
    | .ok (v, [], H', ir) => .ok (v, H', ir)
    | .ok (_, _ :: _, _, _) => .error .extraLeaves

/-! ### filters on flat states -/

/-- injective rendering of a key for the path predicates of `Flax.Filter` -/
def encKey : Key → String
  | .int i => "#" ++ toString i
  | .str s => "$" ++ s

def encPath (p : Path) : List String := p.map encKey

/-- `tag` metadata when it is a Python `str` (canonical strings of `str` values start with "s:") -/
def tagOf (md : Meta) : Option String :=
  match md.lookup "tag" with
  | some v => if v.startsWith "s:" then some (v.drop 2).toString else Option.none
  | Option.none => Option.none

/-- what an NNX predicate can observe of a leaf -/
def leafInfo : Leaf → VarInfo
  | .vstate ty _ md => { types := "VariableState" :: ty, tag := tagOf md }
  | .arr _ => { types := ["ndarray"], tag := Option.none }

/-- bucket index chosen by `_split_state` for one item -/
def bucketOf (preds : List NFilter) (it : Path × Leaf) : Nat :=
  firstMatch preds (encPath it.1) (leafInfo it.2)

/-- `statelib._split_state`: `n + 1` buckets (the last collects the unmatched), input order kept -/
def splitFlat (preds : List NFilter) (fs : FlatState) : List FlatState :=
  (List.range (preds.length + 1)).map (fun i => fs.filter (fun it => bucketOf preds it == i))

def isEverything : NFilter → Bool
  | .everything => true
  | _ => false

/-- `FlatState.split(*filters)`: the `...`-last rule, then all buckets but the remainder, which must be empty -/
def splitExhaustive (preds : List NFilter) (fs : FlatState) : Except Err (List FlatState) :=
  if !Flax.Filter.ellipsisOk (preds.map isEverything) then .error .ellipsisNotLast
  else if (fs.filter (fun it => bucketOf preds it == preds.length)).isEmpty then
    .ok ((splitFlat preds fs).take preds.length)
  else .error .nonExhaustive

/-- `nnx.split(node, *filters)`: graphdef and one flat state per filter (one state in all when no
filter is given).  The heap is not an output: `flatten` cannot write it. -/
def split (h : Heap) (root : PVal) (filters : List NFilter) : Except Err (GDef × List FlatState) :=
  match flatten h root with
  | .error e => .error e
  | .ok (gd, fs, _) =>
    match filters with
    | [] => .ok (gd, [fs])
    | _ =>
      match splitExhaustive filters fs with
      | .error e => .error e
      | .ok states => .ok (gd, states)

/-! ### merge -/

/-- `flat_state.sort()` on `(path, value)` pairs with pairwise distinct paths -/
def sortPaths (fs : FlatState) : FlatState := sortBy Path.lt fs

def hasAdjDup : FlatState → Bool
  | (p, _) :: (q, l) :: rest => decide (p = q) || hasAdjDup ((q, l) :: rest)
  | _ => false

/-- `_merge_to_flat_state`: concatenate the states, sort by path, keep the values -/
def mergeFlat (states : List FlatState) : Except Err (List Leaf) :=
  let sorted := sortPaths states.flatten
  if hasAdjDup sorted then .error .duplicatePath else .ok (sorted.map (·.2))

/-- `nnx.merge(graphdef, *states)` -/
def merge (gd : GDef) (states : List FlatState) (H : Heap) : Except Err (PVal × Heap × IndexRef) :=
  match mergeFlat states with
  | .error e => .error e
  | .ok leaves => unflatten gd leaves H

/-- `nnx.clone(node) = merge(*split(node))` -/
def clone (h : Heap) (root : PVal) : Except Err (PVal × Heap × IndexRef) :=
  match split h root [] with
  | .error e => .error e
  | .ok (gd, states) => merge gd states h

/-- `nnx.state(node, *filters)`: `flatten`, then `filter_state` (unmatched leaves are dropped) -/
def state (h : Heap) (root : PVal) (filters : List NFilter) : Except Err (List FlatState) :=
  match flatten h root with
  | .error e => .error e
  | .ok (_, fs, _) =>
    if fs.any (fun it => it.1.isEmpty) then .error .emptyPath   -- `to_nested_state` of a root leaf
    else
    match filters with
    | [] => .ok [fs]
    | _ =>
      if !Flax.Filter.ellipsisOk (filters.map isEverything) then .error .ellipsisNotLast
      else .ok ((splitFlat filters fs).take filters.length)

/-! ### update -/

/-- a nested `State` as `_graph_update_dynamic` walks it -/
inductive STree where
  | leaf (l : Leaf)
  | node (items : List (Key × STree))
  deriving Repr, Inhabited

/-- `setattr(obj, k, v)` for an existing key: the slot keeps its position -/
def setKV {α : Type} (k : Key) (v : α) : List (Key × α) → List (Key × α)
  | [] => []
  | (k', v') :: rest => if k' = k then (k', v) :: rest else (k', v') :: setKV k v rest

def setAttr (h : Heap) (a : Addr) (k : Key) (v : PVal) : Heap :=
  match h[a]? with
  | some (.node cls attrs) => write h a (.node cls (setKV k v attrs))
  | _ => h

def isVStateLeaf : STree → Bool
  | .leaf (.vstate _ _ _) => true
  | _ => false

mutual
  /-- `_graph_update_dynamic(node = v, state = s)` -/
  def updateVal : STree → Heap → PVal → Except Err Heap
    | s, h, .ref a =>
      match h[a]? with
      | Option.none => .error .dangling
      | some (.var ty _ md) =>
        -- `_update_variable`
        match s with
        | .leaf (.vstate _ val' md') => .ok (write h a (.var ty val' md'))   -- update_from_state
        | .leaf (.arr d) => .ok (write h a (.var ty d md))                   -- raw_value = value
        | .node [] => .ok h
        | .node (_ :: _) => .error .updBadState
      | some (.node _ attrs) =>
        match s with
        | .leaf _ => .error .updLeafForNode
        | .node items => updateItems items h (some a) attrs
    | s, h, .seq _ xs =>
      match s with
      | .leaf _ => .error .updLeafForNode
      | .node items => updateItems items h Option.none (enumFrom 0 xs)
    | s, h, .dict kvs =>
      match s with
      | .leaf _ => .error .updLeafForNode
      | .node items => updateItems items h Option.none kvs
    | s, h, .none =>
      match s with
      | .leaf _ => .error .updLeafForNode
      | .node items => updateItems items h Option.none []
    | _, _, .static _ => .error .unsupported
    | _, _, .array _ => .error .unsupported
  /-- the `for key, value in state.items()` loop; `attrs` is the `node_dict` snapshot taken before
  the loop, `owner` the address of the graph node (none for a pytree container) -/
  def updateItems : List (Key × STree) → Heap → Option Addr → List (Key × PVal) → Except Err Heap
    | [], h, _, _ => .ok h
    | (k, s) :: rest, h, owner, attrs =>
      match lookupKV k attrs with
      | Option.none => .error .updNewKey
      | some cur =>
        let r : Except Err Heap :=
          match cur with
          | .static _ => .error .updNonVariable
          | .array _ =>
            match owner with
            | Option.none => .error .updImmutable
            | some a =>
              match s with
              | .leaf (.arr d) => .ok (setAttr h a k (.array d))
              | _ => .error .updBadState
          | .ref b =>
            match h[b]? with
            | Option.none => .error .dangling
            | some (.var _ _ _) => updateVal s h cur
            | some (.node _ _) => if isVStateLeaf s then .error .updExpectedSubgraph else updateVal s h cur
          | _ => if isVStateLeaf s then .error .updExpectedSubgraph else updateVal s h cur
        match r with
        | .error e => .error e
        | .ok h' => updateItems rest h' owner attrs
end

/-- `nnx.update(node, state)` -/
def update (h : Heap) (root : PVal) (s : STree) : Except Err Heap := updateVal s h root

/-! ### pop -/

structure PopSt where
  heap : Heap
  visited : List Addr          -- `id_to_index`: graph nodes seen and Variables popped
  out : List FlatState         -- one flat state per predicate, in traversal order
  deriving Repr, Inhabited

/-- `vars(node).pop(k)` on the live object -/
def eraseAttr (h : Heap) (a : Addr) (k : Key) : Heap :=
  match h[a]? with
  | some (.node cls attrs) => write h a (.node cls (eraseKV k attrs))
  | _ => h

def pushOut (out : List FlatState) (i : Nat) (it : Path × Leaf) : List FlatState :=
  out.mapIdx (fun j s => if j = i then s ++ [it] else s)

mutual
  /-- `_graph_pop(node = v, path_parts = path)`.  `fixed = false` is the definition shipped at the
  pinned commit, `fixed = true` the repaired one (finding F12): a Variable that was already popped
  through another reference is removed from this attribute as well. -/
  def popNode (fixed : Bool) (preds : List NFilter) : Nat → Path → PVal → PopSt → Except Err PopSt
    | 0, _, _, _ => .error .fuel
    | fuel + 1, path, v, st =>
      match v with
      | .ref a =>
        match st.heap[a]? with
        | Option.none => .error .dangling
        | some (.var _ _ _) => .error .unsupported
        | some (.node _ attrs) =>
          if a ∈ st.visited then .ok st
          else popItems fixed preds fuel path (some a) (sortKV attrs) { st with visited := st.visited ++ [a] }
      | .seq _ xs => popItems fixed preds fuel path Option.none (enumFrom 0 xs) st
      | .dict kvs => popItems fixed preds fuel path Option.none (sortKV kvs) st
      | .none => .ok st
      | .static _ => .error .unsupported
      | .array _ => .error .unsupported
  /-- the `for name, value in node_dict.items()` loop; `owner` is the graph node whose attributes are
  being visited (none inside a pytree container) -/
  def popItems (fixed : Bool) (preds : List NFilter) : Nat → Path → Option Addr → List (Key × PVal) → PopSt →
      Except Err PopSt
    | 0, _, _, _, _ => .error .fuel
    | _ + 1, _, _, [], st => .ok st
    | fuel + 1, path, owner, (k, v) :: rest, st =>
      let r : Except Err PopSt :=
        match v with
        | .static _ => .ok st
        | .array _ => .ok st
        | .ref b =>
          match st.heap[b]? with
          | Option.none => .error .dangling
          | some (.node _ _) => popNode fixed preds fuel (path ++ [k]) v st
          | some (.var ty val md) =>
            if b ∈ st.visited then
              if fixed then
                match owner with
                | Option.none => .error .popFromPytree
                | some a => .ok { st with heap := eraseAttr st.heap a k }
              else .ok st
            else
              let i := bucketOf preds (path ++ [k], .vstate ty val md)
              if i < preds.length then
                match owner with
                | Option.none => .error .popFromPytree
                | some a =>
                  .ok { heap := eraseAttr st.heap a k, visited := st.visited ++ [b],
                        out := pushOut st.out i (path ++ [k], .vstate ty val md) }
              else .ok st
        | _ => popNode fixed preds fuel (path ++ [k]) v st
      match r with
      | .error e => .error e
      | .ok st' => popItems fixed preds fuel path owner rest st'
end

/-- `nnx.pop(node, *filters)`: the mutated heap and one flat state per filter -/
def pop (fixed : Bool) (h : Heap) (root : PVal) (filters : List NFilter) : Except Err (Heap × List FlatState) :=
  match filters with
  | [] => .error .noFilter
  | _ =>
    match popNode fixed filters (fuelFor h root) [] root
        { heap := h, visited := [], out := filters.map (fun _ => []) } with
    | .error e => .error e
    | .ok st => .ok (st.heap, st.out)

/-! ### iter_graph -/

mutual
  /-- `_iter_graph(node = v, visited, path_parts = path)`: post-order; a graph node that was already
  visited yields nothing.  (Python also keys pytree containers and `None` by `id`; the model gives
  containers no identity, see the header of Heap.lean.) -/
  def iterVal : Nat → Heap → Path → PVal → List Addr → Except Err (List (Path × PVal) × List Addr)
    | 0, _, _, _, _ => .error .fuel
    | fuel + 1, h, path, v, vis =>
      match v with
      | .ref a =>
        match h[a]? with
        | Option.none => .error .dangling
        | some (.var _ _ _) => .ok ([(path, v)], vis)
        | some (.node _ attrs) =>
          if a ∈ vis then .ok ([], vis)
          else
            match iterItems fuel h path (sortKV attrs) (vis ++ [a]) with
            | .error e => .error e
            | .ok (ys, vis') => .ok (ys ++ [(path, v)], vis')
      | .seq _ xs =>
        match iterItems fuel h path (enumFrom 0 xs) vis with
        | .error e => .error e
        | .ok (ys, vis') => .ok (ys ++ [(path, v)], vis')
      | .dict kvs =>
        match iterItems fuel h path (sortKV kvs) vis with
        | .error e => .error e
        | .ok (ys, vis') => .ok (ys ++ [(path, v)], vis')
      | _ => .ok ([(path, v)], vis)
  def iterItems : Nat → Heap → Path → List (Key × PVal) → List Addr → Except Err (List (Path × PVal) × List Addr)
    | 0, _, _, _, _ => .error .fuel
    | _ + 1, _, _, [], vis => .ok ([], vis)
    | fuel + 1, h, path, (k, v) :: rest, vis =>
      match iterVal fuel h (path ++ [k]) v vis with
      | .error e => .error e
      | .ok (ys1, vis1) =>
        match iterItems fuel h path rest vis1 with
        | .error e => .error e
        | .ok (ys2, vis2) => .ok (ys1 ++ ys2, vis2)
end

/-- `nnx.iter_graph(node)` -/
def iterGraph (h : Heap) (root : PVal) : Except Err (List (Path × PVal)) :=
  match iterVal (fuelFor h root) h [] root [] with
  | .error e => .error e
  | .ok (ys, _) => .ok ys

end Flax.Graph
