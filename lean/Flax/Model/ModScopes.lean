/-
Multi-scope lifting: which scopes a lifted Linen transform collects from a module, and how it hands the inner scopes
back (flax/linen/transforms.py `get_module_scopes` / `set_module_scopes`, attribute part), and how `pack` shares scopes
that were reached twice or that are ancestors of one another (flax/core/lift.py `_dedup_scopes` / `_dup_scopes`).

A module is a tree: its dataclass fields are kept in DECLARATION order, each field value is a pytree (dict: keys in
sorted order when flattened by JAX, list/tuple: in order) whose leaves are sub-modules (bound: with a scope id;
unbound), `Variable`s, or anything else.  Both functions traverse `attrs = {field: value}` — a dict, so the fields are
visited in *sorted name* order — with `jax.tree_util.tree_leaves` / `tree_map`; a bound sub-module is recursed into,
memoized by its id (`_memoize_by_id`), and contributes its own scope *after* its descendants.

`ord` is the order in which a module's fields are visited: `sortKeys` for the code as it stands; a parameter so that the
variant "declaration order" (seeded changes C05_e / C07_f) can be expressed.

Core Lean only.
-/
namespace Flax.ModScopes

/-- insertion of a key/value pair into a list sorted by key -/
def insertKey (x : String × α) : List (String × α) → List (String × α)
  | [] => [x]
  | y :: ys => if x.1 ≤ y.1 then x :: y :: ys else y :: insertKey x ys

/-- what flattening a dict does to the order of its entries: `sorted(keys)` -/
def sortKeys : List (String × α) → List (String × α)
  | [] => []
  | x :: xs => insertKey x (sortKeys xs)

inductive Node where
  | mod (id : Nat) (scope : Option Nat) (fields : List (String × Node))   -- a Module; `scope = none`: unbound
  | var (scope : Option Nat)                                              -- a Variable (bound to a scope or not)
  | dict (kvs : List (String × Node))
  | seq (xs : List Node)
  | other
  deriving Repr, Inhabited

/-- who receives a scope: a bound module (by id) or a Variable occurrence; with the scope it was bound to -/
inductive Owner where
  | m (id : Nat) (scope : Nat)
  | v (scope : Nat)
  deriving Repr, DecidableEq, Inhabited

def Owner.scope : Owner → Nat
  | .m _ s => s
  | .v s => s

/-- an upper bound of the nesting depth (fuel for the traversals) -/
def Node.depth : Node → Nat
  | .mod _ _ fields => 1 + depthFields fields
  | .var _ => 1
  | .dict kvs => 1 + depthFields kvs
  | .seq xs => 1 + depthList xs
  | .other => 1
where
  depthFields : List (String × Node) → Nat
    | [] => 0
    | kv :: r => max kv.2.depth (depthFields r)
  depthList : List Node → Nat
    | [] => 0
    | x :: r => max x.depth (depthList r)

/-- state of `get_module_scopes`: ids memoized so far, scopes appended so far (with their owners) -/
structure GSt where
  seen : List Nat
  out : List Owner
  deriving Repr, Inhabited

/-- `get_scopes` / `get_scopes_inner` on one pytree node of `attrs` -/
def getNode (ord : List (String × Node) → List (String × Node)) : Nat → Node → GSt → GSt
  | 0, _, st => st
  | f + 1, .mod id (some sc) fields, st =>
    if id ∈ st.seen then st          -- `_memoize_by_id`: the scopes of a module reached again are not collected again
    else
      let st1 := ((ord fields).map (·.2)).foldl (fun st x => getNode ord f x st) st
      { seen := id :: st1.seen, out := st1.out ++ [.m id sc] }      -- `scopes.append(module.scope)` after the leaves
  | _ + 1, .mod _ none _, st => st   -- not bound: skipped
  | _ + 1, .var (some sc), st => { st with out := st.out ++ [.v sc] }
  | _ + 1, .var none, st => st
  | f + 1, .dict kvs, st => ((sortKeys kvs).map (·.2)).foldl (fun st x => getNode ord f x st) st
  | f + 1, .seq xs, st => xs.foldl (fun st x => getNode ord f x st) st
  | _ + 1, .other, st => st

/-- `get_module_scopes(module)`: owners in the order their scopes are appended -/
def getOwners (ord : List (String × Node) → List (String × Node)) (m : Node) : List Owner :=
  (getNode ord (m.depth + 1) m ⟨[], []⟩).out

def getScopes (ord : List (String × Node) → List (String × Node)) (m : Node) : List Nat :=
  (getOwners ord m).map Owner.scope

/-- state of `set_module_scopes`: ids already rebuilt (memo), `idx`, and who was handed which scope -/
structure SSt where
  memo : List Nat
  idx : Nat
  asg : List (Owner × Option Nat)
  deriving Repr, Inhabited

/-- `set_scopes` / `set_scopes_inner` on one pytree node of `attrs`; `S` is the list of scopes handed back -/
def setNode (ord : List (String × Node) → List (String × Node)) (S : List Nat) : Nat → Node → SSt → SSt
  | 0, _, st => st
  | f + 1, .mod id (some sc) fields, st =>
    if id ∈ st.memo then st
    else
      let st1 := ((ord fields).map (·.2)).foldl (fun st x => setNode ord S f x st) st
      -- `new_module = module.clone(parent=scopes[idx], **new_attrs); idx += 1`
      { memo := id :: st1.memo, idx := st1.idx + 1, asg := st1.asg ++ [(.m id sc, S[st1.idx]?)] }
  | _ + 1, .mod _ none _, st => st
  | _ + 1, .var (some sc), st => { st with idx := st.idx + 1, asg := st.asg ++ [(.v sc, S[st.idx]?)] }
  | _ + 1, .var none, st => st
  | f + 1, .dict kvs, st => ((sortKeys kvs).map (·.2)).foldl (fun st x => setNode ord S f x st) st
  | f + 1, .seq xs, st => xs.foldl (fun st x => setNode ord S f x st) st
  | _ + 1, .other, st => st

/-- `set_module_scopes(module, scopes)`: the assignment made, and whether `assert len(scopes) == idx` holds -/
def setAssign (ord : List (String × Node) → List (String × Node)) (m : Node) (S : List Nat) :
    List (Owner × Option Nat) × Bool :=
  let st := setNode ord S (m.depth + 1) m ⟨[], 0, []⟩
  (st.asg, decide (st.idx = S.length))

/-! ## `_dedup_scopes` / `_dup_scopes`

A scope is identified by its path from the root scope (`Scope.__eq__`: same root variables, same path, same counter
dict); its ancestors are the proper prefixes of the path, the root scope is `[]`. -/

abbrev Path := List String

/-- the walk up the parent chain of `leaf`: the *highest* ancestor that is in `set`, with the names leading from it
back down to `leaf`; `(leaf, [])` when no ancestor is in the set -/
def maxParent (set : List Path) (leaf : Path) : Path × List String :=
  (List.range leaf.length).foldl
    (fun best k =>
      -- ancestor obtained by dropping the last `k+1` names
      let anc := leaf.take (leaf.length - (k + 1))
      if anc ∈ set then (anc, leaf.drop (leaf.length - (k + 1))) else best)
    (leaf, [])

/-- the loop of `_dedup_scopes` over `todo`, with the current `minimal_set` (an OrderedDict: order kept) -/
def dedupLoop : List Path → List Path → List (Path × List String) → List Path × List (Path × List String)
  | [], set, acc => (set, acc)
  | leaf :: rest, set, acc =>
    let mp := maxParent set leaf
    let set' := if mp.1 ≠ leaf ∧ leaf ∈ set then set.filter (fun p => p ≠ leaf) else set
    dedupLoop rest set' (acc ++ [mp])

/-- `_dedup_scopes(scopes)`: the minimal set of scopes, and for every scope its (root, path) -/
def dedupScopes (scopes : List Path) : List Path × List (Path × List String) :=
  dedupLoop scopes scopes.eraseDups []

/-- `_dup_scopes(orig, new, paths)` with `mapping = dict(zip(orig, new))` given as a function on paths: push the names -/
def dupScopes (mapping : Path → Path) (paths : List (Path × List String)) : List Path :=
  paths.map (fun rp => mapping rp.1 ++ rp.2)

end Flax.ModScopes
