/-
Model of flax's lifted loop transforms (property C06).

  flax/core/axes_scan.py   scan: transpose_to_front / transpose_from_front, broadcast pass, lax.scan call
  flax/core/lift.py        vmap (710-857), scan (860-1054), remat_scan (1695-1769), pack/_partial_pack
                           (scope_fn / repack_fn / publish_results_fn), tree_map_rngs + random.split

Self-contained, core Lean only (linked into drv_c06).  What is *assumed* rather than modelled from flax's
own source is marked:  A-SCAN (`laxScan`), A-VMAP (`jaxVmap`), A-RNG (`Key` is a free term algebra),
A-CONV (`Arr.take`, `Arr.stack`, `Arr.transpose` are the index-level meaning of jnp.take / jnp.stack /
jnp.transpose).
-/
import Flax.Model.Filter

namespace Flax.LiftLoop
open Flax.Filter

/-- error enum (the harness compares the coarse class `Err.cls` only) -/
inductive Err where
  | axisOutOfBounds          -- np.delete / shape[axis]: IndexError
  | badPerm                  -- jnp.transpose: not a permutation of the operand dimensions (TypeError)
  | assertFail               -- `assert pax < x.ndim`
  | inconsistentLengths      -- 'Inconsistent scan lengths' / 'Inconsistent batch axis sizes'
  | lengthUnspecified        -- 'length should be specified manually' / 'axis_size should be specified manually'
  | leadingAxisMismatch      -- lax.scan / jax.vmap: mapped leaves disagree on the mapped size (ValueError)
  | noScanValues             -- lax.scan / jax.vmap: nothing to map over and no length / axis_size given (ValueError)
  | carryStructure           -- lax.scan: carry in / carry out differ in structure or shape (TypeError)
  | broadcastDependency      -- 'broadcasted variable has a data dependency on the scan body'
  | unbatchedOutExpected     -- jax.vmap: out_axes None for a batched output (ValueError)
  | unmappedOutput           -- 'unmapped output variables'
  | broadcastOutUnsupported  -- 'check_constancy_invariants=False does not support broadcast non-carry function outputs'
  | stackMismatch            -- per-iteration results of different structure (cannot arise from one trace)
  | arity                    -- in_axes / out_axes tuple does not match the arguments / results
  | body (tag : String)      -- the loop body itself failed
  deriving Repr, DecidableEq, Inhabited

def Err.cls : Err → String
  | .axisOutOfBounds => "IndexError"
  | .badPerm => "TypeError"
  | .assertFail => "AssertionError"
  | .inconsistentLengths => "ValueError"
  | .lengthUnspecified => "ValueError"
  | .leadingAxisMismatch => "ValueError"
  | .noScanValues => "ValueError"
  | .carryStructure => "TypeError"
  | .broadcastDependency => "ValueError"
  | .unbatchedOutExpected => "ValueError"
  | .unmappedOutput => "ValueError"
  | .broadcastOutUnsupported => "ValueError"
  | .stackMismatch => "StackMismatch"
  | .arity => "ValueError"
  | .body t => t

/-! ## 1. Axis arithmetic: `transpose_to_front` / `transpose_from_front` (axes_scan.py:93-121) -/

/-- Python / NumPy normalisation of a possibly negative axis against rank `r` -/
def normAxis (r : Nat) (ax : Int) : Option Nat :=
  if 0 ≤ ax ∧ ax < (r : Int) then some ax.toNat
  else if -(r : Int) ≤ ax ∧ ax < 0 then some (ax + r).toNat
  else none

/-- Python `range(a, b)` over the integers -/
def intRange (a b : Int) : List Int := (List.range (b - a).toNat).map (fun (k : Nat) => a + (k : Int))

/-- `perm = tuple(range(x.ndim)); perm = (ax,) + tuple(np.delete(perm, ax))`
(`np.delete` raises IndexError for an out-of-bounds index and accepts negative ones). -/
def toFrontPerm (r : Nat) (ax : Int) : Except Err (List Int) :=
  match normAxis r ax with
  | none => .error .axisOutOfBounds
  | some n => .ok (ax :: ((List.range r).eraseIdx n).map (fun (k : Nat) => (k : Int)))

/-- `pax = x.ndim + ax if ax < 0 else ax; assert pax < x.ndim;
perm = tuple(range(1, pax + 1)) + (0,) + tuple(range(pax + 1, x.ndim))` -/
def fromFrontPerm (r : Nat) (ax : Int) : Except Err (List Int) :=
  let pax : Int := if ax < 0 then (r : Int) + ax else ax
  if pax < (r : Int) then .ok (intRange 1 (pax + 1) ++ [0] ++ intRange (pax + 1) r)
  else .error .assertFail

/-- what `jnp.transpose(x, perm)` accepts: every entry normalises against the rank and the result is a
permutation of `range(rank)` -/
def canonPerm (r : Nat) (p : List Int) : Except Err (List Nat) :=
  match p.mapM (normAxis r) with
  | none => .error .badPerm
  | some q => if q.length = r ∧ q.Nodup then .ok q else .error .badPerm

/-- result axis `k` of a transpose is input axis `q[k]` -/
def permute {β : Type} : List Nat → List β → Option (List β)
  | [], _ => some []
  | k :: ks, xs =>
    match xs[k]?, permute ks xs with
    | some x, some r => some (x :: r)
    | _, _ => none

/-- the effect of `transpose_to_front(ax, ·)` on the list of axes (shape, axis labels, index tuples …) -/
def axesToFront {β : Type} (ax : Int) (xs : List β) : Except Err (List β) :=
  if ax = 0 then .ok xs
  else do
    let p ← toFrontPerm xs.length ax
    let q ← canonPerm xs.length p
    match permute q xs with
    | some ys => .ok ys
    | none => .error .badPerm

/-- the effect of `transpose_from_front(ax, ·)` on the list of axes -/
def axesFromFront {β : Type} (ax : Int) (xs : List β) : Except Err (List β) :=
  if ax = 0 then .ok xs
  else do
    let p ← fromFrontPerm xs.length ax
    let q ← canonPerm xs.length p
    match permute q xs with
    | some ys => .ok ys
    | none => .error .badPerm

/-! ## 2. Arrays (A-CONV): canonical index/value tables with `take`, `stack`, `transpose` -/

abbrev Ix := List Nat

/-- all multi-indices of a shape, row-major -/
def allIdx : List Nat → List Ix
  | [] => [[]]
  | d :: ds => (List.range d).flatMap (fun i => (allIdx ds).map (fun t => i :: t))

/-- an array: its shape and one entry per multi-index (canonical: keys are `allIdx shape` in order) -/
structure Arr (α : Type) where
  shape : List Nat
  data : List (Ix × α)
  deriving Repr, DecidableEq, Inhabited

namespace Arr
variable {α : Type} [Inhabited α]

def getD (A : Arr α) (idx : Ix) : α := (A.data.lookup idx).getD default

def ofFn (shape : List Nat) (f : Ix → α) : Arr α := ⟨shape, (allIdx shape).map (fun i => (i, f i))⟩

/-- canonical form -/
def WF [DecidableEq α] (A : Arr α) : Bool := decide (A = ofFn A.shape A.getD)

def rank (A : Arr α) : Nat := A.shape.length

/-- `jnp.take(A, i, axis=n)` for an in-range static index (`A[..., i, ...]`) -/
def take (A : Arr α) (n i : Nat) : Except Err (Arr α) :=
  match A.shape[n]? with
  | none => .error .axisOutOfBounds
  | some d =>
    if i < d then .ok (ofFn (A.shape.eraseIdx n) (fun j => A.getD (j.insertIdx n i)))
    else .error .axisOutOfBounds

/-- `jnp.stack(ys, axis=n)` for arrays of one common shape `sh` -/
def stack (sh : List Nat) (n : Nat) (ys : List (Arr α)) : Except Err (Arr α) :=
  if n ≤ sh.length ∧ ys.all (fun y => decide (y.shape = sh)) then
    .ok (ofFn (sh.insertIdx n ys.length) (fun j => (ys.getD (j.getD n 0) default).getD (j.eraseIdx n)))
  else .error .stackMismatch

/-- `jnp.transpose(A, q)` for a canonical permutation `q`: result axis `k` is input axis `q[k]`, i.e.
`result[j] = A[i]` where `j[k] = i[q[k]]` -/
def transpose (q : List Nat) (A : Arr α) : Arr α :=
  ofFn (q.map (fun k => A.shape.getD k 0))
    (fun j => A.getD ((List.range q.length).map (fun a => j.getD (q.idxOf a) 0)))

/-- `transpose_to_front(ax, A)` (one leaf) -/
def toFront (ax : Int) (A : Arr α) : Except Err (Arr α) :=
  if ax = 0 then .ok A
  else do
    let p ← toFrontPerm A.rank ax
    let q ← canonPerm A.rank p
    .ok (transpose q A)

/-- `transpose_from_front(ax, A)` (one leaf) -/
def fromFront (ax : Int) (A : Arr α) : Except Err (Arr α) :=
  if ax = 0 then .ok A
  else do
    let p ← fromFrontPerm A.rank ax
    let q ← canonPerm A.rank p
    .ok (transpose q A)

end Arr


/-! ## 3. small monadic helpers (own recursion: easy induction) -/

def mapE {β γ : Type} (f : β → Except Err γ) : List β → Except Err (List γ)
  | [] => .ok []
  | x :: xs =>
    match f x with
    | .error e => .error e
    | .ok y =>
      match mapE f xs with
      | .error e => .error e
      | .ok ys => .ok (y :: ys)

def foldE {β σ : Type} (f : σ → β → Except Err σ) : σ → List β → Except Err σ
  | s, [] => .ok s
  | s, x :: xs =>
    match f s x with
    | .error e => .error e
    | .ok s' => foldE f s' xs

/-! ## 4. RNG keys (A-RNG: `random.split` is a free constructor) -/

inductive Key where
  | seed (name : String)
  | split (k : Key) (n i : Nat)         -- `random.split(k, n)[i]`
  deriving Repr, DecidableEq, Inhabited

abbrev Rngs := List (String × Key)

/-- `random.split(random.clone(k), n)` as the list of its rows -/
def splitKeys (k : Key) (n : Nat) : List Key := (List.range n).map (fun i => Key.split k n i)

/-! ## 5. Python dicts, scope state, grouping (`_partial_pack`) -/

/-- `d[k] = v` on an insertion-ordered dict -/
def dset {β : Type} : List (String × β) → String → β → List (String × β)
  | [], k, v => [(k, v)]
  | (k', v') :: rest, k, v => if k' = k then (k', v) :: rest else (k', v') :: dset rest k v

/-- `d.update(e)` -/
def dupdate {β : Type} (d e : List (String × β)) : List (String × β) :=
  e.foldl (fun acc kv => dset acc kv.1 kv.2) d

def dget {β : Type} (d : List (String × β)) (k : String) : Option β := d.lookup k

abbrev Col (α : Type) := List (String × Arr α)      -- one collection: variable name ↦ value
abbrev Vars (α : Type) := List (String × Col α)     -- collection name ↦ collection

/-- `scope.group_collections(xs, filters)`: first-match groups, each keeping the order of `xs` -/
def groupDict {β : Type} : List (String × β) → List LFilter → List (List (String × β))
  | _, [] => []
  | d, f :: fs => d.filter (fun kv => inFilter f kv.1) :: groupDict (d.filter (fun kv => !(inFilter f kv.1))) fs

/-- index of the first filter matching a name -/
def firstIdx : List LFilter → String → Option Nat
  | [], _ => none
  | f :: fs, c => if inFilter f c then some 0 else (firstIdx fs c).map (· + 1)

/-- `scope_fn`: `variables.update(group)` for every group in turn -/
def mergeGroups {β : Type} (gs : List (List (String × β))) : List (String × β) :=
  gs.foldl dupdate []

/-- mutability of the inner scope built by `scope_fn` (lift.py:185-211):
`intersect(intersect(scope.mutable, union of the out filters), mutable_filter=True)` -/
def innerMutable (scopeMut : LFilter) (outFs : List LFilter) : LFilter :=
  intersect (intersect scopeMut (outFs.foldl union .ff)) .tt

/-- `repack_fn`: the mutable collections of the inner scope, grouped by the out filters plus a final
`True`; a non-empty remainder is an error -/
def repack {α : Type} (mutF : LFilter) (outFs : List LFilter) (vars' : Vars α) : Except Err (List (Vars α)) :=
  let mv := vars'.filter (fun kv => inFilter mutF kv.1)
  let gs := groupDict mv (outFs ++ [.tt])
  match gs.getLast? with
  | some [] => .ok gs.dropLast
  | _ => .error .unmappedOutput

/-- `scope.put_variable(col, name, value)` -/
def putVar {α : Type} (vars : Vars α) (col name : String) (v : Arr α) : Vars α :=
  dset vars col (dset ((dget vars col).getD []) name v)

/-- `publish_results_fn`: write the out groups back into the outer scope (mutable collections only) -/
def publish {α : Type} (scopeMut : LFilter) (outer : Vars α) (groups : List (Vars α)) : Vars α :=
  groups.foldl (fun o g =>
    g.foldl (fun o cc =>
      if inFilter scopeMut cc.1 then cc.2.foldl (fun o nv => putVar o cc.1 nv.1 nv.2) o else o) o) outer

/-- the loop body / mapped function as a function of the inner scope: it receives the inner scope's
mutability filter, its variables and rngs, the carry and the per-iteration arguments, and returns the
inner scope's variables afterwards, the new carry and the outputs -/
abbrev Body (α : Type) :=
  LFilter → Vars α → Rngs → List (Arr α) → List (Arr α) → Except Err (Vars α × List (Arr α) × List (Arr α))

structure Result (α : Type) where
  vars : Vars α            -- outer scope variables after `publish_results_fn`
  carry : List (Arr α)
  ys : List (Arr α)
  deriving Repr

/-! ## 6. trees of arrays -/

/-- apply `f` to the value of a key/value pair -/
def onSnd {κ β γ : Type} (f : β → Except Err γ) (p : κ × β) : Except Err (κ × γ) :=
  match f p.2 with
  | .ok a => .ok (p.1, a)
  | .error e => .error e

def Col.mapE {α : Type} (f : Arr α → Except Err (Arr α)) (c : Col α) : Except Err (Col α) :=
  LiftLoop.mapE (onSnd f) c

def Vars.mapE {α : Type} (f : Arr α → Except Err (Arr α)) (v : Vars α) : Except Err (Vars α) :=
  LiftLoop.mapE (onSnd (Col.mapE f)) v

def Vars.leaves {α : Type} (v : Vars α) : List (Arr α) := v.flatMap (fun cc => cc.2.map (·.2))

/-- pick entry `k` of a tuple -/
def pick {β : Type} (k : Nat) (o : List β) : Except Err β :=
  match o[k]? with
  | some a => .ok a
  | none => .error .stackMismatch

def pickKey {β : Type} (k : String) (d : List (String × β)) : Except Err β :=
  match dget d k with
  | some a => .ok a
  | none => .error .stackMismatch

/-- stack the per-iteration values of one tuple position leaf-wise (`ls[i]` is iteration `i`'s value);
all iterations come from one trace, so they have one structure — the model checks it -/
def stackList {α : Type} (stk : List Nat → List (Arr α) → Except Err (Arr α)) (k : Nat)
    (outs : List (List (Arr α))) : Except Err (Arr α) :=
  match outs with
  | [] => .error .stackMismatch
  | o0 :: _ => do
    let a0 ← pick k o0
    let ls ← LiftLoop.mapE (pick k) outs
    stk a0.shape ls

def stackCols {α : Type} (stk : List Nat → List (Arr α) → Except Err (Arr α)) (cs : List (Col α)) :
    Except Err (Col α) :=
  match cs with
  | [] => .error .stackMismatch
  | c0 :: _ =>
    if cs.all (fun c => decide (c.map (·.1) = c0.map (·.1))) then
      LiftLoop.mapE (fun nv => do
        let ls ← LiftLoop.mapE (pickKey nv.1) cs
        let a ← stk nv.2.shape ls
        pure (nv.1, a)) c0
    else .error .stackMismatch

def stackVars {α : Type} (stk : List Nat → List (Arr α) → Except Err (Arr α)) (vs : List (Vars α)) :
    Except Err (Vars α) :=
  match vs with
  | [] => .error .stackMismatch
  | v0 :: _ =>
    if vs.all (fun v => decide (v.map (·.1) = v0.map (·.1))) then
      LiftLoop.mapE (fun cc => do
        let cs ← LiftLoop.mapE (pickKey cc.1) vs
        let c ← stackCols stk cs
        pure (cc.1, c)) v0
    else .error .stackMismatch

/-- jax's check that carry-in and carry-out have one tree structure and the same leaf shapes -/
def sameStruct {α : Type} (a b : Vars α × List (Arr α)) : Bool :=
  decide (a.1.map (fun cc => (cc.1, cc.2.map (fun nv => (nv.1, nv.2.shape)))) =
          b.1.map (fun cc => (cc.1, cc.2.map (fun nv => (nv.1, nv.2.shape))))) &&
  decide (a.2.map (·.shape) = b.2.map (·.shape))

/-! ## 7. `in_axes` / `out_axes` prefix trees (one level: a single entry for all, or one per argument) -/

inductive AxesTree where
  | uniform (a : Option Int)            -- `in_axes=0`, `in_axes=broadcast` / `None`
  | perArg (as : List (Option Int))     -- `in_axes=(0, broadcast, -1)`
  deriving Repr, DecidableEq, Inhabited

/-- `broadcast in jax.tree_util.tree_leaves(out_axes)` -/
def AxesTree.hasBroadcast : AxesTree → Bool
  | .uniform a => a.isNone
  | .perArg as => as.any (·.isNone)

def AxesTree.expand (t : AxesTree) (k : Nat) : Except Err (List (Option Int)) :=
  match t with
  | .uniform a => .ok (List.replicate k a)
  | .perArg as => if as.length = k then .ok as else .error .arity

/-- Python `x.shape[axis]` -/
def shapeAt {α : Type} (a : Arr α) (ax : Int) : Except Err Nat :=
  match normAxis a.shape.length ax with
  | none => .error .axisOutOfBounds
  | some n => .ok (a.shape.getD n 0)

/-- `find_length(axis, x)` for one argument: `()` for a broadcast axis, else `x.shape[axis]` -/
def argSizeOpt {α : Type} (p : Option Int × Arr α) : Except Err (Option Nat) :=
  match p.1 with
  | none => .ok none
  | some ax => (shapeAt p.2 ax).map some

/-- the sizes `find_length` / `find_axis_size` read off the positional arguments:
`tree_map(find_length, in_axes, args)` looks at `leaves[0]` of whatever sub-tree an axis entry covers -/
def argSizes {α : Type} (t : AxesTree) (args : List (Arr α)) : Except Err (List Nat) :=
  match t with
  | .uniform none => .ok []
  | .uniform (some ax) =>
    match args with
    | [] => .ok []
    | a :: _ => (shapeAt a ax).map (fun d => [d])
  | .perArg as =>
    if as.length = args.length then
      (LiftLoop.mapE argSizeOpt (as.zip args)).map (fun l => l.filterMap id)
    else .error .arity

/-- `lengths = set(leaves)`, then the four-way case split of lift.py:974-981 / 810-817 -/
def decideLength (explicit : Option Nat) (sizes : List Nat) : Except Err Nat :=
  match explicit, sizes.eraseDups with
  | none, [d] => .ok d
  | _, _ :: _ :: _ => .error .inconsistentLengths
  | none, [] => .error .lengthUnspecified
  | some n, _ => .ok n

/-- what jax itself does with the mapped leaves (lax.scan `length=`, jax.vmap `axis_size=`): all mapped
sizes must agree with each other and with the explicit value -/
def jaxLength (explicit : Option Nat) (dims : List Nat) : Except Err Nat :=
  match explicit with
  | some n => if dims.all (fun d => decide (d = n)) then .ok n else .error .leadingAxisMismatch
  | none =>
    match dims with
    | [] => .error .noScanValues
    | d :: ds => if ds.all (fun d' => decide (d' = d)) then .ok d else .error .leadingAxisMismatch


/-! ## 8. `jax.lax.scan` (assumption A-SCAN)

A left fold over the iteration indices with the per-iteration outputs collected in index order.
`reverse=True` folds over the reversed index list and returns the outputs re-reversed.  `unroll` has no
parameter here: it is semantically irrelevant.  The carry must keep its structure and leaf shapes. -/

/-- one iteration: slice, call, check the carry, remember the output -/
def laxStep {σ χ ω : Type} (xsAt : Nat → Except Err χ) (f : σ → χ → Except Err (σ × ω))
    (same : σ → σ → Bool) (st : σ × List ω) (i : Nat) : Except Err (σ × List ω) := do
  let x ← xsAt i
  let r ← f st.1 x
  if same st.1 r.1 then pure (r.1, st.2 ++ [r.2]) else throw .carryStructure

def laxScan {σ χ ω : Type} (n : Nat) (reverse : Bool) (xsAt : Nat → Except Err χ)
    (f : σ → χ → Except Err (σ × ω)) (same : σ → σ → Bool) (init : σ) : Except Err (σ × List ω) := do
  let order := if reverse then (List.range n).reverse else List.range n
  let r ← foldE (laxStep xsAt f same) (init, []) order
  pure (r.1, if reverse then r.2.reverse else r.2)

/-! ## 9. `flax.core.axes_scan.scan` (scan_fn, check_constancy_invariants=True) and `lift.scan` -/

/-- an rng group as handed to `axes_scan.scan`: unsplit groups are broadcast, split groups hold one key
row per iteration (`random.split(rng, d_length)`), scanned along axis 0 -/
inductive RngG where
  | whole (g : Rngs)
  | rows (g : List (String × List Key))
  deriving Repr

def RngG.at (i : Nat) : RngG → Except Err Rngs
  | .whole g => .ok g
  | .rows g => mapE (fun sk => match sk.2[i]? with | some k => .ok (sk.1, k) | none => .error .axisOutOfBounds) g

def RngG.dims : RngG → List Nat
  | .whole _ => []
  | .rows g => g.map (fun sk => sk.2.length)

/-- leading axis size of a leaf that lax.scan is to slice -/
def leadDim {α : Type} (a : Arr α) : Except Err Nat :=
  match a.shape with
  | [] => .error .leadingAxisMismatch
  | d :: _ => .ok d

/-- `for col in in_group: if col not in out_group: out_group[col] = in_group[col]` (lift.py:1019-1022) -/
def reinject {α : Type} (bIn bOut : Vars α) : Vars α :=
  bIn.foldl (fun acc cc => if (dget acc cc.1).isSome then acc else acc ++ [cc]) bOut

/-- what one call of the lifted body returns to `axes_scan`:
`(broadcast_vars_out, (carry_vars, c), (y, scan_vars))` -/
abbrev StepOut (α : Type) := Vars α × (Vars α × List (Arr α)) × (List (Arr α) × List (Vars α))

abbrev ScanFn (α : Type) :=
  Vars α → (Vars α × List (Arr α)) → List (Vars α) → List Rngs → List (Arr α) → Except Err (StepOut α)

/-- lift.py:1004-1023 `scanned`: build the inner scope from the groups, run the body, repack, re-inject
the immutable broadcast collections -/
def scanned {α : Type} (mutF : LFilter) (outFs : List LFilter) (body : Body α) : ScanFn α :=
  fun bIn carry svs rngGroups args => do
    let vars := mergeGroups (bIn :: carry.1 :: svs)
    let rngs := mergeGroups rngGroups
    let r ← body mutF vars rngs carry.2 args
    let out ← repack mutF outFs r.1
    pure (reinject bIn (out.getD 0 []), (out.getD 1 [], r.2.1), (r.2.2, out.drop 2))

/-- the scanned inputs after `tree_map(transpose_to_front, in_axes, args)`; for the positional arguments
`none` is the `()` that stands in for a broadcast argument, kept next to the argument itself (which
`body_fn` injects instead) -/
structure ScanXs (α : Type) where
  svs : List (Vars α)
  rngs : List RngG
  args : List (Option (Arr α) × Arr α)

/-- leading size of a transposed argument (`()` stands for a broadcast argument: nothing to scan) -/
def argLeadDim {α : Type} (o : Option (Arr α) × Arr α) : Except Err (List Nat) :=
  match o.1 with
  | some a => (leadDim a).map (fun d => [d])
  | none => .ok []

def ScanXs.dims {α : Type} (xs : ScanXs α) : Except Err (List Nat) := do
  let d1 ← mapE (fun g => mapE leadDim (Vars.leaves g)) xs.svs
  let d3 ← mapE argLeadDim xs.args
  pure (d1.flatten ++ xs.rngs.flatMap RngG.dims ++ d3.flatten)

/-- slice `i` of a transposed argument along the leading axis; a broadcast argument is injected whole -/
def argTake0 {α : Type} [Inhabited α] (i : Nat) (p : Option (Arr α) × Arr α) : Except Err (Arr α) :=
  match p.1 with
  | some a => a.take 0 i
  | none => .ok p.2

/-- slice `i` of the scanned inputs along the leading axis, with the broadcast arguments injected -/
def ScanXs.at {α : Type} [Inhabited α] (xs : ScanXs α) (i : Nat) :
    Except Err (List (Vars α) × List Rngs × List (Arr α)) := do
  let sv ← mapE (Vars.mapE (fun a => a.take 0 i)) xs.svs
  let rg ← mapE (RngG.at i) xs.rngs
  let as ← mapE (argTake0 i) xs.args
  pure (sv, rg, as)

def groupToFront {α : Type} [Inhabited α] (p : Int × Vars α) : Except Err (Vars α) :=
  Vars.mapE (Arr.toFront p.1) p.2

def argToFront {α : Type} [Inhabited α] (p : Option Int × Arr α) : Except Err (Option (Arr α) × Arr α) :=
  match p.1 with
  | some ax => (Arr.toFront ax p.2).map (fun f => (some f, p.2))
  | none => .ok (none, p.2)

/-- `xs = tree_map(transpose_to_front, in_axes, args)` -/
def prepXs {α : Type} [Inhabited α] (inVarAxes : List Int) (inArgAxes : List (Option Int))
    (svs : List (Vars α)) (rngs : List RngG) (args : List (Arr α)) : Except Err (ScanXs α) := do
  let svsF ← mapE groupToFront (inVarAxes.zip svs)
  let argsF ← mapE argToFront (inArgAxes.zip args)
  pure ⟨svsF, rngs, argsF⟩

/-- stack along axis 0, then `transpose_from_front` -/
def stackFront {α : Type} [Inhabited α] (ax : Int) (sh : List Nat) (ls : List (Arr α)) : Except Err (Arr α) := do
  let S ← Arr.stack sh 0 ls
  S.fromFront ax

/-- output `p.1` of the loop: stacked along its out axis, or the constant of the broadcast pass -/
def collectY {α : Type} (stk : Int → List Nat → List (Arr α) → Except Err (Arr α)) (consts : List (Arr α))
    (outs : List (List (Arr α) × List (Vars α))) (p : Nat × Option Int) : Except Err (Arr α) :=
  match p.2 with
  | some ax => stackList (stk ax) p.1 (outs.map (·.1))
  | none => match consts[p.1]? with | some a => .ok a | none => .error .arity

/-- scanned variable group `p.1` of the loop, stacked along its out axis -/
def collectV {α : Type} (stk : Int → List Nat → List (Arr α) → Except Err (Arr α))
    (outs : List (List (Arr α) × List (Vars α))) (p : Nat × Int) : Except Err (Vars α) :=
  stackVars (stk p.2) (outs.map (fun o => o.2.getD p.1 []))

/-- the outputs of the loop: `ys` stacked per `out_axes` (a broadcast entry takes the constant of the
broadcast pass), the scanned variable groups stacked per `variable_out_axes` -/
def collectOuts {α : Type} (stk : Int → List Nat → List (Arr α) → Except Err (Arr α))
    (outYAxes : List (Option Int)) (outVarAxes : List Int) (consts : List (Arr α))
    (outs : List (List (Arr α) × List (Vars α))) : Except Err (List (Arr α) × List (Vars α)) := do
  let ys ← mapE (collectY stk consts outs) ((List.range outYAxes.length).zip outYAxes)
  let svOut ← mapE (collectV stk outs) ((List.range outVarAxes.length).zip outVarAxes)
  pure (ys, svOut)

/-- `body_fn` of axes_scan (non-init mode): the carry and the per-iteration outputs of one call -/
def scanBody {α : Type} (fn : ScanFn α) (b : Vars α) (c : Vars α × List (Arr α))
    (x : List (Vars α) × List Rngs × List (Arr α)) :
    Except Err ((Vars α × List (Arr α)) × (List (Arr α) × List (Vars α))) := do
  let r ← fn b c x.1 x.2.1 x.2.2
  pure (r.2.1, r.2.2)

/-- `lax.scan(body_fn, init, xs, …)` followed by `transpose_from_front` of the stacked outputs; `r0` is
the result of the broadcast pass (new broadcast inputs, constants) -/
def axesLoop {α : Type} [Inhabited α] (reverse : Bool) (outYAxes : List (Option Int)) (outVarAxes : List Int)
    (xs : ScanXs α) (fn : ScanFn α) (init : Vars α × List (Arr α)) (r0 : StepOut α) (n : Nat) :
    Except Err (StepOut α) := do
  let res ← laxScan n reverse xs.at (scanBody fn r0.1) sameStruct init
  let out ← collectOuts stackFront outYAxes outVarAxes r0.2.2.1 res.2
  pure (r0.1, res.1, out)

/-- the index whose slices stand in for the abstract inputs of the broadcast pass: the first one the loop
will process (0 when lax.scan is going to reject the inputs anyway) -/
def firstIndex (reverse : Bool) (nE : Except Err Nat) : Nat :=
  match nE with
  | .ok n => if reverse then n - 1 else 0
  | .error _ => 0

/-- `scan_fn` after `xs = tree_map(transpose_to_front, …)`: the broadcast pass, then `lax.scan` (which is
where the number of iterations `nE` is found out, or the inputs are rejected), then the outputs -/
def axesScanTail {α : Type} [Inhabited α] (reverse : Bool) (verdict : Bool) (initOnly : Bool)
    (outAxes : AxesTree) (outVarAxes : List Int) (fn : ScanFn α) (bIn : Vars α)
    (init : Vars α × List (Arr α)) (xs : ScanXs α) (nE : Except Err Nat) (i0 : Nat) :
    Except Err (StepOut α) := do
  -- broadcast pass: `broadcast_in, constants_out = …`
  let x0 ← xs.at i0
  let r0 ← fn bIn init x0.1 x0.2.1 x0.2.2
  let outYAxes ← outAxes.expand r0.2.2.1.length
  if initOnly then pure (r0.1, init, (r0.2.2.1, [])) else
  if !verdict then throw .broadcastDependency else do
  let n ← nE
  if n = 0 then throw (.body "EmptyLoop") else
  -- the loop proper, with the broadcast outputs as the new broadcast inputs
  axesLoop reverse outYAxes outVarAxes xs fn init r0 n

/-- `simple_scan_fn` (axes_scan.py:196-225), the path taken with `check_constancy_invariants=False`: no
broadcast pass and no constancy check — the broadcast inputs are used as they are and returned unchanged, the
body's broadcast outputs are dropped, `broadcast` out axes are refused; otherwise the same `lax.scan` (same
`length`, `reverse`, `unroll`) and the same transposes -/
def axesScanSimple {α : Type} [Inhabited α] (length : Option Nat) (reverse : Bool) (outAxes : AxesTree)
    (outVarAxes : List Int) (fn : ScanFn α) (bIn : Vars α) (init : Vars α × List (Arr α)) (xs : ScanXs α) :
    Except Err (StepOut α) := do
  if outAxes.hasBroadcast then throw .broadcastOutUnsupported else do
  let n ← xs.dims >>= jaxLength length
  if n = 0 then throw (.body "EmptyLoop") else do
  let res ← laxScan n reverse xs.at (scanBody fn bIn) sameStruct init
  let outYAxes ← outAxes.expand ((res.2.head?.map (fun o => o.1.length)).getD 0)
  let out ← collectOuts stackFront outYAxes outVarAxes [] res.2
  pure (bIn, res.1, out)

/-- `axes_scan.scan(fn, in_axes, out_axes, length, reverse, unroll)(broadcast_in, init, *args)` with
`in_axes = (variable_in_axes, rng_axes, in_axes)` and `out_axes = (out_axes, variable_out_axes)`.
`verdict` is the outcome of the constancy check of the broadcast pass (the tracing mechanism itself is
not modelled); when it passes, the constants it returns are the broadcast outputs of the body, here
evaluated on the inputs of the first iteration.  An empty loop is outside the modelled domain.
`initOnly` stops after the broadcast pass (used by the driver to compute `verdict` from a tainted run;
the theorems are about `initOnly = false`). -/
def axesScan {α : Type} [Inhabited α] (checkConst : Bool) (length : Option Nat) (reverse : Bool) (verdict : Bool)
    (initOnly : Bool)
    (inVarAxes : List Int) (inArgAxes : List (Option Int)) (outAxes : AxesTree) (outVarAxes : List Int)
    (fn : ScanFn α) (bIn : Vars α) (init : Vars α × List (Arr α)) (svs : List (Vars α)) (rngs : List RngG)
    (args : List (Arr α)) : Except Err (StepOut α) := do
  let xs ← prepXs inVarAxes inArgAxes svs rngs args
  if !checkConst then axesScanSimple length reverse outAxes outVarAxes fn bIn init xs else do
  -- what lax.scan will find out about the number of iterations (it is called after the broadcast pass)
  let nE : Except Err Nat := xs.dims >>= jaxLength length
  axesScanTail reverse verdict initOnly outAxes outVarAxes fn bIn init xs nE (firstIndex reverse nE)

/-- one entry of `variable_axes`: a collection filter with its axis; `In(axis)` / `Out(axis)` restrict
it to the way in / the way out -/
structure AxisSpec where
  filter : LFilter
  axis : Int
  isIn : Bool
  isOut : Bool
  deriving Repr

structure ScanCfg where
  bcast : LFilter                        -- variable_broadcast
  carry : LFilter                        -- variable_carry
  axes : List AxisSpec                   -- variable_axes.items()
  splitRngs : List (LFilter × Bool)      -- split_rngs.items()
  inAxes : AxesTree
  outAxes : AxesTree
  length : Option Nat
  reverse : Bool
  unroll : Nat
  checkConst : Bool                      -- check_constancy_invariants
  deriving Repr

def ScanCfg.inAx (cfg : ScanCfg) : List AxisSpec := cfg.axes.filter (·.isIn)
def ScanCfg.outAx (cfg : ScanCfg) : List AxisSpec := cfg.axes.filter (·.isOut)
def ScanCfg.inFs (cfg : ScanCfg) : List LFilter := cfg.bcast :: cfg.carry :: cfg.inAx.map (·.filter)
def ScanCfg.outFs (cfg : ScanCfg) : List LFilter := cfg.bcast :: cfg.carry :: cfg.outAx.map (·.filter)

/-- the rng groups after `tree_map_rngs(split_fn, rng_group) if split else rng_group` -/
def splitGroups (groups : List Rngs) (splits : List Bool) (n : Nat) : List RngG :=
  (groups.zip splits).map (fun p =>
    if p.2 then RngG.rows (p.1.map (fun sk => (sk.1, splitKeys sk.2 n))) else RngG.whole p.1)

/-- `lift.scan(fn, …)(scope, init, *args)` on a scope with variables `outer`, rngs `rngs` and
mutability `scopeMut` (pack → inner → axes_scan.scan(scanned) → publish) -/
def liftScanCore {α : Type} [Inhabited α] (cfg : ScanCfg) (verdict : Bool) (initOnly : Bool) (body : Body α)
    (scopeMut : LFilter) (outer : Vars α) (rngs : Rngs) (init : List (Arr α)) (args : List (Arr α)) :
    Except Err (Result α) := do
  let groups := groupDict outer cfg.inFs
  let rngGroups := groupDict rngs (cfg.splitRngs.map (·.1))
  let mutF := innerMutable scopeMut cfg.outFs
  let sizes ← argSizes cfg.inAxes args
  let dLength ← decideLength cfg.length sizes
  let rngArrs := splitGroups rngGroups (cfg.splitRngs.map (·.2)) dLength
  let inArgAxes ← cfg.inAxes.expand args.length
  let r ← axesScan cfg.checkConst cfg.length cfg.reverse verdict initOnly (cfg.inAx.map (·.axis)) inArgAxes cfg.outAxes
      (cfg.outAx.map (·.axis)) (scanned mutF cfg.outFs body)
      (groups.getD 0 []) (groups.getD 1 [], init) (groups.drop 2) rngArrs args
  pure { vars := publish scopeMut outer (r.1 :: r.2.1.1 :: r.2.2.2), carry := r.2.1.2, ys := r.2.2.1 }

def liftScan {α : Type} [Inhabited α] (cfg : ScanCfg) (verdict : Bool) (body : Body α) (scopeMut : LFilter)
    (outer : Vars α) (rngs : Rngs) (init : List (Arr α)) (args : List (Arr α)) : Except Err (Result α) :=
  liftScanCore cfg verdict false body scopeMut outer rngs init args

/-! ## 10. `jax.vmap` (assumption A-VMAP) and `lift.vmap` -/

/-- `jnp.take(a, i, axis)` with a possibly negative axis -/
def takeAt {α : Type} [Inhabited α] (ax : Int) (i : Nat) (a : Arr α) : Except Err (Arr α) :=
  match normAxis a.rank ax with
  | some n => a.take n i
  | none => .error .axisOutOfBounds

/-- `jnp.stack(ls, axis)` with a possibly negative axis (normalised against the result rank) -/
def stackAt {α : Type} [Inhabited α] (ax : Int) (sh : List Nat) (ls : List (Arr α)) : Except Err (Arr α) :=
  match normAxis (sh.length + 1) ax with
  | some n => Arr.stack sh n ls
  | none => .error .axisOutOfBounds

/-- size of a mapped leaf along its (possibly negative) axis -/
def dimAt {α : Type} (ax : Int) (a : Arr α) : Except Err Nat := shapeAt a ax

/-- `jax.vmap(f, in_axes, out_axes, axis_size)`: call `f` once per index on the slices.  Stacking of the
results along `out_axes` is done by the caller below (it is part of A-VMAP all the same). -/
def jaxVmap {ω : Type} (n : Nat) (f : Nat → Except Err ω) : Except Err (List ω) := mapE f (List.range n)

structure VAxisSpec where
  filter : LFilter
  axis : Option Int          -- `None`: shared along the mapped axis
  isIn : Bool
  isOut : Bool
  deriving Repr

structure VmapCfg where
  axes : List VAxisSpec
  splitRngs : List (LFilter × Bool)
  inAxes : AxesTree
  outAxes : AxesTree
  axisSize : Option Nat
  deriving Repr

def VmapCfg.inAx (cfg : VmapCfg) : List VAxisSpec := cfg.axes.filter (·.isIn)
def VmapCfg.outAx (cfg : VmapCfg) : List VAxisSpec := cfg.axes.filter (·.isOut)

/-- the entry with the smallest key (jax flattens dicts in sorted key order) -/
def minKey {β : Type} : List (String × β) → Option (String × β)
  | [] => none
  | kv :: rest =>
    match minKey rest with
    | none => some kv
    | some m => if kv.1 < m.1 then some kv else some m

/-- `jax.tree_util.tree_leaves(group)[0]` -/
def firstLeaf {α : Type} (g : Vars α) : Option (Arr α) :=
  match minKey (g.filter (fun cc => !cc.2.isEmpty)) with
  | none => none
  | some cc => (minKey cc.2).map (·.2)

/-- `find_axis_size(axis, group)`: `()` for a `None` axis or a group without leaves, else
`leaves[0].shape[axis]` -/
def groupSizeOpt {α : Type} (p : Option Int × Vars α) : Except Err (Option Nat) :=
  match p.1, firstLeaf p.2 with
  | some ax, some a => (shapeAt a ax).map some
  | _, _ => .ok none

/-- `tree_map(find_axis_size, (variable_in_axes, in_axes), (variable_groups, args))` (lift.py:798-809) -/
def vmapSizes {α : Type} (inVarAxes : List (Option Int)) (groups : List (Vars α)) (inAxes : AxesTree)
    (args : List (Arr α)) : Except Err (List Nat) := do
  let l1 ← mapE groupSizeOpt (inVarAxes.zip groups)
  let l2 ← argSizes inAxes args
  pure (l1.filterMap id ++ l2)

/-- `jnp.take(arg, i, axis)` for a mapped argument, the argument itself for an unmapped one -/
def argTakeAt {α : Type} [Inhabited α] (i : Nat) (p : Option Int × Arr α) : Except Err (Arr α) :=
  match p.1 with
  | some ax => takeAt ax i p.2
  | none => .ok p.2

def argDimAt {α : Type} (p : Option Int × Arr α) : Except Err (List Nat) :=
  match p.1 with
  | some ax => (dimAt ax p.2).map (fun d => [d])
  | none => .ok []

def groupTakeAt {α : Type} [Inhabited α] (i : Nat) (p : Option Int × Vars α) : Except Err (Vars α) :=
  match p.1 with
  | some ax => Vars.mapE (takeAt ax i) p.2
  | none => .ok p.2

def groupDimAt {α : Type} (p : Option Int × Vars α) : Except Err (List Nat) :=
  match p.1 with
  | some ax => mapE (dimAt ax) (Vars.leaves p.2)
  | none => .ok []

/-- the sizes of every mapped leaf along its axis: jax.vmap's own consistency check looks at all of them -/
def vmapDims {α : Type} (inVarAxes : List (Option Int)) (groups : List (Vars α)) (rngArrs : List RngG)
    (inArgAxes : List (Option Int)) (args : List (Arr α)) : Except Err (List Nat) := do
  let d1 ← mapE groupDimAt (inVarAxes.zip groups)
  let d3 ← mapE argDimAt (inArgAxes.zip args)
  pure (d1.flatten ++ rngArrs.flatMap RngG.dims ++ d3.flatten)

/-- what the mapped function sees at index `i` and returns: `(y, repack_fn(scope))` -/
def vmapCall {α : Type} [Inhabited α] (mutF : LFilter) (outFs : List LFilter) (body : Body α)
    (inVarAxes : List (Option Int)) (groups : List (Vars α)) (rngArrs : List RngG)
    (inArgAxes : List (Option Int)) (args : List (Arr α)) (i : Nat) :
    Except Err (List (Arr α) × List (Vars α)) := do
  let sv ← mapE (groupTakeAt i) (inVarAxes.zip groups)
  let rg ← mapE (RngG.at i) rngArrs
  let as ← mapE (argTakeAt i) (inArgAxes.zip args)
  let r ← body mutF (mergeGroups sv) (mergeGroups rg) [] as
  let out ← repack mutF outFs r.1
  pure (r.2.2, out)

/-- output `p.1` of the mapped function: stacked along its out axis; with out axis `None` it is the
(unbatched) value itself -/
def vmapY {α : Type} [Inhabited α] (o0 : List (Arr α)) (outs : List (List (Arr α) × List (Vars α)))
    (p : Nat × Option Int) : Except Err (Arr α) :=
  match p.2 with
  | some ax => stackList (stackAt ax) p.1 (outs.map (·.1))
  | none => match o0[p.1]? with | some a => .ok a | none => .error .arity

def vmapV {α : Type} [Inhabited α] (o0 : List (Vars α)) (outs : List (List (Arr α) × List (Vars α)))
    (p : Nat × Option Int) : Except Err (Vars α) :=
  match p.2 with
  | some ax => stackVars (stackAt ax) (outs.map (fun o => o.2.getD p.1 []))
  | none => .ok (o0.getD p.1 [])

/-- `lift.vmap(fn, …)(scope, *args)`.  `verdict` says whether every result declared with out axis `None`
was unbatched in jax's trace (only the verdict is modelled; such a result is then read off index 0). -/
def liftVmap {α : Type} [Inhabited α] (cfg : VmapCfg) (verdict : Bool) (body : Body α) (scopeMut : LFilter)
    (outer : Vars α) (rngs : Rngs) (args : List (Arr α)) : Except Err (Result α) := do
  let inFs := cfg.inAx.map (·.filter)
  let outFs := cfg.outAx.map (·.filter)
  let groups := groupDict outer inFs
  let rngGroups := groupDict rngs (cfg.splitRngs.map (·.1))
  let mutF := innerMutable scopeMut outFs
  let inVarAxes := cfg.inAx.map (·.axis)
  let sizes ← vmapSizes inVarAxes groups cfg.inAxes args
  let dSize ← decideLength cfg.axisSize sizes
  let rngArrs := splitGroups rngGroups (cfg.splitRngs.map (·.2)) dSize
  let inArgAxes ← cfg.inAxes.expand args.length
  let dims ← vmapDims inVarAxes groups rngArrs inArgAxes args
  let n ← jaxLength cfg.axisSize dims
  let outs ← jaxVmap n (vmapCall mutF outFs body inVarAxes groups rngArrs inArgAxes args)
  match outs.head? with
  | none => throw (.body "EmptyLoop")
  | some o0 => do
    let outYAxes ← cfg.outAxes.expand o0.1.length
    if !verdict then throw .unbatchedOutExpected else do
    let ys ← mapE (vmapY o0.1 outs) ((List.range outYAxes.length).zip outYAxes)
    let svOut ← mapE (vmapV o0.2 outs) ((List.range cfg.outAx.length).zip (cfg.outAx.map (·.axis)))
    pure { vars := publish scopeMut outer svOut, carry := [], ys := ys }

/-! ## 11. `lift.remat_scan` (lift.py:1695-1769): nested scans, `lift.remat` is the identity (A-REMAT) -/

structure RematCfg where
  bcast : LFilter
  carry : LFilter
  axes : List AxisSpec
  splitRngs : List (LFilter × Bool)
  deriving Repr

def RematCfg.scanCfg (rc : RematCfg) (l : Nat) : ScanCfg :=
  { bcast := rc.bcast, carry := rc.carry, axes := rc.axes, splitRngs := rc.splitRngs,
    inAxes := .uniform (some 0), outAxes := .uniform (some 0), length := some l, reverse := false, unroll := 1,
    checkConst := true }

/-- `remat_scan(body_fn, lengths, …)` as a scope function `carry ↦ carry`; the body's `ys` are dropped
(`return body_fn(scope, carry), ()`) -/
def rematScan {α : Type} [Inhabited α] (rc : RematCfg) (verdict : Bool) (body : Body α) : List Nat → Body α
  | [] => fun _ _ _ _ _ => .error .axisOutOfBounds          -- `lengths[0]` on an empty sequence
  | [l] => fun scopeMut vars rngs c _ =>
      match liftScan (rc.scanCfg l) verdict
          (fun m v r c xs => match body m v r c xs with
            | .error e => .error e
            | .ok o => .ok (o.1, o.2.1, [])) scopeMut vars rngs c [] with
      | .error e => .error e
      | .ok r => .ok (r.vars, r.carry, [])
  | l :: l' :: ls => fun scopeMut vars rngs c _ =>
      match liftScan (rc.scanCfg l) verdict (rematScan rc verdict body (l' :: ls)) scopeMut vars rngs c [] with
      | .error e => .error e
      | .ok r => .ok (r.vars, r.carry, [])

end Flax.LiftLoop
