/-
Model of the Linen <-> NNX bridge.

  flax/nnx/traversals.py     flatten_mapping / unflatten_mapping (the parts the bridge uses)
  flax/nnx/variablelib.py    VariableTypeCache, variable_type_from_name, variable_name_from_type,
                             register_variable_name
  flax/nnx/bridge/variables.py  to_nnx_var, to_linen_var, is_vanilla_variable, NNXMeta, _recursive_merge,
                             linen_vars_to_nnx_attrs, nnx_attrs_to_linen_vars
  flax/core/meta.py          Partitioned.to_nnx_metadata / from_nnx_metadata
  flax/linen/spmd.py         LogicallyPartitioned.to_nnx_metadata / from_nnx_metadata
  flax/nnx/bridge/wrappers.py  ToNNX.__call__ (init path, apply path, merge of `mutable` updates),
                             ToLinen.__call__ / _update_variables
  flax/nnx/statelib.py       merge_state (flat union, later wins)

Python dicts are association lists in insertion order (`Forest`); that keys are distinct is a
representation invariant (`WFF` in Proofs/Bridge.lean), not a restriction on inputs.
Array values are an abstract type `α`: the bridge never computes with them.

Core Lean only (no Mathlib): this file is in the import closure of the compiled driver.
-/

namespace Flax.Bridge

abbrev Path := List String

/-- the exceptions the modelled code can raise, by kind -/
inductive Err where
  | emptyPath        -- `path[-1]` on an empty tuple in `unflatten_mapping`
  | leafOnPath       -- `unflatten_mapping` has to descend through a value that is not a dict
  | notMapping       -- `assert isinstance(xs, Mapping)` / `assert isinstance(col_tree, dict)`
  | notRegistered    -- ValueError of variable_type_from_name / variable_name_from_type
  | nameTaken        -- ValueError: the name is already registered
  | typeMismatch     -- `assert vtype == x.var_type` in `to_nnx_var`
  | keyError         -- `metadata.pop('sharding')` on a Variable without it
  | badBox           -- `linen_type(value, **metadata)` rejected (TypeError)
  | module           -- an exception raised by the wrapped module itself
  deriving Repr, DecidableEq, Inhabited

/-! ## nested dicts -/

/-- a value inside a nested dict: a leaf or a sub-dict (`dict[str, …]` in insertion order) -/
inductive Tree (β : Type) where
  | leaf (b : β)
  | node (kvs : List (String × Tree β))

/-- a Python `dict[str, …]` in insertion order -/
abbrev Forest (β : Type) := List (String × Tree β)

section
variable {β γ : Type}

/-- `d.get(k)` -/
def dget : Forest β → String → Option (Tree β)
  | [], _ => none
  | (k, t) :: r, k' => if k' = k then some t else dget r k'

/-- `d[k] = t`: replaces in place when the key exists, appends otherwise -/
def dset : Forest β → String → Tree β → Forest β
  | [], k', t' => [(k', t')]
  | (k, t) :: r, k', t' => if k' = k then (k, t') :: r else (k, t) :: dset r k' t'

def dkeys (f : Forest β) : List String := f.map Prod.fst

mutual
  /-- `traversals.flatten_mapping` below a value (a leaf is reported at the empty path) -/
  def Tree.flatten : Tree β → List (Path × β)
    | .leaf b => [([], b)]
    | .node f => flattenF f
  /-- `traversals.flatten_mapping(xs)`: empty sub-dicts contribute nothing -/
  def flattenF : Forest β → List (Path × β)
    | [] => []
    | (k, t) :: r => (t.flatten.map fun pb => (k :: pb.1, pb.2)) ++ flattenF r
end

mutual
  /-- `jax.tree.map(g, tree)` with a `g` that can raise -/
  def Tree.mapE (g : β → Except Err γ) : Tree β → Except Err (Tree γ)
    | .leaf b => do pure (.leaf (← g b))
    | .node f => do pure (.node (← mapEF g f))
  def mapEF (g : β → Except Err γ) : Forest β → Except Err (Forest γ)
    | [] => pure []
    | (k, t) :: r => do
        let t' ← t.mapE g
        let r' ← mapEF g r
        pure ((k, t') :: r')
end

/-- the value found at a path, when it is a leaf -/
def Tree.leafAt : Tree β → Path → Option β
  | .leaf b, [] => some b
  | .node _, [] => none
  | .leaf _, _ :: _ => none
  | .node f, k :: p =>
    match dget f k with
    | some t => t.leafAt p
    | none => none

def leafAtF (f : Forest β) (p : Path) : Option β := (Tree.node f).leafAt p

/-- one assignment of `unflatten_mapping`'s loop: walk `path[:-1]` creating dicts, then
`cursor[path[-1]] = value` -/
def insertF : Forest β → Path → β → Except Err (Forest β)
  | _, [], _ => .error .emptyPath
  | f, [k], b => .ok (dset f k (.leaf b))
  | f, k :: k' :: ks, b =>
    match dget f k with
    | none => do
        let sub ← insertF [] (k' :: ks) b
        pure (dset f k (.node sub))
    | some (.node sub) => do
        let sub' ← insertF sub (k' :: ks) b
        pure (dset f k (.node sub'))
    | some (.leaf _) => .error .leafOnPath

/-- `traversals.unflatten_mapping` -/
def unflatten (flat : List (Path × β)) : Except Err (Forest β) :=
  flat.foldlM (fun f pb => insertF f pb.1 pb.2) []

/-- `flat[p] = v` on a flat dict -/
def setFlat : List (Path × β) → Path → β → List (Path × β)
  | [], p, v => [(p, v)]
  | (q, w) :: r, p, v => if p = q then (q, v) :: r else (q, w) :: setFlat r p v

/-- `a |= b` (`dict.update`) on flat dicts -/
def mergeFlat (a b : List (Path × β)) : List (Path × β) :=
  b.foldl (fun acc pb => setFlat acc pb.1 pb.2) a

/-- `bridge.variables._recursive_merge(dict1, dict2)` -/
def recursiveMerge (a b : Forest β) : Except Err (Forest β) :=
  unflatten (mergeFlat (flattenF a) (flattenF b))

/-- `dict1 | dict2` (what `ToNNX.__call__` used before the repair of finding F13) -/
def shallowMerge (a b : Forest β) : Forest β :=
  b.foldl (fun acc kt => dset acc kt.1 kt.2) a

end

/-! ## the name <-> type registry (`VariableTypeCache`) -/

/-- a Variable class: classes written by the user or shipped by flax have an identity of their own,
classes made by `variable_type_from_name` are numbered by the registry -/
inductive VType where
  | user (id : Nat) (name : String)        -- `name` is `__name__`
  | made (serial : Nat) (name : String)    -- `type(name, (base,), {})`
  deriving Repr, DecidableEq, Inhabited

def VType.pyName : VType → String
  | .user _ n => n
  | .made _ n => n

structure Reg where
  cache : List (String × VType)    -- `VariableTypeCache`, insertion order
  next : Nat                       -- how many classes `variable_type_from_name` has made
  deriving Repr, DecidableEq, Inhabited

def Reg.typeOf (r : Reg) (n : String) : Option VType :=
  (r.cache.find? fun e => e.1 = n).map (·.2)

/-- the loop of `variable_name_from_type`: first entry whose type is `t` -/
def Reg.nameOf (r : Reg) (t : VType) : Option String :=
  (r.cache.find? fun e => e.2 = t).map (·.1)

def setAssoc {κ ν : Type} [DecidableEq κ] : List (κ × ν) → κ → ν → List (κ × ν)
  | [], k, v => [(k, v)]
  | (k', v') :: r, k, v => if k = k' then (k', v) :: r else (k', v') :: setAssoc r k v

/-- `variable_type_from_name(name, allow_register=…)` -/
def Reg.typeFromName (r : Reg) (n : String) (allow : Bool) : Except Err (Reg × VType) :=
  match r.typeOf n with
  | some t => .ok (r, t)
  | none =>
    if allow then
      let t := VType.made r.next n
      .ok ({ cache := r.cache ++ [(n, t)], next := r.next + 1 }, t)
    else .error .notRegistered

/-- `register_variable_name(name, typ, overwrite=…)` -/
def Reg.register (r : Reg) (n : String) (t : VType) (overwrite : Bool) : Except Err Reg :=
  if !overwrite && (r.typeOf n).isSome then .error .nameTaken
  else .ok { r with cache := setAssoc r.cache n t }

/-- `variable_name_from_type(typ, allow_register=…)` -/
def Reg.nameFromType (r : Reg) (t : VType) (allow : Bool) : Except Err (Reg × String) :=
  match r.nameOf t with
  | some n => .ok (r, n)
  | none =>
    if !allow then .error .notRegistered
    else if (r.typeOf t.pyName).isSome then .error .nameTaken
    else do
      let r' ← r.register t.pyName t false
      pure (r', t.pyName)

/-- a call of one of the three registry functions -/
inductive RegOp where
  | typeFromName (n : String) (allow : Bool)
  | nameFromType (t : VType) (allow : Bool)
  | register (n : String) (t : VType) (overwrite : Bool)
  deriving Repr, DecidableEq

/-- one call; a call that raises leaves the registry as it was -/
def Reg.step (r : Reg) : RegOp → Reg
  | .typeFromName n a => match r.typeFromName n a with | .ok (r', _) => r' | .error _ => r
  | .nameFromType t a => match r.nameFromType t a with | .ok (r', _) => r' | .error _ => r
  | .register n t ow => match r.register n t ow with | .ok r' => r' | .error _ => r

def Reg.run (r : Reg) (ops : List RegOp) : Reg := ops.foldl Reg.step r

/-! ## variable boxes -/

/-- metadata values the bridge moves around without looking inside -/
inductive MetaVal where
  | none
  | str (s : String)
  | int (i : Int)
  | names (xs : List (Option String))    -- a tuple of axis names (entries may be `None`)
  | tuple0                               -- `()`
  | cls (c : String)                     -- a class object (a Linen metadata box type)
  | opaque (id : String)                 -- anything else (a Mesh, sharding rules, …)
  deriving Repr, DecidableEq, Inhabited

/-- a Python `dict[str, …]` of metadata, insertion order -/
abbrev Meta := List (String × MetaVal)

def Meta.get? (m : Meta) (k : String) : Option MetaVal := (m.find? fun e => e.1 = k).map (·.2)
def Meta.erase (m : Meta) (k : String) : Meta := m.filter fun e => e.1 ≠ k

/-- a leaf of a Linen variables dict -/
inductive LBox (α : Type) where
  | plain (v : α)                                           -- an array
  | partitioned (v : α) (names mesh : MetaVal)              -- `flax.core.meta.Partitioned`
  | logical (v : α) (names mesh rules : MetaVal)            -- `flax.linen.LogicallyPartitioned`
  | nnxMeta (vtype : VType) (v : α) (metadata : Meta)       -- `bridge.NNXMeta`
  | box (cls : String) (v : α) (fields : Meta)              -- any other `AxisMetadata` dataclass
  deriving Repr, DecidableEq, Inhabited

/-- an `nnx.Variable` / `VariableState`: type, raw value, metadata -/
structure NVar (α : Type) where
  vtype : VType
  value : α
  md : Meta
  deriving Repr, DecidableEq, Inhabited

def clsPartitioned : String := "Partitioned"
def clsLogical : String := "LogicallyPartitioned"

/-- `bridge.variables.is_vanilla_variable`: only empty `*_hooks` entries -/
def isVanilla (m : Meta) : Bool :=
  m.all fun e => e.1.endsWith "_hooks" && decide (e.2 = MetaVal.tuple0)

/-- the metadata part of `to_nnx_var(col, x)` for a box (the type comes from the registry) -/
def boxToMeta {α : Type} : LBox α → α × Meta
  | .plain v => (v, [])
  | .partitioned v names mesh =>
      -- `to_nnx_metadata`: vars(self) = {value, names, mesh}; names is popped and re-added as sharding
      (v, [("mesh", mesh), ("sharding", names), ("linen_meta_type", .cls clsPartitioned)])
  | .logical v names mesh rules =>
      (v, [("mesh", mesh), ("sharding", names), ("sharding_rules", rules),
           ("linen_meta_type", .cls clsLogical)])
  | .nnxMeta _ v md => (v, md)
  | .box c v fields => (v, fields ++ [("linen_meta_type", .cls c)])

/-- `bridge.variables.to_nnx_var(col, x)` once the collection's type `t` has been looked up -/
def toNnxVarWith {α : Type} (t : VType) (x : LBox α) : Except Err (NVar α) :=
  match x with
  | .nnxMeta vt v md => if t = vt then .ok ⟨vt, v, md⟩ else .error .typeMismatch
  | x => .ok ⟨t, (boxToMeta x).1, (boxToMeta x).2⟩

/-- `bridge.variables.to_nnx_var(col, x)` -/
def toNnxVar {α : Type} (r : Reg) (col : String) (x : LBox α) : Except Err (Reg × NVar α) := do
  let (r', t) ← r.typeFromName col true
  let v ← toNnxVarWith t x
  pure (r', v)

/-- `bridge.variables.to_linen_var(vs)` -/
def toLinenVar {α : Type} (v : NVar α) : Except Err (LBox α) :=
  match v.md.get? "linen_meta_type" with
  | some (.cls c) =>
    if c = clsPartitioned then
      -- `Partitioned.from_nnx_metadata`: names = metadata.pop('sharding'); mesh has a default
      match v.md.get? "sharding" with
      | some names => .ok (.partitioned v.value names ((v.md.get? "mesh").getD .none))
      | none => .error .keyError
    else if c = clsLogical then
      match v.md.get? "sharding", v.md.get? "sharding_rules" with
      | some names, some rules =>
          .ok (.logical v.value names ((v.md.get? "mesh").getD .none) rules)
      | _, _ => .error .keyError
    else
      -- a box class without `from_nnx_metadata`: `linen_type(value, **fields)`
      .ok (.box c v.value (v.md.erase "linen_meta_type"))
  | some _ => .error .badBox
  | none => if isVanilla v.md then .ok (.plain v.value) else .ok (.nnxMeta v.vtype v.value v.md)

/-- `to_linen_var` as shipped at the pinned commit: the generic branch passes `linen_meta_type`
itself to the box constructor, which every dataclass rejects -/
def toLinenVarOrig {α : Type} (v : NVar α) : Except Err (LBox α) :=
  match v.md.get? "linen_meta_type" with
  | some (.cls c) => if c = clsPartitioned ∨ c = clsLogical then toLinenVar v else .error .badBox
  | _ => toLinenVar v

/-- a metadata box as a Python object: the array and the rest of the instance `__dict__` -/
structure BoxObj (α : Type) where
  value : α
  attrs : Meta
  deriving Repr, DecidableEq

/-- `Partitioned.to_nnx_metadata` at the pinned commit: `metadata = vars(self)` is the instance
dict itself, so popping `names` writes the caller's box. Result: (returned metadata, box afterwards) -/
def toNnxMetadataOrig {α : Type} (o : BoxObj α) : Meta × BoxObj α :=
  let d := (o.attrs.erase "names") ++ [("sharding", (o.attrs.get? "names").getD .none)]
  (d, { o with attrs := d })

/-- after the repair (`dict(vars(self))`): the pop happens on a copy -/
def toNnxMetadata {α : Type} (o : BoxObj α) : Meta × BoxObj α :=
  let d := (o.attrs.erase "names") ++ [("sharding", (o.attrs.get? "names").getD .none)]
  (d, o)

/-! ### `NNXMeta` under Linen's lifted transforms (`add_axis` / `remove_axis`) -/

/-- `list.insert(k, a)` for `0 ≤ k` -/
def insertAt {σ : Type} : List σ → Nat → σ → List σ
  | l, 0, a => a :: l
  | [], _ + 1, a => [a]
  | x :: l, k + 1, a => x :: insertAt l k a

/-- the index `NNXMeta.add_axis` inserts at: a negative index counts from the end of the *new* tuple -/
def addIndex (len : Nat) (index : Int) : Nat :=
  if index < 0 then (index + len + 1).toNat else index.toNat

/-- the new `sharding` tuple: pad with `None` up to the index, then insert the axis name -/
def insertAxis (names : List (Option String)) (index : Int) (axis : String) : List (Option String) :=
  let k := addIndex names.length index
  insertAt (names ++ List.replicate (k - names.length) none) k (some axis)

/-- `names.pop(index)` (Python indexing) with the assertion that the popped name is the axis name -/
def removeAxis (names : List (Option String)) (index : Int) (axis : String) : Except Err (List (Option String)) :=
  let j : Int := if index < 0 then index + names.length else index
  if j < 0 ∨ (names.length : Int) ≤ j then .error .keyError          -- IndexError: pop index out of range
  else if names[j.toNat]? = some (some axis) then .ok (names.eraseIdx j.toNat)
  else .error .typeMismatch                                          -- the assert

/-- `NNXMeta.add_axis(index, {PARTITION_NAME: axis})` on the box's metadata: a `sharding` tuple — the empty
one included — gains the axis name; a Variable without a `sharding` annotation is left as it is -/
def nnxMetaAddAxis (md : Meta) (index : Int) (axis : String) : Meta :=
  match md.get? "sharding" with
  | some (.names ns) => setAssoc md "sharding" (.names (insertAxis ns index axis))
  | _ => md

/-- `NNXMeta.remove_axis(index, {PARTITION_NAME: axis})` -/
def nnxMetaRemoveAxis (md : Meta) (index : Int) (axis : String) : Except Err Meta :=
  match md.get? "sharding" with
  | some (.names ns) => do
      let ns' ← removeAxis ns index axis
      pure (setAssoc md "sharding" (.names ns'))
  | _ => .ok md

/-! ## the two transpositions -/

/-- collections in the order `jax.tree_util.tree_map_with_path` rebuilds a dict: sorted keys -/
def insertCol {β : Type} (kt : String × Tree β) : List (String × Tree β) → List (String × Tree β)
  | [] => [kt]
  | kt' :: r => if kt.1 ≤ kt'.1 then kt :: kt' :: r else kt' :: insertCol kt r

def sortedCols {β : Type} (f : Forest β) : List (String × Tree β) :=
  f.foldr insertCol []

/-- the `tree_map_with_path(to_nnx_var(col, ·))` of one collection: the type is looked up (and, for
an unknown collection name, made) at the first leaf; a collection without leaves registers nothing -/
def convertCol {α : Type} (r : Reg) (col : String) (t : Tree (LBox α)) :
    Except Err (Reg × Tree (NVar α)) :=
  do
    let (r', vt) ← r.typeFromName col true          -- cannot raise with `allow_register=True`
    let t' ← t.mapE (toNnxVarWith vt)
    pure (if t.flatten.isEmpty then r else r', t')

def convertCols {α : Type} : Reg → List (String × Tree (LBox α)) →
    Except Err (Reg × List (String × Tree (NVar α)))
  | r, [] => .ok (r, [])
  | r, (c, t) :: rest => do
      let (r1, t') ← convertCol r c t
      let (r2, rest') ← convertCols r1 rest
      pure (r2, (c, t') :: rest')

/-- the body of `linen_vars_to_nnx_attrs`'s inner loop for one `(attr_name, value)` -/
def addAttr {β : Type} (attrs : Forest β) (name : String) (value : Tree β) : Except Err (Forest β) :=
  match value with
  | .node sub =>
    -- `nnx_attrs[attr_name] = _recursive_merge(nnx_attrs[attr_name], value)` on a defaultdict(dict)
    match dget attrs name with
    | none => do pure (dset attrs name (.node (← recursiveMerge [] sub)))
    | some (.node old) => do pure (dset attrs name (.node (← recursiveMerge old sub)))
    | some (.leaf _) => .error .notMapping
  | .leaf b => .ok (dset attrs name (.leaf b))

def addCol {β : Type} (attrs : Forest β) (colTree : Tree β) : Except Err (Forest β) :=
  match colTree with
  | .node f => f.foldlM (fun a kt => addAttr a kt.1 kt.2) attrs
  | .leaf _ => .error .notMapping       -- `assert isinstance(col_tree, dict)`

/-- `bridge.variables.linen_vars_to_nnx_attrs(variables)` -/
def linenVarsToNnxAttrs {α : Type} (r : Reg) (vars : Forest (LBox α)) :
    Except Err (Reg × Forest (NVar α)) := do
  let (r', cols) ← convertCols r (sortedCols vars)
  let attrs ← cols.foldlM (fun a ct => addCol a ct.2) []
  pure (r', attrs)

/-- one entry of the flat dict built by `nnx_attrs_to_linen_vars` -/
def linenEntry {α : Type} (r : Reg) (allow : Bool) (pv : Path × NVar α) :
    Except Err (Reg × (Path × LBox α)) := do
  let (r', col) ← r.nameFromType pv.2.vtype allow
  let x ← toLinenVar pv.2
  pure (r', (col :: pv.1, x))

def linenEntries {α : Type} (allow : Bool) : Reg → List (Path × NVar α) →
    Except Err (Reg × List (Path × LBox α))
  | r, [] => .ok (r, [])
  | r, pv :: rest => do
      let (r1, e) ← linenEntry r allow pv
      let (r2, es) ← linenEntries allow r1 rest
      pure (r2, e :: es)

/-- `flat[p] = v` for every entry, in order (a dict comprehension / repeated assignment) -/
def dictOfEntries {β : Type} (es : List (Path × β)) : List (Path × β) := mergeFlat [] es

/-- `bridge.variables.nnx_attrs_to_linen_vars(nnx_attrs)` (Variables only; `allow_register=False`) -/
def nnxAttrsToLinenVars {α : Type} (r : Reg) (attrs : Forest (NVar α)) :
    Except Err (Forest (LBox α)) := do
  let (_, es) ← linenEntries false r (flattenF attrs)
  unflatten (dictOfEntries es)

/-! ## ToNNX -/

/-- a JAX key drawn from an `nnx.Rngs` stream: which stream, which count -/
structure Key where
  stream : String
  count : Nat
  src : Nat          -- which `nnx.Rngs` object (its seed / identity) the key was drawn from
  deriving Repr, DecidableEq, Inhabited

/-- the `rngs` dict handed to Linen: name ↦ key -/
abbrev Keys := List (String × Key)

/-- `nnx.Rngs`: every stream has a counter -/
structure Rngs where
  streams : List (String × Nat)
  src : Nat := 0     -- identity of the object: the wrapper's own rngs, or one handed in per call
  deriving Repr, DecidableEq, Inhabited

/-- `{name: stream() for name, stream in rngs.items()}` -/
def Rngs.draw (r : Rngs) : Keys × Rngs :=
  (r.streams.map fun nc => (nc.1, ⟨nc.1, nc.2, r.src⟩), ⟨r.streams.map fun nc => (nc.1, nc.2 + 1), r.src⟩)

/-- the init path's `_rngs['params'] = _rngs.pop('default')` -/
def renameDefault (ks : Keys) : Keys :=
  if ks.any (fun e => e.1 = "params") then ks
  else match ks.find? (fun e => e.1 = "default") with
    | some e => (ks.filter fun e' => e'.1 ≠ "default") ++ [("params", e.2)]
    | none => ks

/-- the wrapped Linen module, abstractly: `init_with_output` and `apply`. `μ` is the type of the
`mutable` argument when it is not `False`. `apply` returns the updated collections (`{}` when
`mutable=False`). -/
structure LinenMod (α ι ο μ : Type) where
  init : Keys → ι → Except Err (ο × Forest (LBox α))
  apply : Forest (LBox α) → Keys → Option μ → ι → Except Err (ο × Forest (LBox α))

/-- the state of a `ToNNX` object: its attributes other than `module`, `rngs`, `_object__state`,
the process-wide registry, and its `rngs` -/
structure ToNNX (α : Type) where
  attrs : Forest (NVar α)
  reg : Reg
  rngs : Rngs

/-- `for attr_name, value in nnx_attrs.items(): setattr(self, attr_name, value)` -/
def setAttrs {β : Type} (attrs new : Forest β) : Forest β := shallowMerge attrs new

/-- the merge of one updated attribute into the wrapper (after the repair of F13) -/
def absorbAttr {β : Type} (attrs : Forest β) (name : String) (value : Tree β) : Except Err (Forest β) :=
  match value, dget attrs name with
  | .node v, some (.node orig) => do pure (dset attrs name (.node (← recursiveMerge orig v)))
  | .node _, some (.leaf _) => .error .notMapping
  | value, _ => .ok (dset attrs name value)

/-- the same loop body at the pinned commit: `original_tree | value` -/
def absorbAttrOrig {β : Type} (attrs : Forest β) (name : String) (value : Tree β) : Except Err (Forest β) :=
  match value, dget attrs name with
  | .node v, some (.node orig) => .ok (dset attrs name (.node (shallowMerge orig v)))
  | .node _, some (.leaf _) => .error .notMapping
  | value, _ => .ok (dset attrs name value)

/-- `ToNNX.__call__`, the block after `apply`: merge the `mutable` updates into the attributes -/
def ToNNX.absorb {α : Type} (s : ToNNX α) (updates : Forest (LBox α)) : Except Err (ToNNX α) := do
  let (r', u) ← linenVarsToNnxAttrs s.reg updates
  let attrs ← u.foldlM (fun a kt => absorbAttr a kt.1 kt.2) s.attrs
  pure { s with attrs := attrs, reg := r' }

def ToNNX.absorbOrig {α : Type} (s : ToNNX α) (updates : Forest (LBox α)) : Except Err (ToNNX α) := do
  let (r', u) ← linenVarsToNnxAttrs s.reg updates
  let attrs ← u.foldlM (fun a kt => absorbAttrOrig a kt.1 kt.2) s.attrs
  pure { s with attrs := attrs, reg := r' }

/-- the Linen variables the wrapper holds: what the apply path hands to `module.apply` -/
def ToNNX.heldVars {α : Type} (s : ToNNX α) : Except Err (Forest (LBox α)) :=
  nnxAttrsToLinenVars s.reg s.attrs

/-- `ToNNX.lazy_init(x)` -/
def ToNNX.lazyInit {α ι ο μ : Type} (m : LinenMod α ι ο μ) (s : ToNNX α) (x : ι) :
    Except Err (ο × ToNNX α) := do
  let (ks, rngs') := s.rngs.draw
  let (out, vars) ← m.init (renameDefault ks) x
  let (r', a) ← linenVarsToNnxAttrs s.reg vars
  pure (out, { attrs := setAttrs s.attrs a, reg := r', rngs := rngs' })

/-- `ToNNX.__call__(x, mutable=…)` outside initialisation -/
def ToNNX.call {α ι ο μ : Type} (m : LinenMod α ι ο μ) (s : ToNNX α) (mu : Option μ) (x : ι) :
    Except Err (ο × ToNNX α) := do
  let vars ← s.heldVars
  let (ks, rngs') := s.rngs.draw
  let (out, upd) ← m.apply vars ks mu x
  match mu with
  | none => pure (out, { s with rngs := rngs' })
  | some _ => do
      let s' ← ToNNX.absorb { s with rngs := rngs' } upd
      pure (out, s')

/-- `if not rngs: rngs = self.rngs`: the per-call `rngs=` argument wins when it is given and not empty -/
def chooseRngs (given : Option Rngs) : Bool :=
  match given with
  | some g => !g.streams.isEmpty
  | none => false

/-- `ToNNX.__call__(x, rngs=given, mutable=…)` outside initialisation: the keys are drawn from the per-call
`rngs` when one is passed (and then the wrapper's own streams do not move), from the wrapper's otherwise.
Returns the output, the wrapper afterwards, and the caller's `rngs` object afterwards. -/
def ToNNX.callR {α ι ο μ : Type} (m : LinenMod α ι ο μ) (s : ToNNX α) (given : Option Rngs) (mu : Option μ) (x : ι) :
    Except Err (ο × ToNNX α × Option Rngs) := do
  let vars ← s.heldVars
  let useGiven := chooseRngs given
  let src := if useGiven then given.getD s.rngs else s.rngs
  let (ks, src') := src.draw
  let own' := if useGiven then s.rngs else src'
  let given' := if useGiven then some src' else given
  let (out, upd) ← m.apply vars ks mu x
  match mu with
  | none => pure (out, { s with rngs := own' }, given')
  | some _ => do
      let s' ← ToNNX.absorb { s with rngs := own' } upd
      pure (out, s', given')

/-! ## ToLinen -/

/-- JAX keys as symbolic terms: a key the caller passed in, the key Linen's `make_rng` derives from it at
a scope path (per-scope, per-stream counter), and `jax.random.fold_in(key, n)` -/
inductive KeyT where
  | base (k : Key)
  | linen (k : KeyT) (path : Path) (count : Nat)
  | fold (k : KeyT) (n : Nat)
  deriving Repr, DecidableEq, Inhabited

/-- an `nnx.RngStream`: `__call__` returns `fold_in(key, count)` and bumps the count -/
structure RngStream where
  key : KeyT
  count : Nat
  deriving Repr, DecidableEq, Inhabited

def RngStream.draw (s : RngStream) : KeyT × RngStream := (.fold s.key s.count, { s with count := s.count + 1 })

/-- `nnx.reseed(module, **keys)`: every stream whose tag is among the names gets the key, count 0 -/
def reseedStreams (ss : List (String × RngStream)) (ks : List (String × KeyT)) : List (String × RngStream) :=
  ss.map fun e => match ks.find? (fun k => k.1 = e.1) with
    | some k => (e.1, ⟨k.2, 0⟩)
    | none => e

/-- `linen_rngs_dict(self)` inside `ToLinen.__call__`: one `make_rng(name)` per stream of the Linen
apply call, at the wrapper's scope; every Linen `apply` starts its counters at 0 -/
def linenRngsDict (scopePath : Path) (rngs : Keys) : List (String × KeyT) :=
  rngs.map fun e => (e.1, .linen (.base e.2) scopePath 0)

/-- the per-stream `make_rng` counters of the Linen scope a ToLinen instance lives in; they are state of
one Linen `init`/`apply` and are threaded through the calls of the instance inside it -/
abbrev ScopeCounters := List (String × Nat)

def ScopeCounters.get (c : ScopeCounters) (n : String) : Nat :=
  ((c.find? fun e => e.1 = n).map (·.2)).getD 0

/-- `linen_rngs_dict(self)` with the scope's counters spelled out: one `make_rng(name)` per stream, each
advancing that stream's counter -/
def linenRngsDictC (scopePath : Path) (rngs : Keys) (c : ScopeCounters) : List (String × KeyT) × ScopeCounters :=
  (rngs.map fun e => (e.1, .linen (.base e.2) scopePath (c.get e.1)),
   rngs.map fun e => (e.1, c.get e.1 + 1))

/-- the key dicts handed to `nnx.reseed` by `n` consecutive calls of one ToLinen instance inside a single
Linen `init`/`apply` -/
def callKeyDicts (scopePath : Path) (rngs : Keys) : Nat → ScopeCounters → List (List (String × KeyT))
  | 0, _ => []
  | n + 1, c => (linenRngsDictC scopePath rngs c).1 :: callKeyDicts scopePath rngs n (linenRngsDictC scopePath rngs c).2

/-- the wrapped NNX class, abstractly. `γ` is the graph definition (static structure, opaque):
`construct` is `nnx.split(nnx_class(*args, rngs=…))`, `call g s x` is `nnx.merge(g, s)`, the call, and
`nnx.split` again; `reseed` is `nnx.reseed` acting on the state's RNG Variables -/
structure NnxMod (α ι ο γ : Type) where
  construct : List (String × KeyT) → Except Err (γ × Forest (NVar α))
  reseed : Forest (NVar α) → List (String × KeyT) → Forest (NVar α)
  call : γ → Forest (NVar α) → ι → Except Err (ο × γ × Forest (NVar α))

/-- `ToLinen._update_variables`: every Variable goes to the collection named after its type
(registering the type's `__name__` when it has no name yet), only into mutable collections -/
def encodeState {α : Type} (r : Reg) (isMutable : String → Bool) (state : Forest (NVar α)) :
    Except Err (Reg × Forest (LBox α)) := do
  let (r', es) ← linenEntries true r (flattenF state)
  let vars ← unflatten (dictOfEntries (es.filter fun e => isMutable (e.1.headD "")))
  pure (r', vars)

/-! ### type buckets of `_update_variables` -/

/-- the class hierarchy below `Variable`: for every Variable class the Variable classes in its MRO, the
class itself included (`_variable_parents_count(t)` is the length of this list) -/
structure Hier where
  mro : VType → List VType

/-- `issubclass(s, t)` (what the `OfType(t)` filter of `nnx.split` tests on a Variable of type `s`) -/
def Hier.isSub (h : Hier) (s t : VType) : Bool := decide (t ∈ h.mro s)

def Hier.count (h : Hier) (t : VType) : Nat := (h.mro t).length

def insertType (h : Hier) (t : VType) : List VType → List VType
  | [] => [t]
  | a :: r => if h.count t ≤ h.count a then a :: insertType h t r else t :: a :: r

/-- `bridge.variables.sort_variable_types`: most derived first -/
def sortVariableTypes (h : Hier) (types : List VType) : List VType := types.foldr (insertType h) []

/-- `nnx.split(module, *types)`: a Variable goes to the first type in the list it is an instance of -/
def bucketOf (h : Hier) (sorted : List VType) (t : VType) : Option VType :=
  sorted.find? fun f => h.isSub t f

/-- the exact types occurring in a state (`set(jax.tree.leaves(... x.type ...))`) -/
def typesOf {α : Type} (state : Forest (NVar α)) : List VType :=
  ((flattenF state).map fun pv => pv.2.vtype).eraseDups

/-- one entry written by `_update_variables`: the collection is named after the *bucket* the Variable
fell into; the Variable itself (its own type included, for `NNXMeta`) is converted as it is -/
def linenEntryB {α : Type} (h : Hier) (sorted : List VType) (r : Reg) (pv : Path × NVar α) :
    Except Err (Reg × (Path × LBox α)) :=
  match bucketOf h sorted pv.2.vtype with
  | none => .error .notRegistered      -- cannot happen: the Variable's own type is in the list
  | some b => do
      let (r', col) ← r.nameFromType b true
      let x ← toLinenVar pv.2
      pure (r', (col :: pv.1, x))

def linenEntriesB {α : Type} (h : Hier) (sorted : List VType) : Reg → List (Path × NVar α) →
    Except Err (Reg × List (Path × LBox α))
  | r, [] => .ok (r, [])
  | r, pv :: rest => do
      let (r1, e) ← linenEntryB h sorted r pv
      let (r2, es) ← linenEntriesB h sorted r1 rest
      pure (r2, e :: es)

/-- `ToLinen._update_variables` with the type buckets spelled out: sort the state's types, split by
first match, name each bucket after its type, write the mutable ones -/
def encodeStateTyped {α : Type} (h : Hier) (r : Reg) (isMutable : String → Bool) (state : Forest (NVar α)) :
    Except Err (Reg × Forest (LBox α)) := do
  let sorted := sortVariableTypes h (typesOf state)
  let (r', es) ← linenEntriesB h sorted r (flattenF state)
  let vars ← unflatten (dictOfEntries (es.filter fun e => isMutable (e.1.headD "")))
  pure (r', vars)

/-- `ToLinen.__call__`, apply path up to `nnx.merge`: every collection except `nnx` is converted
leaf by leaf and the per-collection states are merged (`merge_state`: flat union, later wins) -/
def decodeVars {α : Type} (r : Reg) (vars : Forest (LBox α)) : Except Err (Reg × Forest (NVar α)) := do
  let cols := (sortedCols vars).filter fun ct => ct.1 ≠ "nnx"
  let (r', cols') ← convertCols r cols
  let flat := cols'.foldl (fun acc ct => mergeFlat acc ct.2.flatten) []
  let state ← unflatten flat
  pure (r', state)

/-- what a Linen caller holds for a ToLinen module: `variables['nnx']['graphdef']` and every other
collection -/
structure LinenVars (α γ : Type) where
  gdef : Option γ
  vars : Forest (LBox α)

/-- `ToLinen.__call__` while initialising: construct, store graphdef and fresh state, then call -/
def toLinenInit {α ι ο γ : Type} (m : NnxMod α ι ο γ) (r : Reg) (scopePath : Path) (rngs : Keys) (x : ι) :
    Except Err (ο × Reg × LinenVars α γ) := do
  let (g, s) ← m.construct (linenRngsDict scopePath rngs)
  let (r', vars) ← encodeState r (fun _ => true) s
  let (out, _, _) ← m.call g s x
  pure (out, r', ⟨some g, vars⟩)

/-- `ToLinen.__call__` on the apply path: read the graphdef, rebuild the state, reseed with the keys
Linen provides, call, and hand graphdef (when `nnx` is mutable) and state to `_update_variables` -/
def toLinenApply {α ι ο γ : Type} (m : NnxMod α ι ο γ) (r : Reg) (scopePath : Path) (lv : LinenVars α γ)
    (rngs : Keys) (isMutable : String → Bool) (x : ι) :
    Except Err (ο × Reg × Option γ × Forest (LBox α)) := do
  let g ← match lv.gdef with
    | some g => pure g
    | none => .error .keyError        -- the collection `nnx` was dropped
  let (r1, s) ← decodeVars r lv.vars
  let (out, g', s') ← m.call g (m.reseed s (linenRngsDict scopePath rngs)) x
  let (r2, upd) ← encodeState r1 isMutable s'
  pure (out, r2, (if isMutable "nnx" then some g' else none), upd)

/-- one `apply` by a Linen caller who folds the returned collections back into what he holds, leaf by leaf -/
def LinenVars.step {α ι ο γ : Type} (m : NnxMod α ι ο γ) (r : Reg) (scopePath : Path) (lv : LinenVars α γ)
    (rngs : Keys) (isMutable : String → Bool) (x : ι) : Except Err (ο × Reg × LinenVars α γ) := do
  let (out, r', g?, upd) ← toLinenApply m r scopePath lv rngs isMutable x
  let vars' ← recursiveMerge lv.vars upd
  pure (out, r', ⟨(match g? with | some g => some g | none => lv.gdef), vars'⟩)

end Flax.Bridge
