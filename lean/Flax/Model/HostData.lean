/-
Model of flax's host-side batch helpers.

* `flax/jax_utils.py`: `pad_shard_unpad` (pad / reshape to devices / un-pad), `replicate`,
  `unreplicate`, `_invert_perm`, `scan_in_dim`, `_scan_nd`.
* `flax/training/common_utils.py`: `shard`, `stack_forest`, `get_metrics`, `onehot`.

A batch is a `List α` of rows (`α` abstract: a row is whatever sits behind the leading axis, so the
theorems hold for every trailing shape and dtype); a device-sharded batch is a `List (List α)`.
Core Lean only (no Mathlib): this file is in the import closure of the compiled driver.
-/

namespace Flax.HostData

/-! ## pad_shard_unpad -/

/-- row-level `x.reshape(d, db, *shape)`: `d` consecutive chunks of `db` rows -/
def chunks {α : Type} : Nat → Nat → List α → List (List α)
  | 0, _, _ => []
  | d + 1, db, xs => xs.take db :: chunks d db (xs.drop db)

/-- NumPy raises `ValueError` when the sizes do not match -/
def reshape2 {α : Type} (d db : Nat) (xs : List α) : Option (List (List α)) :=
  if xs.length = d * db then some (chunks d db xs) else none

/-- The two padding steps of the `pad` closure: returns the per-device batch `db` and the padded rows.
`b` is the (common) batch size, `mdb = 0` renders `min_device_batch=None` (both are falsy in
`if min_device_batch and db < min_device_batch`). -/
def padRows {α : Type} (z : α) (d mdb b : Nat) (xs : List α) : Nat × List α :=
  let db := b / d
  let rest := b % d
  let p1 : Nat × List α := if rest ≠ 0 then (db + 1, xs ++ List.replicate (d - rest) z) else (db, xs)
  if mdb ≠ 0 ∧ p1.1 < mdb then (mdb, p1.2 ++ List.replicate (d * (mdb - p1.1)) z) else p1

/-- `pad(x)`: `none` = an exception (`divmod(b, 0)` or a failed reshape) -/
def pad {α : Type} (z : α) (d mdb b : Nat) (xs : List α) : Option (List (List α)) :=
  if d = 0 then none else reshape2 d (padRows z d mdb b xs).1 (padRows z d mdb b xs).2

/-- `unpad(x)`: `x.reshape([prod(x.shape[:2]), *x.shape[2:]])[:b]` -/
def unpad {α : Type} (b : Nat) (out : List (List α)) : List α := out.flatten.take b

/-- `assert len(batch_sizes) == 1; b = batch_sizes.pop()` over the leading sizes of all non-static leaves -/
def batchSize : List Nat → Option Nat
  | [] => none
  | b :: bs => if bs.all (fun x => decide (x = b)) then some b else none

/-- the whole wrapper for one leaf and a `wrapped` that acts per example (`f` on every row) -/
def padShardUnpad {α β : Type} (z : α) (f : α → β) (d mdb : Nat) (xs : List α) : Option (List β) :=
  (pad z d mdb xs.length xs).map (fun p => unpad xs.length (p.map (fun c => c.map f)))

/-- two leaves (a pytree of inputs): each leaf is padded on its own, `wrapped` combines them per example -/
def padShardUnpad2 {α β γ : Type} (za : α) (zb : β) (f : α → β → γ) (d mdb : Nat)
    (xs : List α) (ys : List β) : Option (List γ) :=
  match batchSize [xs.length, ys.length] with
  | none => none
  | some b =>
    match pad za d mdb b xs, pad zb d mdb b ys with
    | some p, some q => some (unpad b (List.zipWith (fun c e => List.zipWith f c e) p q))
    | _, _ => none

/-! ## replicate / unreplicate / shard / stack_forest / get_metrics / onehot -/

/-- `jax.device_put_replicated(x, devices)`: one copy per device along a new leading axis -/
def replicate {α : Type} (d : Nat) (x : α) : List α := List.replicate d x

/-- `x[0]` (IndexError on an empty leading axis) -/
def unreplicate {α : Type} (xs : List α) : Option α := xs.head?

/-- `x.reshape((local_device_count, -1) + x.shape[1:])` -/
def shard {α : Type} (d : Nat) (xs : List α) : Option (List (List α)) :=
  if d = 0 ∨ xs.length = 0 ∨ xs.length % d ≠ 0 then none else some (chunks d (xs.length / d) xs)

/-- `stack_forest`: `tree_map(lambda *args: np.stack(args), *forest)` on the leaf lists of the trees
(`jax.tree_util` checks that the structures match: modelled by equal leaf counts);
leaf `p` of the result is the stack over the forest of every tree's leaf `p`. -/
def stackForest {α : Type} : List (List α) → Option (List (List α))
  | [] => none                                   -- `tree_map(f)` without a tree: TypeError
  | t :: ts =>
    if ts.all (fun u => decide (u.length = t.length)) then
      some ((List.range t.length).map (fun p => (t :: ts).filterMap (fun u => u[p]?)))
    else none

/-- `get_metrics`: `x[0]` on every leaf of every step, then `stack_forest` -/
def getMetrics {α : Type} (steps : List (List (List α))) : Option (List (List α)) :=
  match steps.mapM (fun tree => tree.mapM unreplicate) with
  | none => none
  | some trees => stackForest trees

/-- `onehot(labels, num_classes, on, off)` on a flat list of labels -/
def onehot {β : Type} (labels : List Int) (n : Nat) (on off : β) : List (List β) :=
  labels.map (fun l => (List.range n).map (fun (c : Nat) => if l = Int.ofNat c then on else off))

/-! ## `_invert_perm`, the permutation built by `scan_in_dim`, NumPy `transpose` -/

/-- `for i, j in enumerate(perm): perm_inv[j] = i` -/
def invertLoop : List Nat → Nat → List Nat → List Nat
  | [], _, inv => inv
  | j :: rest, i, inv => invertLoop rest (i + 1) (inv.set j i)

/-- `_invert_perm(perm)` -/
def invertPerm (perm : List Nat) : List Nat := invertLoop perm 0 (List.replicate perm.length 0)

/-- `axis + tuple(np.delete(np.arange(ndim), axis))` -/
def scanPerm (axis : List Nat) (ndim : Nat) : List Nat :=
  axis ++ (List.range ndim).filter (fun a => !decide (a ∈ axis))

/-- `tuple(v[k] for k in p)` (out-of-range positions read 0; never happens for valid permutations) -/
def gather (p : List Nat) (v : List Nat) : List Nat := p.map (fun k => v.getD k 0)

/-- An n-dimensional array as its shape and its element function (only in-range indices matter). -/
structure Arr (α : Type) where
  shape : List Nat
  get : List Nat → α

/-- NumPy `x.transpose(perm)`: `result.shape[k] = x.shape[perm[k]]`, and `result[i] = x[j]` where
`j[perm[k]] = i[k]`, i.e. `j[m] = i[position of m in perm]`.  (Stated with `idxOf`, independently of
flax's `_invert_perm`.) -/
def Arr.transpose {α : Type} (perm : List Nat) (x : Arr α) : Arr α :=
  { shape := gather perm x.shape,
    get := fun idx => x.get ((List.range x.shape.length).map (fun m => idx.getD (perm.idxOf m) 0)) }

/-- `transpose_in` of `scan_in_dim` -/
def transposeIn {α : Type} (axis : List Nat) (x : Arr α) : Arr α :=
  x.transpose (scanPerm axis x.shape.length)

/-- `transpose_out` of `scan_in_dim` -/
def transposeOut {α : Type} (axis : List Nat) (x : Arr α) : Arr α :=
  x.transpose (invertPerm (scanPerm axis x.shape.length))

/-! ## `lax.scan` (assumption A-SCAN: left fold over the leading axis, results stacked) and `_scan_nd` -/

/-- `x[i]` on the leading axis -/
def Arr.slice0 {α : Type} (x : Arr α) (i : Nat) : Arr α :=
  { shape := x.shape.tail, get := fun idx => x.get (i :: idx) }

/-- carry before iteration `i` of a scan whose `i`-th input is `f i` -/
def carryAt {α β γ : Type} (body : γ → Arr α → γ × Arr β) (init : γ) (f : Nat → Arr α) : Nat → γ
  | 0 => init
  | i + 1 => (body (carryAt body init f i) (f i)).1

/-- `lax.scan(body, init, xs)`: `n = xs.shape[0]` iterations; the stacked output has shape
`(n,) + y.shape`, where `y.shape` is the (iteration independent) shape JAX obtains by tracing the
body on the slice type — here: the shape the body returns for the first slice. -/
def scan1 {α β γ : Type} (body : γ → Arr α → γ × Arr β) (init : γ) (xs : Arr α) : γ × Arr β :=
  let n := xs.shape.headD 0
  let f := fun i => xs.slice0 i
  (carryAt body init f n,
   { shape := n :: (body init (f 0)).2.shape,
     get := fun idx => match idx with
       | [] => (body init (f 0)).2.get []
       | i :: r => (body (carryAt body init f i) (f i)).2.get r })

/-- `_scan_nd(body_fn, init, xs, n)` with `n = k + 1` -/
def scanNd {α β γ : Type} (body : γ → Arr α → γ × Arr β) : Nat → γ → Arr α → γ × Arr β
  | 0, init, xs => scan1 body init xs
  | k + 1, init, xs => scan1 (fun c x => scanNd body k c x) init xs

/-- `x.reshape((1,) * k + x.shape)` -/
def Arr.addLeadingOnes {α : Type} (k : Nat) (x : Arr α) : Arr α :=
  { shape := List.replicate k 1 ++ x.shape, get := fun idx => x.get (idx.drop k) }

/-- `x.reshape(x.shape[k:])` when the first `k` dimensions are 1 -/
def Arr.dropLeading {α : Type} (k : Nat) (x : Arr α) : Arr α :=
  { shape := x.shape.drop k, get := fun idx => x.get (List.replicate k 0 ++ idx) }

/-- `scan_in_dim(body_fn, init, xs, axis, keepdims)` for one array `xs` and one array `ys`
(`axis` a non-empty tuple; `unroll` only affects performance). -/
def scanInDim {α β γ : Type} (body : γ → Arr α → γ × Arr β) (init : γ) (xs : Arr α)
    (axis : List Nat) (keepdims : Bool) : γ × Arr β :=
  let k := axis.length
  let bodyWrapper := fun (c : γ) (x : Arr α) =>
    let x1 := if keepdims then transposeOut axis (x.addLeadingOnes k) else x
    let r := body c x1
    let y1 := if keepdims then (transposeIn axis r.2).dropLeading k else r.2
    (r.1, y1)
  let r := scanNd bodyWrapper (k - 1) init (transposeIn axis xs)
  (r.1, transposeOut axis r.2)

/-! ## negative axis entries

`scan_in_dim` never normalises `axis` itself; negative entries work because each consumer of the
permutation normalises on its own: `np.delete(np.arange(ndim), axis)` and `x.transpose(perm)` accept
negative positions (NumPy semantics `-k ≡ ndim-k`), and `_invert_perm` writes `perm_inv[j] = i`
with Python's negative list indexing.  The definitions below transcribe exactly that, with `Int`
entries; `Props/C20.lean` proves they coincide with the `Nat` definitions on the normalised axes. -/

/-- NumPy / Python normalisation of an index against a length: `-k ≡ n-k` -/
def normAxis (n : Nat) (a : Int) : Nat := if a < 0 then (a + Int.ofNat n).toNat else a.toNat

/-- `for i, j in enumerate(perm): perm_inv[j] = i` where `j` may be negative (Python list indexing) -/
def invertLoopI : List Int → Nat → List Nat → List Nat
  | [], _, inv => inv
  | j :: rest, i, inv => invertLoopI rest (i + 1) (inv.set (normAxis inv.length j) i)

/-- `_invert_perm(perm)` for a permutation that may contain negative entries -/
def invertPermI (perm : List Int) : List Nat := invertLoopI perm 0 (List.replicate perm.length 0)

/-- `axis + tuple(np.delete(np.arange(ndim), axis))`: the entries of `axis` stay as given, `np.delete`
removes the normalised positions -/
def scanPermI (axis : List Int) (ndim : Nat) : List Int :=
  axis ++ ((List.range ndim).filter (fun a => !decide (a ∈ axis.map (normAxis ndim)))).map Int.ofNat

/-- NumPy `x.transpose(perm)` with possibly negative entries -/
def Arr.transposeI {α : Type} (perm : List Int) (x : Arr α) : Arr α :=
  x.transpose (perm.map (normAxis x.shape.length))

def transposeInI {α : Type} (axis : List Int) (x : Arr α) : Arr α :=
  x.transposeI (scanPermI axis x.shape.length)

/-- the entries of `_invert_perm(..)` are positions `i ≥ 0` -/
def transposeOutI {α : Type} (axis : List Int) (x : Arr α) : Arr α :=
  x.transpose (invertPermI (scanPermI axis x.shape.length))

/-- `scan_in_dim` with an `axis` tuple that may contain negative entries (the code as it is) -/
def scanInDimI {α β γ : Type} (body : γ → Arr α → γ × Arr β) (init : γ) (xs : Arr α)
    (axis : List Int) (keepdims : Bool) : γ × Arr β :=
  let k := axis.length
  let bodyWrapper := fun (c : γ) (x : Arr α) =>
    let x1 := if keepdims then transposeOutI axis (x.addLeadingOnes k) else x
    let r := body c x1
    let y1 := if keepdims then (transposeInI axis r.2).dropLeading k else r.2
    (r.1, y1)
  let r := scanNd bodyWrapper (k - 1) init (transposeInI axis xs)
  (r.1, transposeOutI axis r.2)

/-! executable helpers for the driver (flat row-major data) -/

/-- all multi-indices of a shape in row-major order -/
def allIdx : List Nat → List (List Nat)
  | [] => [[]]
  | n :: rest => (List.range n).flatMap (fun i => (allIdx rest).map (fun r => i :: r))

/-- row-major offset -/
def ravel : List Nat → List Nat → Nat
  | _ :: shape, i :: idx => i * shape.foldl (· * ·) 1 + ravel shape idx
  | _, _ => 0

def Arr.ofFlat {α : Type} [Inhabited α] (shape : List Nat) (data : Array α) : Arr α :=
  { shape := shape, get := fun idx => data.getD (ravel shape idx) default }

def Arr.toFlat {α : Type} (x : Arr α) : List α := (allIdx x.shape).map x.get

end Flax.HostData
