/-
Model of flax's two host-side prefetchers.

* `flax/training/prefetch_iterator.py :: PrefetchIterator`  — producer thread + consumer, a
  `threading.Condition`, the attributes `_buffer`, `_active`, `_error`.  Modelled as a labelled
  transition system whose atomic steps are exactly the code's critical sections (`with self._cond:`
  blocks, split where `wait_for` releases the lock) and its unlocked actions (`next(self._data_iter)`,
  the three segments of the constructor around `Thread.start()`).
* `flax/jax_utils.py :: prefetch_to_device` — sequential generator (deque + `itertools.islice`).

Core Lean only (no Mathlib): this file is in the import closure of the compiled driver.
-/

namespace Flax.Prefetch

/-- How the source iterator ends after its items: `StopIteration`, or an exception `e`. -/
inductive Ending (ε : Type) where
  | stop
  | raises (e : ε)
  deriving Repr, DecidableEq, Inhabited

/-- What one call of `next(...)` by the consumer produces. -/
inductive Obs (α ε : Type) where
  | item (a : α)      -- returned a value
  | stop              -- raised `StopIteration`
  | exc (e : ε)       -- raised the source's exception `e`
  deriving Repr, DecidableEq, Inhabited

/-- the consumer-visible outcome of re-raising a stored source ending -/
def Ending.obs {α ε : Type} : Ending ε → Obs α ε
  | .stop => .stop
  | .raises e => .exc e

/-! ## PrefetchIterator -/

/-- Where the two placements of `self._error = None` relative to `self._thread.start()` differ. -/
inductive Variant where
  | orig    -- pinned commit: `start()` first, `_error = None` afterwards
  | fixed   -- after the `fix:` commit: `_error = None` first
  deriving Repr, DecidableEq, Inhabited

/-- Program counter of the producer thread (`_prefetch_loop`). -/
inductive PPc (α ε : Type) where
  | fetch                          -- about to execute `item = next(self._data_iter)` (no lock held)
  | haveItem (a : α)               -- holds `item`, about to enter `with self._cond:` (append branch)
  | waiting                        -- inside `self._cond.wait_for(_predicate)`, lock released
  | haveErr (e : Ending ε)         -- caught `Exception as e`, about to enter the handler's `with self._cond:`
  | done                           -- returned
  deriving Repr, DecidableEq, Inhabited

/-- Scheduler labels: which thread performs its next atomic segment. -/
inductive Label where
  | ctor     -- next segment of `__init__` (three segments: before / inside / after `Thread.start()`)
  | fetch    -- producer: `next(self._data_iter)`
  | put      -- producer: `with cond: append; notify_all; wait_for(..)` up to the point it blocks or leaves
  | wake     -- producer: `wait_for` returns (predicate true under the lock), `if not self._active: return`
  | fail     -- producer: `with cond: _error = e; _active = False; notify_all; return`
  | next     -- consumer: one complete `__next__` call (its `wait_for` predicate must hold: otherwise it blocks)
  | close    -- consumer: `close()`
  deriving Repr, DecidableEq, Inhabited

structure St (α ε : Type) where
  ctor   : Nat                    -- constructor segments executed (0..3); the thread runs once `ctor ≥ 2`
  src    : List α                 -- items the source has not yet produced
  ppc    : PPc α ε
  buffer : List α                 -- `self._buffer`
  active : Bool                   -- `self._active`
  error  : Option (Ending ε)      -- `self._error` (`none` = `None`, or not yet assigned)
  out    : List (Obs α ε)         -- history: what the consumer's `next` calls have produced, oldest first
  deriving Repr, DecidableEq

def init {α ε : Type} (items : List α) : St α ε :=
  { ctor := 0, src := items, ppc := .fetch, buffer := [], active := true, error := none, out := [] }

/-- `_predicate` of the producer: `len(self._buffer) < self.buffer_size or not self._active` -/
def prodPred {α ε : Type} (bs : Nat) (s : St α ε) : Bool :=
  decide (s.buffer.length < bs) || !s.active

/-- after `wait_for` returned in the producer: `if not self._active: return`, else loop -/
def afterWait {α ε : Type} (s : St α ε) : PPc α ε :=
  if s.active then .fetch else .done

/-- One atomic step; `none` when the label is not enabled in `s` (thread blocked, finished, or not
yet allowed to run).  `v` places the constructor's `_error = None`, `bs` is `buffer_size`, `ending`
is how the source behaves once its items are used up. -/
def step {α ε : Type} (v : Variant) (bs : Nat) (ending : Ending ε) (l : Label) (s : St α ε) :
    Option (St α ε) :=
  match l with
  | .ctor =>
    match s.ctor with
    | 0 => some { s with ctor := 1, error := if v = .fixed then none else s.error }
    | 1 => some { s with ctor := 2 }                                   -- `Thread.start()`
    | 2 => some { s with ctor := 3, error := if v = .orig then none else s.error }
    | _ => none
  | .fetch =>
    if 2 ≤ s.ctor then
      match s.ppc, s.src with
      | .fetch, x :: r => some { s with ppc := .haveItem x, src := r }
      | .fetch, [] => some { s with ppc := .haveErr ending }
      | _, _ => none
    else none
  | .put =>
    match s.ppc with
    | .haveItem x =>
      let s1 := { s with buffer := s.buffer ++ [x] }
      if prodPred bs s1 then some { s1 with ppc := afterWait s1 } else some { s1 with ppc := .waiting }
    | _ => none
  | .wake =>
    match s.ppc with
    | .waiting => if prodPred bs s then some { s with ppc := afterWait s } else none
    | _ => none
  | .fail =>
    match s.ppc with
    | .haveErr e => some { s with error := some e, active := false, ppc := .done }
    | _ => none
  | .next =>
    if s.ctor = 3 then
      match s.buffer with
      | x :: r => some { s with buffer := r, out := s.out ++ [.item x] }
      | [] =>
        if s.active then none                    -- `wait_for(buffer or not active)` blocks
        else match s.error with
          | some e => some { s with out := s.out ++ [e.obs] }     -- `raise self._error`
          | none => some { s with out := s.out ++ [.stop] }       -- `raise StopIteration()`
    else none
  | .close =>
    if s.ctor = 3 then some { s with active := false } else none

/-- The tail of `__next__` once the buffer is empty and `_active` is false, after the second `fix:`
commit: `if self._error is not None: raise self._error`, else `raise StopIteration()`.
(`step … .next` above performs exactly this.) -/
def nextTail {α ε : Type} : Option (Ending ε) → Obs α ε
  | some e => e.obs
  | none => .stop

/-- The same tail **as shipped at the pinned commit**: `if self._error:` tests the *truth value* of
the stored exception (`truthy e`; a `StopIteration()` instance is truthy). -/
def nextTailOrig {α ε : Type} (truthy : ε → Bool) : Option (Ending ε) → Obs α ε
  | some (.raises e) => if truthy e then .exc e else .stop
  | some .stop => .stop
  | none => .stop

/-! ### why the lock placement matters: a variant with one unlocked write

The exception handler of `_prefetch_loop` writes `_error` and `_active` inside one critical
section; that is what makes `fail` a single atomic step above.  `stepUnlockedActive` is the variant
in which `self._active = False` is executed *before* `with self._cond:` (without the lock): the
handler becomes two steps, and the consumer can run between them. -/

/-- state of the variant: the ordinary state plus the exception the producer still has to publish -/
structure StU (α ε : Type) where
  s : St α ε
  pending : Option (Ending ε)
  deriving Repr, DecidableEq

def stepUnlockedActive {α ε : Type} (bs : Nat) (ending : Ending ε) (l : Label) (u : StU α ε) :
    Option (StU α ε) :=
  match l with
  | .fail =>
    match u.pending, u.s.ppc with
    | none, .haveErr e => some { s := { u.s with active := false }, pending := some e }   -- unlocked `_active = False`
    | some e, _ => some { s := { u.s with error := some e, ppc := .done }, pending := none }   -- locked `_error = e; notify`
    | _, _ => none
  | l => (step .fixed bs ending l u.s).map (fun s' => { u with s := s' })

def runUnlockedActive {α ε : Type} (bs : Nat) (ending : Ending ε) :
    List Label → StU α ε → Option (StU α ε)
  | [], u => some u
  | l :: ls, u => (stepUnlockedActive bs ending l u).bind (runUnlockedActive bs ending ls)

/-- run a schedule; `none` if it asks for a step that is not enabled -/
def run {α ε : Type} (v : Variant) (bs : Nat) (ending : Ending ε) :
    List Label → St α ε → Option (St α ε)
  | [], s => some s
  | l :: ls, s => (step v bs ending l s).bind (run v bs ending ls)

/-- the labels enabled in a state -/
def enabled {α ε : Type} (v : Variant) (bs : Nat) (ending : Ending ε) (s : St α ε) : List Label :=
  [Label.ctor, .fetch, .put, .wake, .fail, .next, .close].filter (fun l => (step v bs ending l s).isSome)

/-- the items among the observations -/
def itemsOf {α ε : Type} : List (Obs α ε) → List α
  | [] => []
  | .item a :: os => a :: itemsOf os
  | _ :: os => itemsOf os

/-! ## prefetch_to_device (sequential generator) -/

/-- the generator object returned by `prefetch_to_device(iterator, size)` -/
structure Gen (α : Type) where
  started : Bool            -- has the body run up to its first `yield`
  finished : Bool           -- returned or raised: every later `next` raises `StopIteration`
  queue : List α            -- the deque
  src : List α              -- items the source has not yet produced
  deriving Repr, DecidableEq

def genInit {α : Type} (items : List α) : Gen α :=
  { started := false, finished := false, queue := [], src := items }

/-- `enqueue(n)`: `for data in itertools.islice(iterator, n): queue.append(..)`.
Returns the new (queue, source) and whether the source raised its exception while being pulled.
An exhausted source that ends with `StopIteration` simply ends the `islice`. -/
def enqueue {α ε : Type} (ending : Ending ε) : Nat → List α → List α → (List α × List α × Option ε)
  | 0, q, src => (q, src, none)
  | n + 1, q, x :: r => enqueue ending n (q ++ [x]) r
  | _ + 1, q, [] =>
    match ending with
    | .stop => (q, [], none)
    | .raises e => (q, [], some e)

/-- one `next(gen)` call -/
def genNext {α ε : Type} (size : Nat) (ending : Ending ε) (g : Gen α) : Gen α × Obs α ε :=
  if g.finished then (g, .stop)
  else
    -- first call: `enqueue(size)`; later calls resume after the `yield`: `enqueue(1)`
    let (q, src, err) := enqueue ending (if g.started then 1 else size) g.queue g.src
    match err with
    | some e => ({ started := true, finished := true, queue := q, src := src }, .exc e)
    | none =>
      match q with
      | x :: r => ({ started := true, finished := false, queue := r, src := src }, .item x)   -- `yield queue.popleft()`
      | [] => ({ started := true, finished := true, queue := [], src := src }, .stop)          -- `while queue:` fails

/-- the observations of `k` successive `next(gen)` calls -/
def genRun {α ε : Type} (size : Nat) (ending : Ending ε) : Nat → Gen α → List (Obs α ε)
  | 0, _ => []
  | k + 1, g => (genNext size ending g).2 :: genRun size ending k (genNext size ending g).1

end Flax.Prefetch
