/-
Model of the NNX transform protocol of flax/nnx (property C04), on top of the explicit heap of
Heap.lean and the graph model of Graph.lean (C03).

  graph.update_context / split_context / merge_context     → the four steps `step1`, `pureRun` (2,3), `step4`
  graph.flatten(ref_index=…, ref_outer_index=…)            → `flattenRoots` + `stampWith` (NodeDef/VariableDef.outer_index)
  graph.unflatten(index_ref=…, outer_index_outer_ref=…)    → `unflattenO`, `unflattenAttrsO`, `unflattenRootsO`
  NodeDef.with_same_outer_index / with_no_outer_index      → `stampWith (fun i => some i)` / `stampWith (fun _ => none)`
  extract.to_tree / from_tree (one ref_index per call)     → `flattenRoots` / `unflattenRootsO` over the argument tuple
  transforms/compilation.py  jit_wrapper + JitFn           → `protoCall (raw := true)`, `JitCache`, `jitCached`
  transforms/general.py  split_inputs / merge_inputs       → `protoCall (raw := false)` (remat), `switchCall` (cond / switch)
  transforms/iteration.py  fori_loop / while_loop          → `foriCall`, `whileCall`
  graph._cached_partial + StaticCache                      → `cachedPartialCall`

Conventions
* the caller's heap `h` and the heap of the traced function are different `Heap` values: the inner merge (2)
  builds its objects in an empty heap.  Only pure data (graphdefs and leaves) crosses the boundary, which is
  exactly what `jax.jit` / `lax.cond` / `lax.while_loop` see (assumptions A-JIT, A-COND, A-WHILE: they are
  the identity / branch selection / iteration on such pure values and reject mismatched output structures).
* `outer_index` of the definition with index `i` is `ref_outer_index.get(node)` for the node registered
  under `i`; the model computes the graphdef with C03's `flattenVal` and stamps it afterwards
  (`stampWith (fun i => (idx[i]?).bind rmap)`), which is the same table.
* `ctx.split` → nested `State` → `ctx.merge` re-sorts the leaves by path; on the output of `flatten` that is the
  identity (C03 `leaves_sorted_distinct` / `merge_any_order`), so leaves travel in emission order.  `raw`
  distinguishes `ctx.flatten(with_paths=False)` (jit: raw Variable values) from `ctx.split` (VariableState leaves).
* function bodies are programs of the mutation DSL `Op` (reads, Variable updates, attribute set / delete /
  re-bind, new nodes and Variables, aliasing) over registers; they are run eagerly on the caller's heap
  (`runFn`) or on the inner heap.  Programs have no data-dependent control flow (a traced function cannot).
* payloads are `int32` scalars: `wrap32` is XLA's two's-complement wrap-around.

Core Lean only (linked into the compiled driver).
-/
import Flax.Model.Heap
import Flax.Model.Graph

namespace Flax.Nnx
open Flax.Heap Flax.Graph

inductive Err where
  | graph (e : Graph.Err)     -- an error of flatten / unflatten (see Graph.lean)
  | attrError                 -- AttributeError: getattr / delattr of a missing attribute
  | typeError                 -- an operation applied to the wrong kind of value
  | badReg                    -- model only: register out of range
  | arity                     -- model only: graphdef / leaf lists of different lengths
  | expectedVariable          -- ValueError('Expected a Variable type for …')
  | typeMismatch              -- ValueError('Expected a node of type … but got a node of type …')
  | structureMismatch         -- cond / switch branch outputs or a loop carry differ in structure
  | cacheMutated              -- cached_partial: final graphdef differs from the cached one
  | fuel                      -- model only: while_loop did not terminate within the budget
  deriving DecidableEq, Repr, Inhabited

def liftG {α : Type} : Except Graph.Err α → Except Err α
  | .ok a => .ok a
  | .error e => .error (.graph e)

/-! ### graphdefs with `outer_index` -/

/-- `GraphDef` with the `outer_index` fields of `NodeDef` and `VariableDef` -/
inductive ODef where
  | ref (ty : String) (idx : Nat)
  | var (ty : VType) (idx : Nat) (outer : Option Nat) (md : Meta)
  | node (kind : NKind) (idx : Option Nat) (outer : Option Nat) (attrs : List (Key × ODef))
  | static (s : Static)
  | array
  deriving Repr, Inhabited

mutual
  def ODef.beq : ODef → ODef → Bool
    | .ref t i, .ref u j => decide (t = u) && decide (i = j)
    | .var t i o m, .var u j p n => decide (t = u) && decide (i = j) && decide (o = p) && decide (m = n)
    | .node k i o as, .node l j p bs => decide (k = l) && decide (i = j) && decide (o = p) && ODef.beqAttrs as bs
    | .static s, .static t => decide (s = t)
    | .array, .array => true
    | _, _ => false
  def ODef.beqAttrs : List (Key × ODef) → List (Key × ODef) → Bool
    | [], [] => true
    | (k, x) :: xs, (l, y) :: ys => decide (k = l) && ODef.beq x y && ODef.beqAttrs xs ys
    | _, _ => false
end

mutual
  theorem ODef.beq_iff : ∀ (a b : ODef), ODef.beq a b = true ↔ a = b
    | .ref t i, b => by cases b <;> simp [ODef.beq]
    | .var t i o m, b => by cases b <;> simp [ODef.beq, and_assoc]
    | .static s, b => by cases b <;> simp [ODef.beq]
    | .array, b => by cases b <;> simp [ODef.beq]
    | .node k i o as, b => by
      cases b <;> simp [ODef.beq, and_assoc]
      next l j p bs => rw [ODef.beqAttrs_iff as bs]; simp
  theorem ODef.beqAttrs_iff : ∀ (xs ys : List (Key × ODef)), ODef.beqAttrs xs ys = true ↔ xs = ys
    | [], [] => by simp [ODef.beqAttrs]
    | [], _ :: _ => by simp [ODef.beqAttrs]
    | _ :: _, [] => by simp [ODef.beqAttrs]
    | (k, x) :: xs, (l, y) :: ys => by simp [ODef.beqAttrs, ODef.beq_iff x y, ODef.beqAttrs_iff xs ys, and_assoc]
end

instance : DecidableEq ODef := fun a b => decidable_of_iff _ (ODef.beq_iff a b)

mutual
  /-- write the `outer_index` table `tbl` (index ↦ outer index) into a graphdef.  `fun _ => none` is
  `with_no_outer_index` (and what `flatten` emits without a `ref_outer_index`), `fun i => some i` is
  `with_same_outer_index`. -/
  def stampWith (tbl : Nat → Option Nat) : GDef → ODef
    | .ref ty i => .ref ty i
    | .var ty i md => .var ty i (tbl i) md
    | .node kind idx attrs => .node kind idx (idx.bind tbl) (stampAttrs tbl attrs)
    | .static s => .static s
    | .array => .array
  def stampAttrs (tbl : Nat → Option Nat) : List (Key × GDef) → List (Key × ODef)
    | [] => []
    | (k, g) :: rest => (k, stampWith tbl g) :: stampAttrs tbl rest
end

mutual
  /-- forget the `outer_index` fields -/
  def ODef.erase : ODef → GDef
    | .ref ty i => .ref ty i
    | .var ty i _ md => .var ty i md
    | .node kind idx _ attrs => .node kind idx (ODef.eraseAttrs attrs)
    | .static s => .static s
    | .array => .array
  def ODef.eraseAttrs : List (Key × ODef) → List (Key × GDef)
    | [] => []
    | (k, g) :: rest => (k, ODef.erase g) :: ODef.eraseAttrs rest
end

/-- `inner_ref_outer_index`: the inverse of the inner merge's `index_ref` (object ↦ its index) -/
def irInv (ir : IndexRef) (b : Addr) : Option Nat :=
  (List.range ir.length).find? (fun i => decide (irLookup i ir = some b))

/-- what `ctx.flatten(with_paths=False)` puts in the leaf list for a Variable: its raw value -/
def rawLeaf : Leaf → Leaf
  | .vstate _ v _ => .arr v
  | l => l

def convLeaves (raw : Bool) (fs : FlatState) : List Leaf :=
  fs.map (fun it => if raw then rawLeaf it.2 else it.2)

/-! ### unflatten with `outer_index_outer_ref` (step 4 re-uses the caller's objects) -/

mutual
  /-- `_graph_unflatten(nodedef, leaves, index_ref, outer_index_outer_ref = omap)` -/
  def unflattenO (omap : Nat → Option Addr) :
      ODef → List Leaf → Heap → IndexRef → Except Err (PVal × List Leaf × Heap × IndexRef)
    | .ref _ i, ls, H, ir =>
      match irLookup i ir with
      | some a => .ok (.ref a, ls, H, ir)
      | Option.none => .error (.graph .keyError)
    | .var ty i outer md, ls, H, ir =>
      match ls with
      | [] => .error (.graph .notEnoughLeaves)
      | l :: ls' =>
        match outer.bind omap with
        | some a =>
          -- the Variable exists outside: update it in place
          match H[a]? with
          | some (.var ty0 _ md0) =>
            let o' : Obj := match l with
              | .vstate _ v m => .var ty0 v m        -- update_from_state
              | .arr d => .var ty0 d md0             -- raw_value = value
            .ok (.ref a, ls', write H a o', (i, a) :: ir)
          | _ => .error .expectedVariable
        | Option.none => .ok (.ref H.length, ls', H ++ [makeVar ty md l], (i, H.length) :: ir)
    | .static s, ls, H, ir => .ok (.static s, ls, H, ir)
    | .array, ls, H, ir =>
      match ls with
      | [] => .error (.graph .notEnoughLeaves)
      | .arr d :: ls' => .ok (.array d, ls', H, ir)
      | .vstate _ _ _ :: _ => .error (.graph .leafKind)
    | .node (.obj cls) idx outer attrs, ls, H, ir =>
      match idx with
      | Option.none => .error (.graph .unsupported)
      | some i =>
        if (irLookup i ir).isSome then .error (.graph .indexUsed)
        else
          match outer.bind omap with
          | some a =>
            -- the node exists outside: `clear`, register, build the children, `init`.  Re-use is decided by PRESENCE of
            -- the outer index in `outer_index_outer_ref` (`nodedef.outer_index in outer_index_outer_ref`), never by the
            -- object's value: a caller object that is falsy (empty `__len__` container, `__bool__` False, `nnx.Rngs()`)
            -- is re-used like any other -- the heap model has no truthiness notion on purpose.
            match H[a]? with
            | some (.node cls0 _) =>
              if cls0 = cls then
                match unflattenAttrsO omap attrs ls (write H a (Obj.node cls [])) ((i, a) :: ir) with
                | .error e => .error e
                | .ok (children, ls', H', ir') => .ok (.ref a, ls', write H' a (Obj.node cls children), ir')
              else .error .typeMismatch
            | _ => .error .typeMismatch
          | Option.none =>
            match unflattenAttrsO omap attrs ls (H ++ [Obj.node cls []]) ((i, H.length) :: ir) with
            | .error e => .error e
            | .ok (children, ls', H', ir') => .ok (.ref H.length, ls', write H' H.length (Obj.node cls children), ir')
    | .node (.seq t) _ _ attrs, ls, H, ir =>
      match unflattenAttrsO omap attrs ls H ir with
      | .error e => .error e
      | .ok (children, ls', H', ir') => .ok (.seq t (children.map (·.2)), ls', H', ir')
    | .node .dict _ _ attrs, ls, H, ir =>
      match unflattenAttrsO omap attrs ls H ir with
      | .error e => .error e
      | .ok (children, ls', H', ir') => .ok (.dict children, ls', H', ir')
    | .node .none _ _ attrs, ls, H, ir =>
      match unflattenAttrsO omap attrs ls H ir with
      | .error e => .error e
      | .ok (_, ls', H', ir') => .ok (.none, ls', H', ir')
  def unflattenAttrsO (omap : Nat → Option Addr) :
      List (Key × ODef) → List Leaf → Heap → IndexRef → Except Err (List (Key × PVal) × List Leaf × Heap × IndexRef)
    | [], ls, H, ir => .ok ([], ls, H, ir)
    | (k, g) :: rest, ls, H, ir =>
      match unflattenO omap g ls H ir with
      | .error e => .error e
      | .ok (v, ls1, H1, ir1) =>
        match unflattenAttrsO omap rest ls1 H1 ir1 with
        | .error e => .error e
        | .ok (vs, ls2, H2, ir2) => .ok ((k, v) :: vs, ls2, H2, ir2)
end

/-! ### `extract.to_tree` / `from_tree`: a tuple of roots, ONE `ref_index` / `index_ref` -/

/-- `to_tree(args)`: every root is flattened with the same `ref_index` (that is what makes an object
reachable from two arguments one object inside) -/
def flattenRoots (h : Heap) : List PVal → RefIndex → Except Err (List GDef × List FlatState × RefIndex)
  | [], idx => .ok ([], [], idx)
  | v :: vs, idx =>
    match flattenVal (fuelFor h v) h [] v idx with
    | .error e => .error (.graph e)
    | .ok (gd, ls, idx1) =>
      match flattenRoots h vs idx1 with
      | .error e => .error e
      | .ok (gds, lss, idx2) => .ok (gd :: gds, ls :: lss, idx2)

/-- `from_tree(pure)`: every `NodeStates` is merged with the same `index_ref`; each must consume its leaves -/
def unflattenRootsO (omap : Nat → Option Addr) :
    List ODef → List (List Leaf) → Heap → IndexRef → Except Err (List PVal × Heap × IndexRef)
  | [], [], H, ir => .ok ([], H, ir)
  | gd :: gds, ls :: lss, H, ir =>
    match unflattenO omap gd ls H ir with
    | .error e => .error e
    | .ok (v, [], H1, ir1) =>
      match unflattenRootsO omap gds lss H1 ir1 with
      | .error e => .error e
      | .ok (vs, H2, ir2) => .ok (v :: vs, H2, ir2)
    | .ok (_, _ :: _, _, _) => .error (.graph .extraLeaves)
  | _, _, _, _ => .error .arity

/-! ### the mutation DSL -/

/-- XLA `int32` arithmetic -/
def wrap32 (x : Int) : Int := (x + 2147483648) % 4294967296 - 2147483648

/-- pure data expressions over registers that hold arrays -/
inductive DExpr where
  | const (c : Int)
  | reg (r : Nat)
  | add (a b : DExpr)
  | mul (a b : DExpr)
  | lt (a b : DExpr)          -- `(a < b).astype(int32)`
  deriving Repr, Inhabited

def DExpr.eval (env : List PVal) : DExpr → Except Err Int
  | .const c => .ok (wrap32 c)
  | .reg r =>
    match env[r]? with
    | some (.array d) => .ok d
    | some _ => .error .typeError
    | Option.none => .error .badReg
  | .add a b =>
    match a.eval env, b.eval env with
    | .ok x, .ok y => .ok (wrap32 (x + y))
    | .error e, _ => .error e
    | _, .error e => .error e
  | .mul a b =>
    match a.eval env, b.eval env with
    | .ok x, .ok y => .ok (wrap32 (x * y))
    | .error e, _ => .error e
    | _, .error e => .error e
  | .lt a b =>
    match a.eval env, b.eval env with
    | .ok x, .ok y => .ok (if x < y then 1 else 0)
    | .error e, _ => .error e
    | _, .error e => .error e

/-- one statement of a function body; results are appended to the register file -/
inductive Op where
  | getAttr (r : Nat) (k : Key)              -- push `getattr(regs[r], k)`
  | readVar (r : Nat)                        -- push `regs[r].value`
  | setVar (r : Nat) (e : DExpr)             -- `regs[r].value = e`
  | setAttr (r : Nat) (k : Key) (src : Nat)  -- `setattr(regs[r], k, regs[src])`: add / re-bind / alias
  | delAttr (r : Nat) (k : Key)              -- `delattr(regs[r], k)`
  | newNode (cls : String)                   -- push `Cls()`
  | newVar (ty : VType) (e : DExpr) (md : Meta)  -- push `VarType(e, **md)`
  | litStatic (s : Static)                   -- push a hashable Python constant
  | litNone                                  -- push `None`
  | data (e : DExpr)                         -- push the array `e`
  deriving Repr, Inhabited

/-- `setattr` on `vars(obj)`: an existing key keeps its slot, a new key is appended -/
def putKV (k : Key) (v : PVal) (l : List (Key × PVal)) : List (Key × PVal) :=
  if (lookupKV k l).isSome then setKV k v l else l ++ [(k, v)]

def runOp (h : Heap) (env : List PVal) : Op → Except Err (Heap × List PVal)
  | .getAttr r k =>
    match env[r]? with
    | Option.none => .error .badReg
    | some (.ref a) =>
      match h[a]? with
      | some (.node _ attrs) =>
        match lookupKV k attrs with
        | some v => .ok (h, env ++ [v])
        | Option.none => .error .attrError
      | _ => .error .typeError
    | some _ => .error .typeError
  | .readVar r =>
    match env[r]? with
    | Option.none => .error .badReg
    | some (.ref a) =>
      match h[a]? with
      | some (.var _ v _) => .ok (h, env ++ [.array v])
      | _ => .error .typeError
    | some _ => .error .typeError
  | .setVar r e =>
    match env[r]? with
    | Option.none => .error .badReg
    | some (.ref a) =>
      match h[a]? with
      | some (.var ty _ md) =>
        match e.eval env with
        | .ok d => .ok (write h a (.var ty d md), env)
        | .error er => .error er
      | _ => .error .typeError
    | some _ => .error .typeError
  | .setAttr r k src =>
    match env[r]?, env[src]? with
    | some (.ref a), some v =>
      match h[a]? with
      | some (.node cls attrs) => .ok (write h a (.node cls (putKV k v attrs)), env)
      | _ => .error .typeError
    | some _, some _ => .error .typeError
    | _, _ => .error .badReg
  | .delAttr r k =>
    match env[r]? with
    | Option.none => .error .badReg
    | some (.ref a) =>
      match h[a]? with
      | some (.node cls attrs) =>
        if (lookupKV k attrs).isSome then .ok (write h a (.node cls (eraseKV k attrs)), env)
        else .error .attrError
      | _ => .error .typeError
    | some _ => .error .typeError
  | .newNode cls => .ok (h ++ [Obj.node cls []], env ++ [.ref h.length])
  | .newVar ty e md =>
    match e.eval env with
    | .ok d => .ok (h ++ [Obj.var ty d md], env ++ [.ref h.length])
    | .error er => .error er
  | .litStatic s => .ok (h, env ++ [.static s])
  | .litNone => .ok (h, env ++ [.none])
  | .data e =>
    match e.eval env with
    | .ok d => .ok (h, env ++ [.array d])
    | .error er => .error er

def runOps : List Op → Heap → List PVal → Except Err (Heap × List PVal)
  | [], h, env => .ok (h, env)
  | op :: rest, h, env =>
    match runOp h env op with
    | .error e => .error e
    | .ok (h1, env1) => runOps rest h1 env1

/-- a function: its body and the registers it returns (a tuple) -/
structure Fn where
  body : List Op
  ret : List Nat
  deriving Repr, Inhabited

def getRegs (env : List PVal) : List Nat → Except Err (List PVal)
  | [] => .ok []
  | r :: rs =>
    match env[r]?, getRegs env rs with
    | some v, .ok vs => .ok (v :: vs)
    | Option.none, _ => .error .badReg
    | _, .error e => .error e

/-- call `f(*args)` as plain Python: the arguments are the first registers -/
def runFn (f : Fn) (h : Heap) (args : List PVal) : Except Err (List PVal × Heap) :=
  match runOps f.body h args with
  | .error e => .error e
  | .ok (h1, env1) =>
    match getRegs env1 f.ret with
    | .error e => .error e
    | .ok rets => .ok (rets, h1)

/-! ### the four-step protocol -/

/-- `extract.clear_non_graph_nodes` on one (flat) argument: arrays are not returned -/
def clearArg : PVal → PVal
  | .ref a => .ref a
  | _ => .none

/-- steps (2) inner merge, the body, (3) inner split: a function of pure values only.
`pre` are extra leading arguments that are not graph nodes (the loop counter of `fori_loop`);
`keepArgs` says whether the (cleared) arguments are returned in front of the result (jit, remat, cond, switch)
or only the result (loop bodies). -/
def pureRun (raw : Bool) (keepArgs : Bool) (f : Fn) (pre : List PVal) (gds : List GDef) (lss : List (List Leaf)) :
    Except Err (List ODef × List (List Leaf)) :=
  match unflattenRootsO (fun _ => Option.none) (gds.map (stampWith (fun _ => Option.none))) lss [] [] with
  | .error e => .error e
  | .ok (args', G, ir) =>
    match runFn f G (pre ++ args') with
    | .error e => .error e
    | .ok (rets, G') =>
      let roots := (if keepArgs then args'.map clearArg else []) ++ rets
      match flattenRoots G' roots [] with
      | .error e => .error e
      | .ok (gds3, fss3, idx3) =>
        .ok (gds3.map (stampWith (fun i => (idx3[i]?).bind (irInv ir))), fss3.map (convLeaves raw))

/-- step (1): the outer split -/
def step1 (raw : Bool) (h : Heap) (args : List PVal) : Except Err (List GDef × List (List Leaf) × RefIndex) :=
  match flattenRoots h args [] with
  | .error e => .error e
  | .ok (gds, fss, idx1) => .ok (gds, fss.map (convLeaves raw), idx1)

/-- step (4): the outer merge re-uses `outer_index_outer_ref[outer_index]` (the object registered under that
index by step (1)) and creates everything else -/
def step4 (h : Heap) (idx1 : RefIndex) (gdsO : List ODef) (lssO : List (List Leaf)) : Except Err (List PVal × Heap) :=
  match unflattenRootsO (fun i => idx1[i]?) gdsO lssO h [] with
  | .error e => .error e
  | .ok (roots, h4, _) => .ok (roots, h4)

/-- the whole call; returns ALL output roots (cleared arguments, then the results) and the caller's heap -/
def protoCall (raw : Bool) (f : Fn) (h : Heap) (args : List PVal) : Except Err (List PVal × Heap) :=
  match step1 raw h args with
  | .error e => .error e
  | .ok (gds, lss, idx1) =>
    match pureRun raw true f [] gds lss with
    | .error e => .error e
    | .ok (gdsO, lssO) => step4 h idx1 gdsO lssO

/-- `nnx.jit(f)(*args)` (first call, or a cache miss): the results and the caller's heap -/
def jitCall (f : Fn) (h : Heap) (args : List PVal) : Except Err (List PVal × Heap) :=
  match protoCall true f h args with
  | .error e => .error e
  | .ok (roots, h4) => .ok (roots.drop args.length, h4)

/-- `nnx.remat(f)(*args)`: `split_inputs(jax.checkpoint(merge_inputs(f)))`, A-REMAT: checkpoint is the identity -/
def rematCall (f : Fn) (h : Heap) (args : List PVal) : Except Err (List PVal × Heap) :=
  match protoCall false f h args with
  | .error e => .error e
  | .ok (roots, h4) => .ok (roots.drop args.length, h4)

/-! ### cond / switch -/

/-- trace every branch on the same pure input -/
def traceBranches (gds : List GDef) (lss : List (List Leaf)) :
    List Fn → Except Err (List (List ODef × List (List Leaf)))
  | [] => .ok []
  | f :: fs =>
    match pureRun false true f [] gds lss with
    | .error e => .error e
    | .ok o =>
      match traceBranches gds lss fs with
      | .error e => .error e
      | .ok os => .ok (o :: os)

/-- `nnx.switch(index, branches, *operands)`: all branches are traced (in order), their output structures
must coincide (A-COND), the clamped index selects the leaves -/
def switchCall (fs : List Fn) (index : Int) (h : Heap) (args : List PVal) : Except Err (List PVal × Heap) :=
  match step1 false h args with
  | .error e => .error e
  | .ok (gds, lss, idx1) =>
    match traceBranches gds lss fs with
    | .error e => .error e
    | .ok outs =>
      match outs with
      | [] => .error .badReg
      | (gdsO, _) :: _ =>
        if outs.all (fun o => decide (o.1 = gdsO)) then
          let k : Nat := if index < 0 then 0 else min index.toNat (outs.length - 1)
          match outs[k]? with
          | Option.none => .error .badReg
          | some (_, lssO) =>
            match step4 h idx1 gdsO lssO with
            | .error e => .error e
            | .ok (roots, h4) => .ok (roots.drop args.length, h4)
        else .error .structureMismatch

/-- `nnx.cond(pred, true_fun, false_fun, *operands)`; `lax.cond` traces `true_fun` first -/
def condCall (t f : Fn) (pred : Bool) (h : Heap) (args : List PVal) : Except Err (List PVal × Heap) :=
  switchCall [t, f] (if pred then 0 else 1) h args

/-! ### fori_loop / while_loop -/

/-- one application of the (traced) body to the carried pure value.  `sameGds` is the input structure with the
fake index mapping (`with_same_outer_index`); the body's output structure must be equal to it. -/
def bodyPure (f : Fn) (pre : List PVal) (gds : List GDef) (lss : List (List Leaf)) : Except Err (List (List Leaf)) :=
  match pureRun false false f pre gds lss with
  | .error e => .error e
  | .ok (gdsO, lssO) =>
    if gdsO = gds.map (stampWith (fun i => some i)) then .ok lssO else .error .structureMismatch

def foriIter (f : Fn) (gds : List GDef) : Nat → Int → List (List Leaf) → Except Err (List (List Leaf))
  | 0, _, lss => .ok lss
  | n + 1, i, lss =>
    match bodyPure f [.array (wrap32 i)] gds lss with
    | .error e => .error e
    | .ok lss1 => foriIter f gds n (i + 1) lss1

/-- `nnx.fori_loop(lower, lower + n, body, init_val)`: the body is traced once (also for `n = 0`), then iterated -/
def foriCall (f : Fn) (lower : Int) (n : Nat) (h : Heap) (vals : List PVal) : Except Err (List PVal × Heap) :=
  match step1 false h vals with
  | .error e => .error e
  | .ok (gds, lss, idx1) =>
    match bodyPure f [.array (wrap32 lower)] gds lss with
    | .error e => .error e
    | .ok _ =>
      match foriIter f gds n lower lss with
      | .error e => .error e
      | .ok lssN => step4 h idx1 (gds.map (stampWith (fun i => some i))) lssN

/-- `WhileLoopCondFn`: `from_tree` without a context (fresh objects), the predicate only reads -/
def condPure (c : Fn) (gds : List GDef) (lss : List (List Leaf)) : Except Err Bool :=
  match unflattenRootsO (fun _ => Option.none) (gds.map (stampWith (fun _ => Option.none))) lss [] [] with
  | .error e => .error e
  | .ok (args', G, _) =>
    match runFn c G args' with
    | .error e => .error e
    | .ok ([.array d], _) => .ok (decide (d ≠ 0))
    | .ok _ => .error .typeError

def whileIter (c f : Fn) (gds : List GDef) : Nat → List (List Leaf) → Except Err (List (List Leaf))
  | 0, _ => .error .fuel
  | fuel + 1, lss =>
    match condPure c gds lss with
    | .error e => .error e
    | .ok false => .ok lss
    | .ok true =>
      match bodyPure f [] gds lss with
      | .error e => .error e
      | .ok lss1 => whileIter c f gds fuel lss1

/-- `nnx.while_loop(cond_fun, body_fun, init_val)` (both functions are traced once, then iterated) -/
def whileCall (c f : Fn) (fuel : Nat) (h : Heap) (vals : List PVal) : Except Err (List PVal × Heap) :=
  match step1 false h vals with
  | .error e => .error e
  | .ok (gds, lss, idx1) =>
    match condPure c gds lss, bodyPure f [] gds lss with
    | .error e, _ => .error e
    | _, .error e => .error e
    | .ok _, .ok _ =>
      match whileIter c f gds fuel lss with
      | .error e => .error e
      | .ok lssN => step4 h idx1 (gds.map (stampWith (fun i => some i))) lssN

/-! ### the eager references for loops -/

/-- the unrolled Python loop `for i in range(lower, lower+n): val = body(i, val)` -/
def foriEager (f : Fn) : Nat → Int → Heap → List PVal → Except Err (List PVal × Heap)
  | 0, _, h, vals => .ok (vals, h)
  | n + 1, i, h, vals =>
    match runFn f h (PVal.array (wrap32 i) :: vals) with
    | .error e => .error e
    | .ok (vals1, h1) => foriEager f n (i + 1) h1 vals1

/-- `while cond(val): val = body(val)` -/
def whileEager (c f : Fn) : Nat → Heap → List PVal → Except Err (List PVal × Heap)
  | 0, _, _ => .error .fuel
  | fuel + 1, h, vals =>
    match runFn c h vals with
    | .error e => .error e
    | .ok ([.array d], h0) =>
      if d ≠ 0 then
        match runFn f h0 vals with
        | .error e => .error e
        | .ok (vals1, h1) => whileEager c f fuel h1 vals1
      else .ok (vals, h0)
    | .ok _ => .error .typeError

/-! ### the trace cache of `nnx.jit` -/

/-- what `jax.jit` keeps for one cache entry: the output structure found while tracing.  (The computation
itself is the body replayed on the new leaves: programs have no data-dependent control flow.) -/
structure Traced where
  key : List ODef                -- static part of the arguments: the input graphdefs (no outer_index)
  outDefs : List ODef            -- output graphdefs (with the outer_index stamps of the traced call)
  deriving Repr, Inhabited

structure JitCache where
  entries : List Traced
  traces : Nat                   -- how many times the Python body has run (a side-effect counter)
  deriving Repr, Inhabited

/-- one call of the SAME `nnx.jit`-wrapped function.  Miss: trace (`protoCall`), remember the output
structure.  Hit: the cached output structure is used with the leaves computed for this call. -/
def jitCached (f : Fn) (c : JitCache) (h : Heap) (args : List PVal) : Except Err (List PVal × Heap) × JitCache :=
  match step1 true h args with
  | .error e => (.error e, c)
  | .ok (gds, lss, idx1) =>
    match c.entries.find? (fun t => decide (t.key = gds.map (stampWith (fun _ => Option.none)))) with
    | some t =>
      match pureRun true true f [] gds lss with
      | .error e => (.error e, c)
      | .ok (_, lssO) =>
        match step4 h idx1 t.outDefs lssO with
        | .error e => (.error e, c)
        | .ok (roots, h4) => (.ok (roots.drop args.length, h4), c)
    | Option.none =>
      let c1 : JitCache := { c with traces := c.traces + 1 }
      match pureRun true true f [] gds lss with
      | .error e => (.error e, c1)          -- a failed trace is not cached
      | .ok (gdsO, lssO) =>
        let c2 : JitCache := { entries := c1.entries ++ [{ key := gds.map (stampWith (fun _ => Option.none)), outDefs := gdsO }], traces := c1.traces }
        match step4 h idx1 gdsO lssO with
        | .error e => (.error e, c2)
        | .ok (roots, h4) => (.ok (roots.drop args.length, h4), c2)

/-! ### cached_partial -/

/-- `nnx.cached_partial(jit(f), *cached_args)`: the graph nodes of the cached arguments are cloned once (the
clones hold the SAME Variable objects); every call runs `jit(f)` on the clones and demands that the final
graphdef of each cached node equals `final_graphdef = graphdef.with_same_outer_index()`.  The first `ncached`
arguments are the cached ones, the remaining ones are passed at every call.  The model keeps the observable part: the call is `jitCall` on the caller's heap where the only writes that reach the caller are
Variable updates; a structural change is `cacheMutated`. -/
def cachedPartialCall (f : Fn) (ncached : Nat) (h : Heap) (args : List PVal) : Except Err (List PVal × Heap) :=
  match step1 true h args with
  | .error e => .error e
  | .ok (gds, lss, idx1) =>
    match pureRun true true f [] gds lss with
    | .error e => .error e
    | .ok (gdsO, lssO) =>
      if gdsO.take ncached = (gds.take ncached).map (stampWith (fun i => some i)) then
        match step4 h idx1 gdsO lssO with
        | .error e => .error e
        | .ok (roots, h4) => .ok (roots.drop args.length, h4)
      else .error .cacheMutated

end Flax.Nnx
