/-
Model of the optimizer wrappers of flax:

  * `flax/training/train_state.py`   `TrainState.create / apply_gradients` (incl. the
                                      OVERWRITE_WITH_GRADIENT branch)
  * `flax/nnx/helpers.py`            `nnx.TrainState.create / apply_gradients`
  * `flax/nnx/training/optimizer.py` `_wrap_optimizer_state`, `_opt_state_variables_to_state`,
                                      `_update_opt_state`, `Optimizer.__init__ / update`

optax is an abstract pair `(init, update)` (`Tx`, assumption A-OPTAX: a pure function
`(grads, state, params) ↦ (updates, state')` that may also raise); `optax.apply_updates` is the
leaf-wise `p + u` over equal tree structures. The wrappers are tree plumbing around those two calls
and are transcribed statement by statement.

The functional train states are values (a call returns a new record). `nnx.Optimizer.update`
mutates the caller's objects: the model is a function from the object state before the call to the
object state after it *together with* the exception raised, if any, so that "what was already
mutated when it raised" is part of the model.

Core Lean only (no Mathlib): this file is linked into the driver.
-/
import Flax.Model.Filter

namespace Flax.Optim
open Flax.Filter (VarInfo Path)

inductive Err where
  | keyError            -- `grads['params']` / `self.params['params']` missing
  | typeError           -- wrong kind of object (`in` on an array, OptVariable fed a raw array, …)
  | structureMismatch   -- jax.tree.map over trees of different structure (ValueError)
  | unknownField        -- `.replace(**kwargs)` with a name that is not a replaceable field (TypeError)
  | outsideModel        -- a call the model does not cover
  | tx (code : Nat)     -- an exception raised inside the optax transformation
  deriving Repr, DecidableEq, Inhabited

/-- an optax `GradientTransformation` over pytrees `P` with state `S` -/
structure Tx (P S : Type) where
  init : P → S
  update : P → S → P → Except Err (P × S)   -- (grads, state, params) ↦ (updates, state')

/-! ### step counters -/

/-- width of a step counter: `none` = a Python `int` (unbounded; Linen `TrainState.step` starts as the
Python `0`), `some w` = a `w`-bit integer array (`jnp.asarray(step)` is int32, `Optimizer.step` is
uint32, a caller may pass int8/uint8/int16). A fixed-width counter is represented by its bit pattern,
a natural number `< 2^w` (the signed reading is a decoding of the same bits). -/
abbrev Width := Option Nat

/-- `step + 1` in the counter's own arithmetic: JAX integer addition wraps modulo `2^w` -/
def incStep : Width → Nat → Nat
  | none, s => s + 1
  | some w, s => (s + 1) % 2 ^ w

/-! ### the hand-written loop: `tx.update` followed by `optax.apply_updates` -/

structure Manual (P S : Type) where
  params : P
  optState : S
  step : Nat
  deriving Repr, DecidableEq

def manualInit (tx : Tx P S) (params : P) : Manual P S :=
  { params := params, optState := tx.init params, step := 0 }

def manualStep (w : Width) (tx : Tx P S) (applyUpd : P → P → Except Err P) (m : Manual P S) (grads : P) :
    Except Err (Manual P S) :=
  match tx.update grads m.optState m.params with
  | .error e => .error e
  | .ok (updates, s') =>
    match applyUpd m.params updates with
    | .error e => .error e
    | .ok p' => .ok { params := p', optState := s', step := incStep w m.step }

def manualLoop (w : Width) (tx : Tx P S) (applyUpd : P → P → Except Err P) : Manual P S → List P → Except Err (Manual P S)
  | m, [] => .ok m
  | m, g :: gs =>
    match manualStep w tx applyUpd m g with
    | .error e => .error e
    | .ok m' => manualLoop w tx applyUpd m' gs

/-! ### Python nested-dict pytrees (Linen params) -/

inductive PT (α : Type) where
  | leaf (a : α)
  | dict (kvs : List (String × PT α))
  deriving Repr, Inhabited

/-- `k in tree` (a `dict`); on an array `str in Array` raises TypeError -/
def PT.hasKey (k : String) : PT α → Except Err Bool
  | .dict kvs => .ok (kvs.any (fun e => decide (e.1 = k)))
  | .leaf _ => .error .typeError

/-- `tree[k]` -/
def PT.get (k : String) : PT α → Except Err (PT α)
  | .dict kvs =>
    match kvs.find? (fun e => decide (e.1 = k)) with
    | some e => .ok e.2
    | none => .error .keyError
  | .leaf _ => .error .typeError

mutual
  /-- `optax.apply_updates(params, updates)` = `jax.tree.map(lambda p, u: p + u, params, updates)` -/
  def PT.applyUpdates [Add α] : PT α → PT α → Except Err (PT α)
    | .leaf p, .leaf u => .ok (.leaf (p + u))
    | .dict ps, .dict us =>
      match PT.applyUpdatesL ps us with
      | .ok r => .ok (.dict r)
      | .error e => .error e
    | _, _ => .error .structureMismatch
  def PT.applyUpdatesL [Add α] : List (String × PT α) → List (String × PT α) → Except Err (List (String × PT α))
    | [], [] => .ok []
    | (k, p) :: ps, (k', u) :: us =>
      if k = k' then
        match PT.applyUpdates p u with
        | .error e => .error e
        | .ok r =>
          match PT.applyUpdatesL ps us with
          | .error e => .error e
          | .ok rs => .ok ((k, r) :: rs)
      else .error .structureMismatch
    | _, _ => .error .structureMismatch
end

/-! ### `flax.training.train_state.TrainState` -/

/-- `step`, `params`, `opt_state` and the remaining dataclass fields (`apply_fn` and whatever a
subclass adds) as an association list of opaque values; `tx` is a parameter of the functions. -/
structure TrainState (α σ X : Type) where
  step : Nat
  params : PT α
  optState : σ
  fields : List (String × X)

/-- `self.replace(step=…, params=…, opt_state=…, **kwargs)` restricted to the kwargs part:
every kwarg must name an existing non-core field (an unknown name, or `step`/`params`/`opt_state`
given twice, is a TypeError) -/
def replaceFields (fields kwargs : List (String × X)) : Except Err (List (String × X)) :=
  if kwargs.all (fun kv => fields.any (fun f => decide (f.1 = kv.1))) then
    .ok (fields.map (fun f =>
      match kwargs.find? (fun kv => decide (kv.1 = f.1)) with
      | some kv => (f.1, kv.2)
      | none => f))
  else .error .unknownField

/-- `TrainState.create(apply_fn=…, params=…, tx=…, **kwargs)`; `owg` is the value of
`flax.linen.fp8_ops.OVERWRITE_WITH_GRADIENT` -/
def TrainState.create (owg : String) (tx : Tx (PT α) σ) (params : PT α) (fields : List (String × X)) :
    Except Err (TrainState α σ X) :=
  match params.hasKey owg with
  | .error e => .error e
  | .ok true =>
    match params.get "params" with
    | .error e => .error e
    | .ok pOpt => .ok { step := 0, params := params, optState := tx.init pOpt, fields := fields }
  | .ok false => .ok { step := 0, params := params, optState := tx.init params, fields := fields }

/-- `TrainState.apply_gradients(grads=…, **kwargs)` -/
def TrainState.applyGradients [Add α] (w : Width) (owg : String) (tx : Tx (PT α) σ) (s : TrainState α σ X)
    (grads : PT α) (kwargs : List (String × X)) : Except Err (TrainState α σ X) :=
  match grads.hasKey owg with
  | .error e => .error e
  | .ok true =>
    match grads.get "params", s.params.get "params" with
    | .error e, _ => .error e
    | _, .error e => .error e
    | .ok gOpt, .ok pOpt =>
      match tx.update gOpt s.optState pOpt with
      | .error e => .error e
      | .ok (updates, newOpt) =>
        match pOpt.applyUpdates updates with
        | .error e => .error e
        | .ok newPOpt =>
          match grads.get owg with
          | .error e => .error e
          | .ok gOwg =>
            match replaceFields s.fields kwargs with
            | .error e => .error e
            | .ok fs => .ok { step := incStep w s.step,
                              params := .dict [("params", newPOpt), (owg, gOwg)],
                              optState := newOpt, fields := fs }
  | .ok false =>
    match tx.update grads s.optState s.params with
    | .error e => .error e
    | .ok (updates, newOpt) =>
      match s.params.applyUpdates updates with
      | .error e => .error e
      | .ok newParams =>
        match replaceFields s.fields kwargs with
        | .error e => .error e
        | .ok fs => .ok { step := incStep w s.step, params := newParams, optState := newOpt, fields := fs }

/-- a history of `apply_gradients` calls (no kwargs), stopping at the first exception -/
def TrainState.run [Add α] (w : Width) (owg : String) (tx : Tx (PT α) σ) : TrainState α σ X → List (PT α) → Except Err (TrainState α σ X)
  | s, [] => .ok s
  | s, g :: gs =>
    match s.applyGradients w owg tx g [] with
    | .error e => .error e
    | .ok s' => TrainState.run w owg tx s' gs

/-! ### NNX: `State`s of `VariableState`s -/

/-- a `VariableState` leaf: the Variable's type chain and metadata (`VarInfo`, what filters and the
pytree structure see) and its value -/
structure VState (α : Type) where
  info : VarInfo
  value : α
  deriving Repr, DecidableEq, Inhabited

/-- an `nnx.State`, flattened: key path ↦ `VariableState`, in `jax.tree` order -/
abbrev NState (α : Type) := List (Path × VState α)

/-- `optax.apply_updates` on States: same paths, same VariableState type/metadata (they are part of
the pytree structure), values added; the result carries the metadata of `params` -/
def applyUpdatesN [Add α] : NState α → NState α → Except Err (NState α)
  | [], [] => .ok []
  | (p, v) :: ps, (q, u) :: us =>
    if p = q ∧ v.info = u.info then
      match applyUpdatesN ps us with
      | .error e => .error e
      | .ok r => .ok ((p, { info := v.info, value := v.value + u.value }) :: r)
    else .error .structureMismatch
  | _, _ => .error .structureMismatch

/-! ### `flax.nnx.helpers.TrainState` -/

structure NTrainState (P S X : Type) where
  params : P
  optState : S
  step : Nat
  /-- `graphdef` and the fields of a subclass -/
  fields : List (String × X)

/-- `nnx.TrainState.create(graphdef, params=…, tx=…, step=…, **kwargs)` -/
def NTrainState.create (tx : Tx P S) (params : P) (step : Nat) (fields : List (String × X)) : NTrainState P S X :=
  { params := params, optState := tx.init params, step := step, fields := fields }

/-- `nnx.TrainState.apply_gradients(grads, **kwargs)` -/
def NTrainState.applyGradients (w : Width) (tx : Tx P S) (applyUpd : P → P → Except Err P) (s : NTrainState P S X)
    (grads : P) (kwargs : List (String × X)) : Except Err (NTrainState P S X) :=
  match tx.update grads s.optState s.params with
  | .error e => .error e
  | .ok (updates, optState) =>
    match applyUpd s.params updates with
    | .error e => .error e
    | .ok params =>
      match replaceFields s.fields kwargs with
      | .error e => .error e
      | .ok fs => .ok { params := params, optState := optState, step := incStep w s.step, fields := fs }

def NTrainState.run (w : Width) (tx : Tx P S) (applyUpd : P → P → Except Err P) : NTrainState P S X → List P → Except Err (NTrainState P S X)
  | s, [] => .ok s
  | s, g :: gs =>
    match s.applyGradients w tx applyUpd g [] with
    | .error e => .error e
    | .ok s' => NTrainState.run w tx applyUpd s' gs

/-! ### `flax.nnx.Optimizer` -/

/-- one `Variable` object of the wrapped module (identified by its position in the list; `path` is
the path `nnx.state` reports for it) -/
structure Var (α : Type) where
  path : Path
  info : VarInfo
  value : α
  deriving Repr, DecidableEq, Inhabited

/-- the distinct Variables of the module graph, in `nnx.state` order -/
abbrev Model (α : Type) := List (Var α)

/-- `nnx.state(model, wrt)`; `sel` is the predicate of the `wrt` filter -/
def stateOf (sel : Path → VarInfo → Bool) (m : Model α) : NState α :=
  (m.filter (fun v => sel v.path v.info)).map (fun v => (v.path, { info := v.info, value := v.value }))

def lookupN (st : NState α) (p : Path) : Option (VState α) :=
  (st.find? (fun e => decide (e.1 = p))).map (·.2)

/-- `nnx.update(model, state)`: every Variable whose path is in `state` takes the value and the
metadata of the `VariableState` (`Variable.update_from_state`; the Variable's class is not changed).
A path that is not in the model would add a new attribute: not modelled. -/
def updateModel (m : Model α) (st : NState α) : Except Err (Model α) :=
  if st.all (fun e => m.any (fun v => decide (v.path = e.1))) then
    .ok (m.map (fun v =>
      match lookupN st v.path with
      | some vs => { v with value := vs.value, info := { v.info with tag := vs.info.tag } }
      | none => v))
  else .error .outsideModel

/-- a leaf of the optax state as optax sees it -/
inductive OptLeaf (α : Type) where
  | vstate (info : VarInfo) (value : α)   -- a `VariableState` (from `tree_map` over the params State)
  | arr (value : α)                       -- a bare array (step counts, …)
  deriving Repr, DecidableEq, Inhabited

/-- the `Variable` the Optimizer stores for that leaf -/
inductive OptVar (α : Type) where
  | optVariable (source : VarInfo) (value : α)   -- `OptVariable` with `source_type` + copied metadata
  | optArray (value : α)                         -- `OptArray`
  deriving Repr, DecidableEq, Inhabited

/-- `_wrap_optimizer_state` on one leaf -/
def wrapLeaf : OptLeaf α → OptVar α
  | .vstate i v => .optVariable i v
  | .arr v => .optArray v

/-- `_opt_state_variables_to_state` on one leaf (the `else: raise TypeError` branch needs an object
that is neither OptVariable nor OptArray, which `_wrap_optimizer_state` never produces) -/
def unwrapLeaf : OptVar α → OptLeaf α
  | .optVariable i v => .vstate i v
  | .optArray v => .arr v

def OptLeaf.shape : OptLeaf α → Option VarInfo
  | .vstate i _ => some i
  | .arr _ => none

def OptVar.shape : OptVar α → Option VarInfo
  | .optVariable i _ => some i
  | .optArray _ => none

/-- `optimizer_update_variables(x, update)`: only `raw_value` is written -/
def updateOptLeaf : OptVar α → OptLeaf α → Except Err (OptVar α)
  | .optVariable s _, .vstate _ v => .ok (.optVariable s v)
  | .optVariable _ _, .arr _ => .error .typeError
  | .optArray _, .arr v => .ok (.optArray v)
  | .optArray _, .vstate _ _ => .error .typeError

/-- the leaf loop of `_update_opt_state`: left to right, in place; an exception leaves the earlier
leaves written -/
def updateOptLeaves : List (OptVar α) → List (OptLeaf α) → List (OptVar α) × Option Err
  | x :: xs, u :: us =>
    match updateOptLeaf x u with
    | .error e => (x :: xs, some e)
    | .ok x' =>
      let r := updateOptLeaves xs us
      (x' :: r.1, r.2)
  | xs, _ => (xs, none)

/-- `_update_opt_state`: `jax.tree.map` checks the tree structures before touching any leaf -/
def updateOptState (cur : List (OptVar α)) (new : List (OptLeaf α)) : List (OptVar α) × Option Err :=
  if cur.length = new.length then updateOptLeaves cur new else (cur, some .structureMismatch)

structure Optimizer (α : Type) where
  step : Nat
  model : Model α
  optState : List (OptVar α)
  deriving Repr, DecidableEq

abbrev NTx (α : Type) := Tx (NState α) (List (OptLeaf α))

/-- `Optimizer.__init__(model, tx, wrt)` -/
def Optimizer.create (tx : NTx α) (sel : Path → VarInfo → Bool) (m : Model α) : Optimizer α :=
  { step := 0, model := m, optState := (tx.init (stateOf sel m)).map wrapLeaf }

/-- `Optimizer.update(grads)`: the object state after the call and the exception raised, if any -/
def Optimizer.update [Add α] (w : Width) (tx : NTx α) (sel : Path → VarInfo → Bool) (o : Optimizer α) (grads : NState α) :
    Optimizer α × Option Err :=
  let params := stateOf sel o.model
  let optState := o.optState.map unwrapLeaf
  match tx.update grads optState params with
  | .error e => (o, some e)
  | .ok (updates, newOptState) =>
    match applyUpdatesN params updates with
    | .error e => (o, some e)
    | .ok newParams =>
      let o1 := { o with step := incStep w o.step }
      match updateModel o1.model newParams with
      | .error e => (o1, some e)
      | .ok m =>
        let o2 := { o1 with model := m }
        let r := updateOptState o2.optState newOptState
        ({ o2 with optState := r.1 }, r.2)

/-- a history of `update` calls; stops at the first exception -/
def Optimizer.run [Add α] (w : Width) (tx : NTx α) (sel : Path → VarInfo → Bool) : Optimizer α → List (NState α) → Optimizer α × Option Err
  | o, [] => (o, none)
  | o, g :: gs =>
    match o.update w tx sel g with
    | (o', some e) => (o', some e)
    | (o', none) => Optimizer.run w tx sel o' gs

/-- what the hand-written loop would hold for this Optimizer: the selected params, the optax state
as optax sees it, the step -/
def Optimizer.abs (sel : Path → VarInfo → Bool) (o : Optimizer α) : Manual (NState α) (List (OptLeaf α)) :=
  { params := stateOf sel o.model, optState := o.optState.map unwrapLeaf, step := o.step }

/-! ### concrete transformations used by the driver and by the non-vacuity examples -/

/-- a transformation given by finite tables of its calls: `init(params) = state` and
`update(grads, state, params) = (updates, state')` (what the real optax returned in a hand-written
loop); an `update` call that is not in the table raises `tx 0` (the table may also record a raise), an `init` call that is not returns `dflt` -/
def tableTx [BEq P] [BEq S] (dflt : S) (initTbl : List (P × S)) (tbl : List ((P × S × P) × Except Err (P × S))) : Tx P S where
  init := fun p =>
    match initTbl.find? (fun e => e.1 == p) with
    | some e => e.2
    | none => dflt
  update := fun g s p =>
    match tbl.find? (fun e => e.1.1 == g && e.1.2.1 == s && e.1.2.2 == p) with
    | some e => e.2
    | none => .error (.tx 0)

mutual
  def PT.beq [BEq α] : PT α → PT α → Bool
    | .leaf a, .leaf b => a == b
    | .dict xs, .dict ys => PT.beqL xs ys
    | _, _ => false
  def PT.beqL [BEq α] : List (String × PT α) → List (String × PT α) → Bool
    | [], [] => true
    | (k, x) :: xs, (k', y) :: ys => k == k' && PT.beq x y && PT.beqL xs ys
    | _, _ => false
end

instance [BEq α] : BEq (PT α) := ⟨PT.beq⟩

end Flax.Optim
