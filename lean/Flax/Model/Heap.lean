/-
Python object identity for the NNX models: an explicit heap.

* `Addr = Nat`, `Heap = List Obj`; allocation appends, so an address is *fresh* for a heap exactly
  when it is `≥ heap.length`, and "shares nothing with" becomes an arithmetic fact about addresses.
* Only the objects that flax treats by identity live in the heap: graph nodes (`nnx.Object`
  subclasses, `Obj.node`) and `nnx.Variable`s (`Obj.var`).  `list` / `tuple` / `dict` / `None` are
  *values* (`PVal.seq`, `PVal.dict`, `PVal.none`) stored inside the attribute that holds them, exactly
  as `flax/nnx/graph.py` treats them: `_graph_flatten` looks only non-pytree nodes up in `ref_index`.
* Attribute maps (`vars(obj)`, `dict`) are association lists in insertion order; Python guarantees
  distinct keys, which is the predicate `keysNodup` (needed only where a theorem says so).

Used by C03 (Graph.lean) and later by C04 / C08.  Core Lean only (linked into compiled drivers).
-/

namespace Flax.Heap

abbrev Addr := Nat

/-- attribute / item key: a Python `int` (sequence positions, int dict keys) or `str` -/
inductive Key where
  | int (i : Int)
  | str (s : String)
  deriving DecidableEq, Repr, Inhabited

/-- the strict order Python's `sorted` uses on sibling keys.  Sibling keys are homogeneous in every
graph flax can flatten (`sorted` raises on `int < str`); the model orders ints before strs so that
the order is total. -/
def Key.lt : Key → Key → Bool
  | .int a, .int b => decide (a < b)
  | .int _, .str _ => true
  | .str _, .int _ => false
  | .str a, .str b => decide (a < b)

/-- a path from the root: the tuple of keys used by `FlatState` / `State` -/
abbrev Path := List Key

/-- Python tuple comparison on paths: lexicographic, a proper prefix comes first -/
def Path.lt : Path → Path → Bool
  | [], [] => false
  | [], _ :: _ => true
  | _ :: _, [] => false
  | a :: as, b :: bs => Key.lt a b || (decide (a = b) && Path.lt as bs)

/-- an opaque immutable payload (array contents, a Python scalar …): the harness interns concrete
values to integers, equal values ↔ equal ids -/
abbrev Data := Int

/-- a hashable static attribute value, as a canonical string -/
abbrev Static := String

/-- `Variable._var_metadata`: name → canonical string of the value, in insertion order -/
abbrev Meta := List (String × String)

/-- a Variable class, given by the names along its `__mro__` (own name first) -/
abbrev VType := List String

/-- values an attribute (or container slot) can hold -/
inductive PVal where
  | static (s : Static)                    -- any other hashable Python value
  | array (d : Data)                       -- `jax.Array` / `np.ndarray`: a leaf, by value
  | ref (a : Addr)                         -- a graph node or a Variable: by identity
  | seq (isTuple : Bool) (xs : List PVal)  -- `list` (false) / `tuple` (true): by value
  | dict (kvs : List (Key × PVal))         -- `dict`: by value
  | none                                   -- `None` (an empty pytree node for flax)
  deriving Repr, Inhabited

/-! decidable equality of `PVal` (the deriving handler does not cover nested inductives) -/
mutual
  def PVal.beq : PVal → PVal → Bool
    | .static a, .static b => decide (a = b)
    | .array a, .array b => decide (a = b)
    | .ref a, .ref b => decide (a = b)
    | .seq t xs, .seq u ys => decide (t = u) && PVal.beqList xs ys
    | .dict xs, .dict ys => PVal.beqKVs xs ys
    | .none, .none => true
    | _, _ => false
  def PVal.beqList : List PVal → List PVal → Bool
    | [], [] => true
    | x :: xs, y :: ys => PVal.beq x y && PVal.beqList xs ys
    | _, _ => false
  def PVal.beqKVs : List (Key × PVal) → List (Key × PVal) → Bool
    | [], [] => true
    | (k, x) :: xs, (l, y) :: ys => decide (k = l) && PVal.beq x y && PVal.beqKVs xs ys
    | _, _ => false
end

mutual
  theorem PVal.beq_iff : ∀ (a b : PVal), PVal.beq a b = true ↔ a = b
    | .static a, b => by cases b <;> simp [PVal.beq]
    | .array a, b => by cases b <;> simp [PVal.beq]
    | .ref a, b => by cases b <;> simp [PVal.beq]
    | .none, b => by cases b <;> simp [PVal.beq]
    | .seq t xs, b => by
      cases b <;> simp [PVal.beq]
      next u ys => rw [PVal.beqList_iff xs ys]; simp
    | .dict xs, b => by
      cases b <;> simp [PVal.beq]
      next ys => rw [PVal.beqKVs_iff xs ys]
  theorem PVal.beqList_iff : ∀ (xs ys : List PVal), PVal.beqList xs ys = true ↔ xs = ys
    | [], [] => by simp [PVal.beqList]
    | [], _ :: _ => by simp [PVal.beqList]
    | _ :: _, [] => by simp [PVal.beqList]
    | x :: xs, y :: ys => by simp [PVal.beqList, PVal.beq_iff x y, PVal.beqList_iff xs ys]
  theorem PVal.beqKVs_iff : ∀ (xs ys : List (Key × PVal)), PVal.beqKVs xs ys = true ↔ xs = ys
    | [], [] => by simp [PVal.beqKVs]
    | [], _ :: _ => by simp [PVal.beqKVs]
    | _ :: _, [] => by simp [PVal.beqKVs]
    | (k, x) :: xs, (l, y) :: ys => by simp [PVal.beqKVs, PVal.beq_iff x y, PVal.beqKVs_iff xs ys, and_assoc]
end

instance : DecidableEq PVal := fun a b => decidable_of_iff _ (PVal.beq_iff a b)

/-- heap objects: the things with identity -/
inductive Obj where
  | node (cls : String) (attrs : List (Key × PVal))   -- `nnx.Object` instance: class name, `vars(obj)`
  | var (ty : VType) (value : Data) (md : Meta)     -- `nnx.Variable`: class, `raw_value`, `_var_metadata`
  deriving Repr, Inhabited, DecidableEq

abbrev Heap := List Obj

/-! ### allocation and writes -/

/-- allocate a new object; returns the new heap and the (fresh) address -/
def alloc (h : Heap) (o : Obj) : Heap × Addr := (h ++ [o], h.length)

/-- overwrite the object at `a` (no-op when `a` is not allocated) -/
def write (h : Heap) (a : Addr) (o : Obj) : Heap := h.set a o

theorem alloc_fresh (h : Heap) (o : Obj) : (alloc h o).2 = h.length ∧ (alloc h o).1.length = h.length + 1 := by
  simp [alloc]

theorem alloc_get_new (h : Heap) (o : Obj) : (alloc h o).1[(alloc h o).2]? = some o := by
  simp [alloc]

theorem alloc_get_old (h : Heap) (o : Obj) (a : Addr) (ha : a < h.length) : (alloc h o).1[a]? = h[a]? := by
  simp [alloc, List.getElem?_append_left ha]

/-- a write at `a` leaves every other object unchanged -/
theorem write_frame (h : Heap) (a b : Addr) (o : Obj) (hne : b ≠ a) : (write h a o)[b]? = h[b]? := by
  simp only [write, List.getElem?_set]
  split
  · next heq => exact absurd heq.symm hne
  · rfl

theorem write_length (h : Heap) (a : Addr) (o : Obj) : (write h a o).length = h.length := by
  simp [write]

theorem write_get (h : Heap) (a : Addr) (o : Obj) (ha : a < h.length) : (write h a o)[a]? = some o := by
  simp [write, ha]

/-- `h₁` is an initial segment of `h₂`: every object of `h₁` is still there, unchanged -/
def Extends (h₁ h₂ : Heap) : Prop := ∃ t, h₂ = h₁ ++ t

theorem Extends.refl (h : Heap) : Extends h h := ⟨[], by simp⟩

theorem Extends.trans {a b c : Heap} (h1 : Extends a b) (h2 : Extends b c) : Extends a c := by
  obtain ⟨t1, rfl⟩ := h1
  obtain ⟨t2, rfl⟩ := h2
  exact ⟨t1 ++ t2, by simp⟩

theorem Extends.length_le {a b : Heap} (h : Extends a b) : a.length ≤ b.length := by
  obtain ⟨t, rfl⟩ := h; simp

theorem Extends.get {a b : Heap} (h : Extends a b) (i : Addr) (hi : i < a.length) : b[i]? = a[i]? := by
  obtain ⟨t, rfl⟩ := h
  exact List.getElem?_append_left hi

theorem Extends.alloc (h : Heap) (o : Obj) : Extends h (alloc h o).1 := ⟨[o], rfl⟩

/-- a write at an address outside `h₁` keeps `h₁` an initial segment -/
theorem Extends.write {h₁ h₂ : Heap} (e : Extends h₁ h₂) (a : Addr) (o : Obj) (ha : h₁.length ≤ a) :
    Extends h₁ (write h₂ a o) := by
  obtain ⟨t, rfl⟩ := e
  refine ⟨t.set (a - h₁.length) o, ?_⟩
  simp only [Heap.write]
  rw [List.set_append_right _ _ ha]

/-! ### sorting association lists by key (what `sorted(d.items())` does for distinct keys) -/

/-- insert before the first entry whose key is not smaller (stable) -/
def insertBy {κ α : Type} (lt : κ → κ → Bool) (k : κ) (v : α) : List (κ × α) → List (κ × α)
  | [] => [(k, v)]
  | (k', v') :: rest => if lt k' k then (k', v') :: insertBy lt k v rest else (k, v) :: (k', v') :: rest

/-- stable insertion sort by key -/
def sortBy {κ α : Type} (lt : κ → κ → Bool) : List (κ × α) → List (κ × α)
  | [] => []
  | (k, v) :: rest => insertBy lt k v (sortBy lt rest)

/-- `sorted(d.items())` -/
def sortKV {α : Type} (l : List (Key × α)) : List (Key × α) := sortBy Key.lt l

/-- `list(enumerate(xs))` -/
def enumFrom {α : Type} : Nat → List α → List (Key × α)
  | _, [] => []
  | n, x :: xs => (Key.int n, x) :: enumFrom (n + 1) xs

/-- the `(key, child)` sequence flax iterates for a pytree container (`None` has no children) -/
def PVal.children? : PVal → Option (List (Key × PVal))
  | .seq _ xs => some (enumFrom 0 xs)
  | .dict kvs => some (sortKV kvs)
  | .none => some []
  | _ => Option.none

/-- first value stored under `k` -/
def lookupKV {α : Type} (k : Key) : List (Key × α) → Option α
  | [] => Option.none
  | (k', v) :: rest => if k' = k then some v else lookupKV k rest

/-- remove every entry stored under `k` (`dict.pop(k)`; keys are distinct in a real dict) -/
def eraseKV {α : Type} (k : Key) (l : List (Key × α)) : List (Key × α) :=
  l.filter (fun kv => !decide (kv.1 = k))

/-- Python dicts and `vars(obj)` have distinct keys -/
def keysNodup {α : Type} (l : List (Key × α)) : Prop := (l.map (·.1)).Nodup

instance {α : Type} (l : List (Key × α)) : Decidable (keysNodup l) := by unfold keysNodup; infer_instance

/-! ### well-formedness: Python dicts (and `vars(obj)`) have pairwise distinct keys -/

mutual
  def PVal.wf : PVal → Bool
    | .seq _ xs => PVal.wfList xs
    | .dict kvs => decide (keysNodup kvs) && PVal.wfKVs kvs
    | _ => true
  def PVal.wfList : List PVal → Bool
    | [] => true
    | x :: xs => PVal.wf x && PVal.wfList xs
  def PVal.wfKVs : List (Key × PVal) → Bool
    | [] => true
    | (_, v) :: rest => PVal.wf v && PVal.wfKVs rest
end

def Obj.wf : Obj → Bool
  | .node _ attrs => decide (keysNodup attrs) && PVal.wfKVs attrs
  | .var _ _ _ => true

/-- every attribute map and dict in the heap has distinct keys -/
def Heap.wf (h : Heap) : Bool := h.all Obj.wf

/-! ### references occurring in a value (through containers, not through the heap); closed heaps -/

mutual
  def deepRefs : PVal → List Addr
    | .ref a => [a]
    | .seq _ xs => deepRefsL xs
    | .dict kvs => deepRefsKV kvs
    | _ => []
  def deepRefsL : List PVal → List Addr
    | [] => []
    | x :: xs => deepRefs x ++ deepRefsL xs
  def deepRefsKV : List (Key × PVal) → List Addr
    | [] => []
    | (_, v) :: r => deepRefs v ++ deepRefsKV r
end

/-- no dangling reference in the value -/
def ValClosed (h : Heap) (v : PVal) : Prop := ∀ b ∈ deepRefs v, b < h.length

/-- no dangling reference anywhere in the heap (always true of a real Python heap) -/
def HeapClosed (h : Heap) : Prop :=
  ∀ (a : Nat) cls attrs, h[a]? = some (.node cls attrs) → ∀ b ∈ deepRefsKV attrs, b < h.length

/-! ### following a path -/

/-- one step: the child of `v` under key `k` (graph nodes are looked up in the heap; a Variable has no
children) -/
def step (h : Heap) (v : PVal) (k : Key) : Option PVal :=
  match v with
  | .ref a =>
    match h[a]? with
    | some (.node _ attrs) => lookupKV k attrs
    | _ => Option.none
  | .seq _ xs => lookupKV k (enumFrom 0 xs)
  | .dict kvs => lookupKV k kvs
  | _ => Option.none

/-- the value reached from `v` along `p`, if every step exists -/
def resolve (h : Heap) : PVal → Path → Option PVal
  | v, [] => some v
  | v, k :: p =>
    match step h v k with
    | some v' => resolve h v' p
    | Option.none => Option.none

/-! ### rooted heap isomorphism

`φ` maps addresses of the first heap to addresses of the second.  Values correspond when they are equal
up to `φ` on references; attribute maps and dicts correspond as *maps* (compared after sorting by key,
insertion order is not part of the graph).  `Iso` is what "merge(split(g)) is isomorphic to g" means:
same node classes and static attributes, same Variable types / values / metadata, and — because `φ` is
injective — two paths reach one object on one side iff they do on the other (`Flax.C03.iso_alias_iff`). -/

mutual
  inductive ValRel (φ : Addr → Option Addr) : PVal → PVal → Prop where
    | static (s : Static) : ValRel φ (.static s) (.static s)
    | array (d : Data) : ValRel φ (.array d) (.array d)
    | none : ValRel φ .none .none
    | ref {a b : Addr} : φ a = some b → ValRel φ (.ref a) (.ref b)
    | seq {t : Bool} {xs ys : List PVal} : ValsRel φ xs ys → ValRel φ (.seq t xs) (.seq t ys)
    | dict {kvs kvs' : List (Key × PVal)} : KVsRel φ (sortKV kvs) (sortKV kvs') → ValRel φ (.dict kvs) (.dict kvs')
  inductive ValsRel (φ : Addr → Option Addr) : List PVal → List PVal → Prop where
    | nil : ValsRel φ [] []
    | cons {x y : PVal} {xs ys : List PVal} : ValRel φ x y → ValsRel φ xs ys → ValsRel φ (x :: xs) (y :: ys)
  inductive KVsRel (φ : Addr → Option Addr) : List (Key × PVal) → List (Key × PVal) → Prop where
    | nil : KVsRel φ [] []
    | cons {k : Key} {v w : PVal} {r r' : List (Key × PVal)} :
        ValRel φ v w → KVsRel φ r r' → KVsRel φ ((k, v) :: r) ((k, w) :: r')
end

inductive ObjRel (φ : Addr → Option Addr) : Obj → Obj → Prop where
  | node {cls : String} {attrs attrs' : List (Key × PVal)} :
      KVsRel φ (sortKV attrs) (sortKV attrs') → ObjRel φ (.node cls attrs) (.node cls attrs')
  | var (ty : VType) (v : Data) (md : Meta) : ObjRel φ (.var ty v md) (.var ty v md)

/-- `(h, r) ≅ (h', r')` via `φ` -/
structure Iso (h : Heap) (r : PVal) (h' : Heap) (r' : PVal) (φ : Addr → Option Addr) : Prop where
  root : ValRel φ r r'
  inj : ∀ a b c, φ a = some c → φ b = some c → a = b
  obj : ∀ a b, φ a = some b → ∃ o o', h[a]? = some o ∧ h'[b]? = some o' ∧ ObjRel φ o o'

end Flax.Heap
