/-
Model of flax's collection filters.

Linen  (flax/core/scope.py): in_filter, is_filter_empty, filter_to_set, union_filters,
        subtract_filters, intersect_filters, group_collections.
NNX    (flax/nnx/filterlib.py, flax/nnx/statelib.py::_split_state): to_predicate, WithTag, OfType,
        PathContains, PathIn, Any, All, Not, Everything, Nothing, filters_to_predicates, first-match split.

Core Lean only (no Mathlib): this file is in the import closure of the compiled driver.
-/

namespace Flax.Filter

/-- A Linen `Filter`: `True`, `False`, a `str`, a collection of `str`, or a `DenyList`. -/
inductive LFilter where
  | tt                            -- Python `True`
  | ff                            -- Python `False`
  | name  (s : String)            -- a `str`
  | names (xs : List String)      -- any `typing.Collection[str]` that is not a `str`
  | deny  (f : LFilter)           -- `DenyList(f)`
  deriving Repr, DecidableEq, Inhabited

open LFilter

/-- number of nested `DenyList` wrappers at the head of the filter -/
def depth : LFilter → Nat
  | deny f => depth f + 1
  | _ => 0

/-- `scope.in_filter(filter_like, col)` -/
def inFilter : LFilter → String → Bool
  | tt, _ => true
  | ff, _ => false
  | name s, c => decide (c = s)
  | names xs, c => decide (c ∈ xs)
  | deny f, c => !(inFilter f c)

/-- the probe name used by `is_filter_empty` -/
def stub : String := "__flax_internal_stub__"

/-- `scope.is_filter_empty` **as shipped at the pinned commit** (before the `fix:` commit). -/
def isFilterEmptyOrig : LFilter → Bool
  | name _ => false
  | names xs => xs.isEmpty
  | tt => false
  | ff => true
  | deny f => inFilter f stub

/-- `scope.is_filter_empty` after the repair of finding F1: a denied `DenyList` matches everything
only when its own deny filter is empty; every other deny filter is probed with the stub name. -/
def isFilterEmpty : LFilter → Bool
  | name _ => false
  | names xs => xs.isEmpty
  | tt => false
  | ff => true
  | deny (deny e) => isFilterEmpty e
  | deny f => inFilter f stub

/-- `scope.filter_to_set` on the finite forms (`True` and `DenyList` hit the assertion). -/
def toSet : LFilter → Option (List String)
  | ff => some []
  | name s => some [s]
  | names xs => some xs
  | tt => Option.none
  | deny _ => Option.none

/-- total version used inside the set branches (which are only reached on finite forms) -/
def toSetD (f : LFilter) : List String := (toSet f).getD []

def isDeny : LFilter → Bool
  | deny _ => true
  | _ => false

mutual
  /-- `scope.union_filters` -/
  def union (a b : LFilter) : LFilter :=
    match a, b with
    | tt, _ => tt
    | _, tt => tt
    | deny da, deny db => deny (intersect da db)
    | deny da, b => deny (subtract da b)
    | a, deny db => deny (subtract db a)          -- `a, b = b, a` then the DenyList branch
    | a, b => names (toSetD a ++ (toSetD b).filter (fun x => !decide (x ∈ toSetD a)))
  termination_by depth a + depth b
  decreasing_by all_goals (simp only [depth]; omega)

  /-- `scope.subtract_filters` -/
  def subtract (a b : LFilter) : LFilter :=
    match a, b with
    | _, tt => ff
    | tt, b => deny b
    | deny da, deny db => subtract db da
    | deny da, b => deny (union da b)
    | a, deny db => intersect a db
    | a, b => names ((toSetD a).filter (fun x => !decide (x ∈ toSetD b)))
  termination_by depth a + depth b
  decreasing_by all_goals (simp only [depth]; omega)

  /-- `scope.intersect_filters` -/
  def intersect (a b : LFilter) : LFilter :=
    match a, b with
    | tt, b => b
    | a, tt => a
    | deny da, deny db => deny (union db da)
    | deny da, b => subtract b da
    | a, deny db => subtract a db                 -- `b, a = a, b` then the DenyList branch
    | a, b => names ((toSetD a).filter (fun x => decide (x ∈ toSetD b)))
  termination_by depth a + depth b
  decreasing_by all_goals (simp only [depth]; omega)
end

/-- one round of `group_collections`: split the remaining keys by one filter -/
def groupStep (f : LFilter) (cols : List String) : List String × List String :=
  (cols.filter (fun c => inFilter f c), cols.filter (fun c => !(inFilter f c)))

/-- `scope.group_collections` on the key level: one key list per filter, in the order of `xs.keys()` -/
def groupCollections : List String → List LFilter → List (List String)
  | _, [] => []
  | cols, f :: fs => (groupStep f cols).1 :: groupCollections (groupStep f cols).2 fs

/-! ### NNX filters -/

/-- what an NNX predicate can observe of a value: the names of the classes it is an instance of
(for a `VariableState`, the classes of its `.type`) and its optional `tag` attribute -/
structure VarInfo where
  types : List String
  tag : Option String
  deriving Repr, DecidableEq, Inhabited

abbrev Path := List String

inductive NFilter where
  | withTag (t : String)
  | ofType (t : String)
  | pathContains (k : String)
  | pathIn (ps : List Path)
  | any (fs : List NFilter)
  | allOf (fs : List NFilter)
  | not (f : NFilter)
  | everything
  | nothing
  deriving Repr, Inhabited

mutual
  /-- the predicate `to_predicate(filter)(path, x)` -/
  def denote : NFilter → Path → VarInfo → Bool
    | .withTag t, _, x => decide (x.tag = some t)
    | .ofType t, _, x => decide (t ∈ x.types)
    | .pathContains k, p, _ => decide (k ∈ p)
    | .pathIn ps, p, _ => decide (p ∈ ps)
    | .any fs, p, x => denoteAny fs p x
    | .allOf fs, p, x => denoteAll fs p x
    | .not f, p, x => !(denote f p x)
    | .everything, _, _ => true
    | .nothing, _, _ => false
  def denoteAny : List NFilter → Path → VarInfo → Bool
    | [], _, _ => false
    | f :: fs, p, x => denote f p x || denoteAny fs p x
  def denoteAll : List NFilter → Path → VarInfo → Bool
    | [], _, _ => true
    | f :: fs, p, x => denote f p x && denoteAll fs p x
end

/-- index of the first predicate that holds, `preds.length` when none does (the extra last state
of `_split_state`) -/
def firstMatch (preds : List NFilter) (p : Path) (x : VarInfo) : Nat :=
  match preds with
  | [] => 0
  | f :: fs => if denote f p x then 0 else firstMatch fs p x + 1

/-- `_split_state`: `n + 1` buckets, each keeping the input order -/
def splitStates (preds : List NFilter) (items : List (Path × VarInfo)) : List (List (Path × VarInfo)) :=
  (List.range (preds.length + 1)).map
    (fun i => items.filter (fun it => firstMatch preds it.1 it.2 == i))

/-- the `...`/`True`-must-come-last rule of `filters_to_predicates`/`_split_state`; the argument says
for each filter whether it is literally `...` or `True` -/
def ellipsisOk : List Bool → Bool
  | [] => true
  | [_] => true
  | e :: rest => if e then rest.all id else ellipsisOk rest

/-! ### NNX filter literals (`to_predicate`) -/

/-- the forms `filterlib.to_predicate` accepts: a `str`, a class, a `bool`, `...`, `None`, a list / tuple of
filters, the combinators `Any` / `All` / `Not` (whose arguments are themselves converted by `to_predicate`),
or an already-built predicate object -/
inductive SFilter where
  | str (s : String)
  | type (t : String)
  | bool (b : Bool)
  | ellipsis
  | none_
  | seq (fs : List SFilter)
  | any (fs : List SFilter)
  | allOf (fs : List SFilter)
  | not (f : SFilter)
  | pred (f : NFilter)
  deriving Repr, Inhabited

mutual
  /-- `filterlib.to_predicate` -/
  def toPredicate : SFilter → NFilter
    | .str s => .withTag s
    | .type t => .ofType t
    | .bool true => .everything
    | .bool false => .nothing
    | .ellipsis => .everything
    | .none_ => .nothing
    | .seq fs => .any (toPredicates fs)
    | .any fs => .any (toPredicates fs)
    | .allOf fs => .allOf (toPredicates fs)
    | .not f => .not (toPredicate f)
    | .pred f => f
  def toPredicates : List SFilter → List NFilter
    | [] => []
    | f :: fs => toPredicate f :: toPredicates fs
end

/-- `filter_ in (..., True)` -/
def isCatchAll : SFilter → Bool
  | .ellipsis => true
  | .bool true => true
  | _ => false

/-- `filters_to_predicates`: the `...`-must-be-last check, then `to_predicate` on every filter -/
def filtersToPredicates (fs : List SFilter) : Option (List NFilter) :=
  if ellipsisOk (fs.map isCatchAll) then some (toPredicates fs) else Option.none

/-- `State.split` / `split_state` on literal filters: `none` is the ValueError of the `...` check; the result
has one bucket per filter plus the bucket of the unmatched (which `split` requires to be empty) -/
def splitLiteral (fs : List SFilter) (items : List (Path × VarInfo)) : Option (List (List (Path × VarInfo))) :=
  (filtersToPredicates fs).map (fun ps => splitStates ps items)

end Flax.Filter
