/-
Model of flax's sequence layers (property C13).

Linen  flax/linen/attention.py : dot_product_attention_weights / dot_product_attention (the `where(mask, logits,
         finfo.min)` + softmax + weighted sum, as a row function over *masked* logits), the `decode` branch of
         MultiHeadDotProductAttention.__call__ (cached_key / cached_value / cache_index state machine),
         make_attention_mask, make_causal_mask, combine_masks.
       flax/linen/recurrent.py : RNN.__call__ (flip_sequences when `reverse`, scan over the cell, carries stacked when
         `seq_lengths` and `return_carry`, `_select_last_carry`, un-flip when `keep_order`, `time_major`),
         flip_sequences, Bidirectional, and the cell recurrences (LSTM / OptimizedLSTM / GRU / Simple / MGU).
NNX    flax/nnx/nn/attention.py, flax/nnx/nn/recurrent.py : the same code shapes (MultiHeadAttention.__call__ /
         init_cache, RNN, flip_sequences, Bidirectional, LSTMCell, OptimizedLSTMCell, GRUCell, SimpleCell).

Everything is over abstract carriers (keys, values, scores, cell state, inputs, outputs are type parameters), so the
theorems hold for floats as well; the compiled driver instantiates them with `Int`.
Core Lean only (no Mathlib): this file is in the import closure of the compiled driver.
-/

namespace Flax.Seq

/-! ## 1. Mask helpers (`make_attention_mask`, `make_causal_mask`, `combine_masks`)

A mask for one (batch…, head) index is a `q_len × kv_len` matrix of numbers: flax masks are float arrays
(`dtype=float32` by default) and an entry counts as *allowed* when it is non-zero (`jnp.where(mask, …)`). -/

abbrev Mask := List (List Int)

/-- `mask[i][j]?` -/
def entry (m : Mask) (i j : Nat) : Option Int := (m[i]?).bind (·[j]?)

/-- truth value of a mask entry as `jnp.where` / `jnp.logical_and` read it -/
def truthy (x : Int) : Bool := decide (x ≠ 0)

/-- `make_attention_mask(query_input, key_input, pairwise_fn)`: `pairwise_fn(q[..., :, None], k[..., None, :])`
(the extra singleton head axis and `extra_batch_dims` only add axes of size 1). -/
def makeAttentionMask (f : Int → Int → Int) (qs ks : List Int) : Mask :=
  qs.map fun q => ks.map fun k => f q k

/-- `jnp.greater_equal(a, b).astype(dtype)` -/
def geI (a b : Int) : Int := if b ≤ a then 1 else 0

/-- `jnp.arange(n)` -/
def arange (n : Nat) : List Int := (List.range n).map Int.ofNat

/-- `make_causal_mask(x)` for `x.shape[-1] = n`: `make_attention_mask(idxs, idxs, jnp.greater_equal)` -/
def makeCausalMask (n : Nat) : Mask := makeAttentionMask geI (arange n) (arange n)

/-- `jnp.logical_and(x, y)` followed by the final `.astype(dtype)` -/
def landI (x y : Int) : Int := if x ≠ 0 ∧ y ≠ 0 then 1 else 0

def land (a b : Mask) : Mask := List.zipWith (List.zipWith landI) a b

/-- equal shapes (the model covers the same-shape case; broadcasting of singleton axes is checked on the
implementation side only) -/
def sameShape (a b : Mask) : Bool := decide (a.map List.length = b.map List.length)

/-- `combine_masks(*masks)`: `None`s are dropped; no mask left → `None`; otherwise the masks are reduced with
`logical_and` (a single mask is returned as it is, only cast). -/
def combineMasks (ms : List (Option Mask)) : Except String (Option Mask) :=
  match ms.filterMap id with
  | [] => .ok none
  | m :: rest =>
    if rest.all (sameShape m) then .ok (some (rest.foldl land m)) else .error "MaskShape"

/-! ## 2. Attention: one row of `dot_product_attention`, whole-sequence attention, the decode cache -/

/-- everything attention knows about one key/value position when it serves one query -/
structure Slot (K V B : Type) where
  key : K
  val : V
  bias : B
  allowed : Bool

section Attn
variable {Q K V B S O : Type}

/-- What `softmax` is given for one query: the scaled dot product plus bias where the mask allows it, and
`none` where `jnp.where(mask, attn_weights, finfo.min)` replaced the logit (the bias is added *before* the
mask is applied, so it is discarded too). The value travels with its position. -/
def rowOf (score : Q → K → S) (addBias : S → B → S) (q : Q) (slots : List (Slot K V B)) :
    List (Option S × V) :=
  slots.map fun s => (if s.allowed then some (addBias (score q s.key) s.bias) else none, s.val)

/-- the allowed (logit, value) pairs of a row, in position order -/
def visible (row : List (Option S × V)) : List (S × V) :=
  row.filterMap fun p => p.1.map fun s => (s, p.2)

/-- key/value positions `j, j+1, …` with their bias and mask entries for one query -/
def slotsFrom (bias : Nat → B) (mask : Nat → Bool) : Nat → List (K × V) → List (Slot K V B)
  | _, [] => []
  | j, kv :: rest => ⟨kv.1, kv.2, bias j, mask j⟩ :: slotsFrom bias mask (j + 1) rest

/-- the numeric part of attention, abstract: `score q k` is `q·k/√d`, `addBias` adds the attention bias,
`attend` is softmax followed by the weighted sum of the values (per head). -/
structure AttnCfg (Q K V B S O : Type) where
  score : Q → K → S
  addBias : S → B → S
  attend : List (Option S × V) → O

/-- output of attention for one query -/
def attnRow (cfg : AttnCfg Q K V B S O) (q : Q) (kvs : List (K × V)) (bias : Nat → B) (mask : Nat → Bool) : O :=
  cfg.attend (rowOf cfg.score cfg.addBias q (slotsFrom bias mask 0 kvs))

def attnWholeFrom (cfg : AttnCfg Q K V B S O) (kvs : List (K × V)) (bias : Nat → Nat → B)
    (mask : Nat → Nat → Bool) : Nat → List Q → List O
  | _, [] => []
  | i, q :: qs => attnRow cfg q kvs (bias i) (mask i) :: attnWholeFrom cfg kvs bias mask (i + 1) qs

/-- `dot_product_attention(query, key, value, bias, mask)` for one (batch…, head) index:
query `i` sees `bias[i, :]` and `mask[i, :]`. -/
def attnWhole (cfg : AttnCfg Q K V B S O) (qs : List Q) (kvs : List (K × V)) (bias : Nat → Nat → B)
    (mask : Nat → Nat → Bool) : List O :=
  attnWholeFrom cfg kvs bias mask 0 qs

/-- self-attention: queries, keys and values are all projections of the same input positions -/
def selfAttn {X : Type} (cfg : AttnCfg Q K V B S O) (fq : X → Q) (fk : X → K) (fv : X → V) (xs : List X)
    (bias : Nat → Nat → B) (mask : Nat → Nat → Bool) : List O :=
  attnWhole cfg (xs.map fq) (xs.map fun x => (fk x, fv x)) bias mask

/-- `combine_masks(user, make_causal_mask(x))` as a predicate -/
def causal (user : Nat → Nat → Bool) (i j : Nat) : Bool := decide (j ≤ i) && user i j

/-- the `cache` collection of a decoding attention layer: `cached_key`/`cached_value` (one list of pairs,
both arrays are always written at the same index) and `cache_index`. -/
structure Cache (K V : Type) where
  slots : List (K × V)
  index : Nat

/-- `jnp.zeros(key.shape)`, `jnp.zeros(value.shape)`, `cache_index = 0` for `max_length = L` -/
def Cache.init (zero : K × V) (L : Nat) : Cache K V := ⟨List.replicate L zero, 0⟩

/-- `lax.dynamic_update_slice(cached, new, (…, cache_index, 0, 0))` (the start index is clamped so that the
slice fits) and `cache_index += 1`. -/
def Cache.write (c : Cache K V) (kv : K × V) : Cache K V :=
  ⟨c.slots.set (min c.index (c.slots.length - 1)) kv, c.index + 1⟩

/-- one call of the layer with `decode=True` on a single position: write the new key/value at `cache_index`,
attend over the whole cache with mask `combine_masks(mask, arange(max_length) <= cur_index)`. -/
def decodeStep (cfg : AttnCfg Q K V B S O) (c : Cache K V) (q : Q) (kv : K × V) (bias : Nat → B)
    (user : Nat → Bool) : Cache K V × O :=
  let cur := c.index
  let c' := c.write kv
  (c', attnRow cfg q c'.slots bias (fun j => decide (j ≤ cur) && user j))

/-- feeding a sequence one position at a time; the call made when the cache index is `t` receives
`bias t` / `user t` as its `attention_bias` / `mask` rows. -/
def decodeRun (cfg : AttnCfg Q K V B S O) (bias : Nat → Nat → B) (user : Nat → Nat → Bool) :
    Cache K V → List (Q × (K × V)) → List O
  | _, [] => []
  | c, (q, kv) :: rest =>
    let r := decodeStep cfg c q kv (bias c.index) (user c.index)
    r.2 :: decodeRun cfg bias user r.1 rest

/-- the numeric primitives of `dot_product_attention`: `finfo(dtype).min`, the softmax over the key axis, the
weighted sum `einsum('...hqk,...khd->...qhd')` for one query and head -/
structure SoftmaxOps (S W V O : Type) where
  bigNeg : S
  softmax : List S → List W
  wsum : List (W × V) → O

/-- `dot_product_attention_weights` for one query and head: `query / sqrt(depth)` (the *query* is scaled), dot
product with every key, `+ bias`, `jnp.where(mask, ·, finfo.min)`, softmax over the key axis, dropout last. -/
def weightsRow {W : Type} (scaleQ : Q → Q) (dotp : Q → K → S) (addBias : S → B → S) (ops : SoftmaxOps S W V O)
    (dropout : List W → List W) (q : Q) (slots : List (Slot K V B)) : List W :=
  dropout (ops.softmax (slots.map fun s =>
    if s.allowed then addBias (dotp (scaleQ q) s.key) s.bias else ops.bigNeg))

/-- softmax followed by the weighted sum of the values, on a row of masked logits (deterministic: no dropout) -/
def attendOf {W : Type} (ops : SoftmaxOps S W V O) (row : List (Option S × V)) : O :=
  ops.wsum ((ops.softmax (row.map fun p => p.1.getD ops.bigNeg)).zip (row.map (·.2)))

/-- where the weights of the allowed positions go: `zero` at masked positions, the next weight otherwise -/
def scatter {W : Type} (zero : W) : List (Option S) → List W → List W
  | [], _ => []
  | none :: r, ws => zero :: scatter zero r ws
  | some _ :: r, w :: ws => w :: scatter zero r ws
  | some _ :: r, [] => zero :: scatter zero r []

end Attn

/-! ## 3. Recurrent layers -/

section RNN
variable {α C X Y : Type}

/-- the cell applied in a Python loop: `for x in xs: carry, y = cell(carry, x); ys.append(y)` -/
def pyLoop (cell : C → X → C × Y) : C → List X → C × List Y
  | c, [] => (c, [])
  | c, x :: xs =>
    let r := cell c x
    let rest := pyLoop cell r.1 xs
    (rest.1, r.2 :: rest.2)

/-- `scan(scan_fn)(cell, carry, inputs)` with `scan_fn` returning `carry, (carry, y)`: a left fold that
stacks, for every step, the carry after the step and the output (A-SCAN). -/
def scanCell (cell : C → X → C × Y) (c : C) (xs : List X) : C × List (C × Y) :=
  xs.foldl (fun (st : C × List (C × Y)) x => let r := cell st.1 x; (r.1, st.2 ++ [(r.1, r.2)])) (c, [])

/-- `(jnp.arange(T-1, -1, -1) + seq_length) % T` at time `t` -/
def flipIdx (T len t : Nat) : Nat := (T - 1 - t + len) % T

/-- `flip_sequences(inputs, seq_lengths, …)` on one batch row: `jnp.flip` when `seq_lengths is None`,
otherwise `take_along_axis` with the indices above. -/
def flipSeq (len : Option Nat) (xs : List α) : List α :=
  match len with
  | none => xs.reverse
  | some l => List.ofFn fun t : Fin xs.length => xs[flipIdx xs.length l t]'(Nat.mod_lt _ (Fin.pos t))

/-- `_select_last_carry(carries, seq_lengths)` on one batch row: `carries[seq_length - 1]`. Lengths outside the
documented domain `1 ≤ len ≤ T` are not modelled (`none`). -/
def selectLast (cs : List C) (len : Nat) : Option C :=
  if 1 ≤ len ∧ len ≤ cs.length then cs[len - 1]? else none

/-- `_select_last_carry` for inputs with two batch axes, **after the `fix:` commit**: the stacked carries are
`[time][b1][b2]`, `seq_lengths` is `[b1][b2]`, every batch axis is indexed: `carries[len[i][j]-1][i][j]`. -/
def selectLast2 (cs : List (List (List C))) (lens : List (List Nat)) : List (List (Option C)) :=
  lens.mapIdx fun i row => row.mapIdx fun j l =>
    if 1 ≤ l ∧ l ≤ cs.length then ((cs[l - 1]?).bind (·[i]?)).bind (·[j]?) else none

/-- the same function **as shipped at the pinned commit**: `x[last_idx, jnp.arange(x.shape[1])]` indexes only
the first batch axis. `last_idx [b1, b2]` and `arange(b1)` are broadcast against each other (NumPy aligns
trailing axes), which needs `b1 = b2` or `b1 = 1` and otherwise raises (`none`); entry `[i][j]` of the result is
then the whole row `carries[len[i][j]-1][j]` (resp. `[0]`) over the second batch axis, not one carry. -/
def selectLast2Orig (cs : List (List (List C))) (lens : List (List Nat)) : Option (List (List (Option (List C)))) :=
  let b1 := lens.length
  if lens.all (fun row => decide (row.length = b1)) then
    some (lens.map fun row => row.mapIdx fun j l => if 1 ≤ l ∧ l ≤ cs.length then (cs[l - 1]?).bind (·[j]?) else none)
  else if b1 = 1 then
    some (lens.map fun row => row.map fun l => if 1 ≤ l ∧ l ≤ cs.length then (cs[l - 1]?).bind (·[0]?) else none)
  else none

/-- `RNN.__call__` on one batch row. Returns the outputs and the carry that `return_carry=True` would
return (`none` only for a `seq_lengths` entry outside `[1, T]`). -/
def rnnRow (cell : C → X → C × Y) (c0 : C) (xs : List X) (len : Option Nat) (reverse keepOrder : Bool) :
    Option C × List Y :=
  let xs1 := if reverse then flipSeq len xs else xs
  let r := scanCell cell c0 xs1
  let ys := r.2.map Prod.snd
  let ys' := if reverse && keepOrder then flipSeq len ys else ys
  match len with
  | none => (some r.1, ys')
  | some l => (selectLast (r.2.map Prod.fst) l, ys')

/-- column `j` of a list of rows -/
def column (m : List (List α)) (j : Nat) : List α := m.filterMap (·[j]?)

/-- swap the two leading axes of an `_ × n` array -/
def transposeN (n : Nat) (m : List (List α)) : List (List α) := (List.range n).map (column m)

/-- is `m` an `r × c` array -/
def isRect (r c : Nat) (m : List (List α)) : Bool := decide (m.length = r) && m.all (fun row => decide (row.length = c))

/-- rows of three equal-length lists, zipped -/
def zip3 : List α → List C → List X → List (α × C × X)
  | a :: as, c :: cs, x :: xs => (a, c, x) :: zip3 as cs xs
  | _, _, _ => []

/-- `RNN.__call__` on a batch: `inputs` is `[batch][time]` (or `[time][batch]` when `time_major`), one
initial carry per batch row, `seq_lengths` of shape `[batch]` or `None`; outputs come back in the layout of
the inputs. Shape mismatches are errors. -/
def rnnBatch (cell : C → X → C × Y) (timeMajor : Bool) (T : Nat) (c0s : List C) (inputs : List (List X))
    (lens : Option (List Nat)) (reverse keepOrder : Bool) : Except String (List (Option C) × List (List Y)) :=
  let B := c0s.length
  let okShape := if timeMajor then isRect T B inputs else isRect B T inputs
  let lensL : List (Option Nat) := match lens with
    | none => List.replicate B none
    | some ls => ls.map some
  if !okShape || decide (lensL.length ≠ B) then .error "Shape" else
  let rows := if timeMajor then transposeN B inputs else inputs
  let res := (zip3 lensL c0s rows).map fun (l, c0, xs) => rnnRow cell c0 xs l reverse keepOrder
  let outs := res.map Prod.snd
  .ok (res.map Prod.fst, if timeMajor then transposeN T outs else outs)

/-- `Bidirectional.__call__` on one batch row: forward RNN with `reverse=False`, backward RNN with
`reverse=True, keep_order=True`, both with `return_carry=True`; outputs merged position-wise. -/
def bidirRow {CF CB YF YB : Type} (cellF : CF → X → CF × YF) (cellB : CB → X → CB × YB) (merge : YF → YB → Y)
    (c0f : CF) (c0b : CB) (xs : List X) (len : Option Nat) : (Option CF × Option CB) × List Y :=
  let f := rnnRow cellF c0f xs len false false
  let b := rnnRow cellB c0b xs len true true
  ((f.1, b.1), List.zipWith merge f.2 b.2)

/-- how `RNN.__call__` / `Bidirectional.__call__` resolve a flag: `if flag is None: flag = self.flag` -/
def resolveFlag (callValue : Option Bool) (ctorValue : Bool) : Bool := callValue.getD ctorValue

/-- `Bidirectional.__call__` on a batch: `time_major` is resolved once (call-time value if given, else the
constructor attribute) and the *same* resolved value is passed to the forward RNN (`reverse=False`) and to the
backward RNN (`reverse=True, keep_order=True`); outputs are merged position-wise in the layout of the inputs. -/
def bidirBatch {CF CB YF YB : Type} (cellF : CF → X → CF × YF) (cellB : CB → X → CB × YB) (merge : YF → YB → Y)
    (ctorTimeMajor : Bool) (callTimeMajor : Option Bool) (T : Nat) (c0fs : List CF) (c0bs : List CB)
    (inputs : List (List X)) (lens : Option (List Nat)) :
    Except String ((List (Option CF) × List (Option CB)) × List (List Y)) := do
  let tm := resolveFlag callTimeMajor ctorTimeMajor
  let f ← rnnBatch cellF tm T c0fs inputs lens false false
  let b ← rnnBatch cellB tm T c0bs inputs lens true true
  pure ((f.1, b.1), List.zipWith (List.zipWith merge) f.2 b.2)

end RNN

/-! ### 3b. `flip_sequences` and `_select_last_carry` on arrays with any number of batch axes

An n-d array is its shape and a total read function on multi-indices (only in-bounds reads matter); NumPy
broadcasting reads an axis of extent 1 at coordinate 0. The definitions follow the code line by line. -/

structure ND (α : Type) where
  shape : List Nat
  get : List Nat → α

/-- NumPy broadcasting of an index against a shape of the same rank -/
def bcastIdx (shape idx : List Nat) : List Nat := List.zipWith (fun d i => if d = 1 then 0 else i) shape idx

/-- read `a` as if broadcast to a larger array of the same rank -/
def ND.bget (a : ND α) (idx : List Nat) : α := a.get (bcastIdx a.shape idx)

/-- `jnp.expand_dims(a, axis)` -/
def ND.expandDims (a : ND α) (axis : Nat) : ND α :=
  ⟨a.shape.insertIdx axis 1, fun idx => a.get (idx.eraseIdx axis)⟩

/-- `jnp.reshape(jnp.arange(T-1, -1, -1), [1]*axis + [T] + [1]*(rank-axis-1))` -/
def arangeRevAt (T rank axis : Nat) : ND Nat :=
  ⟨(List.replicate rank 1).set axis T, fun idx => T - 1 - (idx[axis]?).getD 0⟩

/-- shape of the broadcast of two same-rank arrays whose extents agree or are 1 -/
def bshape2 (a b : List Nat) : List Nat := List.zipWith (fun x y => if x = 1 then y else x) a b

/-- `flip_sequences(inputs, seq_lengths, num_batch_dims, time_major)`:
`time_axis = 0 if time_major else num_batch_dims`; without lengths `jnp.flip` along it; otherwise
`seq_lengths = expand_dims(seq_lengths, time_axis)`, `idxs = (reshape(arange(T-1,-1,-1)) + seq_lengths) % T`,
`idxs = _expand_dims_like(idxs, inputs)`, `take_along_axis(inputs, idxs, axis=time_axis)`. -/
def flipND (inputs : ND α) (lens : Option (ND Nat)) (nb : Nat) (timeMajor : Bool) : ND α :=
  let timeAxis := if timeMajor then 0 else nb
  let T := (inputs.shape[timeAxis]?).getD 0
  match lens with
  | none => ⟨inputs.shape, fun idx => inputs.get (idx.set timeAxis (T - 1 - (idx[timeAxis]?).getD 0))⟩
  | some lens =>
    let sl := lens.expandDims timeAxis
    let ar := arangeRevAt T (nb + 1) timeAxis
    let idxs : ND Nat := ⟨bshape2 ar.shape sl.shape, fun idx => (ar.bget idx + sl.bget idx) % T⟩
    let idxsE : ND Nat :=
      ⟨idxs.shape ++ List.replicate (inputs.shape.length - idxs.shape.length) 1,
       fun idx => idxs.get (idx.take idxs.shape.length)⟩
    ⟨inputs.shape, fun idx => inputs.get (idx.set timeAxis (idxsE.bget idx))⟩

/-- position of batch element `is`, time `t`, feature index `fs` in the two layouts -/
def layout (timeMajor : Bool) (is : List Nat) (t : Nat) (fs : List Nat) : List Nat :=
  if timeMajor then t :: (is ++ fs) else is ++ t :: fs

/-- `_select_last_carry` **after the `fix:` commit**, any number of batch axes: the stacked carries are
`[time, *batch, *features]`, `seq_lengths` is `[*batch]`;
`x[(seq_lengths - 1, *meshgrid(*[arange(n) for n in seq_lengths.shape], indexing='ij'))]`:
every index array has the batch shape, grid `k` holds coordinate `k` of the batch element. -/
def selectLastND (x : ND α) (lens : ND Nat) : ND α :=
  let nb := lens.shape.length
  ⟨lens.shape ++ x.shape.drop (1 + nb),
   fun idx =>
     let is := idx.take nb
     let grids := (List.range nb).map fun k => (is[k]?).getD 0
     x.get ((lens.get is - 1) :: (grids ++ idx.drop nb))⟩

/-- the time series of batch element `is` (no feature axes: one abstract value per position) -/
def rowND (a : ND α) (timeMajor : Bool) (is : List Nat) (T : Nat) : List α :=
  (List.range T).map fun t => a.get (layout timeMajor is t [])

/-- batch element and time of a multi-index of a `[*batch, T]` / `[T, *batch]` array -/
def unlayout (timeMajor : Bool) (nb : Nat) (idx : List Nat) : List Nat × Nat :=
  if timeMajor then (idx.tail, idx.headD 0) else (idx.take nb, (idx[nb]?).getD 0)

/-- `RNN.__call__` on an input with `nb` batch axes (`[*batch, T]`, or `[T, *batch]` when `time_major`), a cell
that acts on every batch element separately, `initial_carry` of shape `[*batch]`, `seq_lengths` of shape `[*batch]`
or `None`: flip along the time axis when `reverse`; scan (carries stacked on axis 0, outputs on the time axis);
`_select_last_carry` when lengths are given; flip the outputs back when `reverse and keep_order`. Positions that
do not exist read as `none`. -/
def rnnND {C X Y : Type} (cell : C → X → C × Y) (c0 : ND C) (inputs : ND X) (lens : Option (ND Nat)) (nb T : Nat)
    (timeMajor reverse keepOrder : Bool) : ND (Option C) × ND (Option Y) :=
  let xs1 := if reverse then flipND inputs lens nb timeMajor else inputs
  let run (is : List Nat) := scanCell cell (c0.get is) (rowND xs1 timeMajor is T)
  let carries : ND (Option C) := ⟨T :: c0.shape, fun idx => ((run idx.tail).2[idx.headD 0]?).map Prod.fst⟩
  let outs : ND (Option Y) :=
    ⟨inputs.shape, fun idx => ((run (unlayout timeMajor nb idx).1).2[(unlayout timeMajor nb idx).2]?).map Prod.snd⟩
  let carry : ND (Option C) := match lens with
    | none => ⟨c0.shape, fun is => some (run is).1⟩
    | some l => ⟨c0.shape, fun is => if 1 ≤ l.get is ∧ l.get is ≤ T then (selectLastND carries l).get is else none⟩
  (carry, if reverse && keepOrder then flipND outs lens nb timeMajor else outs)

/-- the integer cell the driver (and the harness, as a custom `RNNCellBase`) runs through `RNN`:
`c1' = (a·c1 + x) mod m`, `c2' = (c2 + b·c1') mod m`, `y = c1' + 2·c2'`; the carry is a pair, like LSTM's. -/
def affCell (a b m : Int) (c : Int × Int) (x : Int) : (Int × Int) × Int :=
  let c1 := (a * c.1 + x) % m
  let c2 := (c.2 + b * c1) % m
  ((c1, c2), c1 + 2 * c2)

/-! ## 4. Cell recurrences over an abstract scalar type

`R` is any type with `+`, `*`, `-`, `0`, `1`; `σ` (`gate_fn`) and `τ` (`activation_fn`) are uninterpreted
(both are constructor arguments of the real cells). A dense kernel is a list of output units, each a list of
input weights (the transpose of flax's `(in, out)` layout); a bias is a list with one entry per output unit. -/

section Cells
variable {R : Type} [Add R] [Mul R] [Sub R] [OfNat R 0] [OfNat R 1]

def dot (w x : List R) : R := (List.zipWith (· * ·) w x).foldl (· + ·) 0

/-- `Dense(use_bias=False)` -/
def dense (kernel : List (List R)) (x : List R) : List R := kernel.map (dot · x)

def vadd (a b : List R) : List R := List.zipWith (· + ·) a b
def vmul (a b : List R) : List R := List.zipWith (· * ·) a b

/-- `Dense(use_bias=True)` -/
def denseB (kernel : List (List R)) (b : List R) (x : List R) : List R := vadd (dense kernel x) b

/-- parameters of LSTMCell / OptimizedLSTMCell (Linen names `ii,if,ig,io` without bias, `hi,hf,hg,ho` with) -/
structure LstmParams (R : Type) where
  ii : List (List R)
  iF : List (List R)
  ig : List (List R)
  io : List (List R)
  hi : List (List R)
  hf : List (List R)
  hg : List (List R)
  ho : List (List R)
  bi : List R
  bf : List R
  bg : List R
  bo : List R

/-- `LSTMCell.__call__` (Linen and NNX have the same body): carry is `(c, h)` -/
def lstmStep (σ τ : R → R) (p : LstmParams R) (carry : List R × List R) (x : List R) :
    (List R × List R) × List R :=
  let c := carry.1
  let h := carry.2
  let i := (vadd (dense p.ii x) (denseB p.hi p.bi h)).map σ
  let f := (vadd (dense p.iF x) (denseB p.hf p.bf h)).map σ
  let g := (vadd (dense p.ig x) (denseB p.hg p.bg h)).map τ
  let o := (vadd (dense p.io x) (denseB p.ho p.bo h)).map σ
  let newC := vadd (vmul f c) (vmul i g)
  let newH := vmul o (newC.map τ)
  ((newC, newH), newH)

/-- `OptimizedLSTMCell.__call__`: the four kernels (and biases) are concatenated along the output axis, one
matmul each for `h` and `x`, the result is split back into four blocks of `n` units. `hFirst` is the order
of the final sum: Linen computes `dense_h + dense_i`, NNX `dense_i + dense_h`. -/
def lstmStepOpt (σ τ : R → R) (hFirst : Bool) (n : Nat) (p : LstmParams R) (carry : List R × List R) (x : List R) :
    (List R × List R) × List R :=
  let c := carry.1
  let h := carry.2
  let yh := denseB (p.hi ++ p.hf ++ p.hg ++ p.ho) (p.bi ++ p.bf ++ p.bg ++ p.bo) h
  let yi := dense (p.ii ++ p.iF ++ p.ig ++ p.io) x
  let blk (y : List R) (k : Nat) : List R := (y.drop (k * n)).take n
  let sum (k : Nat) : List R := if hFirst then vadd (blk yh k) (blk yi k) else vadd (blk yi k) (blk yh k)
  let i := (sum 0).map σ
  let f := (sum 1).map σ
  let g := (sum 2).map τ
  let o := (sum 3).map σ
  let newC := vadd (vmul f c) (vmul i g)
  let newH := vmul o (newC.map τ)
  ((newC, newH), newH)

/-- `SimpleCell.__call__`: `τ(W_i x + b_i + W_h h [+ h])` -/
def simpleStep (τ : R → R) (residual : Bool) (wi : List (List R)) (bi : List R) (wh : List (List R))
    (h : List R) (x : List R) : List R × List R :=
  let pre := vadd (denseB wi bi x) (dense wh h)
  let pre := if residual then vadd pre h else pre
  let new := pre.map τ
  (new, new)

/-- `Dense(use_bias=b is not None)` -/
def denseO (kernel : List (List R)) (b : Option (List R)) (x : List R) : List R :=
  match b with
  | none => dense kernel x
  | some b => denseB kernel b x

/-- parameters of GRUCell: input kernels with bias, hidden kernels without, except `hn` (Linen: `use_bias=True`;
NNX has no `b_hn` parameter: `none`) -/
structure GruParams (R : Type) where
  ir : List (List R)
  iz : List (List R)
  iN : List (List R)
  bir : List R
  biz : List R
  biN : List R
  hr : List (List R)
  hz : List (List R)
  hn : List (List R)
  bhn : Option (List R)

/-- `GRUCell.__call__`: `r = σ(W_ir x + b_ir + W_hr h)`, `z = σ(W_iz x + b_iz + W_hz h)`,
`n = τ(W_in x + b_in + r * (W_hn h + b_hn))`, `h' = (1 - z) * n + z * h` -/
def gruStep (σ τ : R → R) (p : GruParams R) (h : List R) (x : List R) : List R × List R :=
  let r := (vadd (denseB p.ir p.bir x) (dense p.hr h)).map σ
  let z := (vadd (denseB p.iz p.biz x) (dense p.hz h)).map σ
  let n := (vadd (denseB p.iN p.biN x) (vmul r (denseO p.hn p.bhn h))).map τ
  let new := vadd (vmul (z.map (1 - ·)) n) (vmul z h)
  (new, new)

/-- `nnx.GRUCell.__call__`: one `Linear` with `3n` outputs and a bias for the input (`dense_i`), one without bias
for the hidden state (`dense_h`); both results are split into three blocks `r, z, n` of `n` units. -/
def gruStepNnx (σ τ : R → R) (n : Nat) (wi : List (List R)) (bi : List R) (wh : List (List R)) (h : List R)
    (x : List R) : List R × List R :=
  let xt := denseB wi bi x
  let ht := dense wh h
  let blk (y : List R) (k : Nat) : List R := (y.drop (k * n)).take n
  let r := (vadd (blk xt 0) (blk ht 0)).map σ
  let z := (vadd (blk xt 1) (blk ht 1)).map σ
  let nn := (vadd (blk xt 2) (vmul r (blk ht 2))).map τ
  let new := vadd (vmul (z.map (1 - ·)) nn) (vmul z h)
  (new, new)

/-- `MGUCell.__call__` (Linen only): `f = σ(W_if x + b_if + W_hf h)`, `n = τ(W_in x + b_in + f * (W_hn h + b_hn))`
(with `reset_gate`; otherwise `n = τ(W_in x + b_in + W_hn h)`), `h' = (1 - f) * n + f * h` -/
def mguStep (σ τ : R → R) (resetGate : Bool) (wxf : List (List R)) (bxf : List R) (whf : List (List R))
    (wxn : List (List R)) (bxn : List R) (whn : List (List R)) (bhn : List R) (h : List R) (x : List R) :
    List R × List R :=
  let f := (vadd (denseB wxf bxf x) (dense whf h)).map σ
  let xh := if resetGate then vmul (denseB whn bhn h) f else dense whn h
  let n := (vadd (denseB wxn bxn x) xh).map τ
  let new := vadd (vmul (f.map (1 - ·)) n) (vmul f h)
  (new, new)

end Cells

end Flax.Seq
