/-
Model of the deep-clone pass of `Module.clone(_deep_clone=True)` (flax/linen/module.py), as far as object
identity goes.  `init`/`apply`/`bind` run on such a clone; sharing-by-reference between submodules must
survive it, because adoption (`_register_submodules`) recognises a shared instance by the `_id` of the clone.

A module's dataclass fields are visited in declaration order; every module-valued position inside a field
(directly, inside a list / dict, or deeper inside a nested module's own fields) is cloned by `clone_fn`,
which consults ONE id-keyed cache — the same `WeakValueDictionary` object is handed down every level of the
recursion (`m.clone(_deep_clone=cache)`): an `_id` already in the cache yields the cached clone, otherwise a
clone with a fresh `_id` (`uuid()`) is made and recorded.  A module is abstracted to the list, per field, of
the `_id`s referenced at the positions inside that field, in visiting order.
-/
namespace Flax.CloneCache

/-- the id-keyed cache: original `_id` ↦ `_id` of its clone -/
abbrev Cache := List (Nat × Nat)

def clookup (i : Nat) : Cache → Option Nat
  | [] => none
  | (k, v) :: rest => if k = i then some v else clookup i rest

/-- `clone_fn` over the positions of one field, threading the cache and the uuid counter -/
def cloneRefs : List Nat → Cache → Nat → List Nat × Cache × Nat
  | [], c, n => ([], c, n)
  | i :: rest, c, n =>
    match clookup i c with
    | some j =>
      let (out, c', n') := cloneRefs rest c n
      (j :: out, c', n')
    | none =>
      let (out, c', n') := cloneRefs rest ((i, n) :: c) (n + 1)
      (n :: out, c', n')

/-- all fields in declaration order: the cache object is shared between them -/
def cloneFields : List (List Nat) → Cache → Nat → List (List Nat) × Cache × Nat
  | [], c, n => ([], c, n)
  | f :: rest, c, n =>
    let (f', c1, n1) := cloneRefs f c n
    let (r', c2, n2) := cloneFields rest c1 n1
    (f' :: r', c2, n2)

/-- `module.clone(_deep_clone=True)`: a fresh cache, uuids from `fresh` on -/
def deepClone (fields : List (List Nat)) (fresh : Nat) : List (List Nat) := (cloneFields fields [] fresh).1

end Flax.CloneCache
