/-
Model of `flax/serialization.py` (with the state-dict handlers of `flax/struct.py`,
`flax/core/frozen_dict.py`), transcribed from the code:

  to_state_dict / from_state_dict      dispatch on the exact container type (namedtuple by duck typing)
  _restore_list / _restore_dict / _restore_namedtuple / dataclass + FrozenDict handlers
  _chunk / _unchunk / _chunk_array_leaves_in_place / _unchunk_array_leaves_in_place
  _ndarray_to_bytes / _ndarray_from_bytes / _msgpack_ext_pack / _msgpack_ext_unpack
  msgpack_serialize / msgpack_restore / to_bytes / from_bytes

NumPy is abstracted to `(dtype name, shape, C-order bytes)`; the item size of a dtype is a parameter
`isz : String → Nat` (read from NumPy by the harness). msgpack itself is `Flax/Model/Msgpack.lean`.

Domain. Targets are `Tree`s (string keys), states are `STree`s: nested plain dicts and leaves, which
is what `to_state_dict` / `msgpack_restore` produce and what `from_state_dict` documents as its input.
Outside that domain the model is an approximation and is not compared with the code: a FrozenDict,
list or dataclass instance used *as a state*; an array used as the state of a dataclass target
(`ndarray.copy()` exists, the code then fails differently); `_unchunk` on pieces of different dtypes
(NumPy would promote); field names in a legacy namedtuple encoding that are not `str`; Python ints
outside `[-2^63, 2^64)` (`OverflowError` in msgpack); `MAX_CHUNK_SIZE / itemsize` beyond float precision.

`fromSDG true` is `_restore_namedtuple` after the `fix:` commit (legacy branch skipped when the target's
own fields are name/fields/values), `fromSDG false` the code as shipped at the pinned commit.

Core Lean only: this file is in the import closure of the compiled driver.
-/
import Flax.Model.Msgpack

namespace Flax.Serial
open Flax.Msgpack

/-- what is kept of an array: `arr.dtype.name`, `arr.shape`, `arr.tobytes('C')` -/
structure NdArray where
  dtype : String
  shape : List Nat
  data : Bytes
  deriving Repr, DecidableEq, Inhabited

/-- leaves of a state dict (everything `to_state_dict` has no handler for and msgpack can carry) -/
inductive Leaf where
  | none
  | bool (b : Bool)
  | int (i : Int)                          -- Python `int`
  | float (bits : Nat)                     -- Python `float`, by its 64 bit pattern
  | complex (re im : Nat)                  -- Python `complex`, two bit patterns
  | str (s : String)
  | bytes (b : Bytes)
  | ndarray (a : NdArray)                  -- `np.ndarray` or `jax.Array`
  | npscalar (dtype : String) (data : Bytes)   -- `np.generic` (rank 0 by construction)
  deriving Repr, DecidableEq, Inhabited

/-- a state dict: nested `dict`s with string keys, in insertion order -/
inductive STree where
  | leaf (v : Leaf)
  | dict (kvs : List (String × STree))
  deriving Repr, Inhabited

/-- the supported pytrees. `named cls` is a `collections.namedtuple` class, `struct cls … aux` a
`flax.struct.dataclass` instance: `fs` are its pytree-node fields in declaration order, `aux` stands
for the values of its `pytree_node=False` fields (never looked at, carried over by `x.replace`). -/
inductive Tree where
  | leaf (v : Leaf)
  | dict (kvs : List (String × Tree))
  | fdict (kvs : List (String × Tree))     -- `FrozenDict`
  | list (xs : List Tree)
  | tuple (xs : List Tree)
  | named (cls : String) (fs : List (String × Tree))
  | struct (cls : String) (fs : List (String × Tree)) (aux : Nat)
  deriving Repr, Inhabited

abbrev Path := List String

/-- the errors `from_state_dict` / `msgpack_restore` can end in. The five `ValueError`s of the restore
functions carry `current_path()` (as the list that is joined with '/'). -/
inductive Err where
  | sizeMismatch (path : Path)                 -- `_restore_list`: ValueError
  | missingKeys (path : Path)                  -- `_restore_dict` / `_restore_frozen_dict`: ValueError
  | fieldNames (path : Path)                   -- `_restore_namedtuple`: ValueError
  | missingField (path : Path) (name : String) -- struct.dataclass handler: ValueError
  | unknownFields (path : Path)                -- struct.dataclass handler: ValueError
  | keyError                                   -- `state_dict[str(i)]` / `data['shape']` missing: KeyError
  | notMapping                                 -- `.keys()` / `len()` / `.copy()` / indexing of a leaf: AttributeError, TypeError, IndexError
  | legacy                                     -- the pre-2022 namedtuple encoding is malformed
  | badChunk                                   -- `_unchunk`: np.concatenate / reshape reject the pieces
  | badBytes                                   -- the bytes are not msgpack / not a state dict
  deriving Repr, DecidableEq, Inhabited

/-- Python `str(i)` for a list index -/
def idx (i : Nat) : String := toString i

/-- `d[k]` on an insertion-ordered dict -/
def lookup (k : String) : List (String × α) → Option α
  | [] => none
  | (k', v) :: r => if k' = k then some v else lookup k r

def keys (kvs : List (String × α)) : List String := kvs.map Prod.fst

/-- `d[k] = v` on an insertion-ordered dict: an existing key keeps its position -/
def dictSet (kvs : List (String × α)) (k : String) (v : α) : List (String × α) :=
  match kvs with
  | [] => [(k, v)]
  | (k', v') :: r => if k' = k then (k, v) :: r else (k', v') :: dictSet r k v

/-- `d.pop(k)` (the removed value is looked up separately) -/
def erase (k : String) : List (String × α) → List (String × α)
  | [] => []
  | (k', v) :: r => if k' = k then r else (k', v) :: erase k r

/-- `set(a) <= set(b)` -/
def subsetKeys (a b : List String) : Bool := a.all (fun k => decide (k ∈ b))

/-- `set(a) == set(b)` -/
def sameKeySet (a b : List String) : Bool := subsetKeys a b && subsetKeys b a

/-! ### to_state_dict -/

mutual
  /-- `serialization.to_state_dict`: dict and FrozenDict keep their (string) keys, list and tuple
  become `{'0': …, '1': …}`, namedtuple and struct dataclass become `{field: …}` (data fields only);
  anything else is returned as it is. -/
  def toStateDict : Tree → STree
    | .leaf v => .leaf v
    | .dict kvs => .dict (toSDFields kvs)
    | .fdict kvs => .dict (toSDFields kvs)
    | .list xs => .dict (toSDList 0 xs)
    | .tuple xs => .dict (toSDList 0 xs)
    | .named _ fs => .dict (toSDFields fs)
    | .struct _ fs _ => .dict (toSDFields fs)
  def toSDFields : List (String × Tree) → List (String × STree)
    | [] => []
    | (k, v) :: r => (k, toStateDict v) :: toSDFields r
  def toSDList : Nat → List Tree → List (String × STree)
    | _, [] => []
    | i, x :: r => (idx i, toStateDict x) :: toSDList (i + 1) r
end

/-! ### from_state_dict -/

mutual
  /-- a state dict seen as a Python object (what `from_state_dict` returns for an unregistered target) -/
  def ofState : STree → Tree
    | .leaf v => .leaf v
    | .dict kvs => .dict (ofStateKvs kvs)
  def ofStateKvs : List (String × STree) → List (String × Tree)
    | [] => []
    | (k, v) :: r => (k, ofState v) :: ofStateKvs r
end

/-- `len(x)` of what sits in a state position; `none` = `TypeError` -/
def pyLen : STree → Option Nat
  | .dict kvs => some kvs.length
  | .leaf (.str s) => some s.length
  | .leaf (.bytes b) => some b.length
  | .leaf (.ndarray a) => a.shape.head?
  | .leaf _ => none

/-- `state[k]` for a string `k` -/
def getItem (s : STree) (k : String) : Except Err STree :=
  match s with
  | .dict kvs =>
    match lookup k kvs with
    | some v => .ok v
    | none => .error .keyError
  | .leaf _ => .error .notMapping

def legacyKeys : List String := ["name", "fields", "values"]

/-- `{fields[str(i)]: values[str(i)] for i in range(len(fields))}` -/
def legacyLoop (f v : STree) : Nat → Nat → List (String × STree) → Except Err (List (String × STree))
  | 0, _, acc => .ok acc
  | n + 1, i, acc =>
    match getItem f (idx i), getItem v (idx i) with
    | .ok (.leaf (.str k)), .ok sv => legacyLoop f v n (i + 1) (dictSet acc k sv)
    | _, _ => .error .legacy

/-- the backward compatible branch of `_restore_namedtuple` (state `{'name','fields','values'}`) -/
def legacyConvert (skvs : List (String × STree)) : Except Err (List (String × STree)) :=
  match lookup "fields" skvs, lookup "values" skvs with
  | some f, some v =>
    match pyLen f with
    | some n => legacyLoop f v n 0 []
    | none => .error .legacy
  | _, _ => .error .legacy

/-- which state `_restore_namedtuple` goes on with. `guard = true` is the repaired code: the legacy
branch is not taken when the target's own field names are exactly `{'name','fields','values'}`
(otherwise such a namedtuple cannot be restored from its own state dict); `guard = false` is the code
as shipped at the pinned commit. -/
def namedState (guard : Bool) (fs : List String) (skvs : List (String × STree)) :
    Except Err (List (String × STree)) :=
  if sameKeySet (keys skvs) legacyKeys && !(guard && sameKeySet fs legacyKeys) then legacyConvert skvs
  else .ok skvs

/-- first failing child in the order of `order` (`_restore_namedtuple` walks `state_dict.items()`) -/
def firstErrorBy (order : List String) (rs : List (String × Except Err Tree)) : Option Err :=
  match order with
  | [] => none
  | k :: r =>
    match lookup k rs with
    | some (.error e) => some e
    | _ => firstErrorBy r rs

/-- all children succeeded: the fields, in the order of the class -/
def collect : List (String × Except Err Tree) → Except Err (List (String × Tree))
  | [] => .ok []
  | (k, r) :: rest =>
    match r with
    | .error e => .error e
    | .ok y =>
      match collect rest with
      | .error e => .error e
      | .ok ys => .ok ((k, y) :: ys)

mutual
  /-- `serialization.from_state_dict(target, state, name)`; `path` is `_error_context.path` *including*
  `name` (the top-level call has `path = ["."]`). -/
  def fromSDG (guard : Bool) (path : Path) : Tree → STree → Except Err Tree
    | .leaf _, s => .ok (ofState s)                          -- unregistered type: `return state`
    | .dict kvs, s =>
      match s with
      | .leaf _ => .error .notMapping
      | .dict skvs =>
        if subsetKeys (keys kvs) (keys skvs) then
          match restoreFields guard path kvs skvs with
          | .error e => .error e
          | .ok ys => .ok (.dict ys)
        else .error (.missingKeys path)
    | .fdict kvs, s =>
      match s with
      | .leaf _ => .error .notMapping
      | .dict skvs =>
        if subsetKeys (keys kvs) (keys skvs) then
          match restoreFields guard path kvs skvs with
          | .error e => .error e
          | .ok ys => .ok (.fdict ys)
        else .error (.missingKeys path)
    | .list xs, s =>
      match pyLen s with
      | none => .error .notMapping
      | some n =>
        if n = xs.length then
          match restoreList guard path 0 xs s with
          | .error e => .error e
          | .ok ys => .ok (.list ys)
        else .error (.sizeMismatch path)
    | .tuple xs, s =>
      match pyLen s with
      | none => .error .notMapping
      | some n =>
        if n = xs.length then
          match restoreList guard path 0 xs s with
          | .error e => .error e
          | .ok ys => .ok (.tuple ys)
        else .error (.sizeMismatch path)
    | .named cls fs, s =>
      match s with
      | .leaf _ => .error .notMapping
      | .dict skvs0 =>
        match namedState guard (keys fs) skvs0 with
        | .error e => .error e
        | .ok skvs =>
          if sameKeySet (keys skvs) (keys fs) then
            let rs := childResults guard path fs skvs
            match firstErrorBy (keys skvs) rs with
            | some e => .error e
            | none =>
              match collect rs with
              | .error e => .error e
              | .ok ys => .ok (.named cls ys)
          else .error (.fieldNames path)
    | .struct cls fs aux, s =>
      match s with
      | .leaf _ => .error .notMapping
      | .dict skvs =>
        match restoreStruct guard path fs skvs with
        | .error e => .error e
        | .ok (ys, rest) =>
          if rest.isEmpty then .ok (.struct cls ys aux) else .error (.unknownFields path)
  /-- `{key: from_state_dict(value, states[str(key)], name=str(key)) for key, value in xs.items()}` -/
  def restoreFields (guard : Bool) (path : Path) :
      List (String × Tree) → List (String × STree) → Except Err (List (String × Tree))
    | [], _ => .ok []
    | (k, v) :: r, skvs =>
      match lookup k skvs with
      | none => .error .keyError
      | some sv =>
        match fromSDG guard (path ++ [k]) v sv with
        | .error e => .error e
        | .ok y =>
          match restoreFields guard path r skvs with
          | .error e => .error e
          | .ok ys => .ok ((k, y) :: ys)
  /-- `for i in range(len(state_dict)): from_state_dict(xs[i], state_dict[str(i)], name=str(i))` -/
  def restoreList (guard : Bool) (path : Path) : Nat → List Tree → STree → Except Err (List Tree)
    | _, [], _ => .ok []
    | i, x :: r, s =>
      match getItem s (idx i) with
      | .error e => .error e
      | .ok sv =>
        match fromSDG guard (path ++ [idx i]) x sv with
        | .error e => .error e
        | .ok y =>
          match restoreList guard path (i + 1) r s with
          | .error e => .error e
          | .ok ys => .ok (y :: ys)
  /-- per field of a namedtuple, the outcome of restoring it from the state entry of the same name -/
  def childResults (guard : Bool) (path : Path) :
      List (String × Tree) → List (String × STree) → List (String × Except Err Tree)
    | [], _ => []
    | (k, v) :: r, skvs =>
      (k, match lookup k skvs with
          | none => .error .keyError
          | some sv => fromSDG guard (path ++ [k]) v sv) :: childResults guard path r skvs
  /-- the loop of the struct.dataclass handler: every data field is popped from a copy of the state;
  returns the restored fields and what is left of the state -/
  def restoreStruct (guard : Bool) (path : Path) :
      List (String × Tree) → List (String × STree) →
      Except Err (List (String × Tree) × List (String × STree))
    | [], st => .ok ([], st)
    | (k, v) :: r, st =>
      match lookup k st with
      | none => .error (.missingField path k)
      | some sv =>
        match fromSDG guard (path ++ [k]) v sv with
        | .error e => .error e
        | .ok y =>
          match restoreStruct guard path r (erase k st) with
          | .error e => .error e
          | .ok (ys, st') => .ok ((k, y) :: ys, st')
end

/-- `from_state_dict(target, state)` of the repaired code, at the default name `'.'` -/
def fromStateDict (t : Tree) (s : STree) : Except Err Tree := fromSDG true ["."] t s

/-- the same with `_restore_namedtuple` as shipped at the pinned commit -/
def fromStateDictOrig (t : Tree) (s : STree) : Except Err Tree := fromSDG false ["."] t s

/-! ### chunking of large arrays -/

def marker : String := "__msgpack_chunked_array__"

def prod (shape : List Nat) : Nat := shape.foldr (· * ·) 1

/-- `[l[i : i + n] for i in range(0, len(l), n)]`; `fuel ≥ len(l)` -/
def splitEvery (n : Nat) : Nat → Bytes → List Bytes
  | 0, _ => []
  | fuel + 1, l => if l.isEmpty then [] else l.take n :: splitEvery n fuel (l.drop n)

/-- `_tuple_to_dict` -/
def enumDict (i : Nat) : List STree → List (String × STree)
  | [] => []
  | x :: r => (idx i, x) :: enumDict (i + 1) r

/-- `_chunk(arr)`: `chunksize = max(1, int(MAX_CHUNK_SIZE / itemsize))` elements per piece of the
C-order flattening -/
def chunk (T : Nat) (isz : String → Nat) (a : NdArray) : STree :=
  let cs := max 1 (T / isz a.dtype)
  let pieces := splitEvery (cs * isz a.dtype) a.data.length a.data
  .dict [
    (marker, .leaf (.bool true)),
    ("shape", .dict (enumDict 0 (a.shape.map (fun (d : Nat) => STree.leaf (.int (d : Int)))))),
    ("chunks", .dict (enumDict 0 (pieces.map (fun p =>
      STree.leaf (.ndarray { dtype := a.dtype, shape := [p.length / isz a.dtype], data := p })))))]

/-- the test `v.size * v.dtype.itemsize > MAX_CHUNK_SIZE` -/
def oversize (T : Nat) (isz : String → Nat) (a : NdArray) : Bool :=
  decide (prod a.shape * isz a.dtype > T)

mutual
  /-- `_chunk_array_leaves_in_place` (the value it leaves behind) -/
  def chunkLeaves (T : Nat) (isz : String → Nat) : STree → STree
    | .leaf (.ndarray a) => if oversize T isz a then chunk T isz a else .leaf (.ndarray a)
    | .leaf v => .leaf v
    | .dict kvs => .dict (chunkKvs T isz kvs)
  def chunkKvs (T : Nat) (isz : String → Nat) : List (String × STree) → List (String × STree)
    | [] => []
    | (k, v) :: r => (k, chunkLeaves T isz v) :: chunkKvs T isz r
end

/-- `_dict_to_tuple`: `tuple(dct[str(i)] for i in range(len(dct)))` -/
def dictToTuple (s : STree) : Except Err (List STree) :=
  match s with
  | .leaf _ => .error .notMapping
  | .dict kvs => go kvs kvs.length 0
where
  go (kvs : List (String × STree)) : Nat → Nat → Except Err (List STree)
    | 0, _ => .ok []
    | n + 1, i =>
      match lookup (idx i) kvs with
      | none => .error .keyError
      | some v =>
        match go kvs n (i + 1) with
        | .error e => .error e
        | .ok vs => .ok (v :: vs)

def asDim : STree → Option Nat
  | .leaf (.int i) => if 0 ≤ i then some i.toNat else none
  | _ => none

def asArray : STree → Option NdArray
  | .leaf (.ndarray a) => some a
  | _ => none

def allSome (f : α → Option β) : List α → Option (List β)
  | [] => some []
  | x :: r =>
    match f x, allSome f r with
    | some y, some ys => some (y :: ys)
    | _, _ => none

/-- `_unchunk(data)`: `np.concatenate(chunks).reshape(shape)`. The pieces must be arrays of one
dtype (NumPy would promote mixed dtypes: not modelled, `_chunk` never produces them), there must be
at least one, and the element counts must agree with the shape. -/
def unchunk (kvs : List (String × STree)) : Except Err NdArray :=
  match lookup "shape" kvs, lookup "chunks" kvs with
  | some sh, some ch =>
    match dictToTuple sh, dictToTuple ch with
    | .ok dims, .ok pieces =>
      match allSome asDim dims, allSome asArray pieces with
      | some shape, some (c :: cs) =>
        if (c :: cs).all (fun p => decide (p.dtype = c.dtype))
            && decide (prod shape = ((c :: cs).map (fun p => prod p.shape)).sum) then
          .ok { dtype := c.dtype, shape := shape, data := ((c :: cs).map (·.data)).flatten }
        else .error .badChunk
      | _, _ => .error .badChunk
    | .error e, _ => .error e
    | _, .error e => .error e
  | _, _ => .error .keyError

mutual
  /-- `_unchunk_array_leaves_in_place` -/
  def unchunkLeaves : STree → Except Err STree
    | .leaf v => .ok (.leaf v)
    | .dict kvs =>
      if decide (marker ∈ keys kvs) then
        match unchunk kvs with
        | .error e => .error e
        | .ok a => .ok (.leaf (.ndarray a))
      else
        match unchunkKvs kvs with
        | .error e => .error e
        | .ok r => .ok (.dict r)
  def unchunkKvs : List (String × STree) → Except Err (List (String × STree))
    | [] => .ok []
    | (k, v) :: r =>
      match unchunkLeaves v with
      | .error e => .error e
      | .ok v' =>
        match unchunkKvs r with
        | .error e => .error e
        | .ok r' => .ok ((k, v') :: r')
end

/-! ### leaves and state dicts as msgpack values -/

/-- Python `str.encode('utf-8')` -/
def utf8 (s : String) : Bytes := s.toUTF8.data.toList.map UInt8.toNat

/-- Python `bytes.decode('utf-8')` -/
def fromUtf8 (bs : Bytes) : Option String :=
  String.fromUTF8? (ByteArray.mk (bs.map UInt8.ofNat).toArray)

/-- `_ndarray_to_bytes`: `msgpack.packb((shape, dtype.name, tobytes('C')), use_bin_type=True)` -/
def ndToBytes (a : NdArray) : Bytes :=
  pack (.arr [.arr (a.shape.map (fun (d : Nat) => MVal.int (d : Int))), .str (utf8 a.dtype), .bin a.data])

/-- with `raw=True` both str and bin come back as `bytes` -/
def asRaw : MVal → Option Bytes
  | .str b => some b
  | .bin b => some b
  | _ => none

def asNatM : MVal → Option Nat
  | .int i => if 0 ≤ i then some i.toNat else none
  | _ => none

/-- `_ndarray_from_bytes` (without NumPy's own consistency check of buffer size and shape) -/
def ndFromBytes (bs : Bytes) : Option NdArray :=
  match unpack bs with
  | some (.arr [.arr dims, nm, buf]) =>
    match allSome asNatM dims, asRaw nm, asRaw buf with
    | some shape, some name, some data =>
      match fromUtf8 name with
      | some dtype => some { dtype := dtype, shape := shape, data := data }
      | none => none
    | _, _, _ => none
  | _ => none

/-- `_msgpack_ext_pack` plus msgpack's own handling of the native types -/
def leafToM : Leaf → MVal
  | .none => .nil
  | .bool b => .bool b
  | .int i => .int i
  | .float bits => .f64 bits
  | .complex re im => .ext 2 (pack (.arr [.f64 re, .f64 im]))
  | .str s => .str (utf8 s)
  | .bytes b => .bin b
  | .ndarray a => .ext 1 (ndToBytes a)
  | .npscalar dtype data => .ext 3 (ndToBytes { dtype := dtype, shape := [], data := data })

mutual
  def toM : STree → MVal
    | .leaf v => leafToM v
    | .dict kvs => .map (toMKvs kvs)
  def toMKvs : List (String × STree) → List (MVal × MVal)
    | [] => []
    | (k, v) :: r => (.str (utf8 k), toM v) :: toMKvs r
end

/-- `_msgpack_ext_unpack` -/
def extToLeaf (code : Nat) (data : Bytes) : Option Leaf :=
  if code = 1 then
    match ndFromBytes data with
    | some a => some (.ndarray a)
    | none => none
  else if code = 2 then
    match unpack data with
    | some (.arr (.f64 re :: .f64 im :: _)) => some (.complex re im)
    | _ => none
  else if code = 3 then
    match ndFromBytes data with
    | some a => if a.shape = [] then some (.npscalar a.dtype a.data) else some (.ndarray a)   -- `ar[()]`
    | none => none
  else none

/-- a Python dict filled pair by pair: a repeated key keeps its first position and its last value -/
def mkDict (pairs : List (String × α)) : List (String × α) :=
  pairs.foldl (fun acc kv => dictSet acc kv.1 kv.2) []

mutual
  /-- what `msgpack.unpackb(raw=False, ext_hook=…)` builds, when it is a state dict (lists, and map
  keys other than str, are outside the modelled domain) -/
  def ofM : MVal → Option STree
    | .nil => some (.leaf .none)
    | .bool b => some (.leaf (.bool b))
    | .int i => some (.leaf (.int i))
    | .f64 bits => some (.leaf (.float bits))
    | .str s =>
      match fromUtf8 s with
      | some x => some (.leaf (.str x))
      | none => none
    | .bin b => some (.leaf (.bytes b))
    | .ext code data =>
      match extToLeaf code data with
      | some v => some (.leaf v)
      | none => none
    | .arr _ => none
    | .map kvs =>
      match ofMKvs kvs with
      | some r => some (.dict (mkDict r))
      | none => none
  /-- the decoded key/value pairs in wire order -/
  def ofMKvs : List (MVal × MVal) → Option (List (String × STree))
    | [] => some []
    | (k, v) :: r =>
      match k with
      | .str kb =>
        match fromUtf8 kb, ofM v, ofMKvs r with
        | some ks, some sv, some rest => some ((ks, sv) :: rest)
        | _, _, _ => none
      | _ => none
end

/-! ### the user-facing calls -/

/-- `msgpack_serialize(state_dict)` at threshold `T = MAX_CHUNK_SIZE` -/
def msgpackSerialize (T : Nat) (isz : String → Nat) (s : STree) : Bytes :=
  pack (toM (chunkLeaves T isz s))

/-- `msgpack_restore` -/
def msgpackRestore (bs : Bytes) : Except Err STree :=
  match unpack bs with
  | none => .error .badBytes
  | some m =>
    match ofM m with
    | none => .error .badBytes
    | some s => unchunkLeaves s

/-- `to_bytes(target)` -/
def toBytes (T : Nat) (isz : String → Nat) (t : Tree) : Bytes :=
  msgpackSerialize T isz (toStateDict t)

/-- `from_bytes(target, encoded)` -/
def fromBytes (t : Tree) (bs : Bytes) : Except Err Tree :=
  match msgpackRestore bs with
  | .error e => .error e
  | .ok s => fromStateDict t s

end Flax.Serial
