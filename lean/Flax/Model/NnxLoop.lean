/-
Model of the NNX loop / autodiff transforms (property C08).

  flax/nnx/extract.py               check_consistent_aliasing (43-92), broadcast_prefix, NodeStates, to_tree / from_tree
  flax/nnx/transforms/iteration.py  StateAxes.map_prefix (59-112), _vmap_split_fn, VmapFn, vmap (148-354);
                                    _get_carry_argnum, _check_out_axes, _check_carry_same_references (590-656);
                                    _scan_split_in/_out, _scan_merge_in/_out, ScanFn, scan (700-1309)
  flax/nnx/transforms/autodiff.py   DiffState, GradFn, _grad_general, grad, value_and_grad (57-379)
  flax/nnx/graph.py                 SplitContext.split (flatten with a shared ref_index + _split_state),
                                    MergeContext.merge (unflatten with a shared index_ref), iter_graph

What an argument of a transform is, at this level: a graph node is the list of `(path, Variable)` pairs that
`graph.iter_graph` yields for it (a Variable reachable by two paths is yielded twice: `iter_graph` only remembers
graph *nodes* as visited), Variables are identified by a `VarId` (Python object identity), and the values live in a
`Store`.  `ctx.split` flattens an argument with a `ref_index` shared by all arguments of one call: the *first*
occurrence of a Variable becomes a `VariableDef` whose value travels in the `State` (keyed by *path*), every later
occurrence a `NodeRef`.  `ctx.merge` is the inverse with a shared `index_ref`.  States are path-keyed here exactly as
in flax, so attaching a state to the wrong graphdef, or mis-ordering the deques of `scan`, is visible in the model.

Assumed rather than modelled from flax's own source:  A-VMAP (`jax.vmap` = one call per index, results stacked along
`out_axes`; a result declared `None` must be unbatched — only the verdict of that check is an input), A-SCAN
(`jax.lax.scan` = left fold with stacking, `reverse`), A-CONV (`Arr.take/stack/toFront/fromFront` are the index-level
meaning of `jnp.take/stack/moveaxis`), A-AD (`AD`), and — named hypothesis of the C04 refinement — that the outer
`from_tree(…, is_inner=False)` writes the returned states into the caller's Variables by index (`updateStore`).

Core Lean only (linked into drv_c08).
-/
import Flax.Model.Filter
import Flax.Model.LiftLoop

namespace Flax.NnxLoop
open Flax.Filter Flax.LiftLoop

abbrev VarId := Nat
abbrev LErr := Flax.LiftLoop.Err

/-- error enum (the harness compares the coarse class `Err.cls` only) -/
inductive Err where
  | noAxisFound              -- StateAxes.map_prefix: 'No axis found for path=…'
  | inconsistentAliasing     -- extract.check_consistent_aliasing
  | prefixArity              -- broadcast_prefix / jax: tuple prefix of another length than the value
  | outAxesBroadcast         -- _check_out_axes: 'Cannot broadcast output state'
  | outAxesCarry             -- _check_out_axes: 'Cannot carry output state'
  | multipleCarry            -- _get_carry_argnum: 'Found multiple Carry definitions'
  | carryMismatch            -- 'If one of in_axes or out_axes has Carry, the other must also have Carry'
  | carryAllArity            -- 'When in_axes=Carry, the function must take exactly one argument'
  | carryRefs                -- _check_carry_same_references
  | stateAxesOnArray         -- 'Cannot use StateAxes on non-graph nodes' / jax: in_axes not a tree prefix
  | invalidAxes              -- Carry handed to jax.vmap (TypeError)
  | repeatedArgnum           -- _grad_general: 'argnum … is repeated in argnums'
  | argnumRange              -- jax: differentiating with respect to a missing positional argument
  | nonExhaustive            -- _split_state: a Variable matching no filter
  | missingState             -- merge: a VariableDef whose path is in none of the states handed over
  | danglingRef              -- merge: a NodeRef to an index that was not merged before
  | dequeEmpty               -- deque.popleft() on an empty deque / `assert not carry_deque …`
  | unbatchedOutExpected     -- jax.vmap: out_axes None for a batched output
  | bodyContract             -- the traced function dropped a Variable it was given
  | unsupportedOut           -- an input object returned at a non-carry output position (outside the model)
  | notScalarLoss            -- jax.grad: the differentiated output is not a scalar
  | lax (e : LErr)           -- jax's own shape / size / carry-structure errors
  | body (tag : String)      -- the traced function itself failed
  deriving Repr, DecidableEq, Inhabited

def Err.cls : Err → String
  | .invalidAxes => "TypeError"
  | .dequeEmpty => "IndexError"
  | .argnumRange => "TypeError"
  | .notScalarLoss => "TypeError"
  | .lax .carryStructure => "TypeError"
  | .lax _ => "ValueError"     -- jnp.moveaxis / jnp.take / jax.vmap / lax.scan shape and size complaints
  | .body t => t
  | _ => "ValueError"

def liftL {β : Type} : Except LErr β → Except Err β
  | .ok v => .ok v
  | .error e => .error (.lax e)

/-! ## 0. small monadic helpers over `Except Err` (own recursion: easy induction) -/

def mapX {β γ : Type} (f : β → Except Err γ) : List β → Except Err (List γ)
  | [] => .ok []
  | x :: xs =>
    match f x with
    | .error e => .error e
    | .ok y =>
      match mapX f xs with
      | .error e => .error e
      | .ok ys => .ok (y :: ys)

def foldX {β σ : Type} (f : σ → β → Except Err σ) : σ → List β → Except Err σ
  | s, [] => .ok s
  | s, x :: xs =>
    match f s x with
    | .error e => .error e
    | .ok s' => foldX f s' xs

/-- `xs[k]` where the code indexes a tuple it has built itself -/
def pickX {β : Type} (k : Nat) (xs : List β) : Except Err β :=
  match xs[k]? with
  | some a => .ok a
  | none => .error (.lax .stackMismatch)

/-! ## 1. `StateAxes`, prefixes, arguments -/

/-- what a prefix says about one Variable: an integer axis, `None`, or `nnx.Carry` -/
inductive Ax where
  | axis (k : Int)
  | bcast
  | carry
  deriving Repr, DecidableEq, Inhabited

/-- `StateAxes({filter: axis, …})`: `filters` and `axes` in the order of the mapping's items -/
abbrev StateAxes := List (NFilter × Ax)

/-- `StateAxes.map_prefix(path, variable)`: the axis of the first filter whose predicate holds; ValueError if none -/
def mapPrefix : StateAxes → Path → VarInfo → Except Err Ax
  | [], _, _ => .error .noAxisFound
  | (f, a) :: rest, p, x => if denote f p x then .ok a else mapPrefix rest p x

/-- one entry of `in_axes` / `out_axes` -/
inductive Prefix where
  | ax (a : Ax)
  | sa (s : StateAxes)
  deriving Repr, Inhabited

def Prefix.filters : Prefix → List NFilter
  | .ax _ => []
  | .sa s => s.map (·.1)

/-- the axis of each state `ctx.split(x, *filters)` returns (one state, the whole object, for a plain prefix) -/
def Prefix.axes : Prefix → List Ax
  | .ax a => [a]
  | .sa s => s.map (·.2)

/-- one `(path, value)` pair yielded by `graph.iter_graph` whose value is a Variable -/
structure Entry where
  path : Path
  id : VarId
  info : VarInfo
  deriving Repr, DecidableEq, Inhabited

/-- `variable_prefix = prefix.map_prefix(path, value) if isinstance(prefix, PrefixMapping) else prefix` -/
def Prefix.at (p : Prefix) (e : Entry) : Except Err Ax :=
  match p with
  | .ax a => .ok a
  | .sa s => mapPrefix s e.path e.info

/-- the values of the caller's Variables -/
abbrev Store (α : Type) := List (VarId × Arr α)

def Store.set {α : Type} (s : Store α) (id : VarId) (v : Arr α) : Store α :=
  s.map (fun p => if p.1 = id then (id, v) else p)

/-- a positional argument: a graph node (its Variables as `iter_graph` yields them) or an array -/
inductive Arg (α : Type) where
  | node (es : List Entry)
  | arr (a : Arr α)
  deriving Repr

/-- `in_axes` / `out_axes`: one entry for everything, or a tuple with one entry per argument / result -/
inductive AxesSpec where
  | uniform (p : Prefix)
  | perArg (ps : List Prefix)
  deriving Repr, Inhabited

/-- `broadcast_prefix(prefix, tree)` on a tuple of `k` leaves -/
def AxesSpec.expand (t : AxesSpec) (k : Nat) : Except Err (List Prefix) :=
  match t with
  | .uniform p => .ok (List.replicate k p)
  | .perArg ps => if ps.length = k then .ok ps else .error .prefixArity

/-! ## 2. `extract.check_consistent_aliasing` -/

/-- `node_prefixes`: every Variable met so far with the prefix it was met under -/
abbrev NodePrefixes := List (VarId × Ax)

/-- first loop: collect `(path, prefix)` of every Variable of the leaf -/
def collect (p : Prefix) : List Entry → NodePrefixes → Except Err NodePrefixes
  | [], np => .ok np
  | e :: es, np =>
    match p.at e with
    | .error err => .error err
    | .ok a => collect p es (np ++ [(e.id, a)])

/-- second loop: `len({prefix for _, prefix in paths_prefixes}) > 1` for no node -/
def consistent (np : NodePrefixes) : Bool :=
  np.all (fun x => np.all (fun y => !(decide (x.1 = y.1)) || decide (x.2 = y.2)))

def checkAliasing (p : Prefix) (es : List Entry) (np : NodePrefixes) : Except Err NodePrefixes :=
  match collect p es np with
  | .error e => .error e
  | .ok np' => if consistent np' then .ok np' else .error .inconsistentAliasing

/-! ## 3. `SplitContext.split` / `MergeContext.merge` -/

/-- the part of a `GraphDef` that matters here: for every Variable occurrence whether it is a `VariableDef`
(first occurrence under the shared `ref_index`) or a `NodeRef` -/
structure GraphDef where
  es : List Entry
  own : List Bool
  deriving Repr, DecidableEq, Inhabited

/-- `if node in ref_index: return NodeRef(...)` else `ref_index[node] = len(ref_index)` -/
def markOwn : List Entry → List VarId → List Bool × List VarId
  | [], seen => ([], seen)
  | e :: es, seen =>
    if e.id ∈ seen then ((markOwn es seen).1.cons false, (markOwn es seen).2)
    else ((markOwn es (seen ++ [e.id])).1.cons true, (markOwn es (seen ++ [e.id])).2)

/-- the occurrences that are `VariableDef`s: they are what the flat state holds, in this order -/
def ownedOf : List Entry → List Bool → List Entry
  | e :: es, true :: os => e :: ownedOf es os
  | _ :: es, false :: os => ownedOf es os
  | _, _ => []

def GraphDef.owned (g : GraphDef) : List Entry := ownedOf g.es g.own

/-- a (flat) `State`: path ↦ value -/
abbrev State (α : Type) := List (Path × Arr α)

/-- flat state with what the filters look at -/
abbrev Flat (α : Type) := List (Path × VarInfo × Arr α)

/-- the flat state of the owned Variables, with their current values -/
def flatOf {α : Type} (owned : List Entry) (st : Store α) : Except Err (Flat α) :=
  mapX (fun e => match st.lookup e.id with
    | some v => .ok (e.path, e.info, v)
    | none => .error .bodyContract) owned

/-- `_split_state(flat_state, filters)`: one state per filter, each item in the state of the first filter it
matches, ValueError when an item matches none -/
def splitStatesX {α : Type} (fs : List NFilter) (flat : Flat α) : Except Err (List (State α)) :=
  if flat.any (fun x => firstMatch fs x.1 x.2.1 == fs.length) then .error .nonExhaustive
  else .ok ((List.range fs.length).map (fun g =>
    (flat.filter (fun x => firstMatch fs x.1 x.2.1 == g)).map (fun x => (x.1, x.2.2))))

/-- `ctx.split(x, *prefix.filters)` for a `StateAxes` prefix, `ctx.split(x)` otherwise (states only) -/
def splitFlat {α : Type} (p : Prefix) (flat : Flat α) : Except Err (List (State α)) :=
  match p with
  | .ax _ => .ok [flat.map (fun x => (x.1, x.2.2))]
  | .sa s => splitStatesX (s.map (·.1)) flat

/-- `ctx.merge(graphdef, *states)` on the Variables: a `VariableDef` takes its value from the merged states by
path and registers its index, a `NodeRef` must find its index registered.  `inner` is `index_ref`. -/
def mergeEntries {α : Type} : List Entry → List Bool → State α → Store α → Except Err (Store α)
  | e :: es, true :: os, st, inner =>
    match st.lookup e.path with
    | some v => mergeEntries es os st (inner ++ [(e.id, v)])
    | none => .error .missingState
  | e :: es, false :: os, st, inner =>
    if (inner.lookup e.id).isSome then mergeEntries es os st inner else .error .danglingRef
  | _, _, _, inner => .ok inner

/-- outer `from_tree(…, is_inner=False)`: the states are written into the caller's Variables (C04 refinement:
by `outer_index`, i.e. by identity) -/
def updateStore {α : Type} : List Entry → State α → Store α → Except Err (Store α)
  | [], _, store => .ok store
  | e :: es, st, store =>
    match st.lookup e.path with
    | some v => updateStore es st (store.set e.id v)
    | none => .error .missingState

/-! ## 4. the traced function -/

/-- a result of the traced function: an array, a freshly created graph node (its Variables), or — for the carry
of `scan` — the very object it received as argument `k` -/
inductive Out (α : Type) where
  | arr (a : Arr α)
  | node (vs : Flat α)
  | argRef (k : Nat)
  deriving Repr

/-- the traced function, on the level of reference semantics: it sees one value per Variable (however many
paths and arguments reach it) and the array arguments, and leaves every Variable with a value -/
abbrev Body (α : Type) := Store α → List (Arr α) → Except Err (Store α × List (Out α))

/-! ## 5. `nnx.vmap` -/

/-- `extract.NodeStates` or a plain leaf -/
inductive PureArg (α : Type) where
  | node (g : GraphDef) (p : Prefix) (states : List (State α))
  | arr (p : Prefix) (a : Arr α)
  deriving Repr

/-- `extract.to_tree(args, prefix=in_axes, split_fn=_vmap_split_fn)`: per leaf the aliasing check, then the split -/
def toTree {α : Type} (store : Store α) :
    List (Prefix × Arg α) → NodePrefixes → List VarId → Except Err (List (PureArg α))
  | [], _, _ => .ok []
  | (p, .arr a) :: rest, np, seen =>
    match toTree store rest np seen with
    | .error e => .error e
    | .ok r => .ok (.arr p a :: r)
  | (p, .node es) :: rest, np, seen =>
    match checkAliasing p es np with
    | .error e => .error e
    | .ok np' =>
      match flatOf (ownedOf es (markOwn es seen).1) store with
      | .error e => .error e
      | .ok flat =>
        match splitFlat p flat with
        | .error e => .error e
        | .ok sts =>
          match toTree store rest np' (markOwn es seen).2 with
          | .error e => .error e
          | .ok r => .ok (.node ⟨es, (markOwn es seen).1⟩ p sts :: r)

/-- `from_tree(pure_args, is_inner=True)`: merge every NodeStates under one `index_ref` -/
def mergeAll {α : Type} : List (PureArg α) → Store α → Except Err (Store α)
  | [], inner => .ok inner
  | .arr _ _ :: rest, inner => mergeAll rest inner
  | .node g _ sts :: rest, inner =>
    match mergeEntries g.es g.own sts.flatten inner with
    | .error e => .error e
    | .ok inner' => mergeAll rest inner'

def arraysOf {α : Type} : List (PureArg α) → List (Arr α)
  | [] => []
  | .arr _ a :: rest => a :: arraysOf rest
  | .node _ _ _ :: rest => arraysOf rest

/-- size of every mapped leaf along its axis (jax.vmap checks all of them against each other) -/
def stateDims {α : Type} (a : Ax) (s : State α) : Except Err (List Nat) :=
  match a with
  | .axis k => mapX (fun pv => liftL (dimAt k pv.2)) s
  | .bcast => .ok []
  | .carry => .error .invalidAxes

def statesDims {α : Type} (axes : List Ax) (sts : List (State α)) : Except Err (List Nat) :=
  match mapX (fun p => stateDims p.1 p.2) (axes.zip sts) with
  | .error e => .error e
  | .ok ds => .ok ds.flatten

def argDims {α : Type} : PureArg α → Except Err (List Nat)
  | .node _ p sts => statesDims p.axes sts
  | .arr (.ax (.axis k)) a => match liftL (dimAt k a) with | .ok d => .ok [d] | .error e => .error e
  | .arr (.ax .bcast) _ => .ok []
  | .arr (.ax .carry) _ => .error .invalidAxes
  | .arr (.sa _) _ => .error .stateAxesOnArray

def vmapDims {α : Type} (pure : List (PureArg α)) : Except Err (List Nat) :=
  match mapX argDims pure with
  | .error e => .error e
  | .ok ds => .ok ds.flatten

/-- apply `t` to every value of a state (`jax.tree.map` over a `State`) -/
def leafMap {α β : Type} (t : Arr α → Except Err (Arr β)) (s : State α) : Except Err (State β) :=
  mapX (fun pv => match t pv.2 with
    | .ok v => .ok (pv.1, v)
    | .error e => .error e) s

/-- what index `i` of the mapped axis sees of one leaf with axis `a` (A-VMAP) -/
def sliceVal {α : Type} [Inhabited α] (i : Nat) (a : Ax) (v : Arr α) : Except Err (Arr α) :=
  match a with
  | .axis k => liftL (takeAt k i v)
  | .bcast => .ok v
  | .carry => .error .invalidAxes

/-- what index `i` of the mapped axis sees of one state -/
def sliceState {α : Type} [Inhabited α] (i : Nat) (a : Ax) (s : State α) : Except Err (State α) :=
  leafMap (sliceVal i a) s

def sliceArg {α : Type} [Inhabited α] (i : Nat) : PureArg α → Except Err (PureArg α)
  | .node g p sts =>
    match mapX (fun q => sliceState i q.1 q.2) (p.axes.zip sts) with
    | .error e => .error e
    | .ok sts' => .ok (.node g p sts')
  | .arr (.ax a) v =>
    match sliceVal i a v with
    | .ok v' => .ok (.arr (.ax a) v')
    | .error e => .error e
  | .arr (.sa _) _ => .error .stateAxesOnArray

/-- one result of the traced function after `to_tree(…, prefix=out_axes)` -/
inductive PureOut (α : Type) where
  | arr (p : Prefix) (a : Arr α)
  | node (p : Prefix) (vs : List (Path × VarInfo)) (states : List (State α))
  deriving Repr

/-- the inner `to_tree` on one result: for a fresh node the prefix must give every Variable an axis
(`check_consistent_aliasing` calls `map_prefix`), then the node is split by the prefix's filters -/
def splitOut {α : Type} (q : Prefix × Out α) : Except Err (PureOut α) :=
  match q.2 with
  | .arr a => .ok (.arr q.1 a)
  | .argRef _ => .error .unsupportedOut
  | .node vs =>
    match mapX (fun x => q.1.at ⟨x.1, 0, x.2.1⟩) vs with
    | .error e => .error e
    | .ok _ =>
      match splitFlat q.1 vs with
      | .error e => .error e
      | .ok sts => .ok (.node q.1 (vs.map (fun x => (x.1, x.2.1))) sts)

/-- the new states of one argument after the call (`args_out = clear_non_graph_nodes(args)`: arrays vanish) -/
def splitArgOut {α : Type} (inner' : Store α) : PureArg α → Except Err (List (State α))
  | .arr _ _ => .ok []
  | .node g p _ =>
    match flatOf g.owned inner' with
    | .error e => .error e
    | .ok flat => splitFlat p flat

/-- jax.vmap wants `in_axes` itself to be an int, None or a tuple: a bare `StateAxes` (which flax turns into a
`NodeStates`) is a TypeError -/
def AxesSpec.isBareStateAxes : AxesSpec → Bool
  | .uniform (.sa _) => true
  | _ => false

/-- `nnx.Carry` anywhere in an axes specification: `jax.vmap(…)` — called when `nnx.vmap(f, …)` is built — accepts only
ints and None as leaves (TypeError) -/
def Prefix.hasCarry : Prefix → Bool
  | .ax .carry => true
  | .ax _ => false
  | .sa s => s.any (fun fa => decide (fa.2 = .carry))

def AxesSpec.hasCarry : AxesSpec → Bool
  | .uniform p => p.hasCarry
  | .perArg ps => ps.any Prefix.hasCarry

/-- `VmapFn.__call__` -/
def vmapFn {α : Type} (body : Body α) (outAxes : AxesSpec) (pure : List (PureArg α)) :
    Except Err (List (List (State α)) × List (PureOut α)) :=
  match mergeAll pure [] with
  | .error e => .error e
  | .ok inner =>
    match body inner (arraysOf pure) with
    | .error e => .error e
    | .ok (inner', outs) =>
      match mapX (splitArgOut inner') pure with
      | .error e => .error e
      | .ok argsOut =>
        -- a bare StateAxes `out_axes` (a NodeStates for jax) only matches a single graph node, not a tuple of results
        if outAxes.isBareStateAxes && decide (outs.length ≠ 1) then .error .prefixArity else
        match outAxes.expand outs.length with
        | .error e => .error e
        | .ok ops =>
          match mapX splitOut (ops.zip outs) with
          | .error e => .error e
          | .ok pouts => .ok (argsOut, pouts)

/-- the per-index values of one state, stacked leaf by leaf (all indices come from one trace: same paths) -/
def stackStates {α : Type} (stk : List Nat → List (Arr α) → Except LErr (Arr α)) (ss : List (State α)) :
    Except Err (State α) :=
  match ss with
  | [] => .error (.lax .stackMismatch)
  | s0 :: _ =>
    mapX (fun pv =>
      match mapX (fun (s : State α) => match s.lookup pv.1 with
          | some a => .ok a
          | none => .error (.lax .stackMismatch)) ss with
      | .error e => .error e
      | .ok ls =>
        match liftL (stk pv.2.shape ls) with
        | .error e => .error e
        | .ok a => .ok (pv.1, a)) s0

/-- one state of the result: stacked along its axis, or — axis `None` — the unbatched value itself -/
def vmapCollectState {α : Type} [Inhabited α] (col : List (State α)) (a : Ax) : Except Err (State α) :=
  match a with
  | .axis k => stackStates (stackAt k) col
  | .bcast => match col with | s0 :: _ => .ok s0 | [] => .error (.lax .stackMismatch)
  | .carry => .error .invalidAxes

/-- states `g` of all indices -/
def column {β : Type} (g : Nat) (rows : List (List β)) : Except Err (List β) := mapX (pickX g) rows

def vmapCollectStates {α : Type} [Inhabited α] (axes : List Ax) (rows : List (List (State α))) :
    Except Err (List (State α)) :=
  mapX (fun q => match column q.1 rows with
    | .error e => .error e
    | .ok col => vmapCollectState col q.2) ((List.range axes.length).zip axes)

/-- rebuild a fresh result node from its stacked states -/
def rebuildNode {α : Type} (vs : List (Path × VarInfo)) (sts : List (State α)) : Except Err (Flat α) :=
  mapX (fun x => match sts.flatten.lookup x.1 with
    | some v => .ok (x.1, x.2, v)
    | none => .error .missingState) vs

def outArr {α : Type} : PureOut α → Except Err (Arr α)
  | .arr _ a => .ok a
  | .node _ _ _ => .error (.lax .stackMismatch)

def outStates {α : Type} : PureOut α → Except Err (List (State α))
  | .node _ _ sts => .ok sts
  | .arr _ _ => .error (.lax .stackMismatch)

/-- result `k` of the mapped function: `o0` is what index 0 returned there, `col` what all indices returned -/
def vmapCollectOut {α : Type} [Inhabited α] (o0 : PureOut α) (col : List (PureOut α)) : Except Err (Out α) :=
  match o0 with
  | .arr (.ax (.axis k)) a0 =>
    match mapX outArr col with
    | .error e => .error e
    | .ok ls => match liftL (stackAt k a0.shape ls) with | .ok a => .ok (.arr a) | .error e => .error e
  | .arr (.ax .bcast) a0 =>
    match mapX outArr col with
    | .error e => .error e
    | .ok _ => .ok (.arr a0)
  | .arr (.ax .carry) _ => .error .invalidAxes
  | .arr (.sa _) _ => .error .stateAxesOnArray
  | .node p vs _ =>
    match mapX outStates col with
    | .error e => .error e
    | .ok rows =>
      match vmapCollectStates p.axes rows with
      | .error e => .error e
      | .ok sts => match rebuildNode vs sts with | .ok fl => .ok (.node fl) | .error e => .error e

/-- write the collected states of every graph-node argument back into the caller's Variables; `rows[i]` holds, for
the arguments still to be processed, the states index `i` returned -/
def vmapWriteBack {α : Type} [Inhabited α] : List (List (List (State α))) → List (PureArg α) → Store α →
    Except Err (Store α)
  | _, [], store => .ok store
  | rows, .arr _ _ :: rest, store => vmapWriteBack (rows.map (·.drop 1)) rest store
  | rows, .node g p _ :: rest, store =>
    match column 0 rows with
    | .error e => .error e
    | .ok argRows =>
      match vmapCollectStates p.axes argRows with
      | .error e => .error e
      | .ok sts =>
        match updateStore g.owned sts.flatten store with
        | .error e => .error e
        | .ok store' => vmapWriteBack (rows.map (·.drop 1)) rest store'

/-- `nnx.vmap(f, in_axes, out_axes, axis_size)(*args)`.  `verdict` says whether every state and result declared
with axis `None` on the way out was unbatched in jax's trace. -/
def nnxVmap {α : Type} [Inhabited α] (inAxes outAxes : AxesSpec) (axisSize : Option Nat) (verdict : Bool)
    (body : Body α) (args : List (Arg α)) (store : Store α) : Except Err (Store α × List (Out α)) :=
  if inAxes.isBareStateAxes || inAxes.hasCarry || outAxes.hasCarry then .error .invalidAxes else
  match inAxes.expand args.length with
  | .error e => .error e
  | .ok ps =>
    match toTree store (ps.zip args) [] [] with
    | .error e => .error e
    | .ok pure =>
      match vmapDims pure with
      | .error e => .error e
      | .ok dims =>
        match liftL (jaxLength axisSize dims) with
        | .error e => .error e
        | .ok n =>
          match mapX (fun i => match mapX (sliceArg i) pure with
              | .error e => .error e
              | .ok sl => vmapFn body outAxes sl) (List.range n) with
          | .error e => .error e
          | .ok rs =>
            match rs with
            | [] => .error (.body "EmptyLoop")
            | r0 :: _ =>
              if !verdict then .error .unbatchedOutExpected else
              match vmapWriteBack (rs.map (·.1)) pure store with
              | .error e => .error e
              | .ok store' =>
                match mapX (fun q => match column q.1 (rs.map (·.2)) with
                    | .error e => .error e
                    | .ok col => vmapCollectOut q.2 col) ((List.range r0.2.length).zip r0.2) with
                | .error e => .error e
                | .ok outs => .ok (store', outs)

/-! ## 6. `nnx.scan` -/

inductive CarryPos where
  | none
  | all
  | at (k : Nat)
  deriving Repr, DecidableEq, Inhabited

def Prefix.isCarry : Prefix → Bool
  | .ax .carry => true
  | _ => false

/-- positions of the top-level `Carry` entries -/
def carryIdx : List Prefix → Nat → List Nat
  | [], _ => []
  | p :: ps, k => if p.isCarry then k :: carryIdx ps (k + 1) else carryIdx ps (k + 1)

/-- `_get_carry_argnum(axes)` -/
def carryArgnum (t : AxesSpec) : Except Err CarryPos :=
  match t with
  | .uniform p => if p.isCarry then .ok .all else .ok .none
  | .perArg ps =>
    match carryIdx ps 0 with
    | [] => .ok .none
    | [k] => .ok (.at k)
    | _ => .error .multipleCarry

/-- the inner loop of `_check_out_axes` over `StateAxes.items()` -/
def stateAxesOutOk : StateAxes → Except Err Unit
  | [] => .ok ()
  | (_, .bcast) :: _ => .error .outAxesBroadcast
  | (_, .carry) :: _ => .error .outAxesCarry
  | (_, .axis _) :: rest => stateAxesOutOk rest

def Prefix.outOk : Prefix → Except Err Unit
  | .ax .bcast => .error .outAxesBroadcast
  | .ax _ => .ok ()
  | .sa s => stateAxesOutOk s

def prefixesOutOk : List Prefix → Except Err Unit
  | [] => .ok ()
  | p :: ps => match p.outOk with | .error e => .error e | .ok _ => prefixesOutOk ps

/-- `_check_out_axes(out_axes)` -/
def checkOutAxes (t : AxesSpec) : Except Err Unit :=
  match t with
  | .uniform p => p.outOk
  | .perArg ps => prefixesOutOk ps

/-- what `nnx.scan(f, in_axes=…, out_axes=…)` checks before anything is called -/
def scanSetup (inAxes outAxes : AxesSpec) : Except Err (CarryPos × CarryPos) :=
  match checkOutAxes outAxes with
  | .error e => .error e
  | .ok _ =>
    match carryArgnum inAxes with
    | .error e => .error e
    | .ok cin =>
      match carryArgnum outAxes with
      | .error e => .error e
      | .ok cout =>
        if decide (cin = .none) != decide (cout = .none) then .error .carryMismatch else .ok (cin, cout)

/-- what `_scan_split_in` leaves in `pure_args` for one argument -/
inductive SPure (α : Type) where
  | node (g : GraphDef) (p : Prefix) (vec : List (State α))   -- NodeStates(graphdef, *vectorized_states)
  | arrX (k : Int) (a : Arr α)                                  -- scanned array, already `moveaxis(x, k, 0)`
  | arrCarry (a : Arr α)                                        -- `prefix is Carry: return x`
  | hole                                                        -- `Broadcasted(None)`
  deriving Repr

structure ScanIn (α : Type) where
  pure : List (SPure α)
  carryDeque : List (List (State α))
  bcastDeque : List (List (State α))
  bcastArrays : List (Arr α)
  deriving Repr

def toFrontState {α : Type} [Inhabited α] (k : Int) (s : State α) : Except Err (State α) :=
  leafMap (fun v => liftL (Arr.toFront k v)) s

/-- `for state, axis in zip(states, prefix.axes)`: the three routes of `_scan_split_in`
(`moveIn = true`) and `_scan_split_out` (`moveIn = false`: inside the loop the scanned axis is already gone) -/
def routeStates {α : Type} [Inhabited α] (moveIn : Bool) :
    List (Ax × State α) → Except Err (List (State α) × List (State α) × List (State α))
  | [] => .ok ([], [], [])
  | (a, s) :: rest =>
    match routeStates moveIn rest with
    | .error e => .error e
    | .ok (vec, car, bc) =>
      match a with
      | .bcast => .ok (vec, car, s :: bc)
      | .carry => .ok (vec, s :: car, bc)
      | .axis k =>
        if moveIn then
          match toFrontState k s with
          | .error e => .error e
          | .ok s' => .ok (s' :: vec, car, bc)
        else .ok (s :: vec, car, bc)

/-- `_scan_split_in` on one argument, after the aliasing check -/
def scanSplitIn {α : Type} [Inhabited α] (store : Store α) :
    List (Prefix × Arg α) → NodePrefixes → List VarId → Except Err (ScanIn α)
  | [], _, _ => .ok ⟨[], [], [], []⟩
  | (p, .arr a) :: rest, np, seen =>
    match p with
    | .sa _ => .error .stateAxesOnArray
    | .ax ax =>
      match scanSplitIn store rest np seen with
      | .error e => .error e
      | .ok r =>
        match ax with
        | .carry => .ok { r with pure := .arrCarry a :: r.pure }
        | .bcast => .ok { r with pure := .hole :: r.pure, bcastArrays := a :: r.bcastArrays }
        | .axis k =>
          match liftL (Arr.toFront k a) with
          | .error e => .error e
          | .ok a' => .ok { r with pure := .arrX k a' :: r.pure }
  | (p, .node es) :: rest, np, seen =>
    match checkAliasing p es np with
    | .error e => .error e
    | .ok np' =>
      match flatOf (ownedOf es (markOwn es seen).1) store with
      | .error e => .error e
      | .ok flat =>
        match splitFlat p flat with
        | .error e => .error e
        | .ok sts =>
          match routeStates true (p.axes.zip sts) with
          | .error e => .error e
          | .ok (vec, car, bc) =>
            match scanSplitIn store rest np' (markOwn es seen).2 with
            | .error e => .error e
            | .ok r =>
              .ok { pure := .node ⟨es, (markOwn es seen).1⟩ p vec :: r.pure,
                    carryDeque := car :: r.carryDeque, bcastDeque := bc :: r.bcastDeque,
                    bcastArrays := r.bcastArrays }

/-- leading sizes of everything `lax.scan` is to slice -/
def leadDims {α : Type} (s : State α) : Except Err (List Nat) := mapX (fun pv => liftL (leadDim pv.2)) s

def spureDims {α : Type} : SPure α → Except Err (List Nat)
  | .node _ _ vec => match mapX leadDims vec with | .ok ds => .ok ds.flatten | .error e => .error e
  | .arrX _ a => match liftL (leadDim a) with | .ok d => .ok [d] | .error e => .error e
  | .arrCarry _ => .ok []
  | .hole => .ok []

def scanDims {α : Type} (pure : List (SPure α)) : Except Err (List Nat) :=
  match mapX spureDims pure with
  | .error e => .error e
  | .ok ds => .ok ds.flatten

def take0State {α : Type} [Inhabited α] (i : Nat) (s : State α) : Except Err (State α) :=
  leafMap (fun v => liftL (v.take 0 i)) s

/-- slice `i` of `xs` along the leading axis (the carry argument and the holes are not in `xs`) -/
def spureAt {α : Type} [Inhabited α] (i : Nat) : SPure α → Except Err (SPure α)
  | .node g p vec => match mapX (take0State i) vec with | .ok v => .ok (.node g p v) | .error e => .error e
  | .arrX k a => match liftL (a.take 0 i) with | .ok v => .ok (.arrX k v) | .error e => .error e
  | .arrCarry a => .ok (.arrCarry a)
  | .hole => .ok .hole

/-- `_scan_merge_in` over the leaves of `pure_args`, popping the three deques from the left; afterwards
`assert not carry_deque and not broadcast_deque and not broadcast_arrays` -/
def scanMergeIn {α : Type} : List (SPure α) → List (List (State α)) → List (List (State α)) → List (Arr α) →
    Option (Arr α) → Store α → Except Err (Store α × List (Arr α))
  | [], cd, bd, ba, _, inner =>
    if cd.isEmpty && bd.isEmpty && ba.isEmpty then .ok (inner, []) else .error .dequeEmpty
  | .node g _ vec :: rest, c :: cd, b :: bd, ba, ca, inner =>
    match mergeEntries g.es g.own (vec.flatten ++ c.flatten ++ b.flatten) inner with
    | .error e => .error e
    | .ok inner' => scanMergeIn rest cd bd ba ca inner'
  | .node _ _ _ :: _, _, _, _, _, _ => .error .dequeEmpty
  | .arrX _ a :: rest, cd, bd, ba, ca, inner =>
    match scanMergeIn rest cd bd ba ca inner with
    | .error e => .error e
    | .ok (s, as) => .ok (s, a :: as)
  | .arrCarry a :: rest, cd, bd, ba, ca, inner =>
    match scanMergeIn rest cd bd ba ca inner with
    | .error e => .error e
    | .ok (s, as) => .ok (s, (ca.getD a) :: as)
  | .hole :: rest, cd, bd, a :: ba, ca, inner =>
    match scanMergeIn rest cd bd ba ca inner with
    | .error e => .error e
    | .ok (s, as) => .ok (s, a :: as)
  | .hole :: _, _, _, [], _, _ => .error .dequeEmpty

/-- what the carry argument is: nothing, an array, or the graph node passed as argument `k` -/
inductive CarryArg where
  | none
  | array
  | node (k : Nat)
  deriving Repr, DecidableEq, Inhabited

def carryArgOf {α : Type} (cin : CarryPos) (args : List (Arg α)) : Except Err CarryArg :=
  match cin with
  | .none => .ok .none
  | .all =>
    match args with
    | [.arr _] => .ok .array
    | [.node _] => .ok (.node 0)
    | _ => .error .carryAllArity
  | .at k =>
    match args[k]? with
    | some (.arr _) => .ok .array
    | some (.node _) => .ok (.node k)
    | none => .error .prefixArity

/-- the position of the carry among the results -/
def carryOutIdx (cout : CarryPos) : Option Nat :=
  match cout with
  | .none => none
  | .all => some 0
  | .at k => some k

/-- `_check_carry_same_references(carry_arg, carry_arg_out)`: unless both are arrays, the very same object -/
def checkCarryRefs {α : Type} (ca : CarryArg) (o : Option (Out α)) : Except Err (Option (Arr α)) :=
  match ca, o with
  | .none, none => .ok none
  | .array, some (.arr a) => .ok (some a)
  | .node k, some (.argRef j) => if k = j then .ok none else .error .carryRefs
  | _, _ => .error .carryRefs

/-- the results other than the carry, with their prefixes -/
def dropCarry {β : Type} (co : Option Nat) (xs : List β) : List β :=
  match co with
  | none => xs
  | some k => xs.eraseIdx k

/-- `_scan_split_out` on one input argument: vectorised states stay in `pure_args_out`, carry states go to
`carry_deque_out`, broadcast states to a deque that is discarded -/
def scanSplitArgOut {α : Type} [Inhabited α] (inner' : Store α) :
    SPure α → Except Err (Option (List (State α) × List (State α)))
  | .node g p _ =>
    match flatOf g.owned inner' with
    | .error e => .error e
    | .ok flat =>
      match splitFlat p flat with
      | .error e => .error e
      | .ok sts =>
        match routeStates false (p.axes.zip sts) with
        | .error e => .error e
        | .ok (vec, car, _) => .ok (some (vec, car))
  | _ => .ok none

/-- the carry of `lax.scan`: the array carried (if the carry argument is an array) and `carry_deque`;
`broadcast_deque` and `broadcast_arrays` are handed on unchanged (`broadcast_deque_out = PytreeDeque(broadcast_deque)`) -/
abbrev ScanCarry (α : Type) := Option (Arr α) × List (List (State α))

/-- the per-iteration outputs: vectorised states of every graph-node argument, the other results -/
abbrev ScanY (α : Type) := List (List (State α)) × List (PureOut α)

/-- `ScanFn.__call__` -/
def scanFn {α : Type} [Inhabited α] (body : Body α) (ca : CarryArg) (cout : CarryPos) (outPs : List Prefix)
    (bcastDeque : List (List (State α))) (bcastArrays : List (Arr α))
    (c : ScanCarry α) (xs : List (SPure α)) : Except Err (ScanCarry α × ScanY α) :=
  match scanMergeIn xs c.2 bcastDeque bcastArrays c.1 [] with
  | .error e => .error e
  | .ok (inner, arrs) =>
    match body inner arrs with
    | .error e => .error e
    | .ok (inner', outs) =>
      match checkCarryRefs ca ((carryOutIdx cout).bind (fun k => outs[k]?)) with
      | .error e => .error e
      | .ok cArr =>
        match mapX (scanSplitArgOut inner') xs with
        | .error e => .error e
        | .ok parts =>
          let rest := dropCarry (carryOutIdx cout) outs
          if outPs.length ≠ rest.length then .error .prefixArity else
          match mapX splitOut (outPs.zip rest) with
          | .error e => .error e
          | .ok pouts =>
            .ok ((cArr, (parts.filterMap id).map (·.2)), ((parts.filterMap id).map (·.1), pouts))

/-- jax's check that the carry keeps its structure and leaf shapes -/
def sameCarry {α : Type} (a b : ScanCarry α) : Bool :=
  decide (a.1.map (·.shape) = b.1.map (·.shape)) &&
  decide (a.2.map (fun l => l.map (fun s => s.map (fun pv => (pv.1, pv.2.shape)))) =
          b.2.map (fun l => l.map (fun s => s.map (fun pv => (pv.1, pv.2.shape)))))

/-- one iteration of `lax.scan`: slice, call, check the carry, remember the output (A-SCAN) -/
def scanStep {σ χ ω : Type} (xsAt : Nat → Except Err χ) (f : σ → χ → Except Err (σ × ω))
    (same : σ → σ → Bool) (st : σ × List ω) (i : Nat) : Except Err (σ × List ω) :=
  match xsAt i with
  | .error e => .error e
  | .ok x =>
    match f st.1 x with
    | .error e => .error e
    | .ok r => if same st.1 r.1 then .ok (r.1, st.2 ++ [r.2]) else .error (.lax .carryStructure)

/-- `jax.lax.scan(f, init, xs, length=n, reverse=…)` (A-SCAN) -/
def laxScanX {σ χ ω : Type} (n : Nat) (reverse : Bool) (xsAt : Nat → Except Err χ)
    (f : σ → χ → Except Err (σ × ω)) (same : σ → σ → Bool) (init : σ) : Except Err (σ × List ω) :=
  match foldX (scanStep xsAt f same) (init, []) (if reverse then (List.range n).reverse else List.range n) with
  | .error e => .error e
  | .ok r => .ok (r.1, if reverse then r.2.reverse else r.2)

/-- the three routes on the way back (`_scan_merge_out`, StateAxes branch): walk `prefix.axes`, taking the next
vectorised state (stacked along 0 by lax.scan, then `moveaxis(x, 0, axis)`), carry state or broadcast state -/
def unrouteStates {α : Type} :
    List Ax → List (State α) → List (State α) → List (State α) → Except Err (List (State α))
  | [], _, _, _ => .ok []
  | .axis _ :: rest, v :: vec, car, bc =>
    match unrouteStates rest vec car bc with | .ok r => .ok (v :: r) | .error e => .error e
  | .bcast :: rest, vec, car, b :: bc =>
    match unrouteStates rest vec car bc with | .ok r => .ok (b :: r) | .error e => .error e
  | .carry :: rest, vec, c :: car, bc =>
    match unrouteStates rest vec car bc with | .ok r => .ok (c :: r) | .error e => .error e
  | _, _, _, _ => .error .dequeEmpty

/-- the integer axes of a prefix, in order: one per vectorised state -/
def axisKs (axes : List Ax) : List Int :=
  axes.filterMap (fun a => match a with | .axis k => some k | _ => none)

/-- `vectorized_states.popleft()` once per integer axis: `rows[i]` holds the vectorised states iteration `i` returned
that are still to be processed; each is stacked along 0 by lax.scan and then `moveaxis(x, 0, axis)` -/
def scanCollectVecK {α : Type} [Inhabited α] : List Int → List (List (State α)) → Except Err (List (State α))
  | [], _ => .ok []
  | k :: ks, rows =>
    match column 0 rows with
    | .error e => .error e
    | .ok col =>
      match stackStates (stackFront k) col with
      | .error e => .error e
      | .ok s =>
        match scanCollectVecK ks (rows.map (·.drop 1)) with
        | .error e => .error e
        | .ok r => .ok (s :: r)

/-- the vectorised states of one node over all iterations, stacked along 0 and moved to their axes -/
def scanCollectVec {α : Type} [Inhabited α] (axes : List Ax) (rows : List (List (State α))) :
    Except Err (List (State α)) :=
  scanCollectVecK (axisKs axes) rows

/-- `_scan_merge_out` over the graph-node arguments: pops the final `carry_deque_out` and the (unchanged)
`broadcast_deque`, and writes the merged states into the caller's Variables; `rows[i]` holds, for the graph-node
arguments still to be processed, the vectorised states iteration `i` returned -/
def scanWriteBack {α : Type} [Inhabited α] : List (List (List (State α))) →
    List (SPure α) → List (List (State α)) → List (List (State α)) → Store α → Except Err (Store α)
  | _, [], _, _, store => .ok store
  | rows, .node g p _ :: rest, c :: cd, b :: bd, store =>
    match column 0 rows with
    | .error e => .error e
    | .ok argRows =>
      match scanCollectVec p.axes argRows with
      | .error e => .error e
      | .ok vec =>
        match unrouteStates p.axes vec c b with
        | .error e => .error e
        | .ok sts =>
          match updateStore g.owned sts.flatten store with
          | .error e => .error e
          | .ok store' => scanWriteBack (rows.map (·.drop 1)) rest cd bd store'
  | _, .node _ _ _ :: _, _, _, _ => .error .dequeEmpty
  | rows, _ :: rest, cd, bd, store => scanWriteBack rows rest cd bd store

/-- result `k` (other than the carry): stacked along 0, then `moveaxis(x, 0, prefix)` -/
def scanCollectOut {α : Type} [Inhabited α] (o0 : PureOut α) (col : List (PureOut α)) : Except Err (Out α) :=
  match o0 with
  | .arr (.ax (.axis k)) a0 =>
    match mapX outArr col with
    | .error e => .error e
    | .ok ls => match liftL (stackFront k a0.shape ls) with | .ok a => .ok (.arr a) | .error e => .error e
  | .arr (.ax .carry) _ => .error .multipleCarry
  | .arr (.ax .bcast) _ => .error .outAxesBroadcast
  | .arr (.sa _) _ => .error .stateAxesOnArray
  | .node p vs _ =>
    match mapX outStates col with
    | .error e => .error e
    | .ok rows =>
      match scanCollectVec p.axes rows with
      | .error e => .error e
      | .ok vec =>
        match unrouteStates p.axes vec [] [] with
        | .error e => .error e
        | .ok sts => match rebuildNode vs sts with | .ok fl => .ok (.node fl) | .error e => .error e

/-- result `q.1` over all iterations (`q.2` is what iteration 0 returned there) -/
def scanOutAt {α : Type} [Inhabited α] (rows : List (List (PureOut α))) (q : Nat × PureOut α) : Except Err (Out α) :=
  match column q.1 rows with
  | .error e => .error e
  | .ok col => scanCollectOut q.2 col

/-- put the carry back among the results -/
def insertCarry {α : Type} (cout : CarryPos) (ca : CarryArg) (cArr : Option (Arr α)) (outs : List (Out α)) :
    Except Err (List (Out α)) :=
  match carryOutIdx cout, ca, cArr with
  | none, _, _ => .ok outs
  | some k, .array, some a => .ok (outs.insertIdx k (.arr a))
  | some k, .node j, _ => .ok (outs.insertIdx k (.argRef j))
  | some _, _, _ => .error .carryRefs

/-- the prefixes of the results other than the carry -/
def outPrefixes (outAxes : AxesSpec) (cout : CarryPos) (nOuts : Nat) : Except Err (List Prefix) :=
  match outAxes, cout with
  | .uniform _, .all => .ok []
  | .uniform p, _ => .ok (List.replicate nOuts p)
  | .perArg ps, _ => .ok (dropCarry (carryOutIdx cout) ps)

/-- the carry the loop starts from -/
def initCarryArr {α : Type} : List (SPure α) → Option (Arr α)
  | [] => none
  | .arrCarry a :: _ => some a
  | _ :: rest => initCarryArr rest

/-- `nnx.scan(f, length, reverse, in_axes, out_axes)(*args)`; `nOuts` is the number of results other than the
carry the traced function returns when `out_axes` is a single entry (jax learns it from the trace) -/
def nnxScan {α : Type} [Inhabited α] (inAxes outAxes : AxesSpec) (length : Option Nat) (reverse : Bool)
    (nOuts : Nat) (body : Body α) (args : List (Arg α)) (store : Store α) :
    Except Err (Store α × List (Out α)) :=
  match scanSetup inAxes outAxes with
  | .error e => .error e
  | .ok (cin, cout) =>
    if decide (cin = .all) && decide (args.length ≠ 1) then .error .carryAllArity else
    match inAxes.expand args.length with
    | .error e => .error e
    | .ok ps =>
      match scanSplitIn store (ps.zip args) [] [] with
      | .error e => .error e
      | .ok si =>
        match carryArgOf cin args with
        | .error e => .error e
        | .ok ca =>
          match outPrefixes outAxes cout nOuts with
          | .error e => .error e
          | .ok outPs =>
            match scanDims si.pure with
            | .error e => .error e
            | .ok dims =>
              match liftL (jaxLength length dims) with
              | .error e => .error e
              | .ok n =>
                if n = 0 then .error (.body "EmptyLoop") else
                match laxScanX n reverse (fun i => mapX (spureAt i) si.pure)
                    (scanFn body ca cout outPs si.bcastDeque si.bcastArrays) sameCarry
                    (initCarryArr si.pure, si.carryDeque) with
                | .error e => .error e
                | .ok (cfin, ys) =>
                  match ys with
                  | [] => .error (.body "EmptyLoop")
                  | y0 :: _ =>
                    match scanWriteBack (ys.map (·.1)) si.pure cfin.2 si.bcastDeque store with
                    | .error e => .error e
                    | .ok store' =>
                      match mapX (scanOutAt (ys.map (·.2))) ((List.range y0.2.length).zip y0.2) with
                      | .error e => .error e
                      | .ok outs =>
                        match insertCarry cout ca cfin.1 outs with
                        | .error e => .error e
                        | .ok outs' => .ok (store', outs')

/-! ## 7. `nnx.grad` / `nnx.value_and_grad` -/

/- structural equality of filters (Python `==` on the filter objects: types by identity; `PathContains`, `Any`,
`All`, `Not`, `WithTag`, `OfType` compare by value) -/
mutual
  def nfEq : NFilter → NFilter → Bool
    | .withTag a, .withTag b => decide (a = b)
    | .ofType a, .ofType b => decide (a = b)
    | .pathContains a, .pathContains b => decide (a = b)
    | .pathIn a, .pathIn b => decide (a = b)
    | .any a, .any b => nfEqList a b
    | .allOf a, .allOf b => nfEqList a b
    | .not a, .not b => nfEq a b
    | .everything, .everything => true
    | .nothing, .nothing => true
    | _, _ => false
  def nfEqList : List NFilter → List NFilter → Bool
    | [], [] => true
    | a :: as, b :: bs => nfEq a b && nfEqList as bs
    | _, _ => false
end

/-- one entry of `argnums`: an `int` (→ `DiffState(i, nnx.Param)`) or a `DiffState(i, filter)` -/
structure DiffArg where
  argnum : Nat
  filter : Option NFilter
  deriving Repr, Inhabited

/-- the default filter of a bare integer argnum -/
def paramFilter : NFilter := .ofType "Param"

/-- `index_filter`: argnum ↦ filter; a repeated argnum is a ValueError -/
def indexFilter : List DiffArg → List (Nat × NFilter) → Except Err (List (Nat × NFilter))
  | [], acc => .ok acc
  | d :: ds, acc =>
    if (acc.lookup d.argnum).isSome then .error .repeatedArgnum
    else indexFilter ds (acc ++ [(d.argnum, d.filter.getD paramFilter)])

/-- `arg_filters = tuple(index_filter.get(i) for i in range(len(args)))` -/
def argFilters (ifl : List (Nat × NFilter)) (n : Nat) : List (Option NFilter) :=
  (List.range n).map (fun i => ifl.lookup i)

/-- equality of the prefixes `check_consistent_aliasing` sees in `grad`: `None` or `DiffState(-1, filter)` -/
def gpEq : Option NFilter → Option NFilter → Bool
  | none, none => true
  | some a, some b => nfEq a b
  | _, _ => false

abbrev GPrefixes := List (VarId × Option NFilter)

def gConsistent (np : GPrefixes) : Bool :=
  np.all (fun x => np.all (fun y => !(decide (x.1 = y.1)) || gpEq x.2 y.2))

/-- `NodeStates(graphdef, diff)` (or the whole state for an argument that is not differentiated), or a leaf -/
inductive GPure (α : Type) where
  | node (g : GraphDef) (st : State α)
  | arr (a : Arr α)
  deriving Repr

/-- `extract.to_tree(args, prefix=arg_filters, split_fn=_grad_split_fn)`: aliasing check per leaf, then
`ctx.split(value, prefix.filter, ...)` → `diff`, `nondiff`; `nondiff_states.append(nondiff)` (`None` when the argument
is not differentiated) -/
def gradToTree {α : Type} (store : Store α) :
    List (Option NFilter × Arg α) → GPrefixes → List VarId → Except Err (List (GPure α) × List (Option (State α)))
  | [], _, _ => .ok ([], [])
  | (_, .arr a) :: rest, np, seen =>
    match gradToTree store rest np seen with
    | .error e => .error e
    | .ok r => .ok (.arr a :: r.1, r.2)
  | (p, .node es) :: rest, np, seen =>
    if !gConsistent (np ++ es.map (fun e => (e.id, p))) then .error .inconsistentAliasing else
    match flatOf (ownedOf es (markOwn es seen).1) store with
    | .error e => .error e
    | .ok flat =>
      match gradToTree store rest (np ++ es.map (fun e => (e.id, p))) (markOwn es seen).2 with
      | .error e => .error e
      | .ok r =>
        match p with
        | none => .ok (.node ⟨es, (markOwn es seen).1⟩ (flat.map (fun x => (x.1, x.2.2))) :: r.1, none :: r.2)
        | some f =>
          match splitStatesX [f, .everything] flat with
          | .ok [diff, nondiff] => .ok (.node ⟨es, (markOwn es seen).1⟩ diff :: r.1, some nondiff :: r.2)
          | .ok _ => .error .nonExhaustive
          | .error e => .error e

/-- `_grad_merge_fn` over the leaves, popping `nondiff_states` from the left -/
def gradMergeAll {α : Type} : List (GPure α) → List (Option (State α)) → Store α → Except Err (Store α)
  | [], _, inner => .ok inner
  | .arr _ :: rest, nd, inner => gradMergeAll rest nd inner
  | .node g st :: rest, n :: nd, inner =>
    match mergeEntries g.es g.own (st ++ n.getD []) inner with
    | .error e => .error e
    | .ok inner' => gradMergeAll rest nd inner'
  | .node _ _ :: _, [], _ => .error .dequeEmpty

def gArraysOf {α : Type} : List (GPure α) → List (Arr α)
  | [] => []
  | .arr a :: rest => a :: gArraysOf rest
  | .node _ _ :: rest => gArraysOf rest

/-- what travels as `has_aux` data out of the function handed to jax: the states of all graph-node arguments after
the forward pass (`pure_args_out`) and the user's aux -/
structure GAux (α : Type) where
  argsOut : List (Option (State α))
  aux : List (Out α)
  deriving Repr

def gradArgOut {α : Type} (inner' : Store α) : GPure α → Except Err (Option (State α))
  | .arr _ => .ok none
  | .node g _ =>
    match flatOf g.owned inner' with
    | .error e => .error e
    | .ok flat => .ok (some (flat.map (fun x => (x.1, x.2.2))))

/-- `GradFn.__call__`: merge (diff from the argument, nondiff closed over), run, split everything again -/
def gradFn {α : Type} (body : Body α) (hasAux : Bool) (nondiff : List (Option (State α))) (pure : List (GPure α)) :
    Except Err (Arr α × GAux α) :=
  match gradMergeAll pure nondiff [] with
  | .error e => .error e
  | .ok inner =>
    match body inner (gArraysOf pure) with
    | .error e => .error e
    | .ok (inner', outs) =>
      match mapX (gradArgOut inner') pure with
      | .error e => .error e
      | .ok argsOut =>
        match outs with
        | .arr loss :: aux =>
          if !hasAux && !aux.isEmpty then .error .notScalarLoss
          else if loss.shape ≠ [] then .error .notScalarLoss
          else if aux.any (fun o => match o with | .argRef _ => true | _ => false) then .error .unsupportedOut
          else .ok (loss, ⟨argsOut, aux⟩)
        | _ => .error .notScalarLoss

/-- a differentiated position as jax sees it: the leaves of a `NodeStates(graphdef, diff)`, or an array -/
inductive DIn (α : Type) where
  | state (s : State α)
  | arr (a : Arr α)
  deriving Repr

/-- the tree structure jax sees of a differentiated position -/
def DIn.struct {α : Type} : DIn α → Option (List (Path × List Nat)) × Option (List Nat)
  | .state s => (some (s.map (fun pv => (pv.1, pv.2.shape))), none)
  | .arr a => (none, some a.shape)

/-- A-AD: the contract of `jax.value_and_grad(fun, argnums, has_aux=True)` assumed of JAX.  `fun` is seen as a
function of the differentiated positions only (the others are constants of the call).  Being a Lean function of a Lean
function, `vag` depends only on the extension of `fun`. -/
structure AD (α : Type) where
  vag : {β : Type} → (List (DIn α) → Except Err (Arr α × β)) → List (DIn α) → Except Err ((Arr α × β) × List (DIn α))
  /-- the value and the aux are the function's (an error while tracing it is raised) -/
  vag_val : ∀ {β : Type} (f : List (DIn α) → Except Err (Arr α × β)) x,
    (match vag f x with | .ok r => .ok r.1 | .error e => .error e) = f x
  /-- gradients have the tree structure of the primals -/
  vag_struct : ∀ {β : Type} (f : List (DIn α) → Except Err (Arr α × β)) x r g,
    vag f x = .ok (r, g) → g.map DIn.struct = x.map DIn.struct

/-- the differentiated positions of `pure_args` -/
def dinOf {α : Type} (pure : List (GPure α)) (argnums : List Nat) : Except Err (List (DIn α)) :=
  mapX (fun k => match (pure[k]? : Option (GPure α)) with
    | some (GPure.node _ st) => .ok (DIn.state st)
    | some (GPure.arr a) => .ok (DIn.arr a)
    | none => .error .argnumRange) argnums

/-- put (traced) values back at the differentiated positions -/
def substDin {α : Type} : List (GPure α) → List (Nat × DIn α) → List (GPure α)
  | pure, [] => pure
  | pure, (k, d) :: rest =>
    substDin (match pure[k]?, d with
      | some (.node g _), .state s => pure.set k (.node g s)
      | some (.arr _), .arr a => pure.set k (.arr a)
      | _, _ => pure) rest

/-- the function `_grad_general` hands to `jax.grad` / `jax.value_and_grad`, as a function of the differentiated
positions -/
def gradClosure {α : Type} (body : Body α) (hasAux : Bool) (nondiff : List (Option (State α)))
    (pure : List (GPure α)) (argnums : List Nat) : List (DIn α) → Except Err (Arr α × GAux α) :=
  fun dins => gradFn body hasAux nondiff (substDin pure (argnums.zip dins))

/-- write the forward pass's states back into the caller's Variables (`process_out` → `from_tree(is_inner=False)`) -/
def gradWriteBack {α : Type} : List (GPure α) → List (Option (State α)) → Store α → Except Err (Store α)
  | [], _, store => .ok store
  | .arr _ :: rest, _ :: os, store => gradWriteBack rest os store
  | .node g _ :: rest, some st :: os, store =>
    match updateStore g.owned st store with
    | .error e => .error e
    | .ok store' => gradWriteBack rest os store'
  | _, _, _ => .error .missingState

structure GradRes (α : Type) where
  store : Store α
  loss : Arr α              -- returned by `value_and_grad` only
  grads : List (DIn α)      -- one per entry of `argnums`: a `State` for a graph node, an array for an array
  aux : List (Out α)
  deriving Repr

/-- `nnx.grad` / `nnx.value_and_grad` (they differ in whether `loss` is returned) -/
def nnxGrad {α : Type} (ad : AD α) (argnums : List DiffArg) (hasAux : Bool) (body : Body α)
    (args : List (Arg α)) (store : Store α) : Except Err (GradRes α) :=
  match indexFilter argnums [] with
  | .error e => .error e
  | .ok ifl =>
    match gradToTree store ((argFilters ifl args.length).zip args) [] [] with
    | .error e => .error e
    | .ok (pure, nondiff) =>
      match dinOf pure (argnums.map (·.argnum)) with
      | .error e => .error e
      | .ok dins =>
        match ad.vag (gradClosure body hasAux nondiff pure (argnums.map (·.argnum))) dins with
        | .error e => .error e
        | .ok ((loss, ga), grads) =>
          match gradWriteBack pure ga.argsOut store with
          | .error e => .error e
          | .ok store' => .ok ⟨store', loss, grads, ga.aux⟩

end Flax.NnxLoop
