/-
Model of the NNX `State` conversions and set operations (flax/nnx/statelib.py).

  FlatState (sorted keys), to_flat_state, from_flat_state, to_pure_dict, replace_by_pure_dict,
  split_state / filter_state (through `_split_state`), merge_state, diff, State.__or__, State.__sub__.

A `State` is its `_mapping`: a nested dict (`Tree Key α`, root always a dict) whose keys are `str` or `int` and
whose leaves `α` are opaque (VariableState objects or plain values). A `FlatState` is a list of `(path, leaf)`.
`diff` and `replace_by_pure_dict` are modelled as *repaired* by the `fix:` commits for findings F2 and F14; the
definitions shipped before are kept as `diffOrig` / `replaceByPureOrig`.

Core Lean only (no Mathlib): this file is in the import closure of the compiled driver.
-/
import Flax.Model.Traverse

namespace Flax.State
open Flax.Traverse

/-- a key of a State path: attribute names are `str`, list indices are `int` -/
inductive Key where
  | str (s : String)
  | int (n : Int)
  deriving DecidableEq, Repr, Inhabited

abbrev SPath := List Key
/-- `State._mapping` -/
abbrev SMap (α : Type) := List (Key × Tree Key α)
/-- the items of a `FlatState` / of a flat `dict[PathParts, leaf]` -/
abbrev Flat (α : Type) := List (SPath × α)

inductive SErr where
  | trav (e : Err)        -- raised inside flatten / unflatten
  | nonExhaustive         -- split_state: "Non-exhaustive filters, got a non-empty remainder" (ValueError)
  | keyNotInState         -- replace_by_pure_dict: "key in pure_dict not available in state" (ValueError)
  | attributeError        -- diff as shipped: 'FlatState' object has no attribute 'items'
  deriving Repr, DecidableEq, Inhabited

def SErr.name : SErr → String
  | .trav e => e.name
  | .nonExhaustive => "NonExhaustive"
  | .keyNotInState => "KeyNotInState"
  | .attributeError => "AttributeError"

def liftE {β : Type} : Except Err β → Except SErr β
  | .ok v => .ok v
  | .error e => .error (.trav e)

variable {α β : Type}

/-! ### FlatState ordering (Python tuple / str / int comparison) -/

/-- `a < b` on keys of the same kind; the generators never put `str` and `int` keys side by side (Python raises
`TypeError` when the sort has to compare them), so the mixed case is a convention that is never exercised -/
def Key.lt : Key → Key → Bool
  | .str a, .str b => decide (a < b)
  | .int a, .int b => decide (a < b)
  | .int _, .str _ => true
  | .str _, .int _ => false

/-- lexicographic `tuple <= tuple` -/
def pathLe : SPath → SPath → Bool
  | [], _ => true
  | _ :: _, [] => false
  | a :: p, b :: q => if a = b then pathLe p q else Key.lt a b

/-- `sorted(items)` of `FlatState(items, sort=True)` (a stable insertion sort; paths are distinct, so leaves are
never compared) -/
def insertFlat (x : SPath × α) : Flat α → Flat α
  | [] => [x]
  | y :: ys => if pathLe x.1 y.1 then x :: y :: ys else y :: insertFlat x ys

def sortFlat (m : Flat α) : Flat α := m.foldr insertFlat []

/-! ### conversions -/

/-- the leaf entries of `flatten_to_sequence` / `flatten_mapping` (is_leaf=None, keep_empty_nodes=False) -/
def leafItems (es : List (SPath × FVal Key α)) : Flat α :=
  es.filterMap (fun pv => match pv.2 with
    | .val (.leaf a) => some (pv.1, a)
    | _ => none)

/-- `to_flat_state(state)`: `FlatState(flatten_to_sequence(state._mapping), sort=True)` -/
def toFlat (s : SMap α) : Flat α :=
  sortFlat (leafItems (flatT false noLeaf (.dict s) []))

/-- `from_flat_state(flat)`: `dict(flat)` when it is not a Mapping, then `unflatten_mapping` -/
def fromFlat (m : Flat α) : Except SErr (SMap α) :=
  liftE (unflattenLoop (fun p => .ok p) [] ((Dict.ofList m).map (fun pa => (pa.1, FVal.val (.leaf pa.2)))))

/-- `to_pure_dict(state, extract_fn)` -/
def toPure (extract : α → β) (s : SMap α) : Except SErr (SMap β) :=
  fromFlat (Dict.ofList ((toFlat s).map (fun pa => (pa.1, extract pa.2))))

/-- the loop of `replace_by_pure_dict` as repaired (finding F14): the path is looked up as given first and only
then with `try_convert_int` applied to every key -/
def replaceLoop (conv : Key → Key) (repl : α → β → α) : Flat α → Flat β → Except SErr (Flat α)
  | cur, [] => .ok cur
  | cur, (kp, v) :: rest =>
    let kp' := if (Dict.get cur kp).isSome then kp else kp.map conv
    match Dict.get cur kp' with
    | none => .error .keyNotInState
    | some x => replaceLoop conv repl (Dict.set cur kp' (repl x v)) rest

/-- the loop as shipped: every key is converted unconditionally -/
def replaceLoopOrig (conv : Key → Key) (repl : α → β → α) : Flat α → Flat β → Except SErr (Flat α)
  | cur, [] => .ok cur
  | cur, (kp, v) :: rest =>
    let kp' := kp.map conv
    match Dict.get cur kp' with
    | none => .error .keyNotInState
    | some x => replaceLoopOrig conv repl (Dict.set cur kp' (repl x v)) rest

/-- `flatten_mapping(pure_dict).items()` restricted to leaves -/
def pureItems (pd : SMap β) : Flat β :=
  Dict.ofList (leafItems (flatT false noLeaf (.dict pd) []))

/-- `replace_by_pure_dict(state, pure_dict, replace_fn)`; returns the new `state._mapping`
(`state.update(unflatten_mapping(current_flat))` assigns the top-level keys) -/
def replaceByPure (conv : Key → Key) (repl : α → β → α) (s : SMap α) (pd : SMap β) : Except SErr (SMap α) := do
  let cur ← replaceLoop conv repl (Dict.ofList (toFlat s)) (pureItems pd)
  let new ← fromFlat cur
  .ok (Dict.update s new)

def replaceByPureOrig (conv : Key → Key) (repl : α → β → α) (s : SMap α) (pd : SMap β) : Except SErr (SMap α) := do
  let cur ← replaceLoopOrig conv repl (Dict.ofList (toFlat s)) (pureItems pd)
  let new ← fromFlat cur
  .ok (Dict.update s new)

/-- `try_convert_int` on the keys the generators use: an optional `-` followed by ASCII digits becomes an `int` -/
def tryConvertInt : Key → Key
  | .int n => .int n
  | .str s =>
    let cs := s.toList
    let (neg, ds) := match cs with
      | '-' :: r => (true, r)
      | r => (false, r)
    if ds.isEmpty || !(ds.all Char.isDigit) then .str s
    else
      let n : Nat := ds.foldl (fun acc c => acc * 10 + (c.toNat - '0'.toNat)) 0
      .int (if neg then -(n : Int) else n)

/-! ### split / filter / merge / diff -/

/-- a plain type filter (`filterlib.OfType(T)`, what `to_predicate` makes of a class): it holds when `T` is the
leaf's variable type **or any of its base classes** — `typesOf a` is the list of class names in the MRO of the
leaf's type (`isinstance(x, T) or issubclass(x.type, T)`). Type filters are therefore not disjoint tags:
`Variable ⊇ Param ⊇ LoRAParam`. -/
def ofType (typesOf : α → List String) (t : String) : SPath → α → Bool :=
  fun _ a => decide (t ∈ typesOf a)

/-- index of the first predicate that holds; `preds.length` when none does -/
def firstIdx (preds : List (SPath → α → Bool)) (p : SPath) (a : α) : Nat :=
  match preds with
  | [] => 0
  | f :: fs => if f p a then 0 else firstIdx fs p a + 1

/-- `_split_state(flat_state, *filters)`: `n + 1` buckets, each in the order of the flat state -/
def splitFlat (preds : List (SPath → α → Bool)) (m : Flat α) : List (Flat α) :=
  (List.range (preds.length + 1)).map (fun i => m.filter (fun e => firstIdx preds e.1 e.2 == i))

/-- `filter_state(state, *filters)`: the first `n` buckets as nested states, the remainder dropped -/
def filterState (preds : List (SPath → α → Bool)) (s : SMap α) : Except SErr (List (SMap α)) :=
  ((splitFlat preds (toFlat s)).take preds.length).mapM fromFlat

/-- `split_state(state, *filters)`: as `filter_state`, but a non-empty remainder is an error -/
def splitState (preds : List (SPath → α → Bool)) (s : SMap α) : Except SErr (List (SMap α)) := do
  let states ← (splitFlat preds (toFlat s)).mapM fromFlat
  match states.getLast? with
  | some (_ :: _) => .error .nonExhaustive
  | _ => .ok (states.take preds.length)

/-- `merge_state(state, *states)`: a single state is returned as it is; otherwise the flattened states are
`update`d into one dict in order (a later state overwrites an earlier one on the same path) and unflattened -/
def mergeState (s : SMap α) (rest : List (SMap α)) : Except SErr (SMap α) :=
  match rest with
  | [] => .ok s
  | _ => fromFlat (Dict.ofList ((s :: rest).flatMap (fun st => leafItems (flatT false noLeaf (.dict st) []))))

/-- `State.__or__` -/
def stateOr (a b : SMap α) : Except SErr (SMap α) :=
  if b.isEmpty then .ok a else mergeState a [b]

/-- `diff(state, other)` / `State.__sub__` as repaired (finding F2) -/
def diff (a b : SMap α) : Except SErr (SMap α) :=
  if b.isEmpty then .ok a
  else
    let other := (toFlat b).map Prod.fst
    fromFlat (Dict.ofList ((toFlat a).filter (fun e => !(decide (e.1 ∈ other)))))

/-- `diff` as shipped: `self_flat.items()` on a `FlatState` raises for every non-empty `other` -/
def diffOrig (a b : SMap α) : Except SErr (SMap α) :=
  if b.isEmpty then .ok a else .error .attributeError

end Flax.State
