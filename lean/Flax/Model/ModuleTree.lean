/-
Model of the Linen module layer (`flax/linen/module.py`) on top of `Flax.Model.Scope`, and the
program DSL `SProg` over which "for every module program" is quantified.

An `SProg` is the body of one module's `__call__` (or of one `flax.core` scope function).  It is
straight-line: statements push scalar results on a local environment `env`; expressions are
polynomials with integer coefficients over the call argument and `env`.  Leaves are read as the sum
of their entries (`Val.total`) and written as constant-filled arrays, so every value on the Python
side is a small integer held in float32 (exact).

  param n shape k        `w = self.param(n, const k, shape)`, shape = literal dims and `x.shape[-1:]`; pushes Σ w
  var c n shape e        `v = self.variable(c, n, lambda: full(shape, e))`; pushes Σ v.value
  get c n                `self.get_variable(c, n, None)`;                   pushes Σ value, 0 when absent
  put c rel n e          `self.put_variable(c, n, full((), e))`; with `rel = r₀ :: rs` a dict-valued write over the
                         subtree of a submodule: `self.put_variable(c, r₀, {rs…: {n: full((), e)}})`
  sow c n e              `self.sow(c, n, e)` (default tuple reduce)
  perturb c n e          `self.perturb(n, e, collection=c)`;                pushes Σ result
  child cls name? body   construct a submodule (explicit or automatic name); it becomes child slot #k
  nested body m V e      `y, st = Sub().apply(V, e, mutable=m, capture_intermediates=False)` inside the body: a
                         complete nested apply of another module on its own variables; pushes y, then a digest of st
  call k e w?            call child #k (again) with argument e — a scalar, or `full((w,), e)` when a width is
                         given; parameter shapes of the child may contain `x.shape[-1:]`;  pushes its return value
  bind e                 `tmp = e`;                                         pushes e
  ret e                  sets the return value (default 0)
  seq a b, skip

The same program is rendered on the Python side as (i) a `flax.core` scope function, (ii) a
compact-style Module hierarchy, (iii) a setup-style one; the three differ only in how automatic
child names are chosen (`Style`).  The naming conventions themselves (`Class_i`, attribute names)
are parameters (`Cfg`) learnt from the implementation by a probe.

What is transcribed from module.py: autonaming with a per-class cursor that is reset after each
compact call (`__post_init__`, `_ModuleInternalState.reset`), `_name_taken` checks before
`param`/`variable`/submodule creation, `scope.push` (reserves the child name), re-running a compact
body on the rewound scope for every call of the same instance (reservations start empty again),
`Module.sow`, `Module.perturb`, `capture_intermediates` (sows every `__call__` result into
`'intermediates'` and adds that collection to `mutable`), and `apply`/`init_with_output` running on
a bound clone (the module object itself is not part of the state here: the harness checks on the
implementation that its `__dict__` is unchanged).

`eval` is defined with fuel (one unit per nested statement / call) so that child bodies can be
stored as data; every theorem holds for every fuel, and running out of fuel is the explicit error
`Err.fuel`.
-/
import Flax.Model.Scope

namespace Flax.ModuleTree
open Flax.Filter (LFilter inFilter union)
open Flax.Scope

/-! ### programs -/

inductive Expr where
  | const (k : Int)
  | arg                       -- the call argument `x`
  | loc (i : Nat)             -- `env[i]`
  | add (a b : Expr)
  | mul (a b : Expr)
  deriving DecidableEq, Repr, Inhabited

/-- one piece of a parameter's shape tuple: a literal dimension, or `x.shape[-1:]` — the last axis of
the call argument (an empty slice when the argument is a scalar) -/
inductive Dim where
  | lit (k : Nat)
  | argLast
  deriving DecidableEq, Repr, Inhabited

inductive SProg where
  | skip
  | seq (a b : SProg)
  | bind (e : Expr)
  | ret (e : Expr)
  | param (n : String) (shape : List Dim) (init : Int)
  | var (col n : String) (shape : List Nat) (init : Expr)
  | get (col n : String)
  | put (col : String) (rel : Path) (n : String) (e : Expr)
  | sow (col n : String) (e : Expr)
  | perturb (col n : String) (e : Expr)
  | child (cls : String) (name : Option String) (body : SProg)
  | call (slot : Nat) (a : Expr) (w : Option Nat)
  | nested (body : SProg) (m : LFilter) (V : Vars) (a : Expr)
  deriving DecidableEq, Repr, Inhabited

/-- the shape tuple a parameter declaration denotes; an `argLast` that no call bound to a width is
the empty slice of a scalar argument's shape -/
def resolveDims : List Dim → List Nat
  | [] => []
  | .lit k :: rest => k :: resolveDims rest
  | .argLast :: rest => resolveDims rest

def bindDims (w : Nat) : List Dim → List Dim
  | [] => []
  | .lit k :: rest => .lit k :: bindDims w rest
  | .argLast :: rest => .lit w :: bindDims w rest

/-- the body of a module as it runs when called with an argument of shape `(w,)`: `x.shape[-1:]` in the
parameter declarations of *this* body becomes `(w,)` (bodies of its children are bound when they are called) -/
def bindW (w : Nat) : SProg → SProg
  | .seq a b => .seq (bindW w a) (bindW w b)
  | .param n shape init => .param n (bindDims w shape) init
  | p => p

def bindArg : Option Nat → SProg → SProg
  | some w, p => bindW w p
  | none, p => p

/-- how automatic child names are produced -/
inductive Style where
  | core      -- `Scope.child(fn)`: first `fn.__name__ + '_' + i` not yet reserved
  | compact   -- Linen compact: `Class_<cursor>` with a per-class cursor
  | setup     -- Linen setup: the attribute name the submodule is assigned to
  deriving DecidableEq, Repr, Inhabited

/-- conventions learnt from the implementation -/
structure Cfg where
  style : Style := .compact
  sep : String := "_"          -- between class name and index
  base : Nat := 0              -- first index
  attrPrefix : String := "k"   -- setup style: attribute name of child slot i is `attrPrefix ++ i`
  capture : Bool := false      -- `capture_intermediates=True`
  deriving DecidableEq, Repr, Inhabited

structure Kid where
  name : String
  body : SProg
  deriving DecidableEq, Repr, Inhabited

/-- what one execution of a module body holds: Python locals, and the per-call state of the
module / scope object (`scope.reservations`, `_state.autoname_cursor`), all of which start empty
at every call of a compact method (`scope.rewound()`, `_state.reset()`). -/
structure Local where
  env : List Int := []
  res : Res := []
  cursors : List (String × Nat) := []
  kids : List Kid := []
  out : Int := 0
  deriving DecidableEq, Repr, Inhabited

def evalE (x : Int) (env : List Int) : Expr → Except Err Int
  | .const k => .ok k
  | .arg => .ok x
  | .loc i => match env[i]? with
    | some v => .ok v
    | none => .error .badSlot
  | .add a b => match evalE x env a, evalE x env b with
    | .ok u, .ok v => .ok (u + v)
    | .error e, _ => .error e
    | _, .error e => .error e
  | .mul a b => match evalE x env a, evalE x env b with
    | .ok u, .ok v => .ok (u * v)
    | .error e, _ => .error e
    | _, .error e => .error e

def cursorOf (cs : List (String × Nat)) (cls : String) : Nat :=
  match cs.find? (fun c => decide (c.1 = cls)) with
  | some c => c.2
  | none => 0                  -- `autoname_cursor.get(prefix, 0)`

def setCursor (cs : List (String × Nat)) (cls : String) (v : Nat) : List (String × Nat) :=
  (cls, v) :: cs.filter (fun c => !decide (c.1 = cls))

def autoNameOf (cfg : Cfg) (cls : String) (i : Nat) : String := cls ++ cfg.sep ++ toString (i + cfg.base)

/-- the name an unnamed child gets, and the updated cursors; `none` is unreachable (pigeonhole) -/
def autoName (cfg : Cfg) (cls : String) (l : Local) : Option (String × List (String × Nat)) :=
  match cfg.style with
  | .compact =>
    let i := cursorOf l.cursors cls
    some (autoNameOf cfg cls i, setCursor l.cursors cls (i + 1))
  | .core =>
    match (List.range (l.res.length + 1)).find?
        (fun i => !(l.res.any (fun e => decide (e.1 = autoNameOf cfg cls i)))) with
    | some i => some (autoNameOf cfg cls i, l.cursors)
    | none => none
  | .setup => some (cfg.attrPrefix ++ toString l.kids.length, l.cursors)

/-- the name of a new child: the explicit one, else the automatic one -/
def childName (cfg : Cfg) (cls : String) (name : Option String) (l : Local) :
    Option (String × List (String × Nat)) :=
  match name with
  | some nm => some (nm, l.cursors)
  | none => autoName cfg cls l

/-- `Module.sow(col, name, value)` with the default tuple reduce -/
def moduleSow (π : Path) (col n : String) (e : Int) (r : Res) : Op Res := fun s =>
  if !(isMutable s col) then (.ok r, s)                 -- returns False, no effect
  else
    match getVar s π col n with
    | some (.tup xs) =>
      (match putVar π col n (.tup (xs ++ [([], [e])])) s with
       | (.ok (), s') => (.ok r, s')
       | (.error err, s') => (.error err, s'))
    | some (.tensor _ _) => (.error .sowOnLeaf, s)
    | none =>
      match reserve r n (some col) with
      | .error err => (.error err, s)
      | .ok r' =>
        match putVar π col n (.tup [([], [e])]) s with
        | (.ok (), s') => (.ok r', s')
        | (.error err, s') => (.error err, s')

/-- `Module.perturb(name, value, collection)`; returns the (summed) result -/
def modulePerturb (π : Path) (col n : String) (e : Int) (r : Res) : Op (Int × Res) := fun s =>
  -- first half: create the zero perturbation when the collection is mutable
  let step1 : Except Err Res × Store :=
    if isMutable s col && !(hasVar s π col n) then
      match reserve r n (some col) with
      | .error err => (.error err, s)
      | .ok r' =>
        match putVar π col n (.tensor [] [0]) s with
        | (.ok (), s') => (.ok r', s')
        | (.error err, s') => (.error err, s')
    else (.ok r, s)
  match step1 with
  | (.error err, s') => (.error err, s')
  | (.ok r', s') =>
    if hasCol s' col then
      match getVar s' π col n with
      | some (.tensor _ d) => (.ok (e * (d.length : Int) + sumInt d, r'), s')   -- Σ (value + old)
      | some (.tup _) => (.error .unsupported, s')
      | none => (.error .perturbMissing, s')
    else (.ok (e, r'), s')

/-- end of a wrapped `__call__`: with `capture_intermediates` its result is sown -/
def finishCall (cfg : Cfg) (π : Path) (l : Local) : Op Local := fun s =>
  if cfg.capture then
    match moduleSow π "intermediates" "__call__" l.out l.res s with
    | (.ok r, s') => (.ok { l with res := r }, s')
    | (.error e, s') => (.error e, s')
  else (.ok l, s)

def push (l : Local) (v : Int) : Local := { l with env := l.env ++ [v] }

/-- the configuration a *nested* `Module.apply(..., capture_intermediates=False)` runs under.
`capture_intermediates` is dynamically scoped: module-level `apply` pushes its own setting — also `False` —
on the thread-local `_context.capture_stack` for the duration of the call and pops it afterwards, and a
wrapped `__call__` consults the top of the stack.  In this functional evaluator the top of the stack is the
`capture` field of the `Cfg` in effect: a nested apply evaluates its body under `nestedCfg cfg` (push), and
the caller goes on under its own `cfg` when it returns (pop). -/
def nestedCfg (cfg : Cfg) : Cfg := { cfg with capture := false, style := .compact }  -- the sub-network is a compact module

/-- what the enclosing body keeps of the state a nested apply returned: how many collections came back, and
the sum of all their entries (so that an unrequested extra collection is visible in the output) -/
def digest (R : Vars) : Int :=
  (R.cols.length : Int) * 1000 + sumInt (R.vars.map (fun kv => kv.2.total))

/-- one execution of a module body at scope path `π` with argument `x` -/
def eval (cfg : Cfg) : Nat → SProg → Path → Int → Local → Op Local
  | 0, _, _, _, _ => fun s => (.error .fuel, s)
  | fuel + 1, p, π, x, l => fun s =>
    match p with
    | .skip => (.ok l, s)
    | .seq a b =>
      (match eval cfg fuel a π x l s with
       | (.ok l1, s1) => eval cfg fuel b π x l1 s1
       | (.error e, s1) => (.error e, s1))
    | .bind e =>
      (match evalE x l.env e with
       | .ok v => (.ok (push l v), s)
       | .error err => (.error err, s))
    | .ret e =>
      (match evalE x l.env e with
       | .ok v => (.ok { l with out := v }, s)
       | .error err => (.error err, s))
    | .param n shape init =>
      (match scopeParam π n (resolveDims shape) init l.res s with
       | (.ok (v, r), s1) => (.ok { push l v.total with res := r }, s1)
       | (.error e, s1) => (.error e, s1))
    | .var col n shape init =>
      (match evalE x l.env init with
       | .error err => (.error err, s)
       | .ok iv =>
         match scopeVariable π col n (Val.full shape iv) l.res s with
         | (.error e, s1) => (.error e, s1)
         | (.ok r, s1) =>
           match getVar s1 π col n with
           | some v => (.ok { push l v.total with res := r }, s1)
           | none => (.error .unsupported, s1))          -- unreachable: the variable exists now
    | .get col n =>
      (match getVar s π col n with
       | some v => (.ok (push l v.total), s)
       | none => (.ok (push l 0), s))
    | .put col rel n e =>
      (match evalE x l.env e with
       | .error err => (.error err, s)
       | .ok v =>
         -- `put_variable(col, n, leaf)` for `rel = []`; `put_variable(col, rel₀, {rel₁: … {n: leaf}})` otherwise:
         -- the recursive merge of `put_variable` sets exactly this leaf and keeps every other entry
         match putVar (π ++ rel) col n (.tensor [] [v]) s with
         | (.ok (), s1) => (.ok l, s1)
         | (.error err, s1) => (.error err, s1))
    | .sow col n e =>
      (match evalE x l.env e with
       | .error err => (.error err, s)
       | .ok v =>
         match moduleSow π col n v l.res s with
         | (.ok r, s1) => (.ok { l with res := r }, s1)
         | (.error err, s1) => (.error err, s1))
    | .perturb col n e =>
      (match evalE x l.env e with
       | .error err => (.error err, s)
       | .ok v =>
         match modulePerturb π col n v l.res s with
         | (.ok (y, r), s1) => (.ok { push l y with res := r }, s1)
         | (.error err, s1) => (.error err, s1))
    | .child cls name body =>
      (match childName cfg cls name l with
       | none => (.error .unsupported, s)
       | some (nm, cs) =>
         -- `_name_taken(name)` then `scope.push(name)` → `reserve(name)` (Linen);
         -- `Scope.child` → `push` → `reserve` (core)
         match reserve l.res nm none with
         | .error err => (.error err, s)
         | .ok r => (.ok { l with res := r, cursors := cs, kids := l.kids ++ [⟨nm, body⟩] }, s))
    | .call slot a w =>
      (match l.kids[slot]? with
       | none => (.error .badSlot, s)
       | some k =>
         match evalE x l.env a with
         | .error err => (.error err, s)
         | .ok av =>
           match eval cfg fuel (bindArg w k.body) (π ++ [k.name]) av {} s with
           | (.error err, s1) => (.error err, s1)
           | (.ok lk, s1) =>
             match finishCall cfg (π ++ [k.name]) lk s1 with
             | (.error err, s2) => (.error err, s2)
             | (.ok lk', s2) => (.ok (push l lk'.out), s2))
    | .nested body m V a =>
      -- `y, state = Sub().apply(V, a, rngs={'params': key}, mutable=m, capture_intermediates=False)`:
      -- a complete, separate apply (own root scope over `V`); the enclosing scope's store is not involved.
      -- Pushes `y`, then `digest state`.
      (match evalE x l.env a with
       | .error err => (.error err, s)
       | .ok av =>
         if badStructure V then (.error .invalidStructure, s)
         else
           match eval (nestedCfg cfg) fuel body [] av {} (Scope.bind m V ["params"]) with
           | (.error err, _) => (.error err, s)
           | (.ok li, si) => (.ok (push (push l li.out) (digest (mutableVariables si))), s))

/-- the scope function `fn(scope, x)` of a top-level module / core function -/
def runTop (cfg : Cfg) (fuel : Nat) (p : SProg) (x : Int) : Op Int := fun s =>
  match eval cfg fuel p [] x {} s with
  | (.error e, s1) => (.error e, s1)
  | (.ok l, s1) =>
    match finishCall cfg [] l s1 with
    | (.error e, s2) => (.error e, s2)
    | (.ok l', s2) => (.ok l'.out, s2)

/-- the filter actually bound: `capture_intermediates` adds `'intermediates'` -/
def effMutable (cfg : Cfg) (m : LFilter) : LFilter :=
  if cfg.capture then union m (.name "intermediates") else m

/-- `Module.apply(variables, x, rngs=…, mutable=m)` / `core.apply(f, mutable=m)(variables, x, rngs=…)` -/
def apply (cfg : Cfg) (fuel : Nat) (p : SProg) (m : LFilter) (V : Vars) (rngs : List String) (x : Int) : Outcome :=
  Scope.apply (runTop cfg fuel p x) (effMutable cfg m) V rngs

/-- `Module.init_with_output(rngs, x, mutable=m)` / `core.init(f, mutable=m)(rngs, x)` -/
def init (cfg : Cfg) (fuel : Nat) (p : SProg) (m : LFilter) (rngs : List String) (x : Int) : Outcome :=
  Scope.init (runTop cfg fuel p x) (effMutable cfg m) rngs

/-- Linen's default `mutable` for `init`: `DenyList('intermediates')` -/
def initDefault : LFilter := .deny (.name "intermediates")

/-! ### shape-only evaluation (for `lazy_init` / `jax.eval_shape(init)`) -/

/-- forget the data of a leaf, keep its structure and shapes -/
def Val.abstract : Val → Val
  | .tensor sh d => .tensor sh (d.map (fun _ => 0))
  | .tup xs => .tup (xs.map (fun p => (p.1, p.2.map (fun _ => 0))))

def Vars.abstract (V : Vars) : Vars := { cols := V.cols, vars := V.vars.map (fun kv => (kv.1, Val.abstract kv.2)) }

/-! ### bind / unbind, at the level of (module, variables) pairs

`Module.bind(variables)` = `self.clone(parent=core.bind(variables), _deep_clone=True)`: the same module
(body and hyper-parameters; here: its `SProg`) attached to a root scope over `variables` with nothing
mutable.  A submodule reached through a bound module (setup-style attribute) is the child's body bound at
the child's scope path over the *same* root store.  `unbind()` returns
`(self.clone(_deep_clone=True, _reset_names=True, name=None), self.variables)` where `self.variables` is
`scope.variables()`: for every collection in which this scope has a subtree, that subtree. -/

/-- `q` with the module path `π'` removed after the collection name, when `q` lies under `π'` -/
def strip (π' : Path) (q : Path) : Option Path :=
  match q with
  | c :: r => if π'.isPrefixOf r then some (c :: r.drop π'.length) else none
  | [] => none

/-- `{col: V[col][n₁]…[nₖ] for col in V}`: the subtree of every collection at module path `π'` -/
def restrict (π' : Path) (V : Vars) : Vars :=
  { cols := V.cols, vars := V.vars.filterMap (fun kv => (strip π' kv.1).map (fun k => (k, kv.2))) }

/-- `Scope.variables()` of the scope at `π`: the root sees every collection, a child scope those in which
it has a subtree (`_populate_collections` / `_collection`) -/
def scopeVariables (π : Path) (s : Store) : Vars :=
  let sub := restrict π ⟨s.cols.map (·.1), s.vars⟩
  { cols := if π = [] then sub.cols else sub.cols.filter (fun c => sub.vars.any (fun kv => decide (kv.1.head? = some c))),
    vars := sub.vars }

/-- a module object, as far as bind / unbind can tell -/
structure Mod where
  body : SProg
  name : Option String := none
  /-- the scope it is bound to: path from the root, and the root's store -/
  bound : Option (Path × Store) := none
  deriving Repr, Inhabited

/-- `Module.bind(variables, rngs=…)` (default `mutable=False`) -/
def Mod.bind (m : Mod) (V : Vars) (rngs : List String) : Mod :=
  { body := m.body, name := m.name, bound := some ([], Scope.bind .ff V rngs) }

/-- a submodule reached through a bound module (`bound.attr` in the setup style) -/
def Mod.child (m : Mod) (k : Kid) : Mod :=
  match m.bound with
  | some (π, s) => { body := k.body, name := some k.name, bound := some (π ++ [k.name], s) }
  | none => { body := k.body, name := some k.name, bound := none }

/-- `Module.unbind()`; `none` = `CallUnbindOnUnboundModuleError` -/
def Mod.unbind (m : Mod) : Option (Mod × Vars) :=
  match m.bound with
  | some (π, s) => some ({ body := m.body, name := none, bound := none }, scopeVariables π s)
  | none => none

/-! ### static syntax helpers used by the theorems and the generators -/

def size : SProg → Nat
  | .seq a b => size a + size b + 1
  | .child _ _ b => size b + 1
  | .nested b _ _ _ => size b + 1
  | _ => 1

/-- no statement writes after initialisation: only `param`, `variable`, `get`, `bind`, `ret`, children -/
def readOnly : SProg → Bool
  | .seq a b => readOnly a && readOnly b
  | .child _ _ b => readOnly b
  | .put _ _ _ _ => false
  | .sow _ _ _ => false
  | .perturb _ _ _ => false
  | _ => true

/-- only declarations and calls: `param`, `variable`, children, `bind`, `ret` — no write after
initialisation and no `get_variable` (which could observe a variable before it is created) -/
def declOnly : SProg → Bool
  | .seq a b => declOnly a && declOnly b
  | .child _ _ b => declOnly b
  | .put _ _ _ _ => false
  | .sow _ _ _ => false
  | .perturb _ _ _ => false
  | .get _ _ => false
  | .nested _ _ _ _ => false
  | _ => true

/-- the expression mentions neither the argument nor a local -/
def Expr.isConst : Expr → Bool
  | .const _ => true
  | .arg => false
  | .loc _ => false
  | .add a b => a.isConst && b.isConst
  | .mul a b => a.isConst && b.isConst

/-- every value the program stores (variable initialisers, `put`, `sow`, `perturb`) is a constant
expression: nothing that ends up in a collection depends on the call argument.  These are the programs
`lazy_init` accepts with a `ShapeDtypeStruct` in place of the argument. -/
def argFree : SProg → Bool
  | .seq a b => argFree a && argFree b
  | .child _ _ b => argFree b
  | .var _ _ _ e => e.isConst
  | .put _ _ _ e => e.isConst
  | .sow _ _ e => e.isConst
  | .perturb _ _ e => e.isConst
  | .nested _ _ _ _ => false
  | _ => true

/-- collections a program sows into -/
def sowCols : SProg → List String
  | .seq a b => sowCols a ++ sowCols b
  | .child _ _ b => sowCols b
  | .sow c _ _ => [c]
  | _ => []

/-- collections touched by anything other than `sow` -/
def otherCols : SProg → List String
  | .seq a b => otherCols a ++ otherCols b
  | .child _ _ b => otherCols b
  | .param _ _ _ => ["params"]
  | .var c _ _ _ => [c]
  | .get c _ => [c]
  | .put c _ _ _ => [c]
  | .perturb c _ _ => [c]
  | _ => []

/-- delete every `sow` -/
def eraseSow : SProg → SProg
  | .seq a b => .seq (eraseSow a) (eraseSow b)
  | .child cls nm b => .child cls nm (eraseSow b)
  | .sow _ _ _ => .skip
  | p => p

end Flax.ModuleTree
