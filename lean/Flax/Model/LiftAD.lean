/-
Model of the lifted autodiff transforms (flax/core/lift.py:428-707, 1306-1410; Linen wrappers
flax/linen/transforms.py:1417-1761, 2002-2097): `vjp`, `value_and_grad`/`grad`, `jvp`, `custom_vjp`.

Automatic differentiation is JAX's.  It enters as an abstract structure `AD` about which only the documented
contract of `jax.vjp / jax.jvp` is assumed (A-AD): the primal value returned is the function's value, cotangents
have the structure of the primals — and, being a Lean function of a Lean function, it depends only on the
*extension* of the function it is given.  Everything flax adds is `pack` (Model/Lift.lean): which collections are
handed to AD as an argument, which are closed over, what happens to the forward pass's side effects.

For the numbers a third, independent voice is provided: `evalD`, a forward-mode (dual number) evaluation of a
body, i.e. the formal derivative of the integer polynomial the body computes.

Core Lean only.
-/
import Flax.Model.Lift

namespace Flax.LiftAD
open Flax.Filter Flax.Lift

/-- argument of the function handed to `jax.vjp`: (the differentiated variable group, the primal inputs) -/
abbrev DIn := Vars × List Int
/-- differentiated output `y` -/
abbrev DOut := List Int
/-- what travels as `has_aux` data: (user aux, repacked out variable groups, counters of the shared dict) -/
abbrev DAux := List Int × List Vars × Counters

/-- A-AD: the contract of `jax.vjp(f, x, has_aux=True)` and `jax.jvp` assumed of JAX -/
structure AD where
  vjp : (DIn → Except Err (DOut × DAux)) → DIn → Except Err (DOut × (DOut → DIn) × DAux)
  jvp : (DIn → Except Err (DOut × DAux)) → DIn → DIn → Except Err (DOut × DOut × DAux)
  /-- the primal output and aux are those of the function (an error while tracing it is raised) -/
  vjp_val : ∀ f x, (match vjp f x with | .ok r => .ok (r.1, r.2.2) | .error e => .error e) = f x
  jvp_val : ∀ f x t, (match jvp f x t with | .ok r => .ok (r.1, r.2.2) | .error e => .error e) = f x
  /-- cotangents have the tree structure of the primals -/
  vjp_shape : ∀ f x y bwd a ct, vjp f x = .ok (y, bwd, a) →
    (bwd ct).1.map (fun kv => (kv.1, keys kv.2)) = x.1.map (fun kv => (kv.1, keys kv.2)) ∧ (bwd ct).2.length = x.2.length

/-- `y, aux = fn(scope, *args)` when `has_aux`, else `y = fn(…)`, `aux = ()`; the first `nY` returned values are `y` -/
def splitAux (hasAux : Bool) (nY : Nat) (vals : List Int) : List Int × List Int :=
  if hasAux then (vals.take nY, vals.drop nY) else (vals, [])

/-- `wrapper(vjp_vars, *args)` of `lift.vjp`: the function handed to `jax.vjp` -/
def vjpClosure (attrs : List (String × Int)) (f : Fn) (hasAux : Bool) (nY : Nat) (pe : PackEnv) (rest : Vars)
    (ctr : Counters) : DIn → Except Err (DOut × DAux) :=
  fun x =>
    match runInner attrs f x.2 .tt pe [x.1, rest] pe.rngGroups ctr with
    | .error e => .error e
    | .ok (y, out, ctr') => .ok ((splitAux hasAux nY y.vals).1, (splitAux hasAux nY y.vals).2, out, ctr')

/-- what `lift.vjp` returns: `(y, bwd)` or `(y, bwd, aux)` -/
structure VjpRes where
  y : List Int
  bwd : DOut → DIn
  aux : Option (List Int)

/-- `lift.vjp(fn, scope, *primals, has_aux, vjp_variables, variables, rngs)` -/
def liftVjp (ad : AD) (vjpF varF rngF : LFilter) (hasAux : Bool) (nY : Nat) (attrs : List (String × Int)) (f : Fn)
    (args : List Int) (s : ScopeSt) : Except Err (VjpRes × ScopeSt) :=
  pack [vjpF, varF] [varF] [rngF] (fun pe ctr =>
    match pe.varGroups with
    | [sel, rest] =>
      match ad.vjp (vjpClosure attrs f hasAux nY pe rest ctr) (sel, args) with
      | .error e => .error e
      | .ok (y, bwd, (aux, out, ctr')) => .ok (⟨y, bwd, if hasAux then some aux else none⟩, out, ctr')
    | _ => .error .structMismatch) s

/-- what `lift.value_and_grad` returns: `(y, grads)` or `(y, aux, grads)`; grads are w.r.t. the inputs -/
structure VagRes where
  y : List Int
  aux : Option (List Int)
  grads : List Int

/-- `wrapper(*args)` of `lift.value_and_grad`: no variable argument, every lifted group is closed over -/
def vagClosure (attrs : List (String × Int)) (f : Fn) (hasAux : Bool) (nY : Nat) (pe : PackEnv) (ctr : Counters) :
    DIn → Except Err (DOut × DAux) :=
  fun x =>
    match runInner attrs f x.2 .tt pe pe.varGroups pe.rngGroups ctr with
    | .error e => .error e
    | .ok (y, out, ctr') => .ok ((splitAux hasAux nY y.vals).1, (splitAux hasAux nY y.vals).2, out, ctr')

/-- `lift.value_and_grad(fn, scope, *primals, has_aux, variables, rngs)`: every variable group is closed over;
`inputs_grad = bwd(ones_like(y))` -/
def liftValueAndGrad (ad : AD) (varF rngF : LFilter) (hasAux : Bool) (nY : Nat) (attrs : List (String × Int)) (f : Fn)
    (args : List Int) (s : ScopeSt) : Except Err (VagRes × ScopeSt) :=
  pack [varF] [varF] [rngF] (fun pe ctr =>
    match ad.vjp (vagClosure attrs f hasAux nY pe ctr) ([], args) with
    | .error e => .error e
    | .ok (y, bwd, (aux, out, ctr')) =>
      .ok (⟨y, if hasAux then some aux else none, (bwd (y.map (fun _ => 1))).2⟩, out, ctr')) s

/-- the filtering `lift.jvp` applies to `variable_tangents` before anything else: empty collections are dropped;
the names that remain are the first in-filter -/
def jvpTangents (vt : Vars) : Vars := vt.filter (fun kv => !kv.2.isEmpty)
def jvpTarget (vt : Vars) : LFilter := .names (keys (jvpTangents vt))

/-- `lift.jvp(fn, scope, primals, tangents, variable_tangents, variables, rngs)`; returns `(y, y_tangent)` -/
def liftJvp (ad : AD) (vt : Vars) (varF rngF : LFilter) (attrs : List (String × Int)) (f : Fn)
    (args tangents : List Int) (s : ScopeSt) : Except Err ((List Int × List Int) × ScopeSt) :=
  pack [jvpTarget vt, varF] [varF] [rngF] (fun pe ctr =>
    match pe.varGroups with
    | [sel, rest] =>
      match ad.jvp (vjpClosure attrs f false 0 pe rest ctr) (sel, args) (jvpTangents vt, tangents) with
      | .error e => .error e
      | .ok (y, ty, (_, out, ctr')) => .ok ((y, ty), out, ctr')
    | _ => .error .structMismatch) s

/-- a `jax.custom_vjp` object: the function, its forward rule (value and residuals) and backward rule -/
structure CustomVjp (ρ β : Type) where
  f : DIn → Except Err β
  fwd : DIn → Except Err (β × ρ)
  bwd : ρ → DOut → DIn

/-- A-AD for `jax.custom_vjp`: calling the object outside differentiation runs `f` -/
def CustomVjp.call {ρ β : Type} (cv : CustomVjp ρ β) (x : DIn) : Except Err β := cv.f x

/-- …and differentiating it runs the forward rule and uses the backward rule as pullback -/
def CustomVjp.vjp {ρ β : Type} (cv : CustomVjp ρ β) (x : DIn) : Except Err (β × (DOut → DIn)) :=
  match cv.fwd x with
  | .error e => .error e
  | .ok (y, res) => .ok (y, cv.bwd res)

/-- `lift.custom_vjp(fn, forward_fn, backward_fn, grad_vars)` called on a scope (no differentiation around it).
`fwdFn` returns the residual as its last values; `bwdFn` is an arbitrary user function. -/
def liftCustomVjp {ρ : Type} (gradF : LFilter) (attrs : List (String × Int)) (fn fwdFn : Fn) (nY : Nat)
    (mkRes : List Int → ρ) (bwdFn : ρ → DOut → DIn) (args : List Int) (s : ScopeSt) : Except Err (Out × ScopeSt) :=
  pack [gradF, .tt] [gradF, .tt] [.tt] (fun pe ctr =>
    match pe.varGroups with
    | [gv, other] =>
      let cv : CustomVjp ρ (Out × List Vars × Counters) :=
        { f := fun x => runInner attrs fn x.2 .tt pe [x.1, other] pe.rngGroups ctr
          fwd := fun x =>
            match runInner attrs fwdFn x.2 .tt pe [x.1, other] pe.rngGroups ctr with
            | .error e => .error e
            | .ok (y, out, ctr') => .ok ((⟨y.vals.take nY, y.keys⟩, out, ctr'), mkRes (y.vals.drop nY))
          bwd := bwdFn }
      cv.call (gv, args)
    | _ => .error .structMismatch) s

/-- an `AD` that computes no derivatives (zero cotangents of the right structure): shows the contract is
satisfiable, and lets the driver run the plumbing -/
def zeroAD : AD where
  vjp f x :=
    match f x with
    | .error e => .error e
    | .ok (y, a) => .ok (y, (fun _ => (x.1.map (fun kv => (kv.1, kv.2.map (fun nv => (nv.1, 0)))), x.2.map (fun _ => 0))), a)
  jvp f x _ :=
    match f x with
    | .error e => .error e
    | .ok (y, a) => .ok (y, y.map (fun _ => 0), a)
  vjp_val f x := by cases h : f x <;> simp
  jvp_val f x t := by cases h : f x <;> simp
  vjp_shape f x y bwd a ct h := by
    cases hf : f x with
    | error e => simp [hf] at h
    | ok r =>
      simp only [hf, Except.ok.injEq, Prod.mk.injEq] at h
      obtain ⟨_, hb, _⟩ := h
      subst hb
      simp [keys, Function.comp_def]

/-! ## formal differentiation of a body (forward mode, dual numbers over `Int`) -/

/-- value and tangent of an expression -/
def dExpr (env : Env) (targs : List Int) (regs tregs : List Int) : Expr → Option (Int × Int)
  | .lit v => some (v, 0)
  | .reg i => match regs[i]?, tregs[i]? with
      | some v, some t => some (v, t)
      | _, _ => none
  | .arg i => match env.args[i]?, targs[i]? with
      | some v, some t => some (v, t)
      | _, _ => none
  | .attr a => match alookup a env.attrs with
      | some v => some (v, 0)
      | none => none
  | .add a b => match dExpr env targs regs tregs a, dExpr env targs regs tregs b with
      | some (x, dx), some (y, dy) => some (x + y, dx + dy)
      | _, _ => none
  | .mul a b => match dExpr env targs regs tregs a, dExpr env targs regs tregs b with
      | some (x, dx), some (y, dy) => some (x * y, x * dy + dx * y)
      | _, _ => none

/-- primal machine plus tangents of the registers and of every variable (absent = zero) -/
structure MD where
  m : M
  tregs : List Int
  tvars : Vars
  deriving Repr, Inhabited

def tangentOf (tv : Vars) (c n : String) : Int := match getVar tv c n with | some t => t | none => 0

def evalD (env : Env) (targs : List Int) : Prog → MD → Except Err MD
  | .skip, d => .ok d
  | .seq p q, d =>
    match evalD env targs p d with
    | .error e => .error e
    | .ok d' => evalD env targs q d'
  | .get c n, d =>
    match getVar d.m.sc.vars c n with
    | some v => .ok { d with m := d.m.push v, tregs := d.tregs ++ [tangentOf d.tvars c n] }
    | none => .error .notFound
  | .has c n, d =>
    .ok { d with m := d.m.push (if (getVar d.m.sc.vars c n).isSome then 1 else 0), tregs := d.tregs ++ [0] }
  | .put c n e, d =>
    match dExpr env targs d.m.regs d.tregs e with
    | none => .error .badExpr
    | some (v, t) =>
      match d.m.sc.put c n v with
      | .error e => .error e
      | .ok sc => .ok { d with m := { d.m with sc := sc }, tvars := putVar d.tvars c n t }
  | .decl c n e, d =>
    match getVar d.m.sc.vars c n with
    | some v => .ok { d with m := d.m.push v, tregs := d.tregs ++ [tangentOf d.tvars c n] }
    | none =>
      if inFilter d.m.sc.mutable c then
        match dExpr env targs d.m.regs d.tregs e with
        | none => .error .badExpr
        | some (v, t) =>
          match d.m.sc.put c n v with
          | .error e => .error e
          | .ok sc => .ok { m := ({ d.m with sc := sc }).push v, tregs := d.tregs ++ [t], tvars := putVar d.tvars c n t }
      else .error .notFound
  | .rng s, d =>
    match d.m.sc.makeRng s with
    | .error e => .error e
    | .ok (k, sc) => .ok { d with m := { d.m with keys := d.m.keys ++ [k], sc := sc } }
  | .rngAt p s, d =>
    match d.m.sc.makeRngAt p s with
    | .error e => .error e
    | .ok (k, sc) => .ok { d with m := { d.m with keys := d.m.keys ++ [k], sc := sc } }

def dRets (env : Env) (targs : List Int) (regs tregs : List Int) : List Expr → Option (List (Int × Int))
  | [] => some []
  | e :: es => match dExpr env targs regs tregs e, dRets env targs regs tregs es with
      | some v, some vs => some (v :: vs)
      | _, _ => none

/-- JVP of the pure apply function `(variables, x) ↦ fn(scope(variables), x)` at `(s.vars, args)` in direction
`(tvars, targs)`: returned values with their tangents, and the tangents of the final variables -/
def jvpApply (attrs : List (String × Int)) (f : Fn) (args targs : List Int) (s : ScopeSt) (tvars : Vars) :
    Except Err (List (Int × Int) × Vars) :=
  match evalD ⟨args, attrs⟩ targs f.body ⟨⟨[], [], s⟩, [], tvars⟩ with
  | .error e => .error e
  | .ok d =>
    match dRets ⟨args, attrs⟩ targs d.m.regs d.tregs f.ret with
    | none => .error .badExpr
    | some vs => .ok (vs, d.tvars)

end Flax.LiftAD
