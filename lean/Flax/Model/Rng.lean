/-
Model of flax's random-key plumbing (property C09).

Linen / functional core (flax/core/scope.py, flax/linen/transforms.py):
  `_fold_in_static` (SHA-1 preimage encoding, optional separator), `LazyRng`, `Scope.__init__` /
  `Scope.push` / `Scope.rewound` / `Scope.make_rng` (per-scope counter dictionaries, `'params'` fallback),
  `fork_rngs` (what `nn.jit` / `nn.fold_rngs` do to the rng streams of the module they transform).
NNX (flax/nnx/rnglib.py):
  `RngStream.__call__`, `Rngs._get_stream`, `split_rngs`, `restore_rngs`, `reseed`, `fork`.

Keys are *symbolic* (`SymKey`): JAX's threefry `fold_in` / `split` are free constructors (assumption
A-RNG).  `_fold_in_static` is `fold_in(rng, first 4 bytes of SHA-1(preimage))`; the model keeps the
preimage bytes, because the separator flag is exactly about the injectivity of that encoding.

Core Lean only (no Mathlib): this file is in the import closure of the compiled driver.
-/

namespace Flax.Rng

/-! ## association lists (Python dicts: insertion order, replace in place) -/

def find? {κ ν : Type} [DecidableEq κ] (k : κ) : List (κ × ν) → Option ν
  | [] => none
  | (k', v) :: xs => if k' = k then some v else find? k xs

/-- `d[k] = v`: replaces the value of an existing key in place, appends a new key at the end -/
def set {κ ν : Type} [DecidableEq κ] (k : κ) (v : ν) : List (κ × ν) → List (κ × ν)
  | [] => [(k, v)]
  | (k', v') :: xs => if k' = k then (k', v) :: xs else (k', v') :: set k v xs

/-! ## symbolic keys and the `_fold_in_static` preimage -/

/-- the items `_fold_in_static` accepts: `str` and non-negative `int` (negative ints make
`int.to_bytes` raise; flax never produces them: names are strings and counters start at 1) -/
inductive Datum where
  | str (s : String)
  | int (n : Nat)
  deriving DecidableEq, Repr, Inhabited

inductive SymKey where
  | seed (id : Nat)                                   -- a key supplied by the user
  | foldStatic (k : SymKey) (pre : List UInt8)        -- fold_in(k, sha1(pre)[:4])
  | foldIn (k : SymKey) (n : Nat)                     -- jax.random.fold_in(k, n)
  | split (k : SymKey) (shape idx : List Nat)         -- jax.random.split(k, shape)[idx]
  deriving DecidableEq, Repr, Inhabited

/-- big-endian digits of `n` in base 256 with fuel (structural, so closed instances reduce) -/
def natBytesAux : Nat → Nat → List UInt8
  | 0, _ => []
  | fuel + 1, n => if n = 0 then [] else natBytesAux fuel (n / 256) ++ [UInt8.ofNat (n % 256)]

/-- `x.to_bytes((x.bit_length() + 7) // 8, 'big')`: minimal big-endian bytes; `0 ↦ b''` -/
def natBytes (n : Nat) : List UInt8 := natBytesAux n n

def strBytes (s : String) : List UInt8 := s.toUTF8.data.toList

def datumBytes : Datum → List UInt8
  | .str s => strBytes s
  | .int n => natBytes n

/-- the bytes fed to SHA-1 by `_fold_in_static`; `sep` = `config.flax_fix_rng_separator` -/
def encodeSuffix (sep : Bool) : List Datum → List UInt8
  | [] => []
  | d :: ds => (if sep then [0] else []) ++ datumBytes d ++ encodeSuffix sep ds

/-- `_fold_in_static(rng, data)`: the key itself when `data` is empty -/
def foldInStatic (sep : Bool) (k : SymKey) : List Datum → SymKey
  | [] => k
  | d :: ds => .foldStatic k (encodeSuffix sep (d :: ds))

structure LazyRng where
  base : SymKey
  suffix : List Datum
  deriving DecidableEq, Repr, Inhabited

/-- `LazyRng.create(rng, *suffix)` on a `LazyRng` -/
def LazyRng.create (r : LazyRng) (xs : List Datum) : LazyRng := { r with suffix := r.suffix ++ xs }

def LazyRng.asJaxRng (sep : Bool) (r : LazyRng) : SymKey := foldInStatic sep r.base r.suffix

/-! ## Linen: scopes and counter dictionaries

`Scope.rng_counters` is a Python dict `{stream: int, (child_rng_token, name): <child's dict>}` that is
shared *by reference* between every Scope object made for the same place (`push` looks the child's
dict up in the parent's dict, `rewound()` and `lift.pack` copy the reference).  The nested dicts are
stored here as a map from the key path `(root id, [name₁, …, nameₖ])` to the dict reached through
`root[(tok,name₁)]…[(tok,nameₖ)]`; a fresh root is what `Scope.__init__` creates
(`bind`, `rewound(rewind_rngs=True)`). -/

abbrev CRef := Nat × List String

structure Scope where
  rngs : List (String × LazyRng)     -- `Scope.rngs`, dict order
  path : List String                 -- `Scope.path`
  cref : CRef                        -- which counter dict `Scope.rng_counters` refers to
  deriving Repr, Inhabited, DecidableEq

structure Store where
  dicts : List (CRef × List (String × Nat))
  nroots : Nat
  deriving Repr, Inhabited

inductive Err where
  | invalidRng      -- errors.InvalidRngError
  | keyError        -- a Python KeyError on a counter dict (unreachable from `bind`; kept, not totalised away)
  | badHandle       -- driver only: an op names a scope / backup that does not exist
  | batchedKey      -- NNX: fold_in on a key array outside vmap (ValueError)
  | noStream        -- NNX: neither the stream nor the fallback stream exists (AttributeError / KeyError)
  | nonScalarReseed -- NNX: reseed of a split stream (ValueError)
  deriving DecidableEq, Repr, Inhabited

structure Cfg where
  sep : Bool            -- config.flax_fix_rng_separator
  fallback : String     -- the stream make_rng falls back to ('params'), read from the code by the harness
  deriving Repr, Inhabited

def zeros (rngs : List (String × LazyRng)) : List (String × Nat) := rngs.map (fun kr => (kr.1, 0))

/-- `bind(variables, rngs=seeds)` → the root `Scope` -/
def bindRoot (seeds : List (String × SymKey)) : Scope × Store :=
  let rngs := seeds.map (fun ks => (ks.1, ({ base := ks.2, suffix := [] } : LazyRng)))
  ({ rngs := rngs, path := [], cref := (0, []) }, { dicts := [((0, []), zeros rngs)], nroots := 1 })

def Scope.hasRng (sc : Scope) (name : String) : Bool := (find? name sc.rngs).isSome

/-- the stream `make_rng(name)` really draws from -/
def effName (cfg : Cfg) (sc : Scope) (name : String) : Except Err String :=
  if sc.hasRng name then .ok name
  else if sc.hasRng cfg.fallback then .ok cfg.fallback
  else .error .invalidRng

/-- `Scope.make_rng(name)` -/
def makeRng (cfg : Cfg) (sc : Scope) (name : String) (st : Store) : Except Err (SymKey × Store) := do
  let name' ← effName cfg sc name
  match find? sc.cref st.dicts, find? name' sc.rngs with
  | some d, some lr =>
    match find? name' d with
    | some c =>
      let c' := c + 1
      .ok ((lr.create [.int c']).asJaxRng cfg.sep, { st with dicts := set sc.cref (set name' c' d) st.dicts })
    | none => .error .keyError
  | _, _ => .error .keyError

/-- `Scope.push(name, reuse=True)` as far as rngs are concerned -/
def push (sc : Scope) (name : String) (st : Store) : Scope × Store :=
  let rngs := sc.rngs.map (fun kr => (kr.1, kr.2.create [.str name]))
  let cref : CRef := (sc.cref.1, sc.cref.2 ++ [name])
  let st' := match find? cref st.dicts with
    | some _ => st
    | none => { st with dicts := st.dicts ++ [(cref, zeros rngs)] }
  ({ rngs := rngs, path := sc.path ++ [name], cref := cref }, st')

/-- `Scope.rewound(rewind_rngs)` -/
def rewound (sc : Scope) (rewindRngs : Bool) (st : Store) : Scope × Store :=
  if rewindRngs then
    let cref : CRef := (st.nroots, [])
    ({ sc with cref := cref }, { dicts := st.dicts ++ [(cref, zeros sc.rngs)], nroots := st.nroots + 1 })
  else (sc, st)

/-- the loop of `linen.transforms.fork_rngs`: `{name: LazyRng.create(module.make_rng(name)) for name in rngs}` -/
def forkLoop (cfg : Cfg) (sc : Scope) : List String → Store → Except Err (List (String × LazyRng) × Store)
  | [], st => .ok ([], st)
  | n :: ns, st => do
    let (k, st1) ← makeRng cfg sc n st
    let (rest, st2) ← forkLoop cfg sc ns st1
    .ok ((n, { base := k, suffix := [] }) :: rest, st2)

/-- the scope a `nn.jit`-ted method runs in: every stream replaced by one key drawn from it, empty
suffix, same path, same counter dict (`lift.pack` copies the reference) -/
def forkRngs (cfg : Cfg) (sc : Scope) (st : Store) : Except Err (Scope × Store) := do
  let (rngs, st') ← forkLoop cfg sc (sc.rngs.map (·.1)) st
  .ok ({ sc with rngs := rngs }, st')

/-! ### Linen programs: a module tree with its call sequence -/

/-- what a module method does, as far as keys are concerned.
`draw s` = `self.make_rng(s)` (or a `self.param` initialiser when `s` is the params stream);
`sub n body` = call of the child module named `n` (created on first use, re-entered afterwards) running
`body`; `jit body` = a `nn.jit`-ted method of this module running `body`. -/
inductive Prog where
  | done
  | draw (stream : String) (rest : Prog)
  | sub (name : String) (body rest : Prog)
  | jit (body rest : Prog)
  deriving Repr, Inhabited

def runProg (cfg : Cfg) : Prog → Scope → Store → Except Err (List SymKey × Store)
  | .done, _, st => .ok ([], st)
  | .draw s rest, sc, st => do
    let (k, st1) ← makeRng cfg sc s st
    let (ks, st2) ← runProg cfg rest sc st1
    .ok (k :: ks, st2)
  | .sub n body rest, sc, st => do
    let (c, st1) := push sc n st
    let (ks1, st2) ← runProg cfg body c st1
    let (ks2, st3) ← runProg cfg rest sc st2
    .ok (ks1 ++ ks2, st3)
  | .jit body rest, sc, st => do
    let (f, st1) ← forkRngs cfg sc st
    let (ks1, st2) ← runProg cfg body f st1
    let (ks2, st3) ← runProg cfg rest sc st2
    .ok (ks1 ++ ks2, st3)

/-- `Module.init / apply(..., rngs=seeds)` of the program: the keys handed out, in execution order -/
def runTop (cfg : Cfg) (seeds : List (String × SymKey)) (p : Prog) : Except Err (List SymKey) :=
  let (root, st) := bindRoot seeds
  (runProg cfg p root st).map (·.1)

/-! ### op histories on scope handles (the functional-core API) -/

inductive LOp where
  | push (sid : Nat) (name : String)
  | rng (sid : Nat) (stream : String)
  | rewound (sid : Nat) (rewindRngs : Bool)
  | fork (sid : Nat)
  deriving Repr, Inhabited

inductive LOut where
  | scope (sid : Nat)
  | key (k : SymKey)
  | err (e : Err)
  deriving Repr, Inhabited

structure LMachine where
  scopes : List Scope
  store : Store
  deriving Repr, Inhabited

def lstep (cfg : Cfg) (m : LMachine) : LOp → LMachine × LOut
  | .push sid name =>
    match m.scopes[sid]? with
    | none => (m, .err .badHandle)
    | some sc =>
      let (c, st) := push sc name m.store
      ({ scopes := m.scopes ++ [c], store := st }, .scope m.scopes.length)
  | .rng sid stream =>
    match m.scopes[sid]? with
    | none => (m, .err .badHandle)
    | some sc =>
      match makeRng cfg sc stream m.store with
      | .ok (k, st) => ({ m with store := st }, .key k)
      | .error e => (m, .err e)
  | .rewound sid b =>
    match m.scopes[sid]? with
    | none => (m, .err .badHandle)
    | some sc =>
      let (c, st) := rewound sc b m.store
      ({ scopes := m.scopes ++ [c], store := st }, .scope m.scopes.length)
  | .fork sid =>
    match m.scopes[sid]? with
    | none => (m, .err .badHandle)
    | some sc =>
      match forkRngs cfg sc m.store with
      | .ok (c, st) => ({ scopes := m.scopes ++ [c], store := st }, .scope m.scopes.length)
      | .error e => (m, .err e)

def lrun (cfg : Cfg) : LMachine → List LOp → List LOut
  | _, [] => []
  | m, op :: ops => let (m', o) := lstep cfg m op; o :: lrun cfg m' ops

def linit (seeds : List (String × SymKey)) : LMachine :=
  let (root, st) := bindRoot seeds
  { scopes := [root], store := st }

/-! ## `nn.jit`: replaying counter increments on jit cache hits (`lift.jit`, `_restore_rng_counters`)

The body of a lifted-jit function runs in Python only when `jax.jit` has to trace it, i.e. the first time this
*transformed function* sees this fingerprint; on a cache hit the counter increments the body would have made are
replayed from flax's side-effect cache.  As shipped, that cache was one dictionary for all transformed functions,
keyed by the fingerprint alone (finding F11); the repair keeps one cache per transformed function. -/

structure JitWorld where
  traced : List (Nat × Nat)            -- jax.jit's caches: (function, fingerprint) pairs already traced
  deltas : List ((Nat × Nat) × Nat)    -- flax's cache(s) of counter deltas
  deriving Repr, Inhabited

/-- One call of transformed function `fn`, whose body makes `d` draws, at fingerprint `fp` with the counter at `c`.
Returns the counter afterwards.  `shared = true`: the code as shipped (`_side_effect_cache` global, key = fingerprint);
`shared = false`: the repaired code (cache local to `lift.jit`, i.e. key = (function, fingerprint)). -/
def jitCall (shared : Bool) (w : JitWorld) (fn fp d c : Nat) : JitWorld × Nat :=
  let tracedNow := !(w.traced.contains (fn, fp))
  let cAfter := if tracedNow then c + d else c                      -- the body's own increments, if it ran
  let traced' := if tracedNow then w.traced ++ [(fn, fp)] else w.traced
  let key : Nat × Nat := if shared then (0, fp) else (fn, fp)
  match find? key w.deltas with
  | some dl => ({ traced := traced', deltas := w.deltas }, c + dl)             -- counters := old + cached delta
  | none => ({ traced := traced', deltas := w.deltas ++ [(key, cAfter - c)] }, cAfter)

/-- a process history: calls `(fn, fp, c)`; `d fn` is the number of draws of `fn`'s body; returns the counters after each call -/
def jitRun (shared : Bool) (d : Nat → Nat) : JitWorld → List (Nat × Nat × Nat) → List Nat
  | _, [] => []
  | w, (fn, fp, c) :: rest =>
    let (w', c') := jitCall shared w fn fp (d fn) c
    c' :: jitRun shared d w' rest

/-! ### counter dictionaries as heap objects: what a jit cache hit must do to them

`Scope.rng_counters` of a child scope is the *same dict object* that sits in the parent's dict under
`(child_rng_token, name)`; a child scope that was bound earlier (setup-style submodules, re-entered children) keeps
its reference.  On a jit cache hit `_restore_rng_counters` writes `old + cached delta` back with the recursive
`set_from_dict`, i.e. **in place**.  Cells are addressed by `(root id, key path)` like `Store.dicts`; the links record
which cell a parent's entry refers to, so that replacing an entry by a new object (what `dict.update` would do) is
expressible. -/

structure CHeap where
  cells : List (CRef × List (String × Nat))      -- dict objects: their stream counters
  links : List ((CRef × String) × CRef)          -- parent dict, child name ↦ the child's dict object
  fresh : Nat                                    -- root ids ≥ fresh are unused (new objects)
  deriving Repr, Inhabited

def CHeap.init : CHeap := { cells := [(((0 : Nat), []), [])], links := [], fresh := 1 }

/-- `Scope.push(name, reuse=True)` on the counters: the dict stored in the parent's dict, created there if missing -/
def CHeap.pushC (h : CHeap) (a : CRef) (n : String) : CHeap × CRef :=
  match find? (a, n) h.links with
  | some b => (h, b)
  | none =>
    let b : CRef := (a.1, a.2 ++ [n])
    ({ h with cells := h.cells ++ [(b, [])], links := h.links ++ [((a, n), b)] }, b)

def CHeap.ensure : CHeap → CRef → List String → CHeap × CRef
  | h, a, [] => (h, a)
  | h, a, n :: rest =>
    let r := h.pushC a n
    CHeap.ensure r.1 r.2 rest

/-- follow the nested dict keys `(tok, n₁) … (tok, nₖ)` from dict `a` -/
def CHeap.walk : CHeap → CRef → List String → Option CRef
  | _, a, [] => some a
  | h, a, n :: rest =>
    match find? (a, n) h.links with
    | some b => CHeap.walk h b rest
    | none => none

def CHeap.read (h : CHeap) (b : CRef) (s : String) : Nat :=
  match find? b h.cells with
  | some d => (match find? s d with | some v => v | none => 0)
  | none => 0

/-- what `CountsHolder.make(scope.rng_counters)` sees under the nested key path (a `defaultdict(int)`) -/
def CHeap.readVia (h : CHeap) (a : CRef) (p : List String) (s : String) : Nat :=
  match h.walk a p with
  | some b => h.read b s
  | none => 0

/-- `d[s] = f(d.get(s, 0))` on the dict object `b`, in place -/
def CHeap.modify (h : CHeap) (b : CRef) (s : String) (f : Nat → Nat) : CHeap :=
  let d := match find? b h.cells with | some d => d | none => []
  { h with cells := set b (set s (f (h.read b s)) d) h.cells }

def CHeap.applyAt (h : CHeap) (a : CRef) (p : List String) (s : String) (f : Nat → Nat) : CHeap :=
  let r := h.ensure a p
  r.1.modify r.2 s f

/-- the Python body of a jit-ted function when it is traced: draws `(child path, stream)` through `push(reuse)` -/
def CHeap.runBody (h : CHeap) (a : CRef) : List (List String × String) → CHeap
  | [] => h
  | (p, s) :: rest => CHeap.runBody (h.applyAt a p s (· + 1)) a rest

/-- `set_from_dict(scope.rng_counters, updates)` (flax/core/lift.py): recursive, in place -/
def CHeap.setFromDict (h : CHeap) (a : CRef) : List (List String × String × Nat) → CHeap
  | [] => h
  | (p, s, v) :: rest => CHeap.setFromDict (h.applyAt a p s (fun _ => v)) a rest

/-- the cache-hit branch of `_restore_rng_counters`: counters := old + cached delta, written in place -/
def CHeap.hitCall (h : CHeap) (a : CRef) (delta : List (List String × String × Nat)) : CHeap :=
  h.setFromDict a (delta.map (fun x => (x.1, x.2.1, h.readVia a x.1 x.2.1 + x.2.2)))

/-- **not** the shipped code: `scope.rng_counters.update(updates)` replaces every child entry of the top-level dict by a
new dict object (here: cells under a fresh root id) before the values are written -/
def CHeap.detach (h : CHeap) (a : CRef) : List String → CHeap
  | [] => h
  | n :: ns =>
    let b : CRef := (h.fresh, a.2 ++ [n])
    CHeap.detach { cells := h.cells ++ [(b, [])], links := set (a, n) b h.links, fresh := h.fresh + 1 } a ns

def CHeap.hitCallUpdate (h : CHeap) (a : CRef) (delta : List (List String × String × Nat)) : CHeap :=
  let ups := delta.map (fun x => (x.1, x.2.1, h.readVia a x.1 x.2.1 + x.2.2))
  (h.detach a (ups.filterMap (fun x => x.1.head?))).setFromDict a ups

/-- distinct keys of the body, in order of first occurrence from the right -/
def dedupKeys : List (List String × String) → List (List String × String)
  | [] => []
  | x :: xs => if x ∈ xs then dedupKeys xs else x :: dedupKeys xs

/-- the delta `_restore_rng_counters` caches after tracing: new − old for every counter the body touched -/
def deltaOf (body : List (List String × String)) : List (List String × String × Nat) :=
  (dedupKeys body).map (fun k => (k.1, k.2, (body.filter (fun d => decide (d = k))).length))

/-! ### `lift._partial_pack`: which counter dict the inner twin of each lifted scope gets

All lifted transforms (`map_variables`, `vmap`, `scan`, `remat`, `jit`, …) go through `pack`.  The scopes lifted together (a
transformed module and the sub-modules it owns through dataclass attributes) are first deduplicated — duplicates are merged and a
scope with a lifted ancestor is dropped, it is re-derived inside by `push(reuse=True)` — and then, for every *kept* scope, the inner
scope is created with `inner_scope.rng_counters = scope.rng_counters`: the same dict object, so draws inside and outside the
transform advance one counter per scope. -/

def isAncestorScope (t s : Scope) : Bool :=
  decide (t.cref.1 = s.cref.1) && decide (t.path.length < s.path.length) && decide (s.path.take t.path.length = t.path)

def dedupEq {α : Type} [DecidableEq α] : List α → List α
  | [] => []
  | x :: xs => x :: (dedupEq xs).filter (fun y => decide (y ≠ x))

/-- `_dedup_scopes` (the minimal set, in first-occurrence order) -/
def dedupScopes (scopes : List Scope) : List Scope :=
  (dedupEq scopes).filter (fun s => !(scopes.any (fun t => isAncestorScope t s)))

/-- the inner scope `scope_fn` builds for a lifted scope, as far as rngs go (the streams are passed through unchanged when the
transform neither splits nor forks them) -/
def innerScope (s : Scope) (counters : CRef) : Scope := { s with cref := counters }

/-- the shipped `_partial_pack`: counters are collected from the deduplicated scope list -/
def packCounters (scopes : List Scope) : List (Scope × CRef) :=
  (dedupScopes scopes).map (fun s => (s, s.cref))

/-- **not** the shipped code: counters collected from the scope list *before* deduplication and zipped with the deduplicated one -/
def packCountersBeforeDedup (scopes : List Scope) : List (Scope × CRef) :=
  (dedupScopes scopes).zip (scopes.map (·.cref))

/-! ## NNX streams -/

/-- the value of `RngStream.key`: one key, or (after `split_rngs`) the array `idx ↦ split k shape idx` -/
inductive KeyVal where
  | scalar (k : SymKey)
  | batched (k : SymKey) (shape : List Nat)
  deriving DecidableEq, Repr, Inhabited

/-- the value of `RngStream.count`: one counter or an array of equal counters -/
inductive CountVal where
  | scalar (c : Nat)
  | batched (shape : List Nat) (c : Nat)
  deriving DecidableEq, Repr, Inhabited

structure Stream where
  tag : String
  key : KeyVal
  count : CountVal
  deriving DecidableEq, Repr, Inhabited

/-- one entry of `SplitBackups`: (stream, key, count) -/
structure Backup where
  stream : String
  key : KeyVal
  count : CountVal
  deriving Repr, Inhabited

structure Rngs where
  streams : List (String × Stream)          -- `vars(rngs)`
  backups : List (List Backup)              -- every `SplitBackups` object made so far (driver handles)
  deriving Repr, Inhabited

/-- `Rngs(**seeds)` -/
def Rngs.mk' (seeds : List (String × SymKey)) : Rngs :=
  { streams := seeds.map (fun ks => (ks.1, { tag := ks.1, key := .scalar ks.2, count := .scalar 0 })), backups := [] }

/-- `RngStream.__call__`: `key = fold_in(self.key, self.count); self.count += 1` -/
def Stream.call (s : Stream) : Except Err (SymKey × Stream) :=
  match s.key, s.count with
  | .scalar k, .scalar c => .ok (.foldIn k c, { s with count := .scalar (c + 1) })
  | _, _ => .error .batchedKey

/-- `Rngs._get_stream`: the name of the stream that answers for `name` -/
def Rngs.resolve (fallback : String) (r : Rngs) (name : String) : Except Err String :=
  if (find? name r.streams).isSome then .ok name
  else if (find? fallback r.streams).isSome then .ok fallback
  else .error .noStream

/-- `rngs.<name>()` / `rngs[name]()` -/
def Rngs.call (fallback : String) (r : Rngs) (name : String) : Except Err (SymKey × Rngs) := do
  let n ← r.resolve fallback name
  match find? n r.streams with
  | none => .error .noStream
  | some s =>
    let (k, s') ← s.call
    .ok (k, { r with streams := set n s' r.streams })

/-- what `split_rngs` does to one selected stream: draw one key, back up (key, count *after* the draw),
replace the key by its split and zero the counts -/
def Stream.splitOne (s : Stream) (shape : List Nat) (squeeze : Bool) : Except Err (Backup × Stream) := do
  let (k, s1) ← s.call
  let b : Backup := { stream := s.tag, key := s1.key, count := s1.count }
  if squeeze then
    -- `key = jax.random.split(key, splits)[0]`, counts keep their (scalar) shape
    .ok (b, { s1 with key := .scalar (.split k shape (shape.map (fun _ => 0))), count := .scalar 0 })
  else
    .ok (b, { s1 with key := .batched k shape, count := .batched shape 0 })

/-- the `only=` / filter argument on stream tags; `none` selects every stream -/
def selectedBy (only : Option (List String)) (tag : String) : Bool :=
  match only with
  | none => true
  | some ns => decide (tag ∈ ns)

/-- `split_rngs(rngs, splits=shape, only=<names>, squeeze=…)`; `only = none` selects every stream -/
def splitLoop (only : Option (List String)) (shape : List Nat) (squeeze : Bool) :
    List (String × Stream) → Except Err (List Backup × List (String × Stream))
  | [] => .ok ([], [])
  | (n, s) :: rest =>
    let selected := selectedBy only s.tag
    if selected then do
      let (b, s') ← s.splitOne shape squeeze
      let (bs, rest') ← splitLoop only shape squeeze rest
      .ok (b :: bs, (n, s') :: rest')
    else do
      let (bs, rest') ← splitLoop only shape squeeze rest
      .ok (bs, (n, s) :: rest')

/-- **not** the shipped code: a `split_rngs` that also records a backup (key, current count) for the streams `only=` leaves alone -/
def splitLoopBackupAll (only : Option (List String)) (shape : List Nat) (squeeze : Bool) :
    List (String × Stream) → Except Err (List Backup × List (String × Stream))
  | [] => .ok ([], [])
  | (n, s) :: rest =>
    if selectedBy only s.tag then do
      let (b, s') ← s.splitOne shape squeeze
      let (bs, rest') ← splitLoopBackupAll only shape squeeze rest
      .ok (b :: bs, (n, s') :: rest')
    else do
      let (bs, rest') ← splitLoopBackupAll only shape squeeze rest
      .ok ({ stream := s.tag, key := s.key, count := s.count } :: bs, (n, s) :: rest')

def Rngs.split (r : Rngs) (only : Option (List String)) (shape : List Nat) (squeeze : Bool) :
    Except Err (Nat × Rngs) := do
  let (bs, streams) ← splitLoop only shape squeeze r.streams
  .ok (r.backups.length, { streams := streams, backups := r.backups ++ [bs] })

/-- `restore_rngs(backups)` -/
def restoreLoop (streams : List (String × Stream)) : List Backup → List (String × Stream)
  | [] => streams
  | b :: bs =>
    let streams' := match find? b.stream streams with
      | some s => set b.stream { s with key := b.key, count := b.count } streams
      | none => streams
    restoreLoop streams' bs

def Rngs.restore (r : Rngs) (bid : Nat) : Except Err Rngs :=
  match r.backups[bid]? with
  | none => .error .badHandle
  | some bs => .ok { r with streams := restoreLoop r.streams bs }

/-- `reseed(rngs, **stream_keys)`: streams whose tag is named get the new key and count 0 -/
def reseedLoop {ι : Type} (newKeys : List (String × SymKey)) : List (ι × Stream) → Except Err (List (ι × Stream))
  | [] => .ok []
  | (n, s) :: rest =>
    match find? s.tag newKeys with
    | none => do
      let rest' ← reseedLoop newKeys rest
      .ok ((n, s) :: rest')
    | some k =>
      match s.key with
      | .batched _ _ => .error .nonScalarReseed
      | .scalar _ => do
        let rest' ← reseedLoop newKeys rest
        .ok ((n, { s with key := .scalar k, count := .scalar 0 }) :: rest')

def Rngs.reseed (r : Rngs) (newKeys : List (String × SymKey)) : Except Err Rngs := do
  let streams ← reseedLoop newKeys r.streams
  .ok { r with streams := streams }

/-! ### a node holding several stream objects

Sub-modules that were each built with their own `nnx.Rngs` bring their own `RngStream` objects: one node can hold several
distinct objects with the same stream name, and one object can be reachable from several attributes.  `graph.iter_graph`
visits every object once; `reseed` is `reseedLoop` over that list. -/

structure Node where
  objs : List (Nat × Stream)       -- the distinct RngStream objects in `iter_graph` order: (object id, state); tags may repeat
  places : List (String × Nat)     -- attribute paths ↦ object id; two places may hold the same object
  deriving Repr, Inhabited

/-- **not** the shipped code: a `reseed` that consumes each requested name once (`pending.pop`) and stops early -/
def reseedPopLoop {ι : Type} (pending : List (String × SymKey)) : List (ι × Stream) → Except Err (List (ι × Stream))
  | [] => .ok []
  | (n, s) :: rest =>
    if pending.isEmpty then .ok ((n, s) :: rest)
    else
      match find? s.tag pending with
      | none => do
        let rest' ← reseedPopLoop pending rest
        .ok ((n, s) :: rest')
      | some k =>
        match s.key with
        | .batched _ _ => .error .nonScalarReseed
        | .scalar _ => do
          let rest' ← reseedPopLoop (pending.filter (fun p => p.1 ≠ s.tag)) rest
          .ok ((n, { s with key := .scalar k, count := .scalar 0 }) :: rest')

inductive NodeOp where
  | call (place : String)                         -- `<the stream object at that attribute>()`
  | reseed (newKeys : List (String × SymKey))     -- `nnx.reseed(node, **newKeys)`
  | state                                         -- read key and count of every object
  deriving Repr, Inhabited

inductive NodeOut where
  | key (k : SymKey)
  | unit
  | state (objs : List (Nat × Stream))
  | err (e : Err)
  deriving Repr, Inhabited

def nodeStep (nd : Node) : NodeOp → Node × NodeOut
  | .call place =>
    match find? place nd.places with
    | none => (nd, .err .noStream)
    | some id =>
      match find? id nd.objs with
      | none => (nd, .err .badHandle)
      | some s =>
        match s.call with
        | .ok (k, s') => ({ nd with objs := set id s' nd.objs }, .key k)
        | .error e => (nd, .err e)
  | .reseed newKeys =>
    match reseedLoop newKeys nd.objs with
    | .ok objs => ({ nd with objs := objs }, .unit)
    | .error e => (nd, .err e)
  | .state => (nd, .state nd.objs)

def nodeRun : Node → List NodeOp → List NodeOut
  | _, [] => []
  | nd, op :: ops => let r := nodeStep nd op; r.2 :: nodeRun r.1 ops

/-- all multi-indices of an array of the given shape, row-major -/
def indices : List Nat → List (List Nat)
  | [] => [[]]
  | n :: rest => (List.range n).flatMap (fun i => (indices rest).map (fun ix => i :: ix))

/-- what lane `idx` of a `vmap` over the split streams sees of one stream -/
def Stream.lane (s : Stream) (idx : List Nat) : Stream :=
  match s.key, s.count with
  | .batched k shape, .batched _ c => { s with key := .scalar (.split k shape idx), count := .scalar c }
  | _, _ => s

/-- the body of a vmapped function: a sequence of stream calls, run in lane `idx` -/
def laneCalls (fallback : String) (idx : List Nat) : Rngs → List String → Except Err (List SymKey)
  | _, [] => .ok []
  | r, n :: ns => do
    let nm ← r.resolve fallback n
    match find? nm r.streams with
    | none => .error .noStream
    | some s =>
      let (k, s') ← (s.lane idx).call
      -- the lane's view of the stream keeps its scalar counter while the body runs
      let ks ← laneCalls fallback idx { r with streams := set nm s' r.streams } ns
      .ok (k :: ks)

/-- the counter updates a vmapped body leaves behind (every lane did the same calls) -/
def bumpCalls (fallback : String) : Rngs → List String → Except Err Rngs
  | r, [] => .ok r
  | r, n :: ns => do
    let nm ← r.resolve fallback n
    match find? nm r.streams with
    | none => .error .noStream
    | some s =>
      let s' : Stream := match s.count with
        | .scalar c => { s with count := .scalar (c + 1) }
        | .batched sh c => { s with count := .batched sh (c + 1) }
      bumpCalls fallback { r with streams := set nm s' r.streams } ns

/-- `nnx.vmap(body)(rngs)` with the split streams mapped over axis 0 and the others broadcast:
the keys every lane's calls return (lane-major), and the state afterwards -/
def Rngs.lanes (fallback : String) (r : Rngs) (shape : List Nat) (calls : List String) :
    Except Err (List (List SymKey) × Rngs) := do
  let outs ← (indices shape).mapM (fun idx => laneCalls fallback idx r calls)
  let r' ← bumpCalls fallback r calls
  .ok (outs, r')

/-- `nnx.fork(state, filter, pattern)`: pure; selected keys are split *without* drawing -/
def forkStreams (only : Option (List String)) (shape : List Nat) : List (String × Stream) → List (String × Stream)
  | [] => []
  | (n, s) :: rest =>
    let selected := selectedBy only s.tag
    let s' : Stream := match selected, s.key with
      | true, .scalar k => { s with key := .batched k shape }
      | _, _ => s
    (n, s') :: forkStreams only shape rest

/-! ### NNX op histories -/

inductive NOp where
  | call (name : String)
  | split (only : Option (List String)) (shape : List Nat) (squeeze : Bool)
  | lanes (shape : List Nat) (calls : List String)
  | restore (bid : Nat)
  | reseed (newKeys : List (String × SymKey))
  | fork (only : Option (List String)) (shape : List Nat)
  deriving Repr, Inhabited

inductive NOut where
  | key (k : SymKey)
  | backup (bid : Nat)
  | lanes (ks : List (List SymKey))
  | unit
  | forked (streams : List (String × Stream))
  | err (e : Err)
  deriving Repr, Inhabited

def nstep (fallback : String) (r : Rngs) : NOp → Rngs × NOut
  | .call n =>
    match r.call fallback n with
    | .ok (k, r') => (r', .key k)
    | .error e => (r, .err e)
  | .split only shape squeeze =>
    match r.split only shape squeeze with
    | .ok (bid, r') => (r', .backup bid)
    | .error e => (r, .err e)
  | .lanes shape calls =>
    match r.lanes fallback shape calls with
    | .ok (ks, r') => (r', .lanes ks)
    | .error e => (r, .err e)
  | .restore bid =>
    match r.restore bid with
    | .ok r' => (r', .unit)
    | .error e => (r, .err e)
  | .reseed ks =>
    match r.reseed ks with
    | .ok r' => (r', .unit)
    | .error e => (r, .err e)
  | .fork only shape => (r, .forked (forkStreams only shape r.streams))

def nrun (fallback : String) : Rngs → List NOp → List NOut
  | _, [] => []
  | r, op :: ops => let (r', o) := nstep fallback r op; o :: nrun fallback r' ops

/-! ### histories of one stream (the machine of theorem `nnx_no_replay_along_history`) -/

/-- `n` successive calls of one stream -/
def Stream.callN : Stream → Nat → Except Err (List SymKey × Stream)
  | s, 0 => .ok ([], s)
  | s, n + 1 =>
    match s.call with
    | .error e => .error e
    | .ok (k, s1) =>
      match Stream.callN s1 n with
      | .error e => .error e
      | .ok (ks, s2) => .ok (k :: ks, s2)

inductive SOp where
  | call                       -- `stream()`
  | split (shape : List Nat)   -- `split_rngs(…, splits=shape)` selecting this stream
  | lanes (m : Nat)            -- a vmapped body in which every lane calls the stream `m` times
  | restore                    -- `restore_rngs` of the open split
  deriving Repr

structure SState where
  cur : Stream
  saved : Option Backup

/-- every lane of `indices`, `m` calls each (through `Stream.lane` and `Stream.call`) -/
def lanesLoop (s : Stream) (m : Nat) : List (List Nat) → Except Err (List SymKey)
  | [] => .ok []
  | idx :: rest =>
    match Stream.callN (s.lane idx) m with
    | .error e => .error e
    | .ok (ks, _) =>
      match lanesLoop s m rest with
      | .error e => .error e
      | .ok more => .ok (ks ++ more)

def sstep (st : SState) : SOp → Except Err (SState × List SymKey)
  | .call =>
    match st.cur.call with
    | .error e => .error e
    | .ok (k, s') => .ok ({ st with cur := s' }, [k])
  | .split shape =>
    match st.cur.splitOne shape false with
    | .error e => .error e
    | .ok (b, s') => .ok ({ cur := s', saved := some b }, [])
  | .lanes m =>
    match st.cur.key, st.cur.count with
    | .batched _ shape, .batched sh c =>
      match lanesLoop st.cur m (indices shape) with
      | .error e => .error e
      | .ok ks => .ok ({ st with cur := { st.cur with count := .batched sh (c + m) } }, ks)
    | _, _ => .error .badHandle
  | .restore =>
    match st.saved with
    | none => .error .badHandle
    | some b => .ok ({ cur := { st.cur with key := b.key, count := b.count }, saved := none }, [])

def srun : SState → List SOp → Except Err (List SymKey)
  | _, [] => .ok []
  | st, op :: ops =>
    match sstep st op with
    | .error e => .error e
    | .ok (st', ks) =>
      match srun st' ops with
      | .error e => .error e
      | .ok more => .ok (ks ++ more)

end Flax.Rng
