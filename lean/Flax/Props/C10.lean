/-
C10 — State-dict / msgpack serialization round-trips exactly and rejects mismatches.

Property theorems over the models `Flax/Model/Serial.lean` (flax's own logic: to_state_dict,
from_state_dict and its restore functions, chunking, ext types, to_bytes / from_bytes) and
`Flax/Model/Msgpack.lean` (the wire format). Helper lemmas live in `Flax/Proofs/{Serial,SerialChunk,Msgpack,SerialBytes,SerialHeap}.lean`.

Reading guide.  `Tree` = the supported pytrees, `STree` = state dicts, `Leaf` = (dtype name, shape,
C-order bytes) for arrays and exact bit patterns for scalars, so an equation between trees *is*
"same structure and container types, leaves identical in dtype, shape and bytes".
`t.sub p` / `s.sub p` navigate by key path (dict key, field name, decimal list index).
`localCheck path tn sn` is the error the pair (target node, state node) raises by itself:
missing dict key, different list length, different field names, state that is not a dict.
-/
import Flax.Proofs.SerialBytes
import Flax.Proofs.SerialSizes
import Flax.Proofs.MsgpackRobust
import Flax.Proofs.SerialHeap
import Flax.Proofs.SerialHeapValue

namespace Flax.C10
open Flax.Serial Flax.Msgpack Flax.SerialHeap

/-! ## 1. `from_state_dict(t, to_state_dict(t)) == t` -/

/-- **State-dict round trip**, for every pytree whose dict keys / field names are distinct (which
Python guarantees): same containers, same classes, same leaves. This is about the *repaired*
`_restore_namedtuple` (fix commit for the name/fields/values finding). -/
theorem statedict_roundtrip (t : Tree) (h : t.wf = true) :
    fromStateDict t (toStateDict t) = .ok t :=
  rt_tree true t ["."] h (by intro h; cases h)

/-- what was true of the code as shipped: the round trip holds when no namedtuple has exactly the
field names `name`, `fields`, `values` -/
theorem statedict_roundtrip_orig_partial (t : Tree) (h : t.wf = true) (hl : t.noLegacyNames = true) :
    fromStateDictOrig t (toStateDict t) = .ok t :=
  rt_tree false t ["."] h (fun _ => hl)

/-- the shipped `_restore_namedtuple` violates the round trip: `NT(name=1, fields=2, values=3)` is
taken for the pre-2022 encoding and fails (`len(2)`: TypeError in Python); the repaired one restores it -/
theorem orig_roundtrip_fails :
    let t := Tree.named "NT" [("name", .leaf (.int 1)), ("fields", .leaf (.int 2)), ("values", .leaf (.int 3))]
    t.wf = true ∧ fromStateDictOrig t (toStateDict t) = .error .legacy ∧
      fromStateDict t (toStateDict t) = .ok t := by
  refine ⟨by decide, ?_, statedict_roundtrip _ (by decide)⟩
  simp [fromStateDictOrig, toStateDict, toSDFields, fromSDG, namedState, sameKeySet, subsetKeys, keys,
    legacyKeys, legacyConvert, lookup, pyLen]

/-! ## 2. restoring matches entries by key, keeps the target's shape, rejects mismatches -/

/-- **Restore is by key, never by position, and invents nothing**: after a successful restore, the
result holds at every leaf position of the target (addressed by its key path) exactly the state
entry found under the *same key path* — whatever the order of the entries in the state and whatever
other keys the state has. -/
theorem restore_by_key (t : Tree) (s : STree) (t' : Tree)
    (hw : t.wf = true) (hs : s.wf = true) (hnl : s.noLegacy = true)
    (h : fromStateDict t s = .ok t') (p : Path) (v : Leaf) (hp : t.sub p = some (.leaf v)) :
    ∃ sv, s.sub p = some sv ∧ t'.sub p = some (ofState sv) := by
  obtain ⟨sn, tn', h1, h2, h3, h4, h5, h6⟩ := path_ok true p ["."] t s t' hw hs hnl h _ hp
  refine ⟨sn, h1, ?_⟩
  have := (node_ok true _ _ sn tn' h3 h4 h5 h6).2.2.1 v rfl
  rw [h2, this]

/-- **Container types are preserved**: at every key path of the target the result has a node of the
same container type, class, keys / field names (in the target's order) and length. -/
theorem restore_same_shape (t : Tree) (s : STree) (t' : Tree)
    (hw : t.wf = true) (hs : s.wf = true) (hnl : s.noLegacy = true)
    (h : fromStateDict t s = .ok t') (p : Path) (tn : Tree) (hp : t.sub p = some tn) :
    ∃ tn', t'.sub p = some tn' ∧ sameNode tn tn' := by
  obtain ⟨sn, tn', _, h2, h3, h4, h5, h6⟩ := path_ok true p ["."] t s t' hw hs hnl h _ hp
  exact ⟨tn', h2, (node_ok true _ _ sn tn' h3 h4 h5 h6).2.1⟩

/-- **The error names the path of a real mismatch**: when restore fails, the error it raises is the
one raised by some pair (target node, state node) under a common key path `p`, and the path carried
by the error (for the five `ValueError`s) is `./p`. -/
theorem restore_error_names_mismatch (t : Tree) (s : STree) (e : Err)
    (hw : t.wf = true) (hs : s.wf = true) (hnl : s.noLegacy = true)
    (h : fromStateDict t s = .error e) :
    ∃ p tn sn, t.sub p = some tn ∧ s.sub p = some sn ∧ localCheck ("." :: p) tn sn = some e := by
  simpa using path_err true t.size ["."] t s e (Nat.le_refl _) hw hs hnl h

/-- **Every mismatch is rejected**: if under some common key path the target node and the state
node do not fit (a target key missing from the state, a list or tuple of different length, different
namedtuple or dataclass field names, a leaf where a dict is needed), restore raises an error. -/
theorem restore_rejects (t : Tree) (s : STree)
    (hw : t.wf = true) (hs : s.wf = true) (hnl : s.noLegacy = true)
    (p : Path) (tn : Tree) (sn : STree) (e : Err)
    (ht : t.sub p = some tn) (hsn : s.sub p = some sn) (hm : localCheck ("." :: p) tn sn = some e) :
    ∃ e', fromStateDict t s = .error e' := by
  cases hr : fromStateDict t s with
  | error e' => exact ⟨e', rfl⟩
  | ok t' =>
    obtain ⟨sn', tn', h1, _, h3, h4, h5, h6⟩ := path_ok true p ["."] t s t' hw hs hnl hr _ ht
    rw [hsn] at h1
    cases h1
    have := (node_ok true _ _ sn tn' h3 h4 h5 h6).1
    simp only [List.singleton_append] at this
    rw [this] at hm
    cases hm

/-- restore succeeds **iff** no common node mismatches -/
theorem restore_ok_iff (t : Tree) (s : STree)
    (hw : t.wf = true) (hs : s.wf = true) (hnl : s.noLegacy = true) :
    (∃ t', fromStateDict t s = .ok t') ↔
      ∀ p tn sn, t.sub p = some tn → s.sub p = some sn → localCheck ("." :: p) tn sn = none := by
  constructor
  · rintro ⟨t', h⟩ p tn sn ht hsn
    cases hc : localCheck ("." :: p) tn sn with
    | none => rfl
    | some e =>
      obtain ⟨e', he'⟩ := restore_rejects t s hw hs hnl p tn sn e ht hsn hc
      rw [h] at he'; cases he'
  · intro hall
    cases hr : fromStateDict t s with
    | ok t' => exact ⟨t', rfl⟩
    | error e =>
      obtain ⟨p, tn, sn, h1, h2, h3⟩ := restore_error_names_mismatch t s e hw hs hnl hr
      rw [hall p tn sn h1 h2] at h3
      cases h3

/-! ### what `localCheck` says, clause by clause of the property -/

/-- a target dict key missing from the saved state is a mismatch naming the path; surplus keys of
the saved state are not -/
theorem mismatch_dict (path : Path) (kvs : List (String × Tree)) (skvs : List (String × STree)) :
    localCheck path (.dict kvs) (.dict skvs) =
      if ∀ k ∈ keys kvs, k ∈ keys skvs then none else some (.missingKeys path) := by
  simp only [localCheck, ← subsetKeys_iff]

/-- a list of different length is a mismatch naming the path -/
theorem mismatch_list_length (path : Path) (xs : List Tree) (skvs : List (String × STree))
    (h : skvs.length ≠ xs.length) :
    localCheck path (.list xs) (.dict skvs) = some (.sizeMismatch path) ∧
    localCheck path (.tuple xs) (.dict skvs) = some (.sizeMismatch path) := by
  simp [localCheck, pyLen, h]

/-- differing namedtuple field names (as sets) are a mismatch naming the path -/
theorem mismatch_namedtuple (path : Path) (cls : String) (fs : List (String × Tree))
    (skvs : List (String × STree)) :
    localCheck path (.named cls fs) (.dict skvs) =
      if (∀ k ∈ keys skvs, k ∈ keys fs) ∧ (∀ k ∈ keys fs, k ∈ keys skvs) then none
      else some (.fieldNames path) := by
  simp only [localCheck, sameKeySet, Bool.and_eq_true, subsetKeys_iff]

/-- a dataclass field missing from the state, or a state key that is no field, is a mismatch
naming the path -/
theorem mismatch_dataclass (path : Path) (cls : String) (fs : List (String × Tree)) (aux : Nat)
    (skvs : List (String × STree)) :
    (localCheck path (.struct cls fs aux) (.dict skvs) = none ↔
      (∀ k ∈ keys fs, k ∈ keys skvs) ∧ (∀ k ∈ keys skvs, k ∈ keys fs)) := by
  have hfm : ∀ (l : List String), firstMissing l (keys skvs) = none ↔ ∀ k ∈ l, k ∈ keys skvs := by
    intro l
    induction l with
    | nil => simp [firstMissing]
    | cons a l ih =>
      simp only [firstMissing]
      by_cases ha : a ∈ keys skvs
      · simp [ha, ih]
      · simp [ha]
  simp only [localCheck]
  cases hm : firstMissing (keys fs) (keys skvs) with
  | some k =>
    have : ¬ ∀ k ∈ keys fs, k ∈ keys skvs := fun h => by rw [(hfm _).mpr h] at hm; cases hm
    simp [this]
  | none =>
    have h1 := (hfm _).mp hm
    cases hs : subsetKeys (keys skvs) (keys fs) with
    | true =>
      simp only [↓reduceIte, true_iff]
      exact ⟨h1, (subsetKeys_iff _ _).mp hs⟩
    | false =>
      have : ¬ ∀ k ∈ keys skvs, k ∈ keys fs := fun h => by
        rw [(subsetKeys_iff _ _).mpr h] at hs; cases hs
      simp [this]

/-- **a surplus key is never silently dropped by a dataclass restore**. In `Tree.struct cls fs aux`,
`fs` are the *data* (pytree-node) fields only — exactly the keys `to_state_dict` writes — and the
static `pytree_node=False` fields live in `aux`. A saved state with any key outside `fs`, in particular
one named like a static field of the same class (a `TrainState` state dict carrying `tx`), or with a
data field missing, makes `from_state_dict` raise. -/
theorem dataclass_key_set_must_match (cls : String) (fs : List (String × Tree)) (aux : Nat)
    (skvs : List (String × STree)) (hw : (Tree.struct cls fs aux).wf = true)
    (hs : (STree.dict skvs).wf = true) (hnl : (STree.dict skvs).noLegacy = true)
    (hdiff : (∃ k, k ∈ keys skvs ∧ k ∉ keys fs) ∨ (∃ k, k ∈ keys fs ∧ k ∉ keys skvs)) :
    ∃ e, fromStateDict (.struct cls fs aux) (.dict skvs) = .error e := by
  cases hc : localCheck ["."] (.struct cls fs aux) (.dict skvs) with
  | some e =>
    exact restore_rejects _ _ hw hs hnl [] (.struct cls fs aux) (.dict skvs) e rfl rfl hc
  | none =>
    have := (mismatch_dataclass ["."] cls fs aux skvs).mp hc
    rcases hdiff with ⟨k, h1, h2⟩ | ⟨k, h1, h2⟩
    · exact absurd (this.2 k h1) h2
    · exact absurd (this.1 k h1) h2

/-- and when the state's own node has that problem, the error raised at the top level is one of the two
`ValueError`s of the dataclass handler, naming the path — unless restoring an earlier field failed first -/
theorem dataclass_surplus_key_error (path : Path) (cls : String) (fs : List (String × Tree)) (aux : Nat)
    (skvs : List (String × STree)) (k : String) (hk : k ∈ keys skvs) (hnk : k ∉ keys fs)
    (hall : ∀ f ∈ keys fs, f ∈ keys skvs) :
    localCheck path (.struct cls fs aux) (.dict skvs) = some (.unknownFields path) := by
  have hm : firstMissing (keys fs) (keys skvs) = none := firstMissing_none_of_all _ _ hall
  have hs : subsetKeys (keys skvs) (keys fs) = false := by
    cases h : subsetKeys (keys skvs) (keys fs) with
    | false => rfl
    | true => exact absurd ((subsetKeys_iff _ _).mp h k hk) hnk
  simp [localCheck, hm, hs]

/-- the pre-2022 namedtuple encoding `{'name', 'fields', 'values'}` is converted to the current one
and then restored like any other state (only for targets whose own fields are not these three) -/
theorem legacy_restore (g : Bool) (path : Path) (cls : String) (fs : List (String × Tree))
    (skvs conv : List (String × STree))
    (h1 : sameKeySet (keys skvs) legacyKeys = true) (h2 : sameKeySet (keys fs) legacyKeys = false)
    (h3 : legacyConvert skvs = .ok conv) (h4 : sameKeySet (keys conv) legacyKeys = false) :
    fromSDG g path (.named cls fs) (.dict skvs) = fromSDG g path (.named cls fs) (.dict conv) := by
  simp [fromSDG, namedState, h1, h2, h3, h4]

/-- what the legacy branch computes on a well-formed legacy encoding
`{'name': …, 'fields': {'0': f0, '1': f1, …}, 'values': {'0': v0, '1': v1, …}}`: the current-format
state `{f0: v0, f1: v1, …}` — entries are paired by index key, then restored by field name -/
theorem legacy_encoding_converted (name : STree) (names : List String) (vals : List STree)
    (hlen : names.length = vals.length) (hnd : names.Nodup) :
    legacyConvert [("name", name),
        ("fields", .dict (enumL 0 (names.map (fun nm => STree.leaf (.str nm))))),
        ("values", .dict (enumL 0 vals))] = .ok (names.zip vals) := by
  have h := legacyLoop_spec names vals hlen hnd names.length 0 (by omega)
  simp only [List.take_zero] at h
  have e1 : ("name" : String) ≠ "fields" := by decide
  have e2 : ("name" : String) ≠ "values" := by decide
  have e3 : ("fields" : String) ≠ "values" := by decide
  simp [legacyConvert, lookup, e1, e2, e3, pyLen, length_enumL, h]

/-! ## 3. chunking of large arrays -/

/-- **`_unchunk ∘ _chunk` is the identity for every threshold** `T` (in bytes, from 0 upward),
every item size ≥ 1, shape and data, anywhere in a state dict that does not use the reserved key -/
theorem chunk_unchunk (T : Nat) (isz : String → Nat) (s : STree)
    (hnm : s.noMarker = true) (hok : s.arraysOk isz) :
    unchunkLeaves (chunkLeaves T isz s) = .ok s :=
  unchunk_chunk_tree T isz s hnm hok

/-- arrays of at most `T` bytes are left untouched (the threshold counts bytes, not elements) -/
theorem small_arrays_untouched (T : Nat) (isz : String → Nat) (a : NdArray)
    (h : prod a.shape * isz a.dtype ≤ T) :
    chunkLeaves T isz (.leaf (.ndarray a)) = .leaf (.ndarray a) := by
  have : oversize T isz a = false := by simp [oversize]; omega
  simp [chunkLeaves, this]

/-- larger ones are replaced by the chunk dict -/
theorem large_arrays_chunked (T : Nat) (isz : String → Nat) (a : NdArray)
    (h : T < prod a.shape * isz a.dtype) :
    chunkLeaves T isz (.leaf (.ndarray a)) = chunk T isz a := by
  have : oversize T isz a = true := by simp [oversize]; omega
  simp [chunkLeaves, this]

/-- chunking achieves its purpose: no piece of a chunked array is longer than
`max(1, T // itemsize)` elements, i.e. `max(T, itemsize)` bytes -/
theorem chunk_pieces_bounded (T : Nat) (isz : String → Nat) (a : NdArray) (hz : 1 ≤ isz a.dtype) :
    ∀ p ∈ splitEvery (max 1 (T / isz a.dtype) * isz a.dtype) a.data.length a.data,
      p.length ≤ max T (isz a.dtype) := by
  have hbound : max 1 (T / isz a.dtype) * isz a.dtype ≤ max T (isz a.dtype) := by
    rcases Nat.le_total 1 (T / isz a.dtype) with h | h
    · rw [Nat.max_eq_right h]
      exact Nat.le_trans (Nat.div_mul_le_self T _) (Nat.le_max_left _ _)
    · rw [Nat.max_eq_left h, Nat.one_mul]
      exact Nat.le_max_right _ _
  have key : ∀ (n fuel : Nat) (l : Bytes), ∀ p ∈ splitEvery n fuel l, p.length ≤ n := by
    intro n fuel
    induction fuel with
    | zero => intro l p hp; simp [splitEvery] at hp
    | succ f ih =>
      intro l p hp
      simp only [splitEvery] at hp
      split at hp
      · cases hp
      · simp only [List.mem_cons] at hp
        rcases hp with rfl | hp
        · simp [List.length_take]; omega
        · exact ih _ p hp
  intro p hp
  exact Nat.le_trans (key _ _ _ p hp) hbound

/-! ## 4. msgpack itself -/

/-- **`unpackb(packb(v)) == v`** for every value within the format's limits (ints in `[-2^63, 2^64)`,
lengths below `2^32`, ext codes 0..127), of any nesting -/
theorem msgpack_roundtrip (v : MVal) (h : v.WF) : unpack (pack v) = some v :=
  unpack_pack v h

/-- **trailing garbage is rejected** (`msgpack.unpackb` raises `ExtraData`): an encoding followed by at
least one more byte does not decode -/
theorem msgpack_rejects_trailing (v : MVal) (h : v.WF) (g : Bytes) (hg : g ≠ []) :
    unpack (pack v ++ g) = none := by
  have := rt_val v ((pack v ++ g).length + 1) g h (by have := depth_le_val v; simp; omega)
  simp only [unpack, this]
  cases g with
  | nil => exact absurd rfl hg
  | cons a r => rfl

/-- **truncated input is rejected** (`msgpack.unpackb`: "incomplete input"): no proper prefix of an
encoding decodes -/
theorem msgpack_rejects_truncated (v : MVal) (h : v.WF) (p q : Bytes) (hpq : pack v = p ++ q) (hq : q ≠ []) :
    unpack p = none :=
  unpack_truncated v h p q hpq hq

/-- the decoder reads only a prefix of its input: bytes behind a decoded value are handed back
untouched — on *arbitrary* input, not only on encodings -/
theorem msgpack_decoder_reads_prefix (fuel : Nat) (bs x : Bytes) (w : MVal) (r : Bytes)
    (h : unpackF fuel bs = some (w, r)) : unpackF fuel (bs ++ x) = some (w, r ++ x) :=
  stable_unpackF fuel bs w r x h

/-- the recursion budget is not observable: the decoder is a total function (it cannot loop), and
once it succeeds, any larger budget gives the same result -/
theorem msgpack_fuel_irrelevant (fuel d : Nat) (bs : Bytes) (r : MVal × Bytes)
    (h : unpackF fuel bs = some r) : unpackF (fuel + d) bs = some r :=
  unpackF_mono d fuel bs r h

/-- different values have different encodings -/
theorem msgpack_pack_injective (v w : MVal) (hv : v.WF) (hw : w.WF) (h : pack v = pack w) : v = w := by
  have h1 := unpack_pack v hv
  rw [h, unpack_pack w hw] at h1
  exact (Option.some.inj h1).symm

/-- the encoding is self-delimiting: a packed value followed by anything is read back with exactly
the rest left over (what makes arrays, maps and nested ext payloads decodable) -/
theorem msgpack_prefix (v : MVal) (h : v.WF) (fuel : Nat) (rest : Bytes) (hf : v.depth ≤ fuel) :
    unpackF fuel (pack v ++ rest) = some (v, rest) :=
  rt_val v fuel rest h hf

/-- the packer emits bytes: every number in its output is `< 256` when the payloads handed to it are
byte strings (so the `Nat`-as-byte representation of the model loses nothing) -/
theorem msgpack_emits_bytes (v : MVal) (h : v.payloadOK) : ∀ b ∈ pack v, b < 256 :=
  pack_bytes_lt v h

/-- `_ndarray_from_bytes(_ndarray_to_bytes(a)) == a`: dtype name, shape and bytes -/
theorem ndarray_ext_roundtrip (a : NdArray) (h : a.packable) : ndFromBytes (ndToBytes a) = some a :=
  ndFromBytes_ndToBytes a h

/-! ## 5. `from_bytes(t, to_bytes(t)) == t`, for every chunk threshold -/

/-- `msgpack_restore(msgpack_serialize(state)) == state` -/
theorem msgpack_restore_serialize (T : Nat) (isz : String → Nat) (s : STree)
    (hnm : s.noMarker = true) (hok : s.arraysOk isz) (hp : (chunkLeaves T isz s).packable) :
    msgpackRestore (msgpackSerialize T isz s) = .ok s :=
  restore_serialize T isz s hnm hok hp

/-- **Bytes round trip**: for every pytree with distinct keys that does not use the reserved chunk
key, whose arrays satisfy NumPy's size invariant, and whose chunked state dict fits msgpack's limits,
at every threshold `T`. -/
theorem bytes_roundtrip (T : Nat) (isz : String → Nat) (t : Tree)
    (hw : t.wf = true) (hnm : t.noMarker = true) (hok : t.arraysOk isz)
    (hp : (chunkLeaves T isz (toStateDict t)).packable) :
    fromBytes t (toBytes T isz t) = .ok t := by
  have h1 := restore_serialize T isz (toStateDict t) (noMarker_toStateDict t hnm)
    (arraysOk_toStateDict isz t hok) hp
  simp [fromBytes, toBytes, h1, statedict_roundtrip t hw]

/-- **`from_bytes(target, to_bytes(saved))` is `from_state_dict(target, to_state_dict(saved))`** for
*any* target, at every threshold: everything section 2 says about restoring by key and rejecting
mismatches therefore holds for states that went through bytes. -/
theorem from_bytes_is_restore (T : Nat) (isz : String → Nat) (saved target : Tree)
    (hnm : saved.noMarker = true) (hok : saved.arraysOk isz)
    (hp : (chunkLeaves T isz (toStateDict saved)).packable) :
    fromBytes target (toBytes T isz saved) = fromStateDict target (toStateDict saved) := by
  have h1 := restore_serialize T isz (toStateDict saved) (noMarker_toStateDict saved hnm)
    (arraysOk_toStateDict isz saved hok) hp
  simp [fromBytes, toBytes, h1]

/-- **`WFSizes` is enough**: a tree with distinct keys, no reserved key, fewer than `2^32` entries per
container, keys / strings / bytes shorter than `2^32` bytes, arrays with
`9·rank + len(dtype name) + nbytes + 32 < 2^32`, ints in `[-2^63, 2^64)` has a chunked state dict within
msgpack's limits — at every threshold, whatever the item sizes. `WFSizes` is a decidable (`Bool`)
predicate on the tree. -/
theorem wf_tree_packable (T : Nat) (isz : String → Nat) (t : Tree) (h : WFSizes t = true) :
    (chunkLeaves T isz (toStateDict t)).packable :=
  wf_tree_packable' T isz t h

/-- **Bytes round trip over a decidable tree predicate**: `from_bytes(t, to_bytes(t)) == t` for every
`WFSizes` tree whose arrays satisfy NumPy's size invariant, for every chunk threshold `T` from 0 upward. -/
theorem bytes_roundtrip_sizes (T : Nat) (isz : String → Nat) (t : Tree)
    (h : WFSizes t = true) (hok : t.arraysOk isz) :
    fromBytes t (toBytes T isz t) = .ok t := by
  have h' := h
  simp only [WFSizes, Bool.and_eq_true] at h'
  exact bytes_roundtrip T isz t h'.1.1 h'.1.2 hok (wf_tree_packable T isz t h)

/-- the same for restoring into any target: mismatch detection applies to states that went through bytes -/
theorem from_bytes_is_restore_sizes (T : Nat) (isz : String → Nat) (saved target : Tree)
    (h : WFSizes saved = true) (hok : saved.arraysOk isz) :
    fromBytes target (toBytes T isz saved) = fromStateDict target (toStateDict saved) := by
  have h' := h
  simp only [WFSizes, Bool.and_eq_true] at h'
  exact from_bytes_is_restore T isz saved target h'.1.2 hok (wf_tree_packable T isz saved h)

/-- `from_bytes` rejects a saved state followed by trailing bytes instead of silently ignoring them -/
theorem from_bytes_rejects_trailing (T : Nat) (isz : String → Nat) (saved target : Tree)
    (h : WFSizes saved = true) (g : Bytes) (hg : g ≠ []) :
    fromBytes target (toBytes T isz saved ++ g) = .error .badBytes := by
  have hw := (ofM_toM _ (wf_tree_packable T isz saved h)).2
  simp [fromBytes, toBytes, msgpackRestore, msgpackSerialize, msgpack_rejects_trailing _ hw g hg]

/-- `from_bytes` rejects a truncated saved state -/
theorem from_bytes_rejects_truncated (T : Nat) (isz : String → Nat) (saved target : Tree)
    (h : WFSizes saved = true) (p q : Bytes) (hpq : toBytes T isz saved = p ++ q) (hq : q ≠ []) :
    fromBytes target p = .error .badBytes := by
  have hw := (ofM_toM _ (wf_tree_packable T isz saved h)).2
  simp [fromBytes, msgpackRestore, msgpack_rejects_truncated _ hw p q (by simpa [toBytes, msgpackSerialize] using hpq) hq]

/-- **The result does not depend on the chunk threshold** used when saving -/
theorem result_independent_of_threshold (T₁ T₂ : Nat) (isz : String → Nat) (t : Tree)
    (hw : t.wf = true) (hnm : t.noMarker = true) (hok : t.arraysOk isz)
    (hp₁ : (chunkLeaves T₁ isz (toStateDict t)).packable)
    (hp₂ : (chunkLeaves T₂ isz (toStateDict t)).packable) :
    fromBytes t (toBytes T₁ isz t) = fromBytes t (toBytes T₂ isz t) := by
  rw [bytes_roundtrip T₁ isz t hw hnm hok hp₁, bytes_roundtrip T₂ isz t hw hnm hok hp₂]


/-! ## 6. serialising does not modify the input (heap level)

Python's dicts are the only objects serialization.py ever writes to (`d[k] = …` in
`_np_convert_in_place` and `_chunk_array_leaves_in_place`), so the heap holds dict objects;
addresses are indices, allocation is append. `h₀` is the heap before the call and contains, among
anything else, every dict of the caller's pytree. -/

/-- **`to_state_dict` writes nothing**: it only allocates (the heap grows by new objects, nothing that
existed is touched) and returns either an unregistered leaf as it is or a dict allocated by the call. -/
theorem to_state_dict_frame (h₀ : Heap) (t : Tree) :
    (∃ ext, (toStateDictH h₀ t).1 = h₀ ++ ext) ∧ RootOK h₀.length (toStateDictH h₀ t).1 (toStateDictH h₀ t).2 := by
  obtain ⟨h1, _, h3⟩ := allocSTree_spec (toStateDict t) h₀ h₀.length (Nat.le_refl _) (closed_base h₀)
  exact ⟨h1, h3⟩

/-- **`to_bytes` does not modify its input**: every dict object written by the in-place conversion and
chunking passes was allocated by this very call, and every object that existed before is unchanged —
for every target, threshold, recursion depth, and whatever `jax.Array → np.ndarray` conversion is. -/
theorem to_bytes_frame (isJax : Leaf → Bool) (toNp : Leaf → Leaf) (T : Nat) (isz : String → Nat)
    (fuel : Nat) (h₀ : Heap) (t : Tree) :
    (∀ a ∈ (toBytesH isJax toNp T isz fuel h₀ t).writes, h₀.length ≤ a) ∧
    (∀ a, a < h₀.length → (toBytesH isJax toNp T isz fuel h₀ t).heap[a]? = h₀[a]?) := by
  obtain ⟨⟨ext, hext⟩, hc, hr⟩ :=
    allocSTree_spec (toStateDict t) h₀ h₀.length (Nat.le_refl _) (closed_base h₀)
  have hlen : h₀.length ≤ (toStateDictH h₀ t).1.length := by simp [toStateDictH, hext]
  obtain ⟨_, _, p3, p4⟩ := passes_spec h₀.length isJax toNp T isz fuel (toStateDictH h₀ t).1
    (toStateDictH h₀ t).2 hlen hc hr
  refine ⟨p4, ?_⟩
  intro a ha
  rw [toBytesH, p3.2 a ha]
  simp only [toStateDictH, hext]
  exact List.getElem?_append_left ha

/-- **`msgpack_serialize(pytree)` (`in_place=False`) does not modify its input**, for any heap and any
root value: the passes run on the copy. -/
theorem msgpack_serialize_frame (isJax : Leaf → Bool) (toNp : Leaf → Leaf) (T : Nat) (isz : String → Nat)
    (fuel : Nat) (h₀ : Heap) (v : HVal) (o : Out)
    (h : msgpackSerializeH isJax toNp T isz fuel false h₀ v = some o) :
    (∀ a ∈ o.writes, h₀.length ≤ a) ∧ (∀ a, a < h₀.length → o.heap[a]? = h₀[a]?) := by
  simp only [msgpackSerializeH, Bool.false_eq_true, ↓reduceIte] at h
  cases hcp : copyH fuel h₀ v with
  | none => simp [hcp] at h
  | some p =>
    obtain ⟨h1, v1⟩ := p
    simp only [hcp, Option.some.injEq] at h
    subst h
    obtain ⟨⟨ext, hext⟩, hc, hr⟩ := copyH_spec fuel h₀ v h₀.length h1 v1 (Nat.le_refl _) (closed_base h₀) hcp
    have hlen : h₀.length ≤ h1.length := by simp [hext]
    obtain ⟨_, _, p3, p4⟩ := passes_spec h₀.length isJax toNp T isz fuel h1 v1 hlen hc hr
    refine ⟨p4, ?_⟩
    intro a ha
    rw [p3.2 a ha, hext]
    exact List.getElem?_append_left ha

/-- **an in-place pass computes the pure function**: run on a state dict that has just been built out
of fresh dict objects, with any recursion budget above the nesting depth, the heap a pass leaves
behind reads back as `mapLeaves step` of the state dict — for every `step`, heap, and state dict with
distinct keys. (`mapLeaves (chunkStep T isz) = chunkLeaves T isz`.) -/
theorem in_place_pass_refines (step : Leaf → Option STree) (h₀ : Heap) (s : STree) (fuel rfuel : Nat)
    (hw : s.wf = true) (hf : sdepth s < fuel) (hr : sdepth (mapLeaves step s) < rfuel) :
    readBack rfuel (inPlace step fuel (allocSTree h₀ s).1 (allocSTree h₀ s).2).heap
      (inPlace step fuel (allocSTree h₀ s).1 (allocSTree h₀ s).2).val = some (mapLeaves step s) :=
  inPlace_fresh step h₀ s fuel hw hf rfuel hr

/-- **`_chunk_array_leaves_in_place` is `chunkLeaves`** (heap pass = pure function) -/
theorem chunk_pass_refines (T : Nat) (isz : String → Nat) (h₀ : Heap) (s : STree) (fuel rfuel : Nat)
    (hw : s.wf = true) (hf : sdepth s < fuel) (hr : sdepth (chunkLeaves T isz s) < rfuel) :
    readBack rfuel (inPlace (chunkStep T isz) fuel (allocSTree h₀ s).1 (allocSTree h₀ s).2).heap
      (inPlace (chunkStep T isz) fuel (allocSTree h₀ s).1 (allocSTree h₀ s).2).val
      = some (chunkLeaves T isz s) := by
  rw [← mapLeaves_chunkStep] at hr ⊢
  exact inPlace_fresh _ h₀ s fuel hw hf rfuel hr

/-- **what `to_bytes` hands to `packb`**: after `_np_convert_in_place` and
`_chunk_array_leaves_in_place` on the freshly built state dict, the heap value reads back as
`chunkLeaves T` of the state dict with its JAX leaves converted — the value the pure model packs. -/
theorem to_bytes_passes_refine (isJax : Leaf → Bool) (toNp : Leaf → Leaf) (T : Nat) (isz : String → Nat)
    (h₀ : Heap) (t : Tree) (fuel rfuel : Nat) (hw : t.wf = true) (hf : sdepth (toStateDict t) < fuel)
    (hr : sdepth (chunkLeaves T isz (mapLeaves (npStep isJax toNp) (toStateDict t))) < rfuel) :
    readBack rfuel (toBytesH isJax toNp T isz fuel h₀ t).heap (toBytesH isJax toNp T isz fuel h₀ t).val
      = some (chunkLeaves T isz (mapLeaves (npStep isJax toNp) (toStateDict t))) :=
  passes_fresh isJax toNp T isz h₀ (toStateDict t) fuel (wf_toStateDict t hw) hf rfuel hr

/-- with no JAX leaf the conversion pass is the identity: exactly `chunkLeaves T (to_state_dict t)` -/
theorem to_bytes_passes_refine_numpy (toNp : Leaf → Leaf) (T : Nat) (isz : String → Nat)
    (h₀ : Heap) (t : Tree) (fuel rfuel : Nat) (hw : t.wf = true) (hf : sdepth (toStateDict t) < fuel)
    (hr : sdepth (chunkLeaves T isz (toStateDict t)) < rfuel) :
    readBack rfuel (toBytesH (fun _ => false) toNp T isz fuel h₀ t).heap
        (toBytesH (fun _ => false) toNp T isz fuel h₀ t).val
      = some (chunkLeaves T isz (toStateDict t)) := by
  have hid : mapLeaves (npStep (fun _ => false) toNp) (toStateDict t) = toStateDict t :=
    mapLeaves_id _ (by intro v; simp [npStep]) _
  have := to_bytes_passes_refine (fun _ => false) toNp T isz h₀ t fuel rfuel hw hf (by rw [hid]; exact hr)
  rw [hid] at this
  exact this

/-- the flag matters (and the two theorems above are not vacuous): with `in_place=True` a caller's
dict holding an oversize array is written to — its entry is replaced by the chunk dict -/
theorem in_place_true_modifies_input :
    let h₀ : Heap := [[("w", .leaf (.ndarray { dtype := "float32", shape := [2], data := [1, 2, 3, 4, 5, 6, 7, 8] }))]]
    ∃ o, msgpackSerializeH (fun _ => false) id 5 (fun _ => 4) 3 true h₀ (.ref 0) = some o ∧
      o.writes = [0] ∧ o.heap[0]? ≠ h₀[0]? := by
  refine ⟨_, rfl, by decide, by decide⟩

/-! ## non-vacuity: a concrete tree meets every hypothesis, with chunking active -/

def exArr : NdArray := { dtype := "float32", shape := [2, 3], data := List.replicate 24 7 }

def exT : Tree :=
  .dict [("params", .fdict [("w", .leaf (.ndarray exArr)), ("b", .leaf (.float 0))]),
         ("opt", .tuple [.named "Adam" [("count", .leaf (.int 3)), ("mu", .list [.leaf .none])],
                         .struct "S" [("step", .leaf (.npscalar "int32" [1, 0, 0, 0]))] 7])]

def exIsz : String → Nat := fun _ => 4

example : WFSizes exT = true := by decide
example : exT.wf = true := by decide
example : exT.noMarker = true := by decide
example : exT.noLegacyNames = true := by decide
example : exT.arraysOk exIsz := by
  simp [exT, Tree.arraysOk, taokFields, taokList, NdArray.ok, exArr, exIsz, prod]
/-- threshold 5 bytes: the 24-byte array is split into 6 one-element chunks -/
example : (chunkLeaves 5 exIsz (toStateDict exT)).packable := by
  simp [exT, toStateDict, toSDFields, toSDList, chunkLeaves, chunkKvs, oversize, exArr, exIsz, prod,
    chunk, splitEvery, enumDict, STree.packable, packableKvs, Leaf.packable, NdArray.packable, keys, idx]
  decide
example : (toStateDict exT).wf = true ∧ (toStateDict exT).noLegacy = true ∧ (toStateDict exT).noMarker = true := by
  decide
example : oversize 5 exIsz exArr = true ∧ oversize 24 exIsz exArr = false := by decide
example : (MVal.map [(.str [97], .arr [.int (-33), .f64 0, .ext 1 [1, 2, 3]]), (.bin [], .nil)]).WF := by
  simp [MVal.WF, WFPairs, WFList]
/-- a mismatch example: the target has key `b`, the saved state does not -/
example : localCheck ["."] (.dict [("a", .leaf .none), ("b", .leaf .none)]) (.dict [("a", .leaf .none)])
    = some (.missingKeys ["."]) := by decide

/-- instance of `to_bytes_passes_refine_numpy` together with the write set (threshold 5,
the example tree's state dict; the array at `params/w` is replaced in its — freshly allocated — dict) -/
example :
    readBack 10 (toBytesH (fun _ => false) id 5 exIsz 10 [] exT).heap
        (toBytesH (fun _ => false) id 5 exIsz 10 [] exT).val
      = some (chunkLeaves 5 exIsz (toStateDict exT)) ∧
    (toBytesH (fun _ => false) id 5 exIsz 10 [] exT).writes = [0] :=
  ⟨rfl, rfl⟩

end Flax.C10
