/-
C12 — Feed-forward layers compute their documented formulas; Linen and NNX agree.

Theorems about `Flax/Model/Layers.lean`: the index / shape logic that is flax's own.  Element type `R` is
arbitrary wherever only `0 + *` occur (no ring law is used there, so those statements hold verbatim for
floating-point arithmetic); the statistics theorems are over `Rat`.
-/
import Flax.Model.Layers
import Flax.Proofs.Layers
import Flax.Proofs.LayersStats
import Flax.Proofs.LayersConv

namespace Flax.C12
open Flax.Layers

/-! ### executable tensors realise their index formulas (any rank) -/

/-- `Tensor.ofFn` (the form every model output is built with) returns the defining formula at every in-bounds
multi-index, for every shape: `indices` enumerates the shape in `ravel` order. -/
theorem tensor_ofFn_get {R : Type} [Zero R] (shape : List Nat) (f : List Nat → R) (idx : List Nat)
    (h : inBounds shape idx = true) : (Tensor.ofFn shape f).get idx = f idx := get_ofFn shape f h

example : inBounds [2, 3] [1, 2] = true := by decide

/-! ### batch flattening is inert (Conv, ConvLocal, ConvTranspose) -/

/-- `conv_batch_flatten_inert`.  flax reshapes `bs ++ rs` to `[prod bs] ++ rs`, applies the layer, and reshapes the
result `[prod bs] ++ os` back to `bs ++ os`.  For *any* per-example layer (its output row `q` is a function `f` of
input row `q` only) the wrapped layer returns, at batch multi-index `b`, `f` of the example at `b` — for every
number of batch dimensions, including none (`bs = []`, a batch of one is added and removed) and two or more. -/
theorem conv_batch_flatten_inert {R : Type} [Zero R] (nsp : Nat) (bs rs os : List Nat) (x : Tensor R)
    (hx : x.shape = bs ++ rs) (hrs : rs.length = nsp + 1)
    (layer : Tensor R → Tensor R) (f : (List Nat → R) → List Nat → R)
    (hshape : ∀ xf : Tensor R, xf.shape = prod bs :: rs → (layer xf).shape = prod bs :: os)
    (hper : ∀ (xf : Tensor R) (q : Nat) (o : List Nat), xf.shape = prod bs :: rs → q < prod bs →
      inBounds os o = true → (layer xf).get (q :: o) = f (fun r => xf.get (q :: r)) o)
    (b o : List Nat) (hb : inBounds bs b = true) (ho : inBounds os o = true) :
    (unflattenBatch bs (layer (flattenBatch nsp x).2)).get (b ++ o) = f (fun r => x.get (b ++ r)) o := by
  have hbl := inBounds_length hb
  have hnb : x.rank - (nsp + 1) = bs.length := by simp [Tensor.rank, hx, hrs]
  have hxf : (flattenBatch nsp x).2.shape = prod bs :: rs := by
    simp [flattenBatch, Tensor.reshape, hnb, hx]
  have hys := hshape _ hxf
  have hq := ravel_lt hb
  have := hper _ (ravel bs b) o hxf hq ho
  have e1 : (unflattenBatch bs (layer (flattenBatch nsp x).2)).get (b ++ o)
      = (layer (flattenBatch nsp x).2).get (ravel bs b :: o) := by
    simp [unflattenBatch, Tensor.reshape, Tensor.get, Tensor.getD, hys, ravel_append bs b os o hbl, ravel]
  rw [e1, this]
  congr 1
  funext r
  simp [flattenBatch, Tensor.reshape, Tensor.get, Tensor.getD, hnb, hx, ravel_append bs b rs r hbl, ravel]

example : ∃ (layer : Tensor Int → Tensor Int) (f : (List Nat → Int) → List Nat → Int),
    (∀ xf : Tensor Int, xf.shape = prod [2, 2] :: [3, 1] → (layer xf).shape = prod [2, 2] :: [3, 1]) ∧
    (∀ (xf : Tensor Int) (q : Nat) (o : List Nat), xf.shape = prod [2, 2] :: [3, 1] → q < prod [2, 2] →
      inBounds [3, 1] o = true → (layer xf).get (q :: o) = f (fun r => xf.get (q :: r)) o) :=
  ⟨id, fun g o => g o, fun _ h => h, fun _ _ _ _ _ _ => rfl⟩

/-! ### padding amounts and output lengths (`pad_index_maps`, arithmetic part) -/

/-- CIRCULAR / REFLECT pre-padding adds exactly `k_d − 1` positions in total -/
theorem centre_pads_total (k d : Nat) : (centrePads k d).1 + (centrePads k d).2 = dilatedK k d - 1 := by
  simp [centrePads]; omega

/-- the split is the documented one: `((k_d − 1) // 2, k_d // 2)`, left ≤ right ≤ left + 1 -/
theorem centre_pads_split (k d : Nat) :
    (centrePads k d).1 ≤ (centrePads k d).2 ∧ (centrePads k d).2 ≤ (centrePads k d).1 + 1 := by
  simp [centrePads]; omega

/-- CAUSAL pads `d(k−1) = k_d − 1` on the left and nothing on the right -/
theorem causal_pad_eq (k d : Nat) : (causalPad k d).1 = dilatedK k d - 1 ∧ (causalPad k d).2 = 0 := by
  simp [causalPad, dilatedK, Nat.mul_comm]

/-- output length after CIRCULAR / REFLECT pre-padding and a VALID window: `⌈n / s⌉`, for every `n ≥ 1`, kernel size,
dilation and stride -/
theorem circular_out_len (n k d s : Nat) (hn : 1 ≤ n) :
    outLen (n + (centrePads k d).1 + (centrePads k d).2) (dilatedK k d) s = (n - 1) / s + 1 := by
  have h := centre_pads_total k d
  have hk : 1 ≤ dilatedK k d := by simp [dilatedK]
  simp only [outLen]
  have e : n + (centrePads k d).1 + (centrePads k d).2 = (n - 1) + dilatedK k d := by omega
  rw [e]
  have : ¬ (n - 1 + dilatedK k d < dilatedK k d) := by omega
  simp [this]

/-- … which is `n` for stride 1 (CIRCULAR, REFLECT and CAUSAL are "same size" paddings) -/
theorem circular_out_len_stride1 (n k d : Nat) (hn : 1 ≤ n) :
    outLen (n + (centrePads k d).1 + (centrePads k d).2) (dilatedK k d) 1 = n := by
  rw [circular_out_len n k d 1 hn]; simp; omega

theorem causal_out_len (n k d s : Nat) (hn : 1 ≤ n) :
    outLen (n + (causalPad k d).1 + (causalPad k d).2) (dilatedK k d) s = (n - 1) / s + 1 := by
  have h := causal_pad_eq k d
  have hk : 1 ≤ dilatedK k d := by simp [dilatedK]
  simp only [outLen]
  have e : n + (causalPad k d).1 + (causalPad k d).2 = (n - 1) + dilatedK k d := by omega
  rw [e]
  have : ¬ (n - 1 + dilatedK k d < dilatedK k d) := by omega
  simp [this]

example : outLen (5 + (centrePads 3 2).1 + (centrePads 3 2).2) (dilatedK 3 2) 2 = 3 := by decide

/-- SAME (the `lax.padtype_to_pads` rule used by Conv and pooling): the output length is `⌈n / s⌉` for every window and stride -/
theorem same_pads_out_len (n w s : Nat) (hn : 1 ≤ n) (hw : 1 ≤ w) (hs : 1 ≤ s) :
    outLen (n + (samePads n w s).1 + (samePads n w s).2) w s = (n + s - 1) / s := by
  have hsum : (samePads n w s).1 + (samePads n w s).2 = ((n + s - 1) / s - 1) * s + w - n := by
    simp only [samePads]; omega
  set out := (n + s - 1) / s with hout
  have hout1 : 1 ≤ out := by
    rw [hout]; exact (Nat.le_div_iff_mul_le (by omega)).mpr (by omega)
  have hub : n ≤ out * s := by
    have := Nat.lt_succ_iff.mp (Nat.lt_succ_of_le (Nat.le_refl ((n + s - 1) / s)))
    have h2 : n + s - 1 < ((n + s - 1) / s + 1) * s := by
      have := Nat.lt_mul_div_succ (n + s - 1) (show 0 < s by omega)
      rw [Nat.mul_comm] at this
      simpa [Nat.succ_eq_add_one] using this
    rw [← hout] at h2
    have : (out + 1) * s = out * s + s := by ring
    omega
  have hlb : (out - 1) * s < n := by
    have h2 : out * s ≤ n + s - 1 := by rw [hout]; exact Nat.div_mul_le_self _ _
    have : out * s = (out - 1) * s + s := by
      obtain ⟨m, hm⟩ : ∃ m, out = m + 1 := ⟨out - 1, by omega⟩
      rw [hm]; simp; ring
    omega
  have e : n + (samePads n w s).1 + (samePads n w s).2 = n + ((out - 1) * s + w - n) := by omega
  rw [e]
  simp only [outLen]
  by_cases hc : n ≤ (out - 1) * s + w
  · have : n + ((out - 1) * s + w - n) = (out - 1) * s + w := by omega
    rw [this]
    have : ¬ ((out - 1) * s + w < w) := by omega
    simp only [this, if_false, Nat.add_sub_cancel, Nat.mul_div_cancel _ (show 0 < s by omega)]
    omega
  · have : n + ((out - 1) * s + w - n) = n := by omega
    rw [this]
    have hnw : ¬ (n < w) := by omega
    simp only [hnw, if_false]
    have h1 : out - 1 ≤ (n - w) / s := (Nat.le_div_iff_mul_le (by omega)).mpr (by omega)
    have h2 : (n - w) / s < out := (Nat.div_lt_iff_lt_mul (by omega)).mpr (by omega)
    omega


/-! ### `jnp.pad` index maps used by flax -/

/-- wrap padding is periodic: position `i` reads index `(i − lo) mod n`, always in range -/
theorem padSrc_wrap (n lo i : Nat) (hn : 0 < n) :
    ∃ j, padSrc .wrap n lo i = some j ∧ j < n ∧ (j : Int) = ((i : Int) - lo) % n := by
  have hne : n ≠ 0 := by omega
  have h0 : 0 ≤ ((i : Int) - lo) % n := Int.emod_nonneg _ (by omega)
  have h1 : ((i : Int) - lo) % n < n := Int.emod_lt_of_pos _ (by omega)
  refine ⟨(((i : Int) - lo) % n).toNat, by simp [padSrc, hne], ?_, Int.toNat_of_nonneg h0⟩
  exact (Int.toNat_lt h0).mpr h1

/-- the original data sit unchanged between the pads, in all three modes -/
theorem padSrc_inside (m : PadMode) (n lo j : Nat) (hj : j < n) : padSrc m n lo (lo + j) = some j := by
  have hne : n ≠ 0 := by omega
  have e0 : ((lo + j : Nat) : Int) - lo = j := by omega
  cases m with
  | zeros => simp [padSrc, hj]
  | wrap =>
    have e : (j : Int) % (n : Int) = j := Int.emod_eq_of_lt (Int.natCast_nonneg j) (by exact_mod_cast hj : (j : Int) < (n : Int))
    simp only [padSrc, hne, ↓reduceIte, e0, e, Int.toNat_natCast]
  | reflect =>
    by_cases h1 : n = 1
    · subst h1
      have : j = 0 := by omega
      simp [padSrc, this]
    · have hp : j < 2 * (n - 1) := by omega
      have e : ((j : Int) % ((2 * (n - 1) : Nat) : Int)) = j :=
        Int.emod_eq_of_lt (Int.natCast_nonneg j) (by exact_mod_cast hp : (j : Int) < ((2 * (n - 1) : Nat) : Int))
      simp only [padSrc, hne, h1, ↓reduceIte, e0, e, Int.toNat_natCast, hj]

/-- zero padding: outside the data the value is the fill value -/
theorem padSrc_zeros_outside (n lo i : Nat) (h : i < lo ∨ lo + n ≤ i) : padSrc .zeros n lo i = none := by
  simp [padSrc]; omega

/-- reflect padding mirrors without repeating the edge: `t` steps left of the data reads index `t`, `t` steps right
of it reads `n − 1 − t` (for `t ≤ n − 1`, the range `jnp.pad` documents) -/
theorem padSrc_reflect_left (n lo t : Nat) (hn : 2 ≤ n) (ht : t ≤ n - 1) (hlo : t ≤ lo) :
    padSrc .reflect n lo (lo - t) = some t := by
  have hne : n ≠ 0 := by omega
  have h1 : n ≠ 1 := by omega
  have e0 : ((lo - t : Nat) : Int) - lo = -(t : Int) := by omega
  by_cases ht0 : t = 0
  · subst ht0
    have e : (-((0 : Nat) : Int)) % ((2 * (n - 1) : Nat) : Int) = 0 := by simp
    have hpos : 0 < n := by omega
    simp only [padSrc, hne, h1, ↓reduceIte, e0, e, Int.toNat_zero, hpos]
  · have e : (-(t : Int)) % ((2 * (n - 1) : Nat) : Int) = ((2 * (n - 1) - t : Nat) : Int) := by
      have hlt : ((2 * (n - 1) - t : Nat) : Int) < ((2 * (n - 1) : Nat) : Int) := by omega
      have : (-(t : Int)) = ((2 * (n - 1) - t : Nat) : Int) + (-1) * ((2 * (n - 1) : Nat) : Int) := by omega
      rw [this, Int.add_mul_emod_self_right, Int.emod_eq_of_lt (by omega) hlt]
    simp only [padSrc, hne, h1, ↓reduceIte, e0, e, Int.toNat_natCast]
    split <;> (congr 1; omega)

theorem padSrc_reflect_right (n lo t : Nat) (hn : 2 ≤ n) (ht : t ≤ n - 1) :
    padSrc .reflect n lo (lo + (n - 1) + t) = some (n - 1 - t) := by
  have hne : n ≠ 0 := by omega
  have h1 : n ≠ 1 := by omega
  have e0 : ((lo + (n - 1) + t : Nat) : Int) - lo = ((n - 1 + t : Nat) : Int) := by omega
  by_cases htn : t = n - 1
  · have e : (((n - 1 + t : Nat) : Int)) % ((2 * (n - 1) : Nat) : Int) = 0 := by
      have : ((n - 1 + t : Nat) : Int) = ((2 * (n - 1) : Nat) : Int) := by omega
      rw [this, Int.emod_self]
    have hpos : 0 < n := by omega
    simp only [padSrc, hne, h1, ↓reduceIte, e0, e, Int.toNat_zero, hpos]
    congr 1; omega
  · have hp : n - 1 + t < 2 * (n - 1) := by omega
    have e : (((n - 1 + t : Nat) : Int)) % ((2 * (n - 1) : Nat) : Int) = ((n - 1 + t : Nat) : Int) :=
      Int.emod_eq_of_lt (Int.natCast_nonneg _) (by exact_mod_cast hp : ((n - 1 + t : Nat) : Int) < ((2 * (n - 1) : Nat) : Int))
    simp only [padSrc, hne, h1, ↓reduceIte, e0, e, Int.toNat_natCast]
    split <;> (congr 1; omega)

/-! ### CIRCULAR / REFLECT / CAUSAL pre-padding followed by VALID = the direct sum with an index map (`pad_index_maps`) -/

section conv1
variable {R : Type} [Zero R] [Add R] [Mul R]

/-- CIRCULAR: wrap-pad by `((k_d−1)//2, k_d//2)` then VALID is the direct sum over the kernel taps of
`x[(o·s + t·d − lo) mod n]·K[t]` — for every length `n ≥ 1`, stride, dilation and kernel size -/
theorem circular_conv_formula (n s d k : Nat) (hn : 0 < n) (x K : Nat → R) (o : Nat) :
    circularConv1 n s d k x K o =
      sumOver (List.range k) (fun t => x ((((o * s + t * d : Nat) : Int) - ((dilatedK k d - 1) / 2 : Nat)) % n).toNat * K t) := by
  have hne : n ≠ 0 := by omega
  simp [circularConv1, conv1, pad1, padSrc, hne, centrePads]

/-- periodic boundary conditions: with stride 1 a cyclic shift of the input shifts the output cyclically -/
theorem circular_conv_equivariant (n d k r : Nat) (hn : 0 < n) (x K : Nat → R) (o : Nat) :
    circularConv1 n 1 d k (fun j => x ((j + r) % n)) K o = circularConv1 n 1 d k x K ((o + r) % n) := by
  rw [circular_conv_formula n 1 d k hn, circular_conv_formula n 1 d k hn]
  apply sumOver_congr
  intro t _
  congr 2
  rw [wrap_shift n hn]
  congr 1
  have e : ((((o + r) % n * 1 + t * d : Nat) : Int) - ((dilatedK k d - 1) / 2 : Nat))
      = (((o + r : Nat) : Int) % (n : Int)) + (((t * d : Nat) : Int) - ((dilatedK k d - 1) / 2 : Nat)) := by
    push_cast; ring
  rw [e, Int.emod_add_emod]
  congr 1
  push_cast; ring

/-- REFLECT: same pads, reflected index -/
theorem reflect_conv_formula (n s d k : Nat) (x K : Nat → R) (o : Nat) :
    reflectConv1 n s d k x K o =
      sumOver (List.range k) (fun t => pad1 .reflect n ((dilatedK k d - 1) / 2) x (o * s + t * d) * K t) := by
  simp [reflectConv1, conv1, centrePads]

/-- CAUSAL: tap `t` of output `o` reads `x[o·s − (k−1−t)·d]`, or the zero fill when that is before the start -/
theorem causal_conv_formula (n s d k : Nat) (x K : Nat → R) (o : Nat) :
    causalConv1 n s d k x K o =
      sumOver (List.range k) (fun t =>
        (if d * (k - 1) ≤ o * s + t * d ∧ o * s + t * d < d * (k - 1) + n then x (o * s + t * d - d * (k - 1)) else 0) * K t) := by
  simp only [causalConv1, conv1, pad1, padSrc, causalPad]
  apply sumOver_congr
  intro t _
  by_cases hc : d * (k - 1) ≤ o * s + t * d ∧ o * s + t * d < d * (k - 1) + n
  · simp [hc]
  · simp [hc]

/-- causality: output `o` of a CAUSAL convolution depends only on inputs at positions `≤ o·s` -/
theorem causal_conv_depends_only_on_past (n s d k : Nat) (x x' K : Nat → R) (o : Nat)
    (h : ∀ j, j ≤ o * s → x j = x' j) : causalConv1 n s d k x K o = causalConv1 n s d k x' K o := by
  rw [causal_conv_formula, causal_conv_formula]
  apply sumOver_congr
  intro t ht
  have htk : t < k := by simpa using ht
  have hle : t * d ≤ (k - 1) * d := Nat.mul_le_mul_right d (by omega)
  have hcomm : d * (k - 1) = (k - 1) * d := Nat.mul_comm _ _
  split
  · rw [h _ (by omega)]
  · rfl

/-- … and the last tap reads the present sample: the window ends at position `o·s` exactly -/
theorem causal_conv_last_tap (s d k o : Nat) : o * s + (k - 1) * d - d * (k - 1) = o * s := by
  rw [Nat.mul_comm d]; omega

end conv1

example : circularConv1 4 1 1 3 (fun j => ([1, 2, 3, 4] : List Int).getD j 0) (fun t => ([1, 10, 100] : List Int).getD t 0) 0 = 214 := by
  decide

example : causalConv1 4 1 1 3 (fun j => ([1, 2, 3, 4] : List Int).getD j 0) (fun t => ([1, 10, 100] : List Int).getD t 0) 0 = 100 := by
  decide

/-! ### the N-d executables compute these index formulas at every in-bounds position -/

section nd
variable {R : Type} [Zero R] [Add R] [Mul R]

omit [Add R] [Mul R] in
/-- `padTensor` (the model of `jnp.pad(x, pads, mode)`) reads, at every in-bounds position of the padded shape, the
source given by the per-axis `padSrc` maps (the fill value 0 if any axis falls in zero padding) — any rank -/
theorem padTensor_get (x : Tensor R) (pads : List (PadMode × Nat × Nat)) (idx : List Nat)
    (h : inBounds (List.zipWith (fun n (p : PadMode × Nat × Nat) => p.2.1 + n + p.2.2) x.shape pads) idx = true) :
    (padTensor x pads).get idx =
      match (List.zipWith (fun (np : Nat × (PadMode × Nat × Nat)) i => padSrc np.2.1 np.1 np.2.2.1 i) (x.shape.zip pads) idx).mapM id with
      | some s => x.get s
      | none => 0 := by
  simp only [padTensor]
  exact get_ofFn _ _ h

omit [Add R] [Mul R] in
/-- rank 1: `padTensor` is `pad1` -/
theorem padTensor_get_1d (x : Tensor R) (n lo hi i : Nat) (m : PadMode) (hx : x.shape = [n]) (hi' : i < lo + n + hi) :
    (padTensor x [(m, lo, hi)]).get [i] = pad1 m n lo (fun j => x.get [j]) i := by
  rw [padTensor_get]
  · simp only [hx, pad1]
    cases hsrc : padSrc m n lo i <;> simp [hsrc]
  · simp [hx, inBounds, hi']

/-- `convSpec` (the model of `lax.conv_general_dilated`, channels last) at output position `(bi, o, fi)`:
the direct sum over kernel offsets and the input channels of the feature group of `fi` — any number of spatial axes -/
theorem convSpec_get (g : ConvGeom) (x k : Tensor R) (bi fi : Nat) (o : List Nat) (ho : o.length = x.rank - 2)
    (hb : inBounds (x.shape.headD 0 :: convOutSpatial g ((x.shape.drop 1).take (x.rank - 2)) (k.shape.take (x.rank - 2))
            ++ [nth k.shape (x.rank - 2 + 1)]) (bi :: o ++ [fi]) = true) :
    (convSpec g x k).get (bi :: o ++ [fi]) =
      sumOver (indices (k.shape.take (x.rank - 2))) (fun kk =>
        match convSrc g ((x.shape.drop 1).take (x.rank - 2)) o kk with
        | none => 0
        | some src =>
          sumOver (List.range (nth k.shape (x.rank - 2))) (fun c =>
            x.get (bi :: src ++ [(if nth k.shape (x.rank - 2 + 1) / g.groups = 0 then 0
                                   else fi / (nth k.shape (x.rank - 2 + 1) / g.groups)) * nth k.shape (x.rank - 2) + c])
              * k.get (kk ++ [c, fi]))) := by
  simp only [convSpec]
  rw [get_ofFn _ _ hb]
  have e1 : (List.drop 1 (bi :: o ++ [fi])).take (x.rank - 2) = o := by
    simp [← ho]
  have e2 : (bi :: o ++ [fi]).getD (x.rank - 2 + 1) 0 = fi := by
    simp [← ho, List.getD]
  simp only [List.cons_append] at e1 e2 ⊢
  simp only [e1, e2, List.headD_cons]
  rfl

/-- hence `convSpec` is a per-example layer in the sense of `conv_batch_flatten_inert`: row `bi` of the output is a
function of row `bi` of the input only -/
theorem convSpec_per_example (g : ConvGeom) (x x' k : Tensor R) (bi fi : Nat) (o : List Nat)
    (hs : x.shape = x'.shape) (ho : o.length = x.rank - 2)
    (hb : inBounds (x.shape.headD 0 :: convOutSpatial g ((x.shape.drop 1).take (x.rank - 2)) (k.shape.take (x.rank - 2))
            ++ [nth k.shape (x.rank - 2 + 1)]) (bi :: o ++ [fi]) = true)
    (hrow : ∀ r, x.get (bi :: r) = x'.get (bi :: r)) :
    (convSpec g x k).get (bi :: o ++ [fi]) = (convSpec g x' k).get (bi :: o ++ [fi]) := by
  have hr : x.rank = x'.rank := by simp [Tensor.rank, hs]
  rw [convSpec_get g x k bi fi o ho hb, convSpec_get g x' k bi fi o (hr ▸ ho) (by rw [← hs, ← hr]; exact hb)]
  simp only [← hs, ← hr]
  apply sumOver_congr
  intro kk _
  cases convSrc g ((x.shape.drop 1).take (x.rank - 2)) o kk with
  | none => rfl
  | some src =>
    apply sumOver_congr
    intro c _
    simp only [List.cons_append] at *
    rw [hrow]

end nd

/-! ### normalisation statistics (`stats_formulas`) -/

/-- the slow route is the documented pair `(E[x], E[(x − E[x])²])` -/
theorem stats_slow_formula (vs : List Rat) :
    (computeStats vs true false).mean = vs.sum / vs.length ∧
    (computeStats vs true false).var = (vs.map (fun v => (v - vs.sum / vs.length) * (v - vs.sum / vs.length))).sum / vs.length := by
  simp [computeStats, ratMean]

/-- `use_fast_variance`: `max(0, E[x²] − E[x]²)` is the same pair — the ring identity, and the clip at 0 is inert in
exact arithmetic.  Holds for every non-empty reduction. -/
theorem var_fast_eq_slow (vs : List Rat) (h : vs ≠ []) : computeStats vs true true = computeStats vs true false := by
  have e := slow_var_eq vs h
  have nn := slow_var_nonneg vs
  simp only [computeStats, if_true]
  congr 1
  rw [← e]
  exact max_eq_right nn

example : computeStats [1, 2, 4] true true = ⟨7 / 3, 14 / 9⟩ := by decide +kernel

/-- the variance handed to `rsqrt(var + ε)` is never negative, whichever route and whether or not the mean is used -/
theorem var_nonneg (vs : List Rat) (useMean useFast : Bool) : 0 ≤ (computeStats vs useMean useFast).var := by
  cases useMean <;> cases useFast <;> simp only [computeStats, if_true, if_false, Bool.false_eq_true]
  · have := sum_sq_nonneg vs 0
    simp only [sub_zero] at this
    simp only [ratMean, List.length_map]
    exact div_nonneg this (by exact_mod_cast Nat.zero_le _)
  · have := sum_sq_nonneg vs 0
    simp only [sub_zero] at this
    simp only [ratMean, List.length_map]
    exact div_nonneg this (by exact_mod_cast Nat.zero_le _)
  · exact slow_var_nonneg vs
  · exact le_max_left _ _

/-- RMSNorm (`use_mean=False`): no centring, the "variance" is the mean square -/
theorem rms_stats (vs : List Rat) (useFast : Bool) :
    computeStats vs false useFast = ⟨0, (vs.map (fun v => v * v)).sum / vs.length⟩ := by
  simp [computeStats, ratMean]

/-- masked statistics use the masked-in entries only: two inputs of the same shape that agree wherever the mask is
true have identical statistics and affine pieces at *every* position (LayerNorm, RMSNorm, InstanceNorm, BatchNorm
in training mode all go through `normPieces`) -/
theorem masked_stats_ignore_masked_out (x x' : Tensor Int) (hs : x.shape = x'.shape) (red feat : List Nat)
    (useMean useFast : Bool) (mask scale bias : Option (Tensor Int))
    (h : ∀ i, maskAt mask i = true → x.get i = x'.get i) :
    normPieces x red feat useMean useFast mask scale bias = normPieces x' red feat useMean useFast mask scale bias := by
  simp only [normPieces, ← hs]
  apply List.map_congr_left
  intro idx _
  have : ((reductionGroup x.shape red idx).filter (maskAt mask)).map (fun i => (x.get i : Rat))
      = ((reductionGroup x.shape red idx).filter (maskAt mask)).map (fun i => (x'.get i : Rat)) := by
    apply List.map_congr_left
    intro i hi
    rw [h i (List.mem_filter.mp hi).2]
  rw [this]

/-- negative axes count from the end: for `−rank ≤ a < rank` the canonical axis is `a mod rank`, a valid axis -/
theorem normAxis_sound (rank : Nat) (a : Int) (h1 : -(rank : Int) ≤ a) (h2 : a < rank) :
    normAxis rank a < rank ∧ ((normAxis rank a : Nat) : Int) = a % rank := by
  unfold normAxis
  by_cases ha : a < 0
  · simp only [ha, if_true]
    have e : a % (rank : Int) = a + rank := by
      have : a = (a + rank) + (-1) * (rank : Int) := by ring
      rw [this, Int.add_mul_emod_self_right, Int.emod_eq_of_lt (by omega) (by omega)]; ring
    constructor
    · omega
    · rw [e]; omega
  · simp only [ha, if_false]
    have e : a % (rank : Int) = a := Int.emod_eq_of_lt (by omega) h2
    constructor
    · omega
    · rw [e]; omega

/-- `linear.py::_normalize_axes` (DenseGeneral / LinearGeneral `axis`, `batch_dims`): the result lists exactly the
canonical positions of the given axes, in increasing order, one per given axis — so the kernel's contraction
dimensions follow the *sorted* axes whatever order the user wrote them in -/
theorem normalize_axes_sound (ndim : Nat) (axes : List Int) :
    (normalizeAxes ndim axes).Pairwise (· ≤ ·) ∧
    (normalizeAxes ndim axes).length = axes.length ∧
    ∀ p, p ∈ normalizeAxes ndim axes ↔ ∃ a ∈ axes, normAxis ndim a = p := by
  refine ⟨sortNat_sorted _, by simp [normalizeAxes, length_sortNat], fun p => ?_⟩
  simp [normalizeAxes, mem_sortNat]

/-- `normalization.py::_canonicalize_axes` (reduction / feature axes of every norm layer): "deduplicated, sorted,
positive" — strictly increasing, and an axis is present iff one of the given (possibly negative, possibly repeated)
axes denotes it -/
theorem canon_axes_sound (rank : Nat) (axes : List Int) :
    (canonAxes rank axes).Pairwise (· < ·) ∧
    ∀ p, p ∈ canonAxes rank axes ↔ ∃ a ∈ axes, normAxis rank a = p := by
  refine ⟨dedupSorted_strict _ (sortNat_sorted _), fun p => ?_⟩
  simp [canonAxes, mem_dedupSorted, normalizeAxes, mem_sortNat]

example : canonAxes 4 [-1, 1, 3, -3] = [1, 3] := by decide

/-! ### BatchNorm running statistics (`batchnorm_ema_and_inference`) -/

/-- inference mode never writes the running statistics -/
theorem batchNorm_inference_keeps_state (x : Tensor Int) (axis : Int) (useFast : Bool) (m : Rat)
    (mask scale bias : Option (Tensor Int)) (st : BNState) :
    (batchNorm x axis true useFast m mask scale bias st).2 = st := by
  simp [batchNorm]

/-- … and normalises with the stored statistics only: the pieces do not depend on the values of the batch -/
theorem batchNorm_inference_ignores_batch (x x' : Tensor Int) (hs : x.shape = x'.shape) (axis : Int) (useFast useFast' : Bool)
    (m m' : Rat) (mask mask' scale bias : Option (Tensor Int)) (st : BNState) :
    (batchNorm x axis true useFast m mask scale bias st).1 = (batchNorm x' axis true useFast' m' mask' scale bias st).1 := by
  simp [batchNorm, Tensor.rank, hs]

/-- training mode: every feature's running statistic becomes `momentum·old + (1 − momentum)·batch` -/
theorem ema_formula (m old new : Rat) : emaOpt m (some old) (some new) = some (m * old + (1 - m) * new) := rfl

theorem batchNorm_training_updates (x : Tensor Int) (axis : Int) (useFast : Bool) (m : Rat)
    (mask scale bias : Option (Tensor Int)) (st : BNState) :
    ∃ batch : Nat → Option Stats,
      (batchNorm x axis false useFast m mask scale bias st).2 =
        ⟨(List.range (nth x.shape ((canonAxes x.rank [axis]).headD 0))).map
            (fun f => emaOpt m (st.mean.getD f none) ((batch f).map (·.mean))),
         (List.range (nth x.shape ((canonAxes x.rank [axis]).headD 0))).map
            (fun f => emaOpt m (st.var.getD f none) ((batch f).map (·.var)))⟩ := by
  refine ⟨fun f =>
    ((normPieces x ((List.range x.rank).filter (fun i => !((canonAxes x.rank [axis]).contains i))) (canonAxes x.rank [axis])
        true useFast mask scale bias).getD
      (ravel x.shape ((List.range x.rank).map (fun i => if i = (canonAxes x.rank [axis]).headD 0 then f else 0))) ⟨none, 1, 0⟩).stats, ?_⟩
  simp only [batchNorm, Bool.false_eq_true, if_false]

/-- a whole training history: after batches `b₁ … b_t` the running statistic is
`m^t·ra₀ + (1 − m)·Σ m^(t−i)·b_i` (closed form of the exponential moving average) -/
def emaWeights (m : Rat) : List Rat → Rat
  | [] => 0
  | b :: bs => m ^ bs.length * b + emaWeights m bs

theorem ema_closed_form (m : Rat) (bs : List Rat) (ra : Rat) :
    bs.foldl (ema m) ra = m ^ bs.length * ra + (1 - m) * emaWeights m bs := by
  induction bs generalizing ra with
  | nil => simp [emaWeights]
  | cons b bs ih =>
    simp only [List.foldl_cons, ih, ema, emaWeights, List.length_cons]
    ring

example : [2, 4].foldl (ema (1 / 2)) 0 = 5 / 2 := by decide +kernel

/-! ### call-time flags: `use_running_average` / `deterministic` resolution -/

/-- NNX (`first_from`): a flag given at call time always wins — in particular an explicit `False` on a layer that is in
inference mode (constructed with `True`, or after `.eval()`) -/
theorem resolve_flag_call_wins (b : Bool) (attr : Option Bool) : resolveFlag (some b) attr = .ok b := rfl

/-- … without a call-time flag the attribute decides, and with neither the layer refuses -/
theorem resolve_flag_falls_back (attr : Option Bool) :
    resolveFlag none attr = (match attr with | some b => .ok b | none => .error "NoFlag") := by
  cases attr <;> rfl

/-- the `call or attr` slip is not this function: called with `False` on an inference-mode layer it answers `True`
(running statistics used, no update), and with `False` on a layer without attribute it refuses instead of training -/
theorem resolve_flag_or_counterexample :
    resolveFlagOr (some false) (some true) = .ok true ∧ resolveFlag (some false) (some true) = .ok false ∧
    resolveFlagOr (some false) none = .ok false ∧ resolveFlagOr none none = .error "NoFlag" := by decide

/-- Linen (`merge_param`): exactly one of constructor attribute and call argument must be given -/
theorem merge_param_exactly_one (attr call : Option Bool) (b : Bool) :
    mergeParam attr call = .ok b ↔ (attr = none ∧ call = some b) ∨ (attr = some b ∧ call = none) := by
  cases attr <;> cases call <;> simp [mergeParam]

/-- where both APIs accept the configuration they resolve the flag identically -/
theorem merge_param_agrees_with_first_from (attr call : Option Bool) (b : Bool) (h : mergeParam attr call = .ok b) :
    resolveFlag call attr = .ok b := by
  cases attr <;> cases call <;> simp_all [mergeParam, resolveFlag]

/-! ### Dropout (`dropout_branches`) -/

theorem dropout_deterministic_identity (bern : Nat → Rat → List Nat → Tensor Bool) (key num den : Nat)
    (bd : List Int) (x : Tensor Rat) : dropoutLayer bern key num den true bd x = x := by
  simp [dropoutLayer, dropoutBranch]

theorem dropout_rate_zero_identity (bern : Nat → Rat → List Nat → Tensor Bool) (key den : Nat) (det : Bool)
    (bd : List Int) (x : Tensor Rat) : dropoutLayer bern key 0 den det bd x = x := by
  simp [dropoutLayer, dropoutBranch]

theorem dropout_rate_one_zero (bern : Nat → Rat → List Nat → Tensor Bool) (key den : Nat) (hden : den ≠ 0)
    (bd : List Int) (x : Tensor Rat) (idx : List Nat) (h : inBounds x.shape idx = true) :
    (dropoutLayer bern key den den false bd x).get idx = 0 := by
  simp only [dropoutLayer, dropoutBranch, hden, Bool.false_eq_true, or_self, if_false, if_true]
  exact get_ofFn (R := Rat) _ _ h

/-- `0 < rate < 1`: `select(mask, x / (1 − rate), 0)` where the mask is the Bernoulli draw for the key, the keep
probability and the mask shape — none of which involves the data -/
theorem dropout_formula (bern : Nat → Rat → List Nat → Tensor Bool) (key num den : Nat) (h0 : num ≠ 0) (h1 : num < den)
    (bd : List Int) (x : Tensor Rat) (idx : List Nat) (h : inBounds x.shape idx = true) :
    ∃ (ms : List Nat), dropoutBranch num den false x.shape bd = .masked (den - num) den ms ∧
      (dropoutLayer bern key num den false bd x).get idx =
        if (bern key (((den - num : Nat) : Rat) / den) ms).getD (bcastIdx ms idx) false
        then x.get idx / (((den - num : Nat) : Rat) / den) else 0 := by
  have hne : num ≠ den := by omega
  refine ⟨(List.range x.shape.length).map (fun i =>
      if (bd.map (normAxis x.shape.length)).contains i then 1 else nth x.shape i), ?_, ?_⟩
  · simp only [dropoutBranch, h0, hne, Bool.false_eq_true, or_self, if_false]
  simp only [dropoutLayer, dropoutBranch, h0, hne, Bool.false_eq_true, or_self, if_false]
  exact get_ofFn (R := Rat) _ _ h

/-- the keep probability is `1 − rate` -/
theorem dropout_keep_prob (num den : Nat) (h1 : num ≤ den) (hden : den ≠ 0) :
    (((den - num : Nat) : Rat) / den) = 1 - (num : Rat) / den := by
  have : (den : Rat) ≠ 0 := by exact_mod_cast hden
  rw [Nat.cast_sub h1]
  field_simp

/-- which elements are dropped does not depend on the data: for two inputs of the same shape the dropped positions
coincide (an element is forced to 0 in one exactly when it is in the other) -/
theorem dropout_mask_independent_of_data (bern : Nat → Rat → List Nat → Tensor Bool) (key num den : Nat)
    (h0 : num ≠ 0) (h1 : num < den) (bd : List Int) (x x' : Tensor Rat) (hs : x.shape = x'.shape) (idx : List Nat)
    (h : inBounds x.shape idx = true) :
    ∃ keepIt : Bool,
      (dropoutLayer bern key num den false bd x).get idx = (if keepIt then x.get idx / (((den - num : Nat) : Rat) / den) else 0) ∧
      (dropoutLayer bern key num den false bd x').get idx = (if keepIt then x'.get idx / (((den - num : Nat) : Rat) / den) else 0) := by
  obtain ⟨ms, hb, e⟩ := dropout_formula bern key num den h0 h1 bd x idx h
  obtain ⟨ms', hb', e'⟩ := dropout_formula bern key num den h0 h1 bd x' idx (hs ▸ h)
  rw [← hs, hb] at hb'
  injection hb' with _ _ hms
  subst hms
  exact ⟨_, e, e'⟩

/-! ### Embed (`embed_lookup`, `attend_is_transposed_product`) -/

section embed
variable {R : Type} [Zero R] [Add R] [Mul R]

omit [Add R] [Mul R] in
/-- `jnp.take` index rule: in range → itself, `−n ≤ i < 0` → `n + i`, anything else → fill (NaN) -/
theorem takeRow_spec (n : Nat) (i : Int) :
    (0 ≤ i ∧ i < n → takeRow n i = some i.toNat) ∧
    (-(n : Int) ≤ i ∧ i < 0 → takeRow n i = some (i + n).toNat ∧ (i + n).toNat < n) ∧
    (i < -(n : Int) ∨ (n : Int) ≤ i → takeRow n i = none) := by
  refine ⟨fun h => by simp [takeRow, h], fun h => ?_, fun h => ?_⟩
  · have : ¬ (0 ≤ i ∧ i < n) := by omega
    simp only [takeRow, this, if_false, h, and_self, if_true, true_and]
    omega
  · have a : ¬ (0 ≤ i ∧ i < n) := by omega
    have b : ¬ (-(n : Int) ≤ i ∧ i < 0) := by omega
    simp [takeRow, a, b]

omit [Add R] [Mul R] in
/-- the output is one row of `features` entries per index, in order -/
theorem embed_lookup_rows (table : Tensor R) (idx : List Int) :
    embedLookup table idx = idx.flatMap (embedRow table) ∧ ∀ i, (embedRow table i).length = nth table.shape 1 := by
  exact ⟨rfl, fun i => by simp [embedRow]⟩

omit [Add R] [Mul R] in
/-- entry `j` of the row for index `i` is `table[row, j]` with `row` given by the `take` rule; every entry is NaN
when the index is out of range; a single-row table is broadcast whatever the index -/
theorem embed_row_entry (table : Tensor R) (i : Int) (j : Nat) (hj : j < nth table.shape 1) :
    (embedRow table i)[j]? = some (if nth table.shape 0 = 1 then some (table.get [0, j])
                                   else (takeRow (nth table.shape 0) i).map (fun r => table.get [r, j])) := by
  simp [embedRow, hj]

/-- `attend`: `out[q…, v] = Σ_j query[q…, j] · embedding[v, j]` (product with the transposed table) -/
theorem attend_is_transposed_product (table query : Tensor R) (q : List Nat) (v : Nat)
    (hq : q.length = query.rank - 1)
    (hb : inBounds (query.shape.take (query.rank - 1) ++ [nth table.shape 0]) (q ++ [v]) = true) :
    (embedAttend table query).get (q ++ [v]) =
      sumOver (List.range (nth table.shape 1)) (fun j => query.get (q ++ [j]) * table.get [v, j]) := by
  simp only [embedAttend]
  rw [get_ofFn _ _ hb]
  simp [← hq]

end embed

/-! ### ConvTranspose: output lengths and the CIRCULAR wrap-sum (one axis) -/

/-- `padding='SAME'`: the fractionally strided convolution (input dilated by the stride, `_conv_transpose_padding`
pads, stride-1 window of the dilated kernel) has length `n·s` -/
theorem conv_transpose_out_len_same (n kd s : Nat) (hn : 1 ≤ n) (hk : 1 ≤ kd) (hs : 1 ≤ s) :
    outLen (((dilatedLen n s : Nat) : Int) + (transposePads kd s true).1 + (transposePads kd s true).2).toNat kd 1 = n * s := by
  have hd : dilatedLen n s = (n - 1) * s + 1 := by simp [dilatedLen]; omega
  have hsum : (transposePads kd s true).1 + (transposePads kd s true).2 = (kd : Int) + s - 2 := by
    simp only [transposePads, if_true]; ring
  have hm : (((dilatedLen n s : Nat) : Int) + (transposePads kd s true).1 + (transposePads kd s true).2).toNat
      = (n - 1) * s + 1 + kd + s - 2 := by
    rw [Int.add_assoc, hsum, hd]; omega
  rw [hm]
  have hns : n * s = (n - 1) * s + s := by
    obtain ⟨m, rfl⟩ : ∃ m, n = m + 1 := ⟨n - 1, by omega⟩
    simp; ring
  simp only [outLen, Nat.div_one]
  split <;> omega

/-- `padding='VALID'` (also the first stage of CIRCULAR): length `n·s + max(k_d − s, 0)` -/
theorem conv_transpose_out_len_valid (n kd s : Nat) (hn : 1 ≤ n) (hk : 1 ≤ kd) (hs : 1 ≤ s) :
    outLen (((dilatedLen n s : Nat) : Int) + (transposePads kd s false).1 + (transposePads kd s false).2).toNat kd 1
      = n * s + (kd - s) := by
  have hd : dilatedLen n s = (n - 1) * s + 1 := by simp [dilatedLen]; omega
  have hsum : (transposePads kd s false).1 + (transposePads kd s false).2 = (kd : Int) + s - 2 + ((kd - s : Nat) : Int) := by
    simp only [transposePads, Bool.false_eq_true, if_false]
    split <;> (push_cast; omega)
  have hm : (((dilatedLen n s : Nat) : Int) + (transposePads kd s false).1 + (transposePads kd s false).2).toNat
      = (n - 1) * s + 1 + kd + s - 2 + (kd - s) := by
    rw [Int.add_assoc, hsum, hd]; omega
  rw [hm]
  have hns : n * s = (n - 1) * s + s := by
    obtain ⟨m, rfl⟩ : ∃ m, n = m + 1 := ⟨n - 1, by omega⟩
    simp; ring
  simp only [outLen, Nat.div_one]
  split <;> omega

/-- CIRCULAR: the VALID result of length `l` is padded by `(−(l − P)) mod 2P` to an odd number of periods `P = n·s` … -/
theorem wrap_sum_total_odd_periods (l P : Nat) (hP : 0 < P) :
    (((l : Int) + (-((l : Int) - P)) % (2 * P : Int)) % (2 * P : Int)) = P := by
  rw [Int.add_emod_emod]
  have : (l : Int) + -((l : Int) - P) = P := by ring
  rw [this]
  exact Int.emod_eq_of_lt (by omega) (by omega)

/-- … and the periods are summed: position `p` of the circular output collects every position `j·P + p` of the padded
array (left pad `⌊diff/2⌋` for a transposed kernel, `⌈diff/2⌉` otherwise), so the output length is the period -/
theorem wrap_sum_get {R : Type} [Zero R] [Add R] [Mul R] (y : Tensor R) (ax period : Nat) (tk : Bool) (hp : period ≠ 0)
    (idx : List Nat) (h : inBounds (y.shape.set ax period) idx = true) :
    (wrapSumAxis y ax period tk).shape = y.shape.set ax period ∧
    (wrapSumAxis y ax period tk).get idx =
      sumOver (List.range ((nth y.shape ax + ((-((nth y.shape ax : Nat) : Int) + period) % (2 * period : Int)).toNat) / period)) (fun j =>
        if (if tk then ((-((nth y.shape ax : Nat) : Int) + period) % (2 * period : Int)).toNat / 2
              else (((-((nth y.shape ax : Nat) : Int) + period) % (2 * period : Int)).toNat + 1) / 2) ≤ j * period + nth idx ax 0 ∧
            j * period + nth idx ax 0 <
              (if tk then ((-((nth y.shape ax : Nat) : Int) + period) % (2 * period : Int)).toNat / 2
                else (((-((nth y.shape ax : Nat) : Int) + period) % (2 * period : Int)).toNat + 1) / 2) + nth y.shape ax
        then y.get (idx.set ax (j * period + nth idx ax 0 -
              (if tk then ((-((nth y.shape ax : Nat) : Int) + period) % (2 * period : Int)).toNat / 2
                else (((-((nth y.shape ax : Nat) : Int) + period) % (2 * period : Int)).toNat + 1) / 2)))
        else 0) := by
  have e : (-(((nth y.shape ax : Nat) : Int) - period)) = (-((nth y.shape ax : Nat) : Int) + period) := by ring
  constructor
  · simp [wrapSumAxis, hp, Tensor.ofFn]
  · simp only [wrapSumAxis, hp, if_false, e]
    rw [get_ofFn _ _ h]

/-! ### the three repaired defects: the model is the repaired code, the code as found is kept as `…Orig` -/

/-- pooling with explicit padding pairs and two batch dimensions: the code as found built a padding list one entry
short (lax rejects it); the repaired code pads every batch dimension -/
theorem pool_explicit_padding_orig_counterexample :
    (poolGeomOrig [2, 1, 2, 1] [1] [] (.explicit [(1, 1)])).toBool = false ∧
    (poolGeom [2, 1, 2, 1] [1] [] (.explicit [(1, 1)])).toBool = true := by decide

/-- repaired: explicit padding pairs are accepted for every number of batch dimensions (none, one, several): the
geometry handed to `reduce_window` has one padding entry per axis -/
theorem pool_explicit_padding_accepted (shape window strides : List Nat) (ps : List (Nat × Nat))
    (hr : window.length + 1 ≤ shape.length) (hs : strides = [] ∨ strides.length = window.length)
    (hp : ps.length = window.length) :
    poolGeom shape window strides (.explicit ps) = .ok (poolGeomCore false shape window strides (.explicit ps)) := by
  have h1 : ¬ (shape.length < window.length + 1) := by omega
  have h2 : ¬ ((if strides.isEmpty then List.replicate window.length 1 else strides).length ≠ window.length) := by
    rcases hs with h | h
    · simp [h]
    · by_cases he : strides.isEmpty = true
      · simp [he]
      · simp [he, h]
  have h3 : ¬ (ps.length ≠ window.length) := by omega
  have h4 : ¬ ((poolGeomCore false shape window strides (.explicit ps)).2.2.pads.length
      ≠ (poolGeomCore false shape window strides (.explicit ps)).2.1.length) := by
    simp only [poolGeomCore, poolPadSp, Bool.false_eq_true, if_false]
    by_cases hsingle : shape.length - (window.length + 1) = 0
    · simp [hsingle, hp]; omega
    · simp [hsingle, hp]; omega
  simp only [poolGeom, poolGeomGen, bind, Except.bind, pure, Except.pure, h1, h2, h3, h4, if_false]

/-- `Embed` with a single row and a scalar index: the code as found broadcast the 2-D table and failed; repaired, it
returns the row -/
theorem embed_single_row_scalar_orig_counterexample :
    embedLookupOrig (⟨[1, 2], #[-4, -1]⟩ : Tensor Int) [] [0] = .error "Broadcast" ∧
    embedLookup (⟨[1, 2], #[-4, -1]⟩ : Tensor Int) [0] = [some (-4), some (-1)] := by decide

/-- NNX `GroupNorm` as found repeated the group statistics along axis 1 instead of the last axis: with statistics per
position (`reduction_axes = [-1]`) on a `2×3×4` input in 2 groups, element `(0,0,2)` (group 1) was normalised with
the statistics of group 0 of position 1. -/
theorem groupnorm_repeat_axis_orig_counterexample :
    let x : Tensor Int := ⟨[2, 3, 4], #[1, -2, 3, 0, 4, 4, -1, 2, 5, -3, 0, 1, 2, 2, -4, 1, 0, 3, 3, -2, 1, -1, 6, -5]⟩
    ((groupNormPieces x 2 (some [-1]) false none none none (some 1)).toOption.map (fun ps => (ps.map (·.stats)).getD 2 none))
      ≠ ((groupNormPieces x 2 (some [-1]) false none none none none).toOption.map (fun ps => (ps.map (·.stats)).getD 2 none)) := by
  decide +kernel

section groupnorm

/-- repaired (and Linen): repeating the statistics tensor `keep ++ [G]` along its *last* axis makes channel `ch` read
the statistics of its own group `ch / groupSize`, at every kept position -/
theorem groupnorm_repeat_last_axis {α : Type} (t : Tensor α) (keep : List Nat) (g gs : Nat) (d : α)
    (ht : t.shape = keep ++ [g]) (kidx : List Nat) (ch : Nat) (hk : inBounds keep kidx = true) (hch : ch < g * gs) :
    (repeatAxis t keep.length gs d).getD (kidx ++ [ch]) d = t.getD (kidx ++ [ch / gs]) d :=
  repeat_last_axis t keep g gs d ht kidx ch hk hch

/-- `GroupNorm` (Linen, and NNX as repaired) at full strength.  For every input rank ≥ 1, every reduction-axis
specification (default or explicit, negative / repeated entries allowed) that the layer accepts, every group count
dividing the channels, mask and affine parameters: the piece at every index `idx` carries the statistics of exactly
one cell of the grouped tensor — the one at `idx`'s coordinates on the non-reduced leading axes and at the group
`idx[-1] / groupSize` of its channel (`groupStatsAt`: reduced over the leading reduction axes and the channels of that
group, masked-in entries only) — and the scale / bias of its channel.  The data movement of the code (statistics
tensor `keep ++ [G]` → repeat → view with the statistics shape → broadcast) is thereby identified with the documented
formula for arbitrary reduction-axis sets containing the feature axis. -/
theorem group_norm_formula (x : Tensor Int) (numGroups : Nat) (redAxes : Option (List Int)) (useFast : Bool)
    (mask scale bias : Option (Tensor Int)) (ps : List NormPiece)
    (hok : groupNormPieces x numGroups redAxes useFast mask scale bias none = .ok ps) :
    ps = (indices x.shape).map (fun idx =>
      ⟨groupStatsAt x (nth x.shape (x.rank - 1) / numGroups) (groupNormRed x.rank redAxes).dropLast
          ((List.range (x.rank - 1)).filter (fun a => !((groupNormRed x.rank redAxes).dropLast.contains a))) useFast mask
          (((List.range (x.rank - 1)).filter (fun a => !((groupNormRed x.rank redAxes).dropLast.contains a))).map (fun a => nth idx a 0)
            ++ [nth idx (x.rank - 1) 0 / (nth x.shape (x.rank - 1) / numGroups)]),
       featureParam x.shape [x.rank - 1] scale 1 idx, featureParam x.shape [x.rank - 1] bias 0 idx⟩) := by
  simp only [groupNormPieces, bind, Except.bind, pure, Except.pure] at hok
  by_cases h0 : x.rank = 0
  · simp [h0] at hok
  · by_cases h1 : (groupNormRed x.rank redAxes).getLast? ≠ some (x.rank - 1)
    · simp [h0, h1] at hok
    · by_cases h2 : numGroups = 0 ∨ nth x.shape (x.rank - 1) % numGroups ≠ 0
      · simp [h0, h1, h2] at hok
      · simp only [h0, h1, h2, if_false, Option.getD_none] at hok
        have hlt : ¬ (((List.range (x.rank - 1)).filter (fun a => !((groupNormRed x.rank redAxes).dropLast.contains a))).length + 1
            ≤ ((List.range (x.rank - 1)).filter (fun a => !((groupNormRed x.rank redAxes).dropLast.contains a))).length) := by omega
        simp only [hlt, if_false, Except.ok.injEq] at hok
        rw [← hok]
        have hp : (groupNormRed x.rank redAxes).Pairwise (· < ·) := by
          cases redAxes <;> exact (canon_axes_sound _ _).1
        have hlast := pairwise_dropLast_lt _ _ hp (by simpa using h1)
        have hG : numGroups * (nth x.shape (x.rank - 1) / numGroups) = nth x.shape (x.rank - 1) := by
          have : nth x.shape (x.rank - 1) % numGroups = 0 := by
            by_contra hne; exact h2 (Or.inr hne)
          exact Nat.mul_div_cancel' (Nat.dvd_of_mod_eq_zero this)
        exact groupNormCore_formula x numGroups _ useFast mask scale bias (by omega) hlast hG

example : (groupNormPieces (⟨[2, 3, 4], (List.range 24).map (fun i => (i : Int)) |>.toArray⟩ : Tensor Int) 2 (some [-1, 1]) true
    none none none none).toBool = true := by decide +kernel

end groupnorm

/-! ### the whole convolution layer, any number of spatial axes (`pad_index_maps` lifted to the N-d executable) -/

section convlayer
variable {R : Type} [Zero R] [Add R] [Mul R]

/-- `Conv` / `nnx.Conv` (shared weights) as a whole: batch flatten → per-axis `jnp.pad` chosen by the padding mode →
`lax.conv_general_dilated` with the masked kernel → bias → batch unflatten.  Whenever the layer accepts the
configuration, for every number of spatial axes, every number of batch dimensions (none, one, several), every padding
mode, stride, input / kernel dilation, group count, mask and bias, the output element at batch multi-index `b`, spatial
position `o` and feature `fi` is the direct sum (`convElem`)

  `Σ_{kk ∈ kernel offsets} Σ_{ch < C/groups} xval(b, src(o, kk), grp·C/groups + ch) · (K·mask)[kk, ch, fi]  (+ bias[fi])`

where `src(o, kk)` is the product of per-axis index maps: on each axis the lax map `axisSrc` (stride, dilations,
explicit pads; `convSrc`) into the pre-padded axis followed by that axis' `jnp.pad` map `padSrc` (`padIdx`; wrap for
CIRCULAR, reflect for REFLECT, zero fill on the left for CAUSAL, identity otherwise), and `xval` is 0 in zero fill.
`conv_sources_per_axis` states the per-axis factorisation; the one-axis `circular/reflect/causal_conv_formula`,
equivariance and causality theorems describe each factor. -/
theorem conv_layer_formula (c : ConvCfg) (x k : Tensor R) (bias mask : Option (Tensor R)) (out : Tensor R)
    (hok : convLayer c x k bias mask = .ok out)
    (bs insp : List Nat) (cin : Nat)
    (hx : x.shape = bs ++ (insp ++ [cin])) (hinsp : insp.length = c.kernelSize.length)
    (hbias : ∀ bb, bias = some bb → bb.rank = 1)
    (hfeat : nth k.shape (c.kernelSize.length + 1) % c.groups = 0)
    (b o : List Nat) (fi : Nat) (hb : inBounds bs b = true) (ho : o.length = c.kernelSize.length)
    (hfi : fi < nth k.shape (c.kernelSize.length + 1))
    (hbound : inBounds out.shape (b ++ (o ++ [fi])) = true) :
    k.shape.take c.kernelSize.length = c.kernelSize ∧ nth k.shape c.kernelSize.length = cin / c.groups ∧
    out.get (b ++ (o ++ [fi])) =
      bias.elim (convElem c x (mulMaskCore k mask) insp b o fi)
        (fun bb => convElem c x (mulMaskCore k mask) insp b o fi + bb.get [fi]) := by
  -- acceptance: the guards hold and the result is the core value
  have hy : out = convCore c x k bias mask ∧ convCheck c x k mask = .ok () := by
    simp only [convLayer, bind, Except.bind, pure, Except.pure] at hok
    cases hc : convCheck c x k mask with
    | error e => simp [hc] at hok
    | ok u => simp only [hc, Except.ok.injEq] at hok; exact ⟨hok.symm, rfl⟩
  obtain ⟨hout, hc⟩ := hy
  subst hout
  · 
    have hlast : nth x.shape (x.rank - 1) = cin := by
      simp [Tensor.rank, hx, nth, ← List.append_assoc]
    have hfacts : (c.groups ≠ 0 ∧ cin % c.groups = 0) ∧
        (k.shape.take c.kernelSize.length = c.kernelSize ∧ nth k.shape c.kernelSize.length = cin / c.groups) := by
      simp only [convCheck, bind, Except.bind, pure, Except.pure, throw, throwThe, MonadExceptOf.throw, hlast] at hc
      by_cases h1 : x.rank < c.kernelSize.length + 1
      · simp [h1] at hc
      · simp only [h1, if_false] at hc
        cases hpc : convPadCheck c with
        | error e => simp [hpc] at hc
        | ok v =>
          simp only [hpc] at hc
          by_cases h2 : c.groups = 0 ∨ cin % c.groups ≠ 0
          · simp [h2] at hc
          · by_cases h3 : k.shape.take c.kernelSize.length ≠ c.kernelSize ∨ nth k.shape c.kernelSize.length ≠ cin / c.groups
            · simp [h2, h3] at hc
            · constructor
              · constructor
                · intro h; exact h2 (Or.inl h)
                · by_contra h; exact h2 (Or.inr h)
              · constructor
                · by_contra h; exact h3 (Or.inl h)
                · by_contra h; exact h3 (Or.inr h)
    obtain ⟨⟨hg0, hcin⟩, hks, hcg⟩ := hfacts
    refine ⟨hks, hcg, ?_⟩
    apply convCore_get c x k bias mask bs insp cin hx hinsp hbias b o fi hb ho hbound
    intro ch hch
    -- the channel of group `fi / (F/groups)` is a valid input channel
    set F := nth k.shape (c.kernelSize.length + 1) with hF
    set cg := nth k.shape c.kernelSize.length with hcgd
    have hFg : c.groups * (F / c.groups) = F := Nat.mul_div_cancel' (Nat.dvd_of_mod_eq_zero hfeat)
    have hcing : c.groups * (cin / c.groups) = cin := Nat.mul_div_cancel' (Nat.dvd_of_mod_eq_zero hcin)
    have hfg0 : F / c.groups ≠ 0 := by
      intro h0
      have : F = 0 := by rw [← hFg, h0, Nat.mul_zero]
      omega
    simp only [hfg0, if_false]
    have hgrp : fi / (F / c.groups) < c.groups := by
      apply (Nat.div_lt_iff_lt_mul (Nat.pos_of_ne_zero hfg0)).mpr
      rw [hFg]; exact hfi
    rw [hcg] at hch ⊢
    calc fi / (F / c.groups) * (cin / c.groups) + ch < fi / (F / c.groups) * (cin / c.groups) + cin / c.groups := by omega
      _ = (fi / (F / c.groups) + 1) * (cin / c.groups) := by ring
      _ ≤ c.groups * (cin / c.groups) := Nat.mul_le_mul_right _ hgrp
      _ = cin := hcing

omit [Zero R] [Add R] [Mul R] in
/-- the source multi-index is the product of per-axis maps: the lax map yields `p` exactly when each axis' `axisSrc` yields
`p[j]`, and the `jnp.pad` map yields `s` exactly when each axis' `padSrc` yields `s[j]` -/
theorem conv_sources_per_axis (g : ConvGeom) (sp' o kk p : List Nat) (insp : List Nat) (sp : List (PadMode × Nat × Nat)) (s : List Nat) :
    (convSrc g sp' o kk = some p ↔
      (List.range sp'.length).map (fun j => axisSrc (nth sp' j) (nth g.lhsDil j) (g.pads.getD j (0, 0)).1
        ((nth o j 0 : Int) * (nth g.strides j) + (nth kk j 0 : Int) * (nth g.rhsDil j))) = p.map some) ∧
    (padIdx insp sp p = some s ↔
      List.zipWith (fun (np : Nat × (PadMode × Nat × Nat)) i => padSrc np.2.1 np.1 np.2.2.1 i) (insp.zip sp) p = s.map some) :=
  ⟨mapM_id_some_iff _ _, mapM_id_some_iff _ _⟩

/-- what the padding mode decides (`convPlan`): CIRCULAR / REFLECT pre-pad every spatial axis by `((k_d−1)//2, k_d//2)` in wrap /
reflect mode and convolve VALID; CAUSAL zero-pads `d(k−1)` on the left; SAME / VALID / explicit pairs pre-pad nothing -/
theorem conv_plan_modes (c : ConvCfg) (insp : List Nat) :
    (c.padding = .circular → convPlan c insp =
      ((List.range c.kernelSize.length).map (fun j => (PadMode.wrap, centrePads (nth c.kernelSize j) (nth c.kernelDil j))),
       List.replicate c.kernelSize.length (0, 0))) ∧
    (c.padding = .reflect → convPlan c insp =
      ((List.range c.kernelSize.length).map (fun j => (PadMode.reflect, centrePads (nth c.kernelSize j) (nth c.kernelDil j))),
       List.replicate c.kernelSize.length (0, 0))) ∧
    (c.padding = .causal → convPlan c insp =
      ((List.range c.kernelSize.length).map (fun j => (PadMode.zeros, causalPad (nth c.kernelSize j) (nth c.kernelDil j))),
       List.replicate c.kernelSize.length (0, 0))) ∧
    (c.padding = .valid → convPlan c insp =
      (List.replicate c.kernelSize.length (PadMode.zeros, 0, 0), List.replicate c.kernelSize.length (0, 0))) ∧
    (∀ ps, c.padding = .explicit ps → convPlan c insp = (List.replicate c.kernelSize.length (PadMode.zeros, 0, 0), ps)) := by
  refine ⟨?_, ?_, ?_, ?_, ?_⟩ <;> intro h <;> (try intro h') <;> simp_all [convPlan]

example : (convLayer ⟨[3], [2], .circular, [1], [2], 1⟩ (⟨[2, 1, 5, 1], #[1, 2, 3, 4, 5, 6, 7, 8, 9, 10]⟩ : Tensor Int)
    ⟨[3, 1, 1], #[1, 10, 100]⟩ (some ⟨[1], #[7]⟩) none).toBool = true := by decide

end convlayer

/-! ### pooling (`pool_is_window_reduction`, `avg_pool_divisor`, max/min ignore padding) -/

section pool
variable {R : Type} [Zero R] [Add R] [Mul R]

omit [Mul R] in
/-- sum pooling at output position `o` is the sum of the input over the in-range positions of the window placed at
`o·stride − pad` (padding contributes nothing) — any rank, any number of batch dimensions -/
theorem pool_is_window_reduction (x : Tensor R) (g : PoolGeom) (o : List Nat)
    (h : inBounds (poolOutShape x.shape g) o = true) :
    (sumPool x g).get o = sumOver (windowSrcs x.shape g o) x.get := by
  simp only [sumPool]
  exact get_ofFn _ _ h

/-- the geometry `pool` hands to `lax.reduce_window`, for every padding form: window and stride 1 on every batch axis and
on the feature axis, `(0,0)` padding there, and on the spatial axes no padding for `'VALID'`, the lax SAME rule for
`'SAME'`, the given `(lo, hi)` pairs for explicit padding (repaired code: for any number of batch dimensions) -/
theorem pool_geometry (shape window strides : List Nat) (pad : PoolPad) (r : Bool × List Nat × PoolGeom)
    (h : poolGeom shape window strides pad = .ok r) :
    let nb' := if shape.length - (window.length + 1) = 0 then 1 else shape.length - (window.length + 1)
    let strides' := if strides.isEmpty then List.replicate window.length 1 else strides
    let sp := ((if shape.length - (window.length + 1) = 0 then 1 :: shape else shape).drop nb').take window.length
    r.2.2.window = List.replicate nb' 1 ++ window ++ [1] ∧
    r.2.2.strides = List.replicate nb' 1 ++ strides' ++ [1] ∧
    r.2.2.pads = List.replicate nb' (0, 0) ++ poolPadSp pad sp window strides' ++ [(0, 0)] ∧
    poolPadSp .valid sp window strides' = List.replicate window.length (0, 0) ∧
    poolPadSp .same sp window strides' = (List.range window.length).map (fun j => samePads (nth sp j) (nth window j) (nth strides' j)) ∧
    ∀ ps, poolPadSp (.explicit ps) sp window strides' = ps := by
  have e := poolGeomGen_ok false shape window strides pad _ h
  subst e
  refine ⟨rfl, rfl, ?_, rfl, rfl, fun _ => rfl⟩
  cases pad <;> rfl

/-- pooling an all-ones array with the same geometry (what `avg_pool(count_include_pad=False)` divides by) counts
exactly the window positions that fall inside the data -/
theorem pooled_ones_counts_in_bounds (shape : List Nat) (g : PoolGeom) (o : List Nat) :
    pooledOnes shape g o = (windowSrcs shape g o).length := by
  simp only [pooledOnes, windowSrcs]
  rw [foldl_count]; simp

/-- `avg_pool_divisor`.  Whatever the padding form (`'SAME'`, `'VALID'` or explicit `(lo, hi)` pairs) and the number of
batch dimensions: every output element is the sum over the in-bounds window positions, divided by the full window size
`prod(window)` when `count_include_pad=True` and by the number of in-bounds window positions when it is `False`. -/
theorem avg_pool_divisor (x : Tensor R) (window strides : List Nat) (pad : PoolPad) (cip : Bool)
    (outShape : List Nat) (parts : List (R × Nat))
    (hok : avgPoolParts x window strides pad cip = .ok (outShape, parts)) :
    ∃ single shape' g, poolGeom x.shape window strides pad = .ok (single, shape', g) ∧
      parts = (indices (poolOutShape shape' g)).map (fun o =>
        (sumOver (windowSrcs shape' g o) (x.reshape shape').get,
         if cip then prod window else (windowSrcs shape' g o).length)) := by
  simp only [avgPoolParts, bind, Except.bind] at hok
  cases hg : poolGeom x.shape window strides pad with
  | error e => simp [hg] at hok
  | ok r =>
    obtain ⟨single, shape', g⟩ := r
    refine ⟨single, shape', g, rfl, ?_⟩
    simp only [hg, Except.ok.injEq, Prod.mk.injEq] at hok
    rw [← hok.2]
    have hs : (sumPool (x.reshape shape') g).shape = poolOutShape shape' g := by
      simp [sumPool, Tensor.ofFn, Tensor.reshape]
    rw [hs]
    apply List.map_congr_left
    intro o ho
    have hib : inBounds (poolOutShape shape' g) o = true := by
      simp only [indices, List.mem_map, List.mem_range] at ho
      obtain ⟨i, hi, rfl⟩ := ho
      exact mem_indices_inBounds _ _ hi
    have hx : (x.reshape shape').shape = shape' := rfl
    rw [pool_is_window_reduction _ _ _ (by rw [hx]; exact hib), pooled_ones_counts_in_bounds, hx]

/-- the number of in-bounds positions never exceeds the window size … -/
theorem avg_pool_count_le_window (shape : List Nat) (g : PoolGeom) (o : List Nat) :
    (windowSrcs shape g o).length ≤ prod g.window := by
  simp only [windowSrcs, windowAll]
  exact Nat.le_trans (List.length_filterMap_le _ _) (by simp [indices_length])

/-- … and on one axis a window that lies entirely inside the data has all `w` positions in range, so both averaging
conventions agree there; they differ only at the borders -/
theorem window_interior_full (n w s lo o : Nat) (h1 : lo ≤ o * s) (h2 : o * s + w ≤ lo + n) :
    ((List.range w).filter (fun t => decide (lo ≤ o * s + t ∧ o * s + t < lo + n))).length = w := by
  have : (List.range w).filter (fun t => decide (lo ≤ o * s + t ∧ o * s + t < lo + n)) = List.range w := by
    apply List.filter_eq_self.mpr
    intro t ht
    have := List.mem_range.mp ht
    simp; omega
  rw [this]; simp

/-- `max_pool` / `min_pool` ignore padding: `lax.reduce_window` with init −inf / +inf lets every padded position carry
the identity of the reduction, so the result is the max / min over the in-bounds window positions only — and the init
value itself exactly when the window holds padding only -/
theorem extreme_pool_ignores_padding (isMax : Bool) (x : Tensor Int) (g : PoolGeom) (o : List Nat) :
    extremeAt isMax x g o =
      match (windowSrcs x.shape g o).map x.get with
      | [] => none
      | v :: rest => some (rest.foldl (fun a b => if isMax then max a b else min a b) v) := by
  simp only [extremeAt, windowSrcs, extFold_filter]
  cases hl : (windowAll x.shape g o).filterMap id with
  | nil => rfl
  | cons s rest =>
    simp only [List.foldl_cons, List.map_cons]
    have e : extCombine isMax none (some (x.get s)) = some (x.get s) := rfl
    rw [e, extFold_some]
    simp [List.foldl_map]

example : avgPoolParts (⟨[1, 3, 1], #[2, 4, 6]⟩ : Tensor Int) [2] [1] (.explicit [(1, 0)]) false
    = .ok ([1, 3, 1], [(2, 1), (6, 2), (10, 2)]) := by decide

example : extremePool true (⟨[1, 3, 1], #[-2, -4, -6]⟩ : Tensor Int) [2] [1] (.explicit [(2, 0)])
    = .ok ([1, 4, 1], [none, some (-2), some (-2), some (-4)]) := by decide

end pool

/-! ### Dense / Linear (`dense_general_formula`, last-axis case in full) -/

section dense
variable {R : Type} [Zero R] [Add R] [Mul R]

/-- `Dense` / `nnx.Linear`: for every input rank ≥ 1 and every leading multi-index,
`out[lead…, f] = Σ_j x[lead…, j]·K[j, f] (+ bias[f])` — the general `dot_general` specification instantiated with the
dimension numbers flax passes, followed by flax's bias reshape -/
theorem dense_formula (x k : Tensor R) (bias : Option (Tensor R)) (lead : List Nat) (f : Nat)
    (hr : 1 ≤ x.rank) (hk : k.rank = 2) (hin : nth x.shape (x.rank - 1) = nth k.shape 0)
    (hl : lead.length + 1 = x.rank) (hbias : ∀ b, bias = some b → b.rank = 1)
    (hb : inBounds ((List.range (x.rank - 1)).map (nth x.shape ·) ++ [nth k.shape 1]) (lead ++ [f]) = true) :
    ∃ y, dense x k bias = .ok y ∧
      y.get (lead ++ [f]) =
        match bias with
        | none => sumOver (List.range (nth x.shape (x.rank - 1))) (fun j => x.get (lead ++ [j]) * k.get [j, f])
        | some b => sumOver (List.range (nth x.shape (x.rank - 1))) (fun j => x.get (lead ++ [j]) * k.get [j, f]) + b.get [f] := by
  have h1 : ¬ (x.rank = 0 ∨ k.rank ≠ 2) := by omega
  have hdg := dotGeneral_last_get x k lead f hr hk hl hb
  refine ⟨addBiasSuffix (dotGeneral x k [x.rank - 1] [0] [] []) bias, ?_, ?_⟩
  · simp [dense, h1, hin]
  · cases bias with
    | none => simpa [addBiasSuffix] using hdg
    | some b =>
      have hbr := hbias b rfl
      have hfl := filter_last x.rank hr
      have hkf : (List.range k.rank).filter (fun a => !([0].contains a) && !(([] : List Nat).contains a)) = [1] := by
        rw [hk]; decide
      have hshape : (dotGeneral x k [x.rank - 1] [0] [] []).shape
          = (List.range (x.rank - 1)).map (nth x.shape ·) ++ [nth k.shape 1] := by
        simp only [dotGeneral, Tensor.ofFn, hfl, hkf, List.map_nil, List.nil_append, List.map_cons]
      have hlen : (dotGeneral x k [x.rank - 1] [0] [] []).shape.length = (x.rank - 1) + 1 := by
        rw [hshape]; simp
      have hbr' : b.shape.length = 1 := hbr
      have hyr : (dotGeneral x k [x.rank - 1] [0] [] []).rank - b.rank = lead.length := by
        show (dotGeneral x k [x.rank - 1] [0] [] []).shape.length - b.shape.length = lead.length
        omega
      simp only [addBiasSuffix]
      rw [get_ofFn _ _ (by rw [hshape]; exact hb), hdg, hyr, List.drop_left']
      rfl

/-- `DenseGeneral` / `nnx.LinearGeneral` at full strength.  For every input rank, every `axis` tuple (negative, unsorted
entries allowed; `ax` is its sorted canonical form), batch dimensions `0 … nb−1` and feature tuple: whenever the layer
accepts the configuration, the output at batch coordinates `bidx`, remaining input coordinates `r` and feature
coordinates `f` is

  `Σ_{a ∈ indices(shape at ax)} x[place bidx r a] · K[bidx ++ a ++ f]  (+ bias[bidx ++ f])`

where `place bidx r a = scatterIdx rank (zip (0…nb−1) bidx ++ zip ax a) r` is characterised by `place_assigned` and
`place_free` below: it carries `bidx` at the batch positions, `a` at the sorted contraction axes and `r`, in order, at
all other positions.  The bias (kernel-shaped `batch ++ features`) is the one reshaped to `expanded_batch_shape +
features` and broadcast by numpy's rule. -/
theorem dense_general_formula (axis batchDims : List Int) (nFeat : Nat) (x k : Tensor R) (bias : Option (Tensor R))
    (y : Tensor R) (hok : denseGeneral axis batchDims nFeat x k bias = .ok y)
    (nb : Nat) (bidx r f feats : List Nat)
    (hbd : normalizeAxes x.rank batchDims = List.range nb) (hbl : bidx.length = nb)
    (hr : r.length = ((List.range x.rank).filter
            (fun a => !((normalizeAxes x.rank axis).contains a) && !((List.range nb).contains a))).length)
    (hkr : k.rank = nb + (normalizeAxes x.rank axis).length + f.length)
    (hnb : nb ≤ x.rank) (hge : ∀ a ∈ normalizeAxes x.rank axis, nb ≤ a)
    (hfeats : k.shape.drop (nb + (normalizeAxes x.rank axis).length) = feats)
    (hbs : ∀ b, bias = some b → b.shape = (List.range nb).map (nth x.shape ·) ++ feats)
    (hbi : inBounds ((List.range nb).map (nth x.shape ·)) bidx = true) (hfi : inBounds feats f = true)
    (hb : inBounds y.shape (bidx ++ r ++ f) = true) :
    y.get (bidx ++ r ++ f) =
      match bias with
      | none =>
        sumOver (indices ((normalizeAxes x.rank axis).map (nth x.shape ·))) (fun a =>
          x.get (scatterIdx x.rank ((List.range nb).zip bidx ++ (normalizeAxes x.rank axis).zip a) r) * k.get (bidx ++ a ++ f))
      | some b =>
        sumOver (indices ((normalizeAxes x.rank axis).map (nth x.shape ·))) (fun a =>
          x.get (scatterIdx x.rank ((List.range nb).zip bidx ++ (normalizeAxes x.rank axis).zip a) r) * k.get (bidx ++ a ++ f))
        + b.get (bidx ++ f) := by
  have hy : y = denseGeneralCore axis batchDims x k bias := by
    simp only [denseGeneral, bind, Except.bind, pure, Except.pure] at hok
    cases hc : denseGeneralCheck axis batchDims nFeat x k bias with
    | error e => simp [hc] at hok
    | ok u => simp [hc] at hok; exact hok.symm
  subst hy
  cases bias with
  | none => exact denseGeneralCore_get_nobias axis batchDims x k nb bidx r f hbd hbl hr hkr hb
  | some b =>
    exact denseGeneralCore_get_bias axis batchDims x k b nb bidx r f feats hbd hbl hr hkr hnb hge hfeats (hbs b rfl) hbi hfi hb

/-- non-vacuity: a rank-3 input, `axis = (-1, 1)` written unsorted, one batch dimension, two feature dimensions, bias -/
example : (denseGeneral [-1, 1] [0] 2 (⟨[2, 2, 3], #[1, 2, 3, 4, 5, 6, 7, 8, 9, 10, 11, 12]⟩ : Tensor Int)
    ⟨[2, 2, 3, 1, 2], (List.replicate 24 1).toArray⟩ (some ⟨[2, 1, 2], #[1, 2, 3, 4]⟩)).toBool = true := by decide

/-- `DenseGeneral(batch_dims=(0,))` / `nnx.LinearGeneral(batch_axis={0: B})` with a per-batch kernel AND a per-batch bias on an
input `(B, T, D)` with a free axis `T` (neither batch nor contracted), the instance of `dense_general_formula` that the
bias reshape to `expanded_batch_shape + features` exists for: `out[b, t, f] = Σ_d x[b, t, d]·K[b, d, f] + bias[b, f]` —
the bias row is selected by the *batch* coordinate `b`, whatever `T` is (also when `T = B` or `T = 1`). -/
theorem dense_general_batch_formula (x k : Tensor R) (bias : Option (Tensor R)) (y : Tensor R)
    (B T D F : Nat) (hx : x.shape = [B, T, D]) (hk : k.shape = [B, D, F])
    (hbs : ∀ bb, bias = some bb → bb.shape = [B, F])
    (hok : denseGeneral [-1] [0] 1 x k bias = .ok y)
    (b t f : Nat) (hb : b < B) (ht : t < T) (hf : f < F) :
    y.get [b, t, f] =
      match bias with
      | none => sumOver (List.range D) (fun d => x.get [b, t, d] * k.get [b, d, f])
      | some bb => sumOver (List.range D) (fun d => x.get [b, t, d] * k.get [b, d, f]) + bb.get [b, f] := by
  have hr : x.rank = 3 := by simp [Tensor.rank, hx]
  have hkr : k.rank = 3 := by simp [Tensor.rank, hk]
  have hax : normalizeAxes x.rank [-1] = [2] := by rw [hr]; decide
  have hbd : normalizeAxes x.rank [0] = List.range 1 := by rw [hr]; decide
  have hax3 : normalizeAxes 3 [-1] = [2] := by decide
  have hbd3 : normalizeAxes 3 [0] = [0] := by decide
  have hy : y = denseGeneralCore [-1] [0] x k bias := by
    simp only [denseGeneral, bind, Except.bind, pure, Except.pure] at hok
    cases hc : denseGeneralCheck [-1] [0] 1 x k bias with
    | error e => simp [hc] at hok
    | ok u => simp [hc] at hok; exact hok.symm
  have hshape : y.shape = [B, T, F] := by
    rw [hy]
    cases bias <;>
      simp [denseGeneralCore, dotGeneral, Tensor.ofFn, hr, hax3, hbd3, hkr, hx, hk, nth, List.range_succ, List.filter_cons]
  have hib : inBounds y.shape ([b] ++ [t] ++ [f]) = true := by
    rw [hshape]; simp [inBounds, hb, ht, hf]
  have hfree : [t].length = ((List.range x.rank).filter
      (fun a => !((normalizeAxes x.rank [-1]).contains a) && !((List.range 1).contains a))).length := by
    rw [hax, hr]; simp [List.range_succ, List.filter_cons]
  have hmain := dense_general_formula [-1] [0] 1 x k bias y hok 1 [b] [t] [f] [F] hbd rfl hfree
    (by rw [hax, hkr]; rfl) (by rw [hr]; omega) (by rw [hax]; simp) (by rw [hax, hk]; rfl)
    (by intro bb hbb; rw [hbs bb hbb, hx]; rfl) (by rw [hx]; simp [inBounds, nth, hb]) (by simp [inBounds, hf]) hib
  have hsc : ∀ d, scatterIdx x.rank ((List.range 1).zip [b] ++ (normalizeAxes x.rank [-1]).zip [d]) [t] = [b, t, d] := by
    intro d
    rw [hax, hr]
    simp [scatterIdx, scatterAt, List.range_succ, List.find?]
  have hind : indices ((normalizeAxes x.rank [-1]).map (nth x.shape ·)) = (List.range D).map (fun d => [d]) := by
    rw [hax, hx]; simp [nth, indices_singleton]
  simp only [List.cons_append, List.nil_append, List.singleton_append] at hmain
  rw [hmain]
  cases bias with
  | none => simp only [hind, sumOver_map, hsc]; rfl
  | some bb => simp only [hind, sumOver_map, hsc]; rfl

example : (denseGeneral [-1] [0] 1 (⟨[2, 2, 2], #[1, 2, 3, 4, 5, 6, 7, 8]⟩ : Tensor Int) ⟨[2, 2, 1], #[1, -1, 2, 3]⟩
    (some ⟨[2, 1], #[10, 20]⟩)).toBool = true := by decide

omit [Zero R] [Add R] [Mul R] in
/-- `place`: an assigned position carries its value (keys pairwise distinct — flax's batch and contraction axes are) -/
theorem place_assigned (n : Nat) (keys vals rest : List Nat) (hn : keys.Nodup) (hl : keys.length = vals.length)
    (j : Nat) (hj : j < keys.length) (hp : keys[j] < n) :
    (scatterIdx n (keys.zip vals) rest)[keys[j]]'(by simp [scatterIdx_length, hp]) = vals[j]'(by omega) := by
  rw [scatterIdx_getElem n _ _ _ hp]
  simp only [scatterAt, find_zip_nodup keys vals hn hl j hj (by omega)]

omit [Zero R] [Add R] [Mul R] in
/-- `place`: the positions that are not keys, in increasing order, carry `rest` -/
theorem place_free (n : Nat) (keys vals rest : List Nat) (hl : keys.length = vals.length)
    (hr : rest.length = ((List.range n).filter (fun p => !(keys.contains p))).length) :
    ((List.range n).filter (fun p => !(keys.contains p))).map (fun p => (scatterIdx n (keys.zip vals) rest).getD p 0) = rest := by
  have hfree : (fun j => (((keys.zip vals).find? (fun q => decide (q.1 = j))).isNone)) = (fun p => !(keys.contains p)) := by
    funext j; exact find_zip_isNone keys vals hl j
  have h := scatterIdx_free n (keys.zip vals) rest (by rw [hfree]; exact hr)
  rw [hfree] at h
  refine Eq.trans ?_ h
  apply List.map_congr_left
  intro p hp
  have hpn : p < n := List.mem_range.mp (List.mem_filter.mp hp).1
  have : (scatterIdx n (keys.zip vals) rest).getD p 0 = (scatterIdx n (keys.zip vals) rest)[p]'(by simp [scatterIdx_length, hpn]) := by
    simp [List.getD, scatterIdx_length, hpn]
  rw [this, scatterIdx_getElem n _ _ p hpn]

end dense

end Flax.C12
