/-
C01 — Linen init/apply are pure functions with an explicit mutability contract.

Theorems over `Flax.Model.Scope` / `Flax.Model.ModuleTree`, for every module program (`SProg`), every
`mutable` filter, every input variable dict, every argument, every naming style, with or without
`capture_intermediates`, and every amount of evaluator fuel.  Helper lemmas live in
`Flax/Proofs/ScopeLemmas.lean` (frame relation) and `Flax/Proofs/ObsSim.lean` (observer simulation).
-/
import Flax.Proofs.ScopeLemmas
import Flax.Proofs.ObsSim
import Flax.Props.C14

namespace Flax.C01
open Flax.Filter (LFilter inFilter)
open Flax.Scope Flax.ModuleTree Flax.ScopeLemmas
open Flax.ObsSim (quiet)

/-! ## the store of the temporary root scope, before and after -/

private theorem owned_bind (m : LFilter) (V : Vars) (rngs : List String) : OwnedInv (Scope.bind m V rngs) := by
  intro c hc hm
  simp only [Scope.bind, List.mem_map] at hc
  obtain ⟨a, _, rfl⟩ := hc
  exact hm

private theorem scope_apply_frame (fn : Op Int) (hfn : ∀ s, Frame s (fn s).2) (m : LFilter) (V : Vars)
    (rngs : List String) : Frame (Scope.bind m V rngs) (Scope.apply fn m V rngs).final := by
  unfold Scope.apply
  split
  · exact Frame.refl _
  · have f := hfn (Scope.bind m V rngs)
    split
    · rename_i heq; rw [heq] at f; exact f
    · rename_i heq; rw [heq] at f; exact f

private theorem apply_frame (cfg : Cfg) (fuel : Nat) (p : SProg) (m : LFilter) (V : Vars) (rngs : List String)
    (x : Int) :
    Frame (Scope.bind (effMutable cfg m) V rngs) (ModuleTree.apply cfg fuel p m V rngs x).final :=
  scope_apply_frame _ (runTop_frame cfg fuel p x) _ V rngs

/-! ## clause: the inputs stay identical -/

/-- **No write ever lands in a dict object of the caller**, whatever the program does and whether
the call returns or raises: the ghost flag that every write into a caller-owned collection would
set is still `false` when `apply` ends.  (`_unfreeze_variables` copies exactly the collections that
`put_variable` lets through.) -/
theorem apply_input_frame (cfg : Cfg) (fuel : Nat) (p : SProg) (m : LFilter) (V : Vars) (rngs : List String)
    (x : Int) : (ModuleTree.apply cfg fuel p m V rngs x).final.dirty = false := by
  have f := apply_frame cfg fuel p m V rngs x
  rw [f.dirty (owned_bind _ V rngs)]
  rfl

/-- What the caller finds at path `q` of the variables it passed in, after the call: a collection the
scope merely borrowed *is* the caller's object, so its content is whatever the scope's store holds
at the end; every other collection was copied, the caller still has its own. -/
def callerLookup (V : Vars) (o : Outcome) (q : Path) : Option Val :=
  match q with
  | c :: _ => if borrowed o.final c then lookupP q o.final.vars else lookupP q V.vars
  | [] => lookupP q V.vars

/-- **The variables passed in are unchanged after `apply`** (returning or raising): at every path
the caller reads what it read before. -/
theorem inputs_unchanged (cfg : Cfg) (fuel : Nat) (p : SProg) (m : LFilter) (V : Vars) (rngs : List String)
    (x : Int) (q : Path) :
    callerLookup V (ModuleTree.apply cfg fuel p m V rngs x) q = lookupP q V.vars := by
  have f := apply_frame cfg fuel p m V rngs x
  cases q with
  | nil => rfl
  | cons c rest =>
    simp only [callerLookup]
    split
    · rename_i hb
      unfold borrowed at hb
      rw [List.any_eq_true] at hb
      obtain ⟨e, he, hee⟩ := hb
      simp only [Bool.and_eq_true, decide_eq_true_eq, Bool.not_eq_true'] at hee
      have himm : inFilter (effMutable cfg m) c = false := by
        rcases f.cols_new e he with h1 | h1
        · simp only [Scope.bind, List.mem_map] at h1
          obtain ⟨a, _, rfl⟩ := h1
          simp only at hee
          rw [← hee.1]; exact hee.2
        · rw [h1.2] at hee; exact absurd hee.2 (by simp)
      exact f.imm c rest himm
    · rfl

/-- **Init has nothing to protect and still never marks anything**: same statement for `init`. -/
theorem init_input_frame (cfg : Cfg) (fuel : Nat) (p : SProg) (m : LFilter) (rngs : List String) (x : Int) :
    (ModuleTree.init cfg fuel p m rngs x).final.dirty = false :=
  apply_input_frame cfg fuel p m Vars.empty rngs x

/-! ## clause: only the collections selected by `mutable` can change -/

/-- **Only mutable collections change**: in the scope's final store every collection not selected by
`mutable` holds, at every path, exactly what was passed in — for a returning and for a raising call. -/
theorem only_mutable_change (cfg : Cfg) (fuel : Nat) (p : SProg) (m : LFilter) (V : Vars) (rngs : List String)
    (x : Int) (c : String) (rest : Path) (h : inFilter (effMutable cfg m) c = false) :
    lookupP (c :: rest) (ModuleTree.apply cfg fuel p m V rngs x).final.vars = lookupP (c :: rest) V.vars :=
  (apply_frame cfg fuel p m V rngs x).imm c rest h

/-- the bound filter never changes during a call (child scopes share the root's `mutable`) -/
theorem mutable_constant (cfg : Cfg) (fuel : Nat) (p : SProg) (m : LFilter) (V : Vars) (rngs : List String)
    (x : Int) : (ModuleTree.apply cfg fuel p m V rngs x).final.mutable = effMutable cfg m :=
  (apply_frame cfg fuel p m V rngs x).mutable_eq

/-- **No collection outside `mutable` is ever created** by a call. -/
theorem no_immutable_collection_created (cfg : Cfg) (fuel : Nat) (p : SProg) (m : LFilter) (V : Vars)
    (rngs : List String) (x : Int) (c : String × Bool)
    (hc : c ∈ (ModuleTree.apply cfg fuel p m V rngs x).final.cols)
    (h : inFilter (effMutable cfg m) c.1 = false) : c.1 ∈ V.cols := by
  rcases (apply_frame cfg fuel p m V rngs x).cols_new c hc with h1 | h1
  · simp only [Scope.bind, List.mem_map] at h1
    obtain ⟨a, ha, rfl⟩ := h1
    exact ha
  · simp only [Scope.bind] at h1
    rw [h1.1] at h
    exact absurd h (by simp)

/-! ## clause: the new values are returned — every existing collection matching `mutable`, no other -/

private theorem lookupP_filter (P : Path → Bool) (q : Path) (hq : P q = true) (l : List (Path × Val)) :
    lookupP q (l.filter (fun kv => P kv.1)) = lookupP q l := by
  induction l with
  | nil => rfl
  | cons kv rest ih =>
    obtain ⟨k, v⟩ := kv
    by_cases hk : k = q
    · subst hk
      simp [List.filter, hq, lookupP]
    · by_cases hp : P k = true
      · simp [List.filter, hp, lookupP, hk, ih]
      · simp [List.filter, hp, lookupP, hk, ih]

private def headMutable (m : LFilter) (q : Path) : Bool :=
  match q with
  | c :: _ => inFilter m c
  | [] => false

private theorem mutableVariables_vars (s : Store) :
    (mutableVariables s).vars = s.vars.filter (fun kv => headMutable s.mutable kv.1) := by
  unfold mutableVariables headMutable
  rfl

/-- **Returned keys are exact.** When `apply` returns `(y, R)`:
1. every collection that was passed in and matches `mutable` is a key of `R`;
2. every key of `R` matches `mutable` (no other collection is returned);
3. every leaf of `R` sits in a collection matching `mutable`;
4. for a collection matching `mutable`, `R` holds at every path exactly the scope's final value
   (the new values are *returned*, the inputs being untouched by `inputs_unchanged`). -/
theorem returned_keys_exact (cfg : Cfg) (fuel : Nat) (p : SProg) (m : LFilter) (V : Vars) (rngs : List String)
    (x : Int) (y : Int) (R : Vars)
    (h : (ModuleTree.apply cfg fuel p m V rngs x).result = .ok (y, R)) :
    (∀ c ∈ V.cols, inFilter (effMutable cfg m) c = true → c ∈ R.cols) ∧
    (∀ c ∈ R.cols, inFilter (effMutable cfg m) c = true) ∧
    (∀ kv ∈ R.vars, ∃ c rest, kv.1 = c :: rest ∧ inFilter (effMutable cfg m) c = true) ∧
    (∀ c rest, inFilter (effMutable cfg m) c = true →
      lookupP (c :: rest) R.vars = lookupP (c :: rest) (ModuleTree.apply cfg fuel p m V rngs x).final.vars) := by
  have f := apply_frame cfg fuel p m V rngs x
  have hm := f.mutable_eq
  simp only [Scope.bind] at hm
  have hR : R = mutableVariables (ModuleTree.apply cfg fuel p m V rngs x).final := by
    unfold ModuleTree.apply Scope.apply at h ⊢
    split at h
    · simp at h
    · rename_i hbs
      simp only [hbs]
      split at h
      · simp only [Bool.false_eq_true, if_false]
        simp only [Except.ok.injEq, Prod.mk.injEq] at h
        exact h.2.symm
      · simp at h
  subst hR
  refine ⟨?_, ?_, ?_, ?_⟩
  · intro c hc hmc
    have := f.cols_old (c, inFilter (effMutable cfg m) c) (by
      simp only [Scope.bind, List.mem_map]; exact ⟨c, hc, rfl⟩)
    simp only [mutableVariables, List.mem_map, List.mem_filter]
    exact ⟨(c, inFilter (effMutable cfg m) c), ⟨this, by rw [hm]; exact hmc⟩, rfl⟩
  · intro c hc
    simp only [mutableVariables, List.mem_map, List.mem_filter] at hc
    obtain ⟨e, ⟨_, he⟩, rfl⟩ := hc
    rw [← hm]; exact he
  · intro kv hkv
    rw [mutableVariables_vars, List.mem_filter] at hkv
    obtain ⟨_, hh⟩ := hkv
    unfold headMutable at hh
    split at hh
    · rename_i c rest heq
      exact ⟨c, rest, heq, by rw [← hm]; exact hh⟩
    · exact absurd hh (by simp)
  · intro c rest hmc
    rw [mutableVariables_vars]
    exact lookupP_filter _ _ (by unfold headMutable; rw [hm]; exact hmc) _

/-- with `mutable=False` nothing is returned (`Module.apply` then returns the bare output) -/
theorem immutable_apply_returns_nothing (cfg : Cfg) (hcap : cfg.capture = false) (fuel : Nat) (p : SProg)
    (V : Vars) (rngs : List String) (x : Int) (y : Int) (R : Vars)
    (h : (ModuleTree.apply cfg fuel p .ff V rngs x).result = .ok (y, R)) : R.cols = [] ∧ R.vars = [] := by
  have hk := returned_keys_exact cfg fuel p .ff V rngs x y R h
  have hff : ∀ c, inFilter (effMutable cfg .ff) c = false := by
    intro c; simp [effMutable, hcap, inFilter]
  constructor
  · cases hc : R.cols with
    | nil => rfl
    | cons c rest =>
      have := hk.2.1 c (by rw [hc]; exact List.mem_cons_self)
      rw [hff] at this; exact absurd this (by simp)
  · cases hv : R.vars with
    | nil => rfl
    | cons kv rest =>
      obtain ⟨c, _, _, hc⟩ := hk.2.2.1 kv (by rw [hv]; exact List.mem_cons_self)
      rw [hff] at hc; exact absurd hc (by simp)

/-! ## clause: a write to any other collection raises instead of taking effect -/

/-- `put_variable` on a collection outside `mutable` raises `ModifyScopeVariableError` and leaves
the store as it was. -/
theorem immutable_put_raises (π : Path) (col n : String) (v : Val) (s : Store)
    (h : inFilter s.mutable col = false) : putVar π col n v s = (.error .modifyImmutable, s) := by
  simp [putVar, isMutable, h]

/-- **Program level**: a `put` statement into an immutable collection (a leaf write, or a dict-valued
write over a submodule's subtree), anywhere, in any module body,
raises and leaves the store unchanged. -/
theorem immutable_write_raises (cfg : Cfg) (fuel : Nat) (π : Path) (x : Int) (l : Local) (s : Store)
    (col : String) (rel : Path) (n : String) (e : Expr) (v : Int) (he : evalE x l.env e = .ok v)
    (h : inFilter s.mutable col = false) :
    eval cfg (fuel + 1) (.put col rel n e) π x l s = (.error .modifyImmutable, s) := by
  simp [eval, he, immutable_put_raises (π ++ rel) col n _ s h]

/-- declaring a variable that does not exist in an immutable collection raises
(`ScopeCollectionNotFound` when the whole collection is empty, `ScopeVariableNotFoundError`
otherwise) and creates nothing; only a name clash can pre-empt it. -/
theorem immutable_variable_init_raises (π : Path) (col n : String) (iv : Val) (r : Res) (s : Store)
    (h : inFilter s.mutable col = false) (habs : hasVar s π col n = false) :
    ∃ e, scopeVariable π col n iv r s = (.error e, s) ∧
      (e = .nameInUse ∨ e = .collectionNotFound ∨ e = .variableNotFound) := by
  unfold scopeVariable
  cases hr : reserve r n (some col) with
  | error err =>
    refine ⟨err, rfl, Or.inl ?_⟩
    unfold reserve at hr
    split at hr
    · injection hr with hr; exact hr.symm
    · exact absurd hr (by simp)
  | ok r' =>
    simp only [habs, Bool.false_eq_true, if_false, isMutable, h, Bool.not_false, if_true]
    by_cases hce : colEmpty s col = true
    · exact ⟨_, by simp [hce], Or.inr (Or.inl rfl)⟩
    · exact ⟨_, by simp [hce], Or.inr (Or.inr rfl)⟩

/-- a parameter that is missing while `'params'` is immutable raises (`ScopeCollectionNotFound` /
`ScopeParamNotFoundError`) — it is never initialised — and nothing is written. -/
theorem immutable_param_init_raises (π : Path) (n : String) (shape : List Nat) (init : Int) (r : Res) (s : Store)
    (h : inFilter s.mutable "params" = false) (habs : getVar s π "params" n = none) :
    ∃ e, scopeParam π n shape init r s = (.error e, s) ∧
      (e = .nameInUse ∨ e = .collectionNotFound ∨ e = .paramNotFound) := by
  unfold scopeParam
  cases hr : reserve r n (some "params") with
  | error err =>
    refine ⟨err, rfl, Or.inl ?_⟩
    unfold reserve at hr
    split at hr
    · injection hr with hr; exact hr.symm
    · exact absurd hr (by simp)
  | ok r' =>
    simp only [habs, isMutable, h, Bool.not_false, if_true]
    by_cases hce : colEmpty s "params" = true
    · exact ⟨_, by simp [hce], Or.inr (Or.inl rfl)⟩
    · exact ⟨_, by simp [hce], Or.inr (Or.inr rfl)⟩

/-- `Module.sow` into an immutable collection is a no-op that does not raise. -/
theorem immutable_sow_noop (π : Path) (col n : String) (e : Int) (r : Res) (s : Store)
    (h : inFilter s.mutable col = false) : moduleSow π col n e r s = (.ok r, s) := by
  simp [moduleSow, isMutable, h]

/-- `Module.perturb` with the perturbation collection neither mutable nor passed in is the identity. -/
theorem perturb_absent_identity (π : Path) (col n : String) (e : Int) (r : Res) (s : Store)
    (h : inFilter s.mutable col = false) (habs : hasCol s col = false) :
    modulePerturb π col n e r s = (.ok (e, r), s) := by
  simp [modulePerturb, isMutable, h, habs]

/-! ## clause: repeating the call returns the same outputs -/

/-- the variable dict the caller holds after a call: its own container, read through `callerLookup` -/
def callerVars (V : Vars) (o : Outcome) : Vars :=
  { cols := V.cols, vars := V.vars.filterMap (fun kv => (callerLookup V o kv.1).map (fun v => (kv.1, v))) }

private theorem lookupP_of_mem_nodup : ∀ (l : List (Path × Val)), (l.map (·.1)).Nodup →
    ∀ kv ∈ l, lookupP kv.1 l = some kv.2 := by
  intro l
  induction l with
  | nil => intro _ kv h; exact absurd h (by simp)
  | cons a rest ih =>
    intro hnd kv hkv
    obtain ⟨k, v⟩ := a
    simp only [List.map_cons, List.nodup_cons] at hnd
    rcases List.mem_cons.mp hkv with h1 | h1
    · subst h1; simp [lookupP]
    · have hne : k ≠ kv.1 := by
        intro heq
        apply hnd.1
        rw [heq]
        exact List.mem_map_of_mem h1
      simp only [lookupP, hne, if_false]
      exact ih hnd.2 kv h1

private theorem filterMap_self {α : Type} (f : α → Option α) : ∀ (l : List α), (∀ a ∈ l, f a = some a) →
    l.filterMap f = l := by
  intro l
  induction l with
  | nil => intro _; rfl
  | cons a rest ih =>
    intro h
    simp only [List.filterMap_cons, h a List.mem_cons_self]
    rw [ih (fun b hb => h b (List.mem_cons_of_mem _ hb))]

/-- **Repeating the call returns the same outputs.**  After a first call — returned or raised — the
caller holds exactly the variable dict it passed (no key of which is duplicated), so the second call
is the same function applied to the same arguments. -/
theorem apply_deterministic (cfg : Cfg) (fuel : Nat) (p : SProg) (m : LFilter) (V : Vars) (rngs : List String)
    (x : Int) (hV : (V.vars.map (·.1)).Nodup) :
    callerVars V (ModuleTree.apply cfg fuel p m V rngs x) = V ∧
    (ModuleTree.apply cfg fuel p m (callerVars V (ModuleTree.apply cfg fuel p m V rngs x)) rngs x).result
      = (ModuleTree.apply cfg fuel p m V rngs x).result := by
  have hcv : callerVars V (ModuleTree.apply cfg fuel p m V rngs x) = V := by
    unfold callerVars
    have : V.vars.filterMap (fun kv =>
        (callerLookup V (ModuleTree.apply cfg fuel p m V rngs x) kv.1).map (fun v => (kv.1, v))) = V.vars := by
      apply filterMap_self
      intro kv hkv
      rw [inputs_unchanged, lookupP_of_mem_nodup V.vars hV kv hkv]
      rfl
    rw [this]
  exact ⟨hcv, by rw [hcv]⟩

/-! ## clause: observation features never change the primary output -/

open Flax.ObsSim in
/-- the collections a run observes into: what the program sows into, plus `'intermediates'` under
`capture_intermediates` -/
def obsCols (cfg : Cfg) (p : SProg) : List String :=
  (if cfg.capture then ["intermediates"] else []) ++ sowCols p

/-- the observation collections are used for nothing else (no `param`, `variable`, `get`, `put`,
`perturb` touches them): "the program never reads a collection it sows into" -/
def ObsSafe (cfg : Cfg) (p : SProg) : Prop := ∀ c ∈ otherCols p, c ∉ obsCols cfg p

instance (cfg : Cfg) (p : SProg) : Decidable (ObsSafe cfg p) := by unfold ObsSafe; exact inferInstance

private theorem lookupP_filter_none (P : Path → Bool) (q : Path) (hq : P q = false) (l : List (Path × Val)) :
    lookupP q (l.filter (fun kv => P kv.1)) = none := by
  induction l with
  | nil => rfl
  | cons kv rest ih =>
    obtain ⟨k, v⟩ := kv
    by_cases hk : k = q
    · subst hk; simp [List.filter, hq, ih]
    · by_cases hp : P k = true
      · simp [List.filter, hp, lookupP, hk, ih]
      · simp [List.filter, hp, ih]

open Flax.ObsSim in
private theorem sim_bind (cfg : Cfg) (p : SProg) (m : LFilter) (V : Vars) (rngs : List String) :
    Sim (obsCols cfg p) (Scope.bind (effMutable cfg m) V rngs) (Scope.bind (effMutable (quiet cfg) m) V rngs) := by
  have hq : effMutable (quiet cfg) m = m := by simp [effMutable, quiet]
  rw [hq]
  have hmut : ∀ c, c ∉ obsCols cfg p → inFilter m c = inFilter (effMutable cfg m) c := by
    intro c hc
    unfold effMutable
    by_cases hcap : cfg.capture = true
    · simp only [hcap, if_true, Flax.C14.in_union, inFilter]
      have : c ≠ "intermediates" := by
        intro heq; apply hc; simp [obsCols, hcap, heq]
      simp [this]
    · simp [hcap]
  refine ⟨rfl, hmut, fun _ _ _ => rfl, ?_, fun _ _ => rfl, fun _ _ _ => rfl⟩
  intro c _
  simp [hasCol, Scope.bind, List.any_map, Function.comp_def]

open Flax.ObsSim in
/-- **Observers never change the primary output.**  Take any program `p` whose observation
collections are used for nothing else, run it in a Linen style with any `mutable` filter, with or
without `capture_intermediates`.  If the call returns `(y, R)`, then the same program with every
`sow` deleted and `capture_intermediates` off returns the same `y`, and its returned variables agree
with `R` at every path outside the observation collections. -/
theorem observe_noninterference (cfg : Cfg) (hst : cfg.style ≠ .core) (fuel : Nat) (p : SProg) (m : LFilter)
    (V : Vars) (rngs : List String) (x : Int) (hsafe : ObsSafe cfg p) (y : Int) (R : Vars)
    (h : (ModuleTree.apply cfg fuel p m V rngs x).result = .ok (y, R)) :
    ∃ R', (ModuleTree.apply (quiet cfg) fuel (eraseSow p) m V rngs x).result = .ok (y, R') ∧
      ∀ c rest, c ∉ obsCols cfg p → lookupP (c :: rest) R'.vars = lookupP (c :: rest) R.vars := by
  have hcov : Covers (obsCols cfg p) p :=
    ⟨fun c hc => by simp [obsCols, hc], hsafe⟩
  have hcap : cfg.capture = true → "intermediates" ∈ obsCols cfg p := by
    intro hc; simp [obsCols, hc]
  unfold ModuleTree.apply Scope.apply at h ⊢
  by_cases hbs : badStructure V = true
  · simp [hbs] at h
  · simp only [hbs, Bool.false_eq_true, if_false] at h ⊢
    have hsim0 := sim_bind cfg p m V rngs
    cases hrun : runTop cfg fuel p x (Scope.bind (effMutable cfg m) V rngs) with
    | mk res s1 =>
      rw [hrun] at h
      cases res with
      | error e => simp at h
      | ok y0 =>
        simp only [Except.ok.injEq, Prod.mk.injEq] at h
        obtain ⟨rfl, rfl⟩ := h
        -- unfold the top-level run
        unfold runTop at hrun
        cases hev : eval cfg fuel p [] x {} (Scope.bind (effMutable cfg m) V rngs) with
        | mk res2 s2 =>
          rw [hev] at hrun
          cases res2 with
          | error e => simp at hrun
          | ok l2 =>
            simp only at hrun
            obtain ⟨l2', t2, e1, hl2, hs2⟩ := eval_sim hst hcap fuel p [] x {} {} l2 _ _ s2 hcov
              (LocalSim.empty _) hsim0 hev
            cases hf : finishCall cfg [] l2 s2 with
            | mk res3 s3 =>
              rw [hf] at hrun
              cases res3 with
              | error e => simp at hrun
              | ok l3 =>
                simp only [Prod.mk.injEq, Except.ok.injEq] at hrun
                obtain ⟨rfl, rfl⟩ := hrun
                obtain ⟨f1, hl3, hs3⟩ := finishCall_left hcap hl2 hs2 hf
                refine ⟨mutableVariables t2, ?_, ?_⟩
                · simp only [runTop, e1, f1, hl3.out_eq]
                · intro c rest hc
                  rw [mutableVariables_vars, mutableVariables_vars]
                  have hmeq : inFilter t2.mutable c = inFilter s3.mutable c := hs3.mut_eq c hc
                  by_cases hmc : inFilter s3.mutable c = true
                  · rw [lookupP_filter _ _ (by show inFilter t2.mutable c = true; rw [hmeq]; exact hmc),
                        lookupP_filter _ _ (by show inFilter s3.mutable c = true; exact hmc)]
                    exact hs3.vars_eq c rest hc
                  · have hmc' : inFilter s3.mutable c = false := by simpa using hmc
                    rw [lookupP_filter_none _ _ (by show inFilter t2.mutable c = false; rw [hmeq]; exact hmc'),
                        lookupP_filter_none _ _ (by show inFilter s3.mutable c = false; exact hmc')]

/-- the hypothesis `ObsSafe` is needed: a program that reads the collection it sows into returns a
different value once the `sow` is removed (run on the real code by the harness too) -/
def readsOwnSow : SProg :=
  .seq (.sow "inter" "h" (.const 5)) <| .seq (.get "inter" "h") <| .ret (.loc 0)

theorem obs_safe_needed :
    ¬ ObsSafe {} readsOwnSow ∧
    (ModuleTree.apply {} 10 readsOwnSow .tt Vars.empty [] 0).result.toOption.map (·.1) = some 5 ∧
    (ModuleTree.apply {} 10 (eraseSow readsOwnSow) .tt Vars.empty [] 0).result.toOption.map (·.1) = some 0 := by
  decide +kernel

/-! ## nested applies: `capture_intermediates` is dynamically scoped -/

/-- **A nested apply is isolated from the enclosing capture setting.**  A module body that runs
`Sub().apply(V, e, mutable=m, capture_intermediates=False)` gets the same output and the same returned
state — hence the same locals, and the enclosing store untouched — whether the enclosing
`apply`/`init` was started with `capture_intermediates` on or off: module-level `apply` pushes its own
setting (also `False`) for the duration of the call.  Together with `observe_noninterference`, whose
simulation covers `nested`, turning capture on in the outer call cannot change the outer output even when
that output includes the state the inner call returned. -/
theorem nested_apply_capture_isolated (cfg : Cfg) (b : Bool) (fuel : Nat) (body : SProg) (m : LFilter) (V : Vars)
    (a : Expr) (π : Path) (x : Int) (l : Local) (s : Store) :
    eval { cfg with capture := b } (fuel + 1) (.nested body m V a) π x l s
      = eval cfg (fuel + 1) (.nested body m V a) π x l s := by
  simp only [eval, nestedCfg]

/-- the nested call leaves the enclosing scope's store alone, whatever happens inside it -/
theorem nested_apply_store_untouched (cfg : Cfg) (fuel : Nat) (body : SProg) (m : LFilter) (V : Vars) (a : Expr)
    (π : Path) (x : Int) (l : Local) (s : Store) :
    (eval cfg (fuel + 1) (.nested body m V a) π x l s).2 = s := by
  simp only [eval]
  split
  · rfl
  · split
    · rfl
    · split <;> rfl

/-- why the push of `False` matters: evaluated under an inherited `capture := true`, the same inner apply
with `mutable=True` returns an extra `'intermediates'` collection -/
theorem inherited_capture_would_leak :
    ((ModuleTree.apply { capture := false } 10 (.ret .arg) .tt Vars.empty ["params"] 3).result.toOption.map (·.2.cols)) = some [] ∧
    ((ModuleTree.apply { capture := true } 10 (.ret .arg) .tt Vars.empty ["params"] 3).result.toOption.map (·.2.cols))
      = some ["intermediates"] := by decide +kernel

/-! ## a program with a dict-valued write over a subtree (used below and in the examples) -/

/-- a dict-valued write over a submodule's subtree, two levels above a counter that is then updated
again (re-called child): the later update is what `apply` returns — 10 restored, then 11 -/
def restoreDemo : SProg :=
  .seq (.child "C" (some "c")
    (.seq (.child "G" (some "g")
      (.seq (.var "state" "count" [] (.const 0)) <|
       .seq (.put "state" [] "count" (.add (.loc 0) (.const 1))) <|
       .seq (.get "state" "count") <| .ret (.loc 1))) <|
     .seq (.call 0 .arg none) <| .ret (.loc 0))) <|
  .seq (.call 0 .arg none) <|
  .seq (.put "state" ["c", "g"] "count" (.const 10)) <|
  .seq (.call 0 .arg none) <| .ret (.loc 1)

/-! ## scope objects that leak out of the call (`Scope.temporary` / `invalidate` / `_check_valid`) -/

private theorem checked_frame {α : Type} (h : Handle) (op : Op α) (hop : ∀ s, Frame s (op s).2) (s : Store) :
    Frame s (checked h op s).2 := by
  unfold checked
  split
  · exact Frame.refl s
  · exact hop s

private theorem leakedOp_frame (h : Handle) (r : Res) (op : LeakOp) (s : Store) : Frame s (leakedOp h r op s).2 := by
  cases op with
  | put col n v => exact checked_frame h _ (putVar_frame h.path col n v) s
  | get col n => exact Frame.refl s
  | var col n iv =>
    simp only [leakedOp]
    split
    · exact Frame.refl s
    · split
      · exact Frame.refl s
      · split
        · split <;> exact Frame.refl s
        · exact checked_frame h _ (putVar_frame h.path col n iv) s
  | param n shape init =>
    simp only [leakedOp]
    split
    · exact Frame.refl s
    · split
      · split
        · exact Frame.refl s
        · split <;> exact Frame.refl s
      · split
        · split <;> exact Frame.refl s
        · rename_i hm
          split
          · exact Frame.refl s
          · have hm' : inFilter s.mutable "params" = true := by unfold isMutable at hm; simpa using hm
            unfold checked
            split
            · exact Frame.refl s
            · exact (frame_bump_inits s hm').trans (putVar_frame h.path "params" n (Val.full shape init) _)
  | push name =>
    apply checked_frame
    intro s'
    split <;> exact Frame.refl s'
  | rewound => exact checked_frame h _ (fun s' => Frame.refl s') s

private theorem leakedOps_frame (h : Handle) (r : Res) : ∀ (ops : List LeakOp) (s : Store), Frame s (leakedOps h r ops s) := by
  intro ops
  induction ops with
  | nil => intro s; exact Frame.refl s
  | cons op rest ih => intro s; exact (leakedOp_frame h r op s).trans (ih _)

/-- **A leaked root scope is dead.**  After `apply`/`init` returned, the root `Scope` object that was
handed to the function is invalidated: whatever is tried on it changes nothing, and every operation
that goes through `_check_valid` — `put_variable`, `push`, `rewound`, and `variable`/`param` as soon as
they would have to create something — raises `InvalidScopeError`. -/
theorem leaked_scope_invalid (h : Handle) (hinv : h.invalid = true) (r : Res) (s : Store) :
    (∀ op, (leakedOp h r op s).2 = s) ∧
    (∀ col n v, leakedOp h r (.put col n v) s = (.error .invalidScope, s)) ∧
    (∀ name, leakedOp h r (.push name) s = (.error .invalidScope, s)) ∧
    leakedOp h r .rewound s = (.error .invalidScope, s) ∧
    (∀ col n iv, nameReserved r n (some col) = false → hasVar s h.path col n = false →
      inFilter s.mutable col = true → leakedOp h r (.var col n iv) s = (.error .invalidScope, s)) ∧
    (∀ n shape init, nameReserved r n (some "params") = false → getVar s h.path "params" n = none →
      inFilter s.mutable "params" = true → "params" ∈ s.rngs →
      (leakedOp h r (.param n shape init) s).1 = .error .invalidScope) := by
  refine ⟨?_, ?_, ?_, ?_, ?_, ?_⟩
  · intro op
    cases op with
    | put col n v => simp [leakedOp, hPut, checked, hinv]
    | get col n => rfl
    | var col n iv =>
      simp only [leakedOp, hPut, checked, hinv, if_true]
      split
      · rfl
      · split
        · rfl
        · split
          · split <;> rfl
          · rfl
    | param n shape init =>
      simp only [leakedOp, hPut, checked, hinv, if_true]
      split
      · rfl
      · split
        · split
          · rfl
          · split <;> rfl
        · split
          · split <;> rfl
          · split
            · rfl
            · rfl
    | push name => simp [leakedOp, checked, hinv]
    | rewound => simp [leakedOp, checked, hinv]
  · intro col n v; simp [leakedOp, hPut, checked, hinv]
  · intro name; simp [leakedOp, checked, hinv]
  · simp [leakedOp, checked, hinv]
  · intro col n iv hfree habs hm
    simp [leakedOp, reserve, hfree, habs, isMutable, hm, hPut, checked, hinv]
  · intro n shape init hfree habs hm hrng
    simp [leakedOp, reserve, hfree, habs, isMutable, hm, hrng, checked, hinv]

/-- `temporary()` invalidates exactly the root scope object -/
theorem leaked_root_is_invalid : Handle.leakedRoot.invalid = true := rfl

/-- **No leaked scope can reach the caller's variables.**  The code invalidates the *root* scope object
only; a child `Scope` (from `push`/`rewound`, or the `scope` of a submodule) that user code kept stays
usable.  Still, after `apply`, any sequence of operations through any leaked scope object — valid or
not, succeeding or raising — writes into no dict of the caller and leaves every collection outside
`mutable` reading exactly as passed in. -/
theorem leaked_scope_cannot_touch_inputs (cfg : Cfg) (fuel : Nat) (p : SProg) (m : LFilter) (V : Vars)
    (rngs : List String) (x : Int) (h : Handle) (r : Res) (ops : List LeakOp) :
    (leakedOps h r ops (ModuleTree.apply cfg fuel p m V rngs x).final).dirty = false ∧
    ∀ c rest, inFilter (effMutable cfg m) c = false →
      lookupP (c :: rest) (leakedOps h r ops (ModuleTree.apply cfg fuel p m V rngs x).final).vars
        = lookupP (c :: rest) V.vars := by
  have f := (apply_frame cfg fuel p m V rngs x).trans (leakedOps_frame h r ops _)
  exact ⟨by rw [f.dirty (owned_bind _ V rngs)]; rfl, fun c rest hc => f.imm c rest hc⟩

/-- the behaviour of the code as it is: a leaked *child* scope is not invalidated and can still update
the (temporary, scope-owned) tree of a mutable collection after the call has returned -/
theorem leaked_child_still_writes :
    let o := ModuleTree.apply {} 50 restoreDemo (.name "state")
      ⟨["state"], [(["state", "c", "g", "count"], .tensor [] [0])]⟩ [] 1
    leakedOp (Handle.leakedChild ["c", "g"]) [] (.put "state" "count" (.tensor [] [99])) o.final
      = (.ok (), { o.final with vars := [(["state", "c", "g", "count"], .tensor [] [99])] }) ∧
    leakedOp Handle.leakedRoot [] (.put "state" "count" (.tensor [] [99])) o.final = (.error .invalidScope, o.final) := by
  decide +kernel

/-! ## the evaluator's fuel is not a hidden hypothesis -/

/-- **More fuel never changes a result.** Every theorem above holds for every amount of fuel; a run
that did not stop with the explicit out-of-fuel error is reproduced exactly by any larger amount, so
the outcomes the drivers compute (with far more fuel than any program needs) are the outcomes of
every sufficient fuel. -/
theorem more_fuel_same_result (cfg : Cfg) (fuel : Nat) (p : SProg) (π : Path) (x : Int) (l : Local) (s : Store)
    (h : (eval cfg fuel p π x l s).1 ≠ .error .fuel) :
    eval cfg (fuel + 1) p π x l s = eval cfg fuel p π x l s :=
  eval_fuel_mono fuel cfg p π x l s h

/-! ## non-vacuity: a concrete program with params, a counter, running statistics, sow and children -/

/-- `Top`: param w[2]=3; child A (auto-named) holding a counter in 'stats' and sowing its input;
called twice; a second child with an explicit name. -/
def demo : SProg :=
  .seq (.param "w" [.lit 2] 3) <|
  .seq (.child "A" none
    (.seq (.var "stats" "cnt" [] (.const 0)) <|
     .seq (.put "stats" [] "cnt" (.add (.loc 0) (.const 1))) <|
     .seq (.sow "inter" "h" .arg) <|
     .ret (.mul .arg (.const 2)))) <|
  .seq (.call 0 (.loc 0) none) <|
  .seq (.call 0 (.loc 1) none) <|
  .seq (.child "A" (some "foo") (.seq (.param "b" [] 1) (.ret (.add .arg (.loc 0))))) <|
  .seq (.call 1 (.loc 2) none) <|
  .ret (.loc 3)

def demoCfg : Cfg := {}

def demoInit : Outcome := ModuleTree.init demoCfg 100 demo initDefault ["params"] 5

/-- the variables `init` returns for `demo` -/
def demoV : Vars :=
  { cols := ["params", "stats", "inter"],
    vars := [(["params", "w"], .tensor [2] [3, 3]), (["stats", "A_0", "cnt"], .tensor [] [2]),
             (["inter", "A_0", "h"], .tup [([], [6]), ([], [12])]), (["params", "foo", "b"], .tensor [] [1])] }

example : demoInit.result = .ok (25, demoV) := by decide +kernel

/-- applying with only `'stats'` mutable: the output, and exactly the `'stats'` collection, come back -/
example : (ModuleTree.apply demoCfg 100 demo (.name "stats") demoV [] 5).result
    = .ok (25, { cols := ["stats"], vars := [(["stats", "A_0", "cnt"], .tensor [] [4])] }) := by decide +kernel

/-- with `mutable=False` the counter update raises and the store is the input -/
example : (ModuleTree.apply demoCfg 100 demo .ff demoV [] 5).result = .error .modifyImmutable ∧
    (ModuleTree.apply demoCfg 100 demo .ff demoV [] 5).final.vars = demoV.vars := by decide +kernel

/-- hypotheses of `immutable_write_raises` are satisfiable -/
example : eval demoCfg 1 (.put "stats" [] "cnt" (.const 1)) ["A_0"] 0 {} (Scope.bind .ff demoV [])
    = (.error .modifyImmutable, Scope.bind .ff demoV []) := by decide +kernel

/-- hypotheses of `immutable_param_init_raises`: a missing parameter under `mutable=False` -/
example : (scopeParam [] "nope" [2] 1 [] (Scope.bind .ff demoV [])).1 = .error .paramNotFound := by decide +kernel

/-- hypothesis of `more_fuel_same_result`: the demo run does not run out of fuel with 100 units -/
example : (eval demoCfg 100 demo [] 5 {} (Scope.bind initDefault Vars.empty ["params"])).1 ≠ .error .fuel := by
  decide +kernel

/-- `observe_noninterference` instance: `demo` is observation-safe, and without its `sow` it returns the same 25 -/
example : ObsSafe demoCfg demo ∧
    (ModuleTree.init (quiet demoCfg) 100 (eraseSow demo) initDefault ["params"] 5).result.toOption.map (·.1) = some 25 := by
  decide +kernel

example : (ModuleTree.apply {} 50 restoreDemo (.name "state")
      ⟨["state"], [(["state", "c", "g", "count"], .tensor [] [0])]⟩ [] 1).result
    = .ok (11, ⟨["state"], [(["state", "c", "g", "count"], .tensor [] [11])]⟩) := by decide +kernel

/-- `apply_input_frame` / `returned_keys_exact` on an EMPTY mutable collection (`{'stats': {}}` placeholder before the
first stateful step): `_unfreeze_variables` copies it like any other selected collection (ownership flag true), so
the variable created during the call lands in the scope's copy — returned, not written into the caller's dict -/
example :
    let o := ModuleTree.apply {} 10 (.seq (.var "stats" "cnt" [] (.const 0)) (.seq (.put "stats" [] "cnt" (.add (.loc 0) (.const 1))) (.ret (.loc 0))))
      (.name "stats") ⟨["stats"], []⟩ [] 7
    o.result = .ok (0, ⟨["stats"], [(["stats", "cnt"], .tensor [] [1])]⟩) ∧ o.final.dirty = false ∧
      o.final.cols = [("stats", true)] ∧ callerLookup ⟨["stats"], []⟩ o ["stats", "cnt"] = none := by
  decide +kernel

/-- hypotheses of `perturb_absent_identity` -/
example : modulePerturb [] "perturbations" "p" 7 [] (Scope.bind .ff demoV []) = (.ok (7, []), Scope.bind .ff demoV []) := by
  decide +kernel

end Flax.C01
