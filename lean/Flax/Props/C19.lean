/-
C19 — Partition metadata stays aligned with array axes through boxing and transforms.
Property theorems over `Flax/Model/Axes.lean`; helper lemmas are `private`.
-/
import Flax.Model.Axes

namespace Flax.C19
open Flax.Axes

/-! ## list surgery -/

private theorem insertAt_length {α : Type} (xs : List α) (j : Nat) (x : α) :
    (insertAt xs j x).length = xs.length + 1 := by
  simp [insertAt]; omega

private theorem eraseIdx_insertAt {α : Type} (xs : List α) (j : Nat) (x : α) (h : j ≤ xs.length) :
    (insertAt xs j x).eraseIdx j = xs := by
  induction xs generalizing j with
  | nil => simp at h; subst h; simp [insertAt]
  | cons y ys ih =>
    cases j with
    | zero => simp [insertAt]
    | succ j =>
      have := ih j (by simpa using h)
      simp [insertAt] at this ⊢
      exact this

private theorem getElem?_insertAt_self {α : Type} (xs : List α) (j : Nat) (x : α) (h : j ≤ xs.length) :
    (insertAt xs j x)[j]? = some x := by
  induction xs generalizing j with
  | nil => simp at h; subst h; simp [insertAt]
  | cons y ys ih =>
    cases j with
    | zero => simp [insertAt]
    | succ j =>
      have := ih j (by simpa using h)
      simp [insertAt] at this ⊢
      exact this

private theorem insertAt_eraseIdx {α : Type} (xs : List α) (j : Nat) (x : α) (h : xs[j]? = some x) :
    insertAt (xs.eraseIdx j) j x = xs := by
  induction xs generalizing j with
  | nil => simp at h
  | cons y ys ih =>
    cases j with
    | zero => simp at h; subst h; simp [insertAt]
    | succ j =>
      have := ih j (by simpa using h)
      simp [insertAt] at this ⊢
      exact this

private theorem zip_insertAt {α β : Type} (a : List α) (b : List β) (j : Nat) (x : α) (y : β)
    (h : a.length = b.length) :
    (insertAt a j x).zip (insertAt b j y) = insertAt (a.zip b) j (x, y) := by
  induction a generalizing b j with
  | nil =>
    cases b with
    | nil => simp [insertAt]
    | cons _ _ => simp at h
  | cons a0 as ih =>
    cases b with
    | nil => simp at h
    | cons b0 bs =>
      cases j with
      | zero => simp [insertAt]
      | succ j =>
        have := ih bs j (by simpa using h)
        simp [insertAt] at this ⊢
        exact this

private theorem zip_eraseIdx {α β : Type} (a : List α) (b : List β) (j : Nat) :
    (a.eraseIdx j).zip (b.eraseIdx j) = (a.zip b).eraseIdx j := by
  induction a generalizing b j with
  | nil => simp
  | cons a0 as ih =>
    cases b with
    | nil => cases j <;> simp
    | cons b0 bs =>
      cases j with
      | zero => simp
      | succ j => simp [ih]

/-! ## index normalisation -/

private theorem normIdx_some {n : Nat} {k : Int} {j : Nat} (h : normIdx n k = some j) :
    j < n ∧ ((0 ≤ k ∧ k = (j : Int)) ∨ (k < 0 ∧ k + n = (j : Int))) := by
  unfold normIdx at h
  split at h
  · split at h
    · simp at h; omega
    · simp at h
  · split at h
    · simp at h; omega
    · simp at h

private theorem normIdx_of_range {n : Nat} {k : Int} (h1 : -(n : Int) ≤ k) (h2 : k < n) :
    normIdx n k = some (if k < 0 then (k + n).toNat else k.toNat) := by
  unfold normIdx
  by_cases hk : k < 0
  · simp [hk]; omega
  · simp [hk]; omega

private theorem normIdx_none_iff {n : Nat} {k : Int} :
    normIdx n k = none ↔ ¬ (-(n : Int) ≤ k ∧ k < n) := by
  unfold normIdx
  by_cases hk : k < 0
  · simp [hk]; omega
  · simp [hk]; omega

private theorem padTo_small (names : Names) (k : Int) (h : k ≤ names.length) : padTo names k = names := by
  unfold padTo
  have : k.toNat - names.length = 0 := by omega
  simp [this]

/-- in the range the array side accepts, `add_axis` is a plain insertion at the normalised position -/
private theorem addAxis_eq_insertAt (names : Names) (k : Int) (nm : Name) (j : Nat)
    (h : normIdx (names.length + 1) k = some j) : addAxis k nm names = insertAt names j nm := by
  obtain ⟨hj, hk⟩ := normIdx_some h
  unfold addAxis
  rcases hk with ⟨h0, hk⟩ | ⟨h0, hk⟩
  · have : ¬ k < 0 := by omega
    simp only [this, ↓reduceIte]
    rw [padTo_small _ _ (by omega)]
    unfold pyInsert insertPos
    simp only [this, ↓reduceIte]
    congr 1; omega
  · simp only [h0, ↓reduceIte]
    rw [padTo_small _ _ (by push_cast at hk ⊢; omega)]
    unfold pyInsert insertPos
    have : ¬ (k + ((names.length + 1 : Nat) : Int) < 0) := by push_cast at hk ⊢; omega
    simp only [this, ↓reduceIte]
    congr 1; push_cast at hk ⊢; omega

private theorem addAxisLegacy_eq_insertAt (names : Names) (k : Int) (nm : Name) (j : Nat)
    (h : normIdx (names.length + 1) k = some j) : addAxisLegacy k nm names = insertAt names j nm := by
  obtain ⟨hj, hk⟩ := normIdx_some h
  unfold addAxisLegacy
  rcases hk with ⟨h0, hk⟩ | ⟨h0, hk⟩
  · have : ¬ k < 0 := by omega
    simp only [this, ↓reduceIte]
    unfold pyInsert insertPos
    simp only [this, ↓reduceIte]
    congr 1; omega
  · simp only [h0, ↓reduceIte]
    unfold pyInsert insertPos
    have : ¬ (k + ((names.length + 1 : Nat) : Int) < 0) := by push_cast at hk ⊢; omega
    simp only [this, ↓reduceIte]
    congr 1; push_cast at hk ⊢; omega

/-- a successful `remove_axis` popped the entry at the normalised position, and that entry was `nm` -/
private theorem removeAxis_ok {names ns' : Names} {k : Int} {nm : Name}
    (h : removeAxis k nm names = .ok ns') :
    ∃ j, normIdx names.length k = some j ∧ names[j]? = some nm ∧ ns' = names.eraseIdx j := by
  unfold removeAxis at h
  split at h
  · simp at h
  · rename_i j hj
    split at h
    · rename_i hn
      refine ⟨j, hj, hn, ?_⟩
      simpa using h.symm
    · simp at h

/-! ## add_axis / remove_axis are inverse -/

/-- **`remove_axis(k) ∘ add_axis(k) = id`** for every names tuple and every index the array side can
use, negative ones included: `−(len+1) ≤ k ≤ len`. (Repaired `add_axis`; see `orig_add_remove_not_inverse`.) -/
theorem add_remove_inverse (names : Names) (k : Int) (nm : Name)
    (h1 : -((names.length : Int) + 1) ≤ k) (h2 : k ≤ names.length) :
    removeAxis k nm (addAxis k nm names) = .ok names := by
  have hn : normIdx (names.length + 1) k = some (if k < 0 then (k + (names.length + 1 : Nat)).toNat else k.toNat) :=
    normIdx_of_range (by push_cast; omega) (by push_cast; omega)
  have hj := (normIdx_some hn).1
  rw [addAxis_eq_insertAt _ _ _ _ hn]
  unfold removeAxis
  rw [insertAt_length, hn]
  simp only
  rw [getElem?_insertAt_self _ _ _ (by omega)]
  simp only [↓reduceIte]
  rw [eraseIdx_insertAt _ _ _ (by omega)]

/-- **`add_axis(k) ∘ remove_axis(k) = id`** whenever `remove_axis` succeeds (for every `k`). -/
theorem remove_add_inverse (names ns' : Names) (k : Int) (nm : Name)
    (h : removeAxis k nm names = .ok ns') : addAxis k nm ns' = names := by
  obtain ⟨j, hj, hn, rfl⟩ := removeAxis_ok h
  obtain ⟨hlt, _⟩ := normIdx_some hj
  have hlen : (names.eraseIdx j).length + 1 = names.length := by
    rw [List.length_eraseIdx]; simp [hlt]; omega
  rw [addAxis_eq_insertAt _ _ _ j (by rw [hlen]; exact hj)]
  exact insertAt_eraseIdx _ _ _ hn

/-- `remove_axis` never removes a wrong entry silently: it succeeds exactly when the (normalised)
position exists and holds the partition name, and then removes exactly that entry. -/
theorem remove_axis_spec (names : Names) (k : Int) (nm : Name) :
    (∀ ns', removeAxis k nm names = .ok ns' ↔
        ∃ j, normIdx names.length k = some j ∧ names[j]? = some nm ∧ ns' = names.eraseIdx j) ∧
    (removeAxis k nm names = .error .indexError ↔ normIdx names.length k = none) ∧
    (removeAxis k nm names = .error .assertion ↔
        ∃ j, normIdx names.length k = some j ∧ names[j]? ≠ some nm) := by
  refine ⟨fun ns' => ⟨removeAxis_ok, ?_⟩, ?_, ?_⟩
  · rintro ⟨j, hj, hn, rfl⟩
    simp [removeAxis, hj, hn]
  · unfold removeAxis
    cases hj : normIdx names.length k with
    | none => simp
    | some j => by_cases hn : names[j]? = some nm <;> simp [hn]
  · unfold removeAxis
    cases hj : normIdx names.length k with
    | none => simp
    | some j => by_cases hn : names[j]? = some nm <;> simp [hn]

/-- The shipped `add_axis` (finding F3) put a negative index one position too early: stacking on the
last axis named the middle one, and the matching `remove_axis(-1)` then failed its assertion. -/
theorem orig_add_remove_not_inverse :
    addAxisOrig (-1) (some "L") [some "in", some "out"] = [some "in", some "L", some "out"] ∧
    removeAxis (-1) (some "L") (addAxisOrig (-1) (some "L") [some "in", some "out"]) = .error .assertion ∧
    addAxis (-1) (some "L") [some "in", some "out"] = [some "in", some "out", some "L"] := by
  decide

/-- what *was* true of the shipped definition: it agrees with the repaired one on non-negative indices
(and on the one negative index that clamps to the front). -/
theorem orig_add_axis_partial (names : Names) (k : Int) (nm : Name)
    (h : 0 ≤ k ∨ k = -((names.length : Int) + 1)) : addAxisOrig k nm names = addAxis k nm names := by
  rcases h with h | h
  · have : ¬ k < 0 := by omega
    simp [addAxisOrig, addAxis, this]
  · have hk : k < 0 := by omega
    unfold addAxisOrig addAxis
    simp only [hk, ↓reduceIte]
    rw [padTo_small _ _ (by omega), padTo_small _ _ (by push_cast; omega)]
    unfold pyInsert insertPos
    have : ¬ (k + ((names.length + 1 : Nat) : Int) < 0) := by push_cast; omega
    simp only [hk, this, ↓reduceIte]
    congr 1; push_cast; omega

/-- the legacy `scan_with_axes` / `vmap_with_axes` bookkeeping agrees with `Partitioned.add_axis`
wherever the array side accepts the axis, so everything below holds for it too -/
theorem legacy_eq_add_axis (names : Names) (k : Int) (nm : Name)
    (h1 : -((names.length : Int) + 1) ≤ k) (h2 : k ≤ names.length) :
    addAxisLegacy k nm names = addAxis k nm names ∧
    removeAxisLegacy k nm (addAxisLegacy k nm names) = .ok names := by
  have hn : normIdx (names.length + 1) k = some (if k < 0 then (k + (names.length + 1 : Nat)).toNat else k.toNat) :=
    normIdx_of_range (by push_cast; omega) (by push_cast; omega)
  have hj := (normIdx_some hn).1
  refine ⟨by rw [addAxis_eq_insertAt _ _ _ _ hn, addAxisLegacy_eq_insertAt _ _ _ _ hn], ?_⟩
  rw [addAxisLegacy_eq_insertAt _ _ _ _ hn]
  unfold removeAxisLegacy
  rw [insertAt_length, hn]
  simp only
  rw [getElem?_insertAt_self _ _ _ (by omega)]
  simp only [↓reduceIte]
  rw [eraseIdx_insertAt _ _ _ (by omega)]

/-- the shipped legacy bookkeeping had the same defect -/
theorem orig_legacy_misplaces_negative :
    addAxisLegacyOrig (-1) (some "L") [some "in", some "out"] = [some "in", some "L", some "out"] ∧
    addAxisLegacy (-1) (some "L") [some "in", some "out"] = [some "in", some "out", some "L"] := by
  decide

example : removeAxis (-2) (some "L") (addAxis (-2) (some "L") [some "in", none]) = .ok [some "in", none] := by decide
example : removeAxis 1 (some "L") [some "a", some "L", some "b"] = .ok [some "a", some "b"] ∧
    addAxis 1 (some "L") [some "a", some "b"] = [some "a", some "L", some "b"] := by decide


/-! ## names stay aligned with the array's dimensions -/

/-- the array side accepts exactly the indices `−(rank+1) ≤ k ≤ rank` for a new axis -/
theorem stack_accepts_iff {δ : Type} (k : Int) (d : δ) (dims : List δ) :
    (stackAt k d dims).isSome ↔ (-((dims.length : Int) + 1) ≤ k ∧ k ≤ dims.length) := by
  unfold stackAt
  cases h : normIdx (dims.length + 1) k with
  | none =>
    have := normIdx_none_iff.mp h
    simp; push_cast at this; omega
  | some j =>
    obtain ⟨hj, hk⟩ := normIdx_some h
    simp; push_cast at hk; omega

/-- **Stacking keeps names and dimensions aligned, for every axis position the array side accepts**
(negative ones included): if there is one name per dimension, then after a transform stacks the
variable along axis `k` the new partition name sits exactly where the new dimension sits, every other
name still labels its own dimension (`zip` is preserved), and there is again one name per dimension. -/
theorem aligned_after_stack {δ : Type} (names : Names) (dims : List δ) (k : Int) (nm : Name) (d : δ)
    (hal : names.length = dims.length)
    (hk1 : -((dims.length : Int) + 1) ≤ k) (hk2 : k ≤ dims.length) :
    ∃ j, j ≤ dims.length ∧
      stackAt k d dims = some (insertAt dims j d) ∧
      addAxis k nm names = insertAt names j nm ∧
      (addAxis k nm names).length = (insertAt dims j d).length ∧
      (addAxis k nm names).zip (insertAt dims j d) = insertAt (names.zip dims) j (nm, d) ∧
      (addAxis k nm names)[j]? = some nm ∧ (insertAt dims j d)[j]? = some d := by
  have hn : normIdx (dims.length + 1) k = some (if k < 0 then (k + (dims.length + 1 : Nat)).toNat else k.toNat) :=
    normIdx_of_range (by push_cast; omega) (by push_cast; omega)
  generalize (if k < 0 then (k + (dims.length + 1 : Nat)).toNat else k.toNat) = j at hn
  have hj := (normIdx_some hn).1
  refine ⟨j, by omega, by simp [stackAt, hn], ?_⟩
  have ha := addAxis_eq_insertAt names k nm j (by rw [hal]; exact hn)
  rw [ha]
  refine ⟨rfl, by simp [insertAt_length, hal], zip_insertAt _ _ _ _ _ hal, ?_, ?_⟩
  · exact getElem?_insertAt_self _ _ _ (by omega)
  · exact getElem?_insertAt_self _ _ _ (by omega)

/-- **Slicing removes the partition name together with its dimension.** Whenever `remove_axis`
succeeds on names aligned with the array, the array side slices the very same position, the names
that remain keep labelling their own dimensions, and alignment is preserved. -/
theorem aligned_after_slice {δ : Type} (names ns' : Names) (dims : List δ) (k : Int) (nm : Name)
    (hal : names.length = dims.length) (h : removeAxis k nm names = .ok ns') :
    ∃ j, names[j]? = some nm ∧ ns' = names.eraseIdx j ∧
      sliceAt k dims = some (dims.eraseIdx j) ∧
      ns'.length = (dims.eraseIdx j).length ∧
      ns'.zip (dims.eraseIdx j) = (names.zip dims).eraseIdx j := by
  obtain ⟨j, hj, hn, rfl⟩ := removeAxis_ok h
  refine ⟨j, hn, rfl, ?_, ?_, zip_eraseIdx _ _ _⟩
  · simp [sliceAt, ← hal, hj]
  · simp [List.length_eraseIdx, hal]

private theorem effName_padTo (names : Names) (k : Int) (i : Nat) :
    effName (padTo names k) i = effName names i := by
  unfold effName padTo
  by_cases hi : i < names.length
  · simp [List.getElem?_append_left hi]
  · rw [List.getElem?_append_right (by omega)]
    have h2 : names[i]? = none := by simp; omega
    rw [h2]
    by_cases h3 : i - names.length < k.toNat - names.length
    · simp [h3]
    · simp [h3]

private theorem effName_insertAt (p : Names) (j : Nat) (nm : Name) (hj : j ≤ p.length) (i : Nat) :
    effName (insertAt p j nm) i
      = if i < j then effName p i else if i = j then nm else effName p (i - 1) := by
  unfold effName insertAt
  by_cases h1 : i < j
  · simp only [h1, ↓reduceIte]
    rw [List.getElem?_append_left (by simp; omega)]
    simp [h1]
  · simp only [h1, ↓reduceIte]
    rw [List.getElem?_append_right (by simp; omega)]
    have hlen : (List.take j p).length = j := by simp; omega
    rw [hlen]
    by_cases h2 : i = j
    · subst h2; simp
    · simp only [h2, ↓reduceIte]
      have : i - j = (i - j - 1) + 1 := by omega
      rw [this, List.getElem?_cons_succ, List.getElem?_drop]
      congr 2; omega

/-- **The padding loop**: a names tuple *shorter* than the rank (unnamed trailing dimensions) is padded
with `None` so that, for every non-negative axis, the partition name still lands on the new dimension
and every named dimension keeps its name. (`effName` reads a missing entry as `None`.) -/
theorem short_names_stack (names : Names) (k : Int) (nm : Name) (hk : 0 ≤ k) (i : Nat) :
    effName (addAxis k nm names) i
      = if i < k.toNat then effName names i else if i = k.toNat then nm else effName names (i - 1) := by
  have hk' : ¬ k < 0 := by omega
  unfold addAxis
  simp only [hk', ↓reduceIte]
  unfold pyInsert insertPos
  simp only [hk', ↓reduceIte]
  have hlen : k.toNat ≤ (padTo names k).length := by unfold padTo; simp; omega
  rw [Nat.min_eq_left hlen, effName_insertAt _ _ _ hlen]
  simp only [effName_padTo]

example : addAxis 3 (some "L") [some "in"] = [some "in", none, none, some "L"] := by decide

/-! ## boxes compute like their raw arrays -/

/-- `unbox (replace_boxed b v) = v`, for every nesting of boxes -/
theorem unbox_replaceBoxed {α : Type} (b : Box α) (v : α) : (b.replaceBoxed v).unbox = v := by
  induction b with
  | raw _ => rfl
  | boxed ns inner ih => simpa [Box.replaceBoxed, Box.unbox] using ih

/-- the axis names of every box layer, outermost first -/
def allNames {α : Type} : Box α → List Names
  | .raw _ => []
  | .boxed ns inner => ns :: allNames inner

/-- replacing the boxed value never touches any layer's names -/
theorem replaceBoxed_names {α : Type} (b : Box α) (v : α) :
    allNames (b.replaceBoxed v) = allNames b ∧ (b.replaceBoxed v).names? = b.names? := by
  induction b with
  | raw _ => exact ⟨rfl, rfl⟩
  | boxed ns inner ih => exact ⟨by simp [Box.replaceBoxed, allNames, ih.1], rfl⟩

private theorem replaceBoxed_unbox_self {α : Type} (b : Box α) : b.replaceBoxed b.unbox = b := by
  induction b with
  | raw _ => rfl
  | boxed ns inner ih => simp [Box.replaceBoxed, Box.unbox, ih]

private theorem replaceBoxed_twice {α : Type} (b : Box α) (v w : α) :
    (b.replaceBoxed v).replaceBoxed w = b.replaceBoxed w := by
  induction b with
  | raw _ => rfl
  | boxed ns inner ih => simp [Box.replaceBoxed, ih]

/-- the `Variable.value` setter: the stored value afterwards unboxes to what was assigned and carries
the same names on every layer (the box is never lost, never duplicated) -/
theorem setValue_spec {α : Type} (cur : Box α) (v : α) :
    (cur.setValue v).unbox = v ∧ allNames (cur.setValue v) = allNames cur := by
  cases cur with
  | raw _ => exact ⟨rfl, rfl⟩
  | boxed ns inner =>
    simp only [Box.setValue, Box.isBoxed, ↓reduceIte]
    exact ⟨unbox_replaceBoxed _ _, (replaceBoxed_names _ _).1⟩

/-- metadata updates never touch the value -/
theorem axis_updates_keep_value {α : Type} (b b' : Box α) (k : Int) (p : Option Name) :
    (b.addAxis k p = .ok b' → b'.unbox = b.unbox) ∧ (b.removeAxis k p = .ok b' → b'.unbox = b.unbox) := by
  cases b with
  | raw v =>
    constructor <;> (intro h; simp [Box.addAxis, Box.removeAxis] at h; subst h; rfl)
  | boxed ns inner =>
    cases p with
    | none => constructor <;> (intro h; simp [Box.addAxis, Box.removeAxis] at h)
    | some nm =>
      constructor
      · intro h; simp [Box.addAxis] at h; subst h; rfl
      · intro h
        simp only [Box.removeAxis] at h
        cases hr : Axes.removeAxis k nm ns with
        | error e => simp [hr, Except.map] at h
        | ok ns' => simp [hr, Except.map] at h; subst h; rfl

/-- a boxed leaf without `partition_name` in `metadata_params` is rejected, not silently left misaligned -/
theorem missing_partition_name_rejected {α : Type} (ns : Names) (inner : Box α) (k : Int) :
    (Box.boxed ns inner).addAxis k none = .error .unspecified ∧
    (Box.boxed ns inner).removeAxis k none = .error .unspecified := ⟨rfl, rfl⟩

/-! ## lifted vmap / scan, arbitrarily nested -/

/-- one name per dimension on the outermost box (raw leaves are trivially aligned) -/
def Aligned {δ : Type} (b : VarBox δ) : Prop :=
  ∀ ns, b.names? = some ns → ns.length = b.unbox.length

/-- every level's axis is one the array side accepts at the rank it meets (rank grows by one per level) -/
def levelsInRange {δ : Type} : List (Level δ) → Nat → Prop
  | [], _ => True
  | l :: ls, r => (-((r : Int) + 1) ≤ l.axis ∧ l.axis ≤ r) ∧ levelsInRange ls (r + 1)

/-- the result of one level's way out, given the normalised position `j` -/
private def outResult {δ : Type} (l : Level δ) (j : Nat) : VarBox δ → VarBox δ
  | .raw v => .raw (insertAt v j l.size)
  | .boxed ns inner =>
    .boxed (addAxis l.axis l.pname ns) (inner.replaceBoxed (insertAt inner.unbox j l.size))

private theorem outBox_ok {δ : Type} (l : Level δ) (b b' : VarBox δ) (h : outBox l b = .ok b') :
    ∃ j, normIdx (b.unbox.length + 1) l.axis = some j ∧ b' = outResult l j b := by
  cases b with
  | raw v =>
    simp only [outBox, stackAt, Box.unbox] at h ⊢
    cases hj : normIdx (v.length + 1) l.axis with
    | none => simp [hj] at h
    | some j =>
      simp [hj, Box.replaceBoxed, Box.addAxis] at h
      exact ⟨j, rfl, by simp [outResult, h]⟩
  | boxed ns inner =>
    simp only [outBox, stackAt, Box.unbox] at h ⊢
    cases hj : normIdx (inner.unbox.length + 1) l.axis with
    | none => simp [hj] at h
    | some j =>
      simp [hj, Box.replaceBoxed, Box.addAxis] at h
      exact ⟨j, rfl, by simp [outResult, h]⟩

private theorem unbox_outResult {δ : Type} (l : Level δ) (j : Nat) (b : VarBox δ) :
    (outResult l j b).unbox = insertAt b.unbox j l.size := by
  cases b <;> simp [outResult, Box.unbox, unbox_replaceBoxed]

/-- **One transform level, way out**: the array gains dimension `l.size` at the normalised position
`j`, the outermost names gain `l.pname` at the same `j`, and alignment is preserved. -/
theorem outBox_aligned {δ : Type} (l : Level δ) (b b' : VarBox δ) (hal : Aligned b)
    (h : outBox l b = .ok b') :
    Aligned b' ∧ ∃ j, j ≤ b.unbox.length ∧ b'.unbox = insertAt b.unbox j l.size ∧
      (∀ ns, b.names? = some ns → b'.names? = some (insertAt ns j l.pname)) ∧
      (b.names? = none → b'.names? = none) := by
  obtain ⟨j, hj, rfl⟩ := outBox_ok l b b' h
  obtain ⟨hlt, _⟩ := normIdx_some hj
  cases b with
  | raw v =>
    simp only [Box.unbox] at hlt
    refine ⟨by intro ns hns; simp [outResult, Box.names?] at hns, j, by simp only [Box.unbox]; omega, rfl, ?_, ?_⟩
    · intro ns hns; simp [Box.names?] at hns
    · intro _; rfl
  | boxed ns inner =>
    have hlen : ns.length = inner.unbox.length := hal ns rfl
    simp only [Box.unbox] at hlt hj
    have ha := addAxis_eq_insertAt ns l.axis l.pname j (by rw [hlen]; exact hj)
    refine ⟨?_, j, by simp only [Box.unbox]; omega, by simp [outResult, Box.unbox, unbox_replaceBoxed], ?_, ?_⟩
    · intro ns' hns'
      simp only [outResult, Box.names?, Option.some.injEq] at hns'
      subst hns'
      simp [outResult, Box.unbox, unbox_replaceBoxed, ha, insertAt_length, hlen]
    · intro ns' hns'
      simp only [Box.names?, Option.some.injEq] at hns'
      subst hns'
      simp [outResult, Box.names?, ha]
    · intro hn; simp [Box.names?] at hn

/-- **One transform level, there and back**: what the body sees on the way in is exactly the variable
that went out — same names, same dimensions. -/
theorem inBox_outBox {δ : Type} (l : Level δ) (b b' : VarBox δ) (hal : Aligned b)
    (h : outBox l b = .ok b') : inBox l b' = .ok b := by
  obtain ⟨j, hj, rfl⟩ := outBox_ok l b b' h
  obtain ⟨hlt, hk⟩ := normIdx_some hj
  have hjle : j ≤ b.unbox.length := Nat.lt_succ_iff.mp hlt
  have hslice : sliceAt l.axis (insertAt b.unbox j l.size) = some b.unbox := by
    simp [sliceAt, insertAt_length, hj, eraseIdx_insertAt _ _ _ hjle]
  cases b with
  | raw v =>
    simp only [Box.unbox] at hslice
    simp [inBox, outResult, Box.removeAxis, Box.unbox, hslice, Box.replaceBoxed]
  | boxed ns inner =>
    have hlen : ns.length = inner.unbox.length := hal ns rfl
    simp only [Box.unbox] at hlt hk hslice
    have hrem : removeAxis l.axis l.pname (addAxis l.axis l.pname ns) = .ok ns :=
      add_remove_inverse ns l.axis l.pname
        (by rcases hk with ⟨_, hk⟩ | ⟨_, hk⟩ <;> (push_cast at hk; omega))
        (by rcases hk with ⟨_, hk⟩ | ⟨_, hk⟩ <;> (push_cast at hk; omega))
    simp [inBox, outResult, Box.removeAxis, hrem, Except.map, Box.unbox, unbox_replaceBoxed, hslice,
      Box.replaceBoxed, replaceBoxed_twice, replaceBoxed_unbox_self]

/-- **Arbitrary nesting of scan and vmap** (any depth, any order, any axis at each level): if `init`
through the stack of transforms succeeds, the stacked variable has one name per dimension, and
applying the transformed module hands the innermost body exactly the original variable — names and
dimensions — after peeling the levels off outermost first. -/
theorem nested_transforms_aligned {δ : Type} (ls : List (Level δ)) (b b' : VarBox δ)
    (hal : Aligned b) (h : initThrough ls b = .ok b') :
    Aligned b' ∧ applyIn ls b' = .ok b := by
  induction ls generalizing b with
  | nil => simp [initThrough] at h; subst h; exact ⟨hal, rfl⟩
  | cons l ls ih =>
    simp only [initThrough] at h
    cases h1 : outBox l b with
    | error e => simp [h1, Except.bind] at h
    | ok b1 =>
      simp only [h1, Except.bind] at h
      obtain ⟨hal1, _⟩ := outBox_aligned l b b1 hal h1
      obtain ⟨hal', hap⟩ := ih b1 hal1 h
      refine ⟨hal', ?_⟩
      simp only [applyIn, hap, Except.bind]
      exact inBox_outBox l b b1 hal h1

/-- **One transform level, way in, on any aligned variable** (not only one produced by `init`):
when `remove_axis` succeeds the array side slices the same position, so what the body receives is
again aligned, its names are the old ones minus the entry at `j`, its dimensions the old ones minus
dimension `j`, and that entry was the partition name. -/
theorem inBox_aligned {δ : Type} (l : Level δ) (b b' : VarBox δ) (hal : Aligned b)
    (h : inBox l b = .ok b') :
    Aligned b' ∧ ∃ j, j < b.unbox.length ∧ b'.unbox = b.unbox.eraseIdx j ∧
      (∀ ns, b.names? = some ns → ns[j]? = some l.pname ∧ b'.names? = some (ns.eraseIdx j)) ∧
      (b.names? = none → b'.names? = none) := by
  unfold inBox at h
  cases hr : b.removeAxis l.axis (some l.pname) with
  | error e => simp [hr] at h
  | ok b1 =>
    simp only [hr] at h
    cases hs : sliceAt l.axis b.unbox with
    | none => simp [hs] at h
    | some ds =>
      simp only [hs, Except.ok.injEq] at h
      subst h
      unfold sliceAt at hs
      cases hj : normIdx b.unbox.length l.axis with
      | none => simp [hj] at hs
      | some j =>
        simp only [hj, Option.map_some, Option.some.injEq] at hs
        subst hs
        have hlt := (normIdx_some hj).1
        cases b with
        | raw v =>
          simp only [Box.removeAxis, Except.ok.injEq] at hr
          subst hr
          refine ⟨by intro ns hns; simp [Box.replaceBoxed, Box.names?] at hns, j, hlt, rfl, ?_, fun _ => rfl⟩
          intro ns hns; simp [Box.names?] at hns
        | boxed ns inner =>
          have hlen : ns.length = inner.unbox.length := hal ns rfl
          simp only [Box.removeAxis] at hr
          cases hrm : Axes.removeAxis l.axis l.pname ns with
          | error e => simp [hrm, Except.map] at hr
          | ok ns' =>
            simp only [hrm, Except.map, Except.ok.injEq] at hr
            subst hr
            obtain ⟨j', hj', hn', rfl⟩ := removeAxis_ok hrm
            simp only [Box.unbox] at hj hlt
            rw [hlen, hj] at hj'
            simp only [Option.some.injEq] at hj'
            subst hj'
            refine ⟨?_, j, hlt, by simp [Box.replaceBoxed, Box.unbox, unbox_replaceBoxed], ?_, ?_⟩
            · intro ns'' hns''
              simp only [Box.replaceBoxed, Box.names?, Option.some.injEq] at hns''
              subst hns''
              simp [Box.replaceBoxed, Box.unbox, unbox_replaceBoxed, List.length_eraseIdx, hlen]
            · intro ns'' hns''
              simp only [Box.names?, Option.some.injEq] at hns''
              subst hns''
              exact ⟨hn', rfl⟩
            · intro hn; simp [Box.names?] at hn

/-- **Slicing through any nesting keeps alignment**: whatever aligned variable the transformed module
is applied to (not only one that `init` produced), if peeling the levels off succeeds, the innermost
body receives an aligned variable. -/
theorem applyIn_aligned {δ : Type} (ls : List (Level δ)) (b b' : VarBox δ) (hal : Aligned b)
    (h : applyIn ls b = .ok b') : Aligned b' := by
  induction ls generalizing b' with
  | nil => simp [applyIn] at h; subst h; exact hal
  | cons l ls ih =>
    simp only [applyIn] at h
    cases h1 : applyIn ls b with
    | error e => simp [h1, Except.bind] at h
    | ok b1 =>
      simp only [h1, Except.bind] at h
      exact (inBox_aligned l b1 b' (ih b1 h1) h).1

/-- **Mutable variables keep their names across an apply**: slice an aligned variable through the
levels, let the body assign any new value (`Variable.value = v`), stack the result back out — the
names that come out are exactly the names that went in (every partition name returns to the
position it was taken from), and the result is aligned again. -/
theorem apply_restack_names {δ : Type} (ls : List (Level δ)) (b b0 b2 : VarBox δ) (v : List δ)
    (hal : Aligned b) (hin : applyIn ls b = .ok b0) (hv : v.length = b0.unbox.length)
    (hout : initThrough ls (b0.setValue v) = .ok b2) :
    b2.names? = b.names? ∧ Aligned b2 := by
  induction ls generalizing b0 b2 v with
  | nil =>
    simp [applyIn] at hin; subst hin
    simp [initThrough] at hout; subst hout
    cases b with
    | raw w => exact ⟨rfl, by intro ns hns; simp [Box.setValue, Box.isBoxed, Box.names?] at hns⟩
    | boxed ns inner =>
      refine ⟨by simp [Box.setValue, Box.isBoxed, Box.replaceBoxed, Box.names?], ?_⟩
      intro ns' hns'
      simp only [Box.setValue, Box.isBoxed, ↓reduceIte, Box.replaceBoxed, Box.names?, Option.some.injEq] at hns'
      subst hns'
      simp only [Box.setValue, Box.isBoxed, ↓reduceIte, Box.replaceBoxed, Box.unbox, unbox_replaceBoxed, hv]
      exact hal ns rfl
  | cons l ls ih =>
    simp only [applyIn] at hin
    cases h1 : applyIn ls b with
    | error e => simp [h1, Except.bind] at hin
    | ok b1 =>
      simp only [h1, Except.bind] at hin
      have hal1 := applyIn_aligned ls b b1 hal h1
      obtain ⟨hal0, j, hjlt, hu0, hnm, hraw⟩ := inBox_aligned l b1 b0 hal1 hin
      simp only [initThrough] at hout
      cases h2 : outBox l (b0.setValue v) with
      | error e => simp [h2, Except.bind] at hout
      | ok b1' =>
        simp only [h2, Except.bind] at hout
        obtain ⟨j', hj', hb1'⟩ := outBox_ok l _ b1' h2
        -- `b1'` is `b1` with a new value of the right length
        have hkey : ∃ v', v'.length = b1.unbox.length ∧ b1' = b1.setValue v' := by
          refine ⟨insertAt v j' l.size, ?_, ?_⟩
          · rw [insertAt_length, hv, hu0, List.length_eraseIdx]; simp [hjlt]; omega
          · subst hb1'
            -- recover the shape of b1 and b0 from `inBox`
            unfold inBox at hin
            cases hr : b1.removeAxis l.axis (some l.pname) with
            | error e => simp [hr] at hin
            | ok bb =>
              simp only [hr] at hin
              cases hs : sliceAt l.axis b1.unbox with
              | none => simp [hs] at hin
              | some ds =>
                simp only [hs, Except.ok.injEq] at hin
                subst hin
                cases b1 with
                | raw w =>
                  simp only [Box.removeAxis, Except.ok.injEq] at hr
                  subst hr
                  simp [Box.replaceBoxed, Box.setValue, Box.isBoxed, outResult]
                | boxed ns inner =>
                  simp only [Box.removeAxis] at hr
                  cases hrm : Axes.removeAxis l.axis l.pname ns with
                  | error e => simp [hrm, Except.map] at hr
                  | ok ns' =>
                    simp only [hrm, Except.map, Except.ok.injEq] at hr
                    subst hr
                    have hback := remove_add_inverse ns ns' l.axis l.pname hrm
                    simp [Box.replaceBoxed, Box.setValue, Box.isBoxed, outResult, hback,
                      replaceBoxed_twice, unbox_replaceBoxed]
        obtain ⟨v', hv', rfl⟩ := hkey
        exact ih b1 b2 v' h1 hv' hout

/-- names and dimensions travel through a transform as *pairs* -/
def stackPairs {δ : Type} (l : Level δ) (ps : List (Name × δ)) : Option (List (Name × δ)) :=
  (normIdx (ps.length + 1) l.axis).map (fun j => insertAt ps j (l.pname, l.size))

def initPairs {δ : Type} : List (Level δ) → List (Name × δ) → Option (List (Name × δ))
  | [], ps => some ps
  | l :: ls, ps => (stackPairs l ps).bind (initPairs ls)

/-- **Right order through any nesting**: zipping the final names with the final dimensions gives the
original (name, dimension) pairs with each level's (partition name, mapped size) pair inserted at that
level's axis — so every name labels the dimension it was declared for, whatever the nesting. -/
theorem init_pairs {δ : Type} (ls : List (Level δ)) (ns : Names) (inner : VarBox δ) (b' : VarBox δ)
    (hal : ns.length = inner.unbox.length) (h : initThrough ls (.boxed ns inner) = .ok b') :
    ∃ ns', b'.names? = some ns' ∧ ns'.length = b'.unbox.length ∧
      initPairs ls (ns.zip inner.unbox) = some (ns'.zip b'.unbox) := by
  induction ls generalizing ns inner with
  | nil =>
    simp [initThrough] at h; subst h
    exact ⟨ns, rfl, hal, rfl⟩
  | cons l ls ih =>
    simp only [initThrough] at h
    cases h1 : outBox l (.boxed ns inner) with
    | error e => simp [h1, Except.bind] at h
    | ok b1 =>
      simp only [h1, Except.bind] at h
      obtain ⟨j, hj, rfl⟩ := outBox_ok l _ b1 h1
      simp only [Box.unbox] at hj
      have ha := addAxis_eq_insertAt ns l.axis l.pname j (by rw [hal]; exact hj)
      have hal1 : (addAxis l.axis l.pname ns).length
          = (inner.replaceBoxed (insertAt inner.unbox j l.size)).unbox.length := by
        simp [unbox_replaceBoxed, ha, insertAt_length, hal]
      obtain ⟨ns', hn', hl', hp'⟩ := ih _ _ hal1 h
      refine ⟨ns', hn', hl', ?_⟩
      simp only [initPairs, stackPairs]
      have hz : (ns.zip inner.unbox).length = inner.unbox.length := by simp [hal]
      rw [hz, hj]
      simp only [Option.map_some, Option.bind_some]
      rw [← hp', unbox_replaceBoxed, ha, zip_insertAt _ _ _ _ _ hal]

/-- `init` through the transforms succeeds exactly when every level's axis is in the range the array
side accepts at that depth; metadata never makes it fail (given a partition name). -/
theorem initThrough_ok_iff {δ : Type} (ls : List (Level δ)) (b : VarBox δ) :
    (∃ b', initThrough ls b = .ok b') ↔ levelsInRange ls b.unbox.length := by
  induction ls generalizing b with
  | nil => simp [initThrough, levelsInRange]
  | cons l ls ih =>
    simp only [initThrough, levelsInRange]
    constructor
    · rintro ⟨b', h⟩
      cases h1 : outBox l b with
      | error e => simp [h1, Except.bind] at h
      | ok b1 =>
        simp only [h1, Except.bind] at h
        obtain ⟨j, hj, hb1⟩ := outBox_ok l b b1 h1
        obtain ⟨hlt, hk⟩ := normIdx_some hj
        have hu : b1.unbox.length = b.unbox.length + 1 := by
          subst hb1; simp [unbox_outResult, insertAt_length]
        refine ⟨by push_cast at hk; omega, ?_⟩
        rw [← hu]; exact (ih b1).mp ⟨b', h⟩
    · rintro ⟨⟨h1, h2⟩, hr⟩
      have hn := normIdx_of_range (n := b.unbox.length + 1) (k := l.axis) (by push_cast; omega) (by push_cast; omega)
      have : ∃ b1, outBox l b = .ok b1 ∧ b1.unbox.length = b.unbox.length + 1 := by
        cases b with
        | raw v =>
          simp only [Box.unbox] at hn
          exact ⟨_, by simp [outBox, stackAt, Box.unbox, hn, Box.replaceBoxed, Box.addAxis]; rfl, by simp [Box.unbox, insertAt_length]⟩
        | boxed ns inner =>
          simp only [Box.unbox] at hn
          exact ⟨_, by simp [outBox, stackAt, Box.unbox, hn, Box.replaceBoxed, Box.addAxis]; rfl, by simp [Box.unbox, unbox_replaceBoxed, insertAt_length]⟩
      obtain ⟨b1, hb1, hu⟩ := this
      obtain ⟨b', hb'⟩ := (ih b1).mpr (by rw [hu]; exact hr)
      exact ⟨b', by simp [hb1, Except.bind, hb']⟩

/-- **Boxed variables compute like their raw arrays (init)**: the array that comes out of a stack of
transforms is the same whether or not the variable is boxed, and boxing never makes `init` fail. -/
theorem boxed_computes_like_raw_init {δ : Type} (ls : List (Level δ)) (b : VarBox δ) :
    (∀ b', initThrough ls b = .ok b' → initThrough ls (.raw b.unbox) = .ok (.raw b'.unbox)) ∧
    (∀ v', initThrough ls (.raw b.unbox) = .ok (.raw v') → ∃ b', initThrough ls b = .ok b' ∧ b'.unbox = v') := by
  induction ls generalizing b with
  | nil =>
    refine ⟨fun b' h => ?_, fun v' h => ?_⟩
    · simp [initThrough] at h; subst h; rfl
    · simp [initThrough] at h; exact ⟨b, rfl, h⟩
  | cons l ls ih =>
    have key : ∀ b1, outBox l b = .ok b1 → outBox l (.raw b.unbox) = .ok (.raw b1.unbox) := by
      intro b1 h1
      obtain ⟨j, hj, rfl⟩ := outBox_ok l b b1 h1
      simp [outBox, stackAt, Box.unbox, hj, Box.replaceBoxed, Box.addAxis, unbox_outResult]
    refine ⟨fun b' h => ?_, fun v' h => ?_⟩
    · simp only [initThrough] at h ⊢
      cases h1 : outBox l b with
      | error e => simp [h1, Except.bind] at h
      | ok b1 =>
        simp only [h1, Except.bind] at h
        simp only [key b1 h1, Except.bind]
        exact (ih b1).1 b' h
    · have hr : levelsInRange (l :: ls) b.unbox.length :=
        (initThrough_ok_iff (l :: ls) (.raw b.unbox)).mp ⟨_, h⟩
      obtain ⟨b', hb'⟩ := (initThrough_ok_iff (l :: ls) b).mpr hr
      refine ⟨b', hb', ?_⟩
      simp only [initThrough] at hb' h
      cases h1 : outBox l b with
      | error e => simp [h1, Except.bind] at hb'
      | ok b1 =>
        simp only [h1, Except.bind] at hb'
        simp only [key b1 h1, Except.bind] at h
        have := (ih b1).1 b' hb'
        rw [h] at this
        simpa using this.symm

/-- **… and on the way in**: whenever slicing the boxed variable succeeds, the array the body
receives is the one the raw run receives. -/
theorem boxed_computes_like_raw_apply {δ : Type} (ls : List (Level δ)) (b b' : VarBox δ)
    (h : applyIn ls b = .ok b') : applyIn ls (.raw b.unbox) = .ok (.raw b'.unbox) := by
  induction ls generalizing b' with
  | nil => simp [applyIn] at h; subst h; rfl
  | cons l ls ih =>
    simp only [applyIn] at h ⊢
    cases h1 : applyIn ls b with
    | error e => simp [h1, Except.bind] at h
    | ok b1 =>
      simp only [h1, Except.bind] at h
      simp only [ih b1 h1, Except.bind]
      unfold inBox at h ⊢
      cases hr : b1.removeAxis l.axis (some l.pname) with
      | error e => simp [hr] at h
      | ok b2 =>
        simp only [hr] at h
        cases hs : sliceAt l.axis b1.unbox with
        | none => simp [hs] at h
        | some ds =>
          simp only [hs] at h
          simp only [Except.ok.injEq] at h
          subst h
          simp [Box.removeAxis, Box.unbox, hs, Box.replaceBoxed, unbox_replaceBoxed]

/-- scan inside vmap, spelled out (vmap inside scan is the same statement with the two levels swapped):
the inner level's name goes in first, at its axis of the unstacked variable; the outer level's name
goes in second, at its axis of the already stacked one. -/
theorem two_level_aligned {δ : Type} (inner outer : Level δ) (ns : Names) (dims : List δ) (b' : VarBox δ)
    (hal : ns.length = dims.length)
    (h : initThrough [inner, outer] (.boxed ns (.raw dims)) = .ok b') :
    ∃ ji jo, ji ≤ dims.length ∧ jo ≤ dims.length + 1 ∧
      b' = .boxed (insertAt (insertAt ns ji inner.pname) jo outer.pname)
             (.raw (insertAt (insertAt dims ji inner.size) jo outer.size)) := by
  simp only [initThrough] at h
  cases h1 : outBox inner (.boxed ns (.raw dims)) with
  | error e => simp [h1, Except.bind] at h
  | ok b1 =>
    simp only [h1, Except.bind] at h
    cases h2 : outBox outer b1 with
    | error e => simp [h2] at h
    | ok b2 =>
      simp only [h2, Except.ok.injEq] at h
      subst h
      obtain ⟨ji, hji, rfl⟩ := outBox_ok inner _ b1 h1
      obtain ⟨jo, hjo, rfl⟩ := outBox_ok outer _ b2 h2
      rw [unbox_outResult] at hjo
      simp only [Box.unbox] at hji hjo
      rw [insertAt_length] at hjo
      have ha1 := addAxis_eq_insertAt ns inner.axis inner.pname ji (by rw [hal]; exact hji)
      have ha2 := addAxis_eq_insertAt (insertAt ns ji inner.pname) outer.axis outer.pname jo
        (by rw [insertAt_length, hal]; exact hjo)
      refine ⟨ji, jo, Nat.lt_succ_iff.mp (normIdx_some hji).1, Nat.lt_succ_iff.mp (normIdx_some hjo).1, ?_⟩
      simp [outResult, Box.replaceBoxed, Box.unbox, ha1, ha2]

-- scan (axis 1, "S", 4 steps) inside vmap (axis −1, "V", 2 lanes) over a (3, 5) kernel
example : initThrough [⟨1, some "S", 4⟩, ⟨-1, some "V", 2⟩] (.boxed [some "in", some "out"] (.raw [3, 5]))
    = .ok (.boxed [some "in", some "S", some "out", some "V"] (.raw [3, 4, 5, 2])) := by decide
-- vmap (axis 0) inside scan (axis 2)
example : initThrough [⟨0, some "V", 2⟩, ⟨2, some "S", 4⟩] (.boxed [some "in", some "out"] (.raw [3, 5]))
    = .ok (.boxed [some "V", some "in", some "S", some "out"] (.raw [2, 3, 4, 5])) := by decide
example : applyIn [⟨1, some "S", 4⟩, ⟨-1, some "V", 2⟩]
      (.boxed [some "in", some "S", some "out", some "V"] (.raw [3, 4, 5, 2]))
    = .ok (.boxed [some "in", some "out"] (.raw [3, 5])) := by decide
example : levelsInRange [(⟨1, some "S", 4⟩ : Level Nat), ⟨-1, some "V", 2⟩] 2 := by
  simp [levelsInRange]


/-! ## get_partition_spec returns exactly the names -/

/-- Linen `get_partition_spec`: a boxed leaf gives exactly its (outermost) names, an unboxed array
the replicated spec `P()`, anything else `None` -/
theorem partition_spec_exact {α : Type} (isArray : α → Bool) (ns : Names) (inner : Box α) (v : α) :
    (Box.boxed ns inner).partitionSpec isArray = some ns ∧
    (Box.raw v).partitionSpec isArray = (if isArray v then some [] else none) := ⟨rfl, rfl⟩

/-- … and after any stack of transforms the spec read off the stacked variable has one entry per
dimension of the stacked array, in the order `init_pairs` describes -/
theorem partition_spec_after_init {δ : Type} (ls : List (Level δ)) (ns : Names) (inner : VarBox δ)
    (b' : VarBox δ) (hal : ns.length = inner.unbox.length)
    (h : initThrough ls (.boxed ns inner) = .ok b') :
    ∃ spec, b'.partitionSpec (fun _ => true) = some spec ∧ spec.length = b'.unbox.length ∧
      initPairs ls (ns.zip inner.unbox) = some (spec.zip b'.unbox) := by
  obtain ⟨ns', hn, hl, hp⟩ := init_pairs ls ns inner b' hal h
  refine ⟨ns', ?_, hl, hp⟩
  cases b' with
  | raw v => simp [Box.names?] at hn
  | boxed ns'' inner' => simp [Box.names?] at hn; subst hn; rfl

/-- NNX `get_partition_spec` (no logical rules in scope): a non-empty `sharding` is returned as is, a
Variable without one (or with an empty one) is replicated when its value is an array -/
theorem nnx_partition_spec_exact (n : Name) (ns : Names) (isArray : Bool) :
    nnxPartitionSpec (some (n :: ns)) isArray = some (n :: ns) ∧
    nnxPartitionSpec none isArray = (if isArray then some [] else none) ∧
    nnxPartitionSpec (some []) isArray = (if isArray then some [] else none) := ⟨rfl, rfl, rfl⟩

/-- the NNX sharding tuple goes through `add_axis` / `remove_axis` exactly like Linen names: the two
are inverse on every accepted index, and a Variable without sharding metadata is left alone -/
theorem nnx_add_remove_inverse (sharding : Option Names) (k : Int) (nm : Name)
    (h : ∀ ns, sharding = some ns → -((ns.length : Int) + 1) ≤ k ∧ k ≤ ns.length) :
    nnxRemoveAxis k nm (nnxAddAxis k nm sharding) = .ok sharding := by
  cases sharding with
  | none => rfl
  | some ns =>
    obtain ⟨h1, h2⟩ := h ns rfl
    simp [nnxAddAxis, nnxRemoveAxis, add_remove_inverse ns k nm h1 h2, Except.map]

/-! ## the bridge box `NNXMeta` (an NNX Variable inside Linen transforms; finding F17) -/

/-- **The `NNXMeta` box obeys the same alignment law as `Partitioned`**: for every sharding tuple with
one entry per dimension and every axis the array side accepts, the partition name lands on the new
dimension and every other entry keeps labelling its own dimension. -/
theorem nnxmeta_aligned_after_stack {δ : Type} (ns : Names) (dims : List δ) (k : Int) (nm : Name) (d : δ)
    (hal : ns.length = dims.length)
    (hk1 : -((dims.length : Int) + 1) ≤ k) (hk2 : k ≤ dims.length) :
    ∃ j ns', nnxMetaAddAxis k (some nm) (some ns) = .ok (some ns') ∧
      stackAt k d dims = some (insertAt dims j d) ∧
      ns'.length = (insertAt dims j d).length ∧
      ns'.zip (insertAt dims j d) = insertAt (ns.zip dims) j (nm, d) ∧
      ns'[j]? = some nm ∧ (insertAt dims j d)[j]? = some d := by
  obtain ⟨j, _, hs, _, hl, hz, hn, hd⟩ := aligned_after_stack ns dims k nm d hal hk1 hk2
  exact ⟨j, addAxis k nm ns, rfl, hs, hl, hz, hn, hd⟩

/-- add and remove are inverse on the bridge box for every accepted index; a box without a
`sharding` entry passes through both untouched (even without a partition name); an annotated box
without a partition name is rejected -/
theorem nnxmeta_add_remove_inverse (sharding : Option Names) (k : Int) (nm : Name)
    (h : ∀ ns, sharding = some ns → -((ns.length : Int) + 1) ≤ k ∧ k ≤ ns.length) :
    (nnxMetaAddAxis k (some nm) sharding).bind (nnxMetaRemoveAxis k (some nm)) = .ok sharding ∧
    (∀ p, nnxMetaAddAxis k p none = .ok none ∧ nnxMetaRemoveAxis k p none = .ok none) ∧
    (∀ ns, nnxMetaAddAxis k none (some ns) = .error .unspecified ∧
           nnxMetaRemoveAxis k none (some ns) = .error .unspecified) := by
  refine ⟨?_, fun p => ⟨rfl, rfl⟩, fun ns => ⟨rfl, rfl⟩⟩
  cases sharding with
  | none => rfl
  | some ns =>
    obtain ⟨h1, h2⟩ := h ns rfl
    simp [nnxMetaAddAxis, nnxMetaRemoveAxis, Except.bind, add_remove_inverse ns k nm h1 h2, Except.map]

/-- the shipped no-op: stacking a (3, 3) kernel on axis 0 left the sharding at two entries for a
rank-3 value, so `'in'` labelled the stacked axis -/
theorem orig_nnxmeta_noop_misaligned :
    nnxMetaAddAxisOrig 0 (some (some "layers")) (some [some "in", some "out"]) = .ok (some [some "in", some "out"]) ∧
    stackAt 0 4 [3, 3] = some [4, 3, 3] ∧
    nnxMetaAddAxis 0 (some (some "layers")) (some [some "in", some "out"])
      = .ok (some [some "layers", some "in", some "out"]) := by decide

example : nnxMetaRemoveAxis (-1) (some (some "L")) (some [some "in", some "out", some "L"])
    = .ok (some [some "in", some "out"]) := by decide

/-! ## StateAxes routing: every int-axis group is updated with its own axis (finding F39) -/

/-- what each filter's state should become: an int-axis filter's state is updated with that axis,
broadcast and carry states are untouched -/
def routed {σ : Type} (f : Int → σ → σ) (layout : List (AxisSpec × σ)) : List σ :=
  layout.map (fun p => match p.1 with | .ax k => f k p.2 | _ => p.2)

/-- **vmap / pmap**: with one state per filter, every filter order (broadcast first, int first,
several int groups) gives each state exactly its own filter's axis. -/
theorem state_axes_vmap_routing {σ : Type} (f : Int → σ → σ) (layout : List (AxisSpec × σ)) :
    updateStatesVmap f (layout.map Prod.fst) (layout.map Prod.snd) = routed f layout := by
  induction layout with
  | nil => rfl
  | cons p ps ih =>
    simp only [updateStatesVmap, routed, List.map_cons, List.zipWith_cons_cons] at ih ⊢
    exact congrArg _ ih

/-- **scan** (repaired): `NodeStates` holds only the vectorized states, and each of them is updated
with the axis of its *own* filter, whatever broadcast / carry filters are listed before, between or
after the int filters. -/
theorem state_axes_scan_routing {σ : Type} (f : Int → σ → σ) (layout : List (AxisSpec × σ)) :
    updateStatesScan f (layout.map Prod.fst) (vectorizedStates layout)
      = vectorizedStates (layout.map (fun p => (p.1, match p.1 with | .ax k => f k p.2 | _ => p.2))) := by
  have key : ∀ (layout : List (AxisSpec × σ)),
      List.zipWith (fun k s => f k s) ((layout.map Prod.fst).filterMap AxisSpec.int?) (vectorizedStates layout)
        = vectorizedStates (layout.map (fun p => (p.1, match p.1 with | .ax k => f k p.2 | _ => p.2))) ∧
      ((layout.map Prod.fst).filterMap AxisSpec.int?).length = (vectorizedStates layout).length := by
    intro layout
    induction layout with
    | nil => exact ⟨rfl, rfl⟩
    | cons p ps ih =>
      obtain ⟨a, s⟩ := p
      cases a with
      | bcast =>
        simp only [vectorizedStates, AxisSpec.int?, List.map_cons, List.filterMap_cons] at ih ⊢
        exact ih
      | carry =>
        simp only [vectorizedStates, AxisSpec.int?, List.map_cons, List.filterMap_cons] at ih ⊢
        exact ih
      | ax k =>
        simp only [vectorizedStates, AxisSpec.int?, List.map_cons, List.filterMap_cons,
          List.zipWith_cons_cons, List.length_cons] at ih ⊢
        exact ⟨by rw [ih.1], by rw [ih.2]⟩
  obtain ⟨h1, h2⟩ := key layout
  unfold updateStatesScan
  simp only
  rw [h1, h2, List.drop_length, List.append_nil]

/-- the shipped pairing: with a broadcast filter listed before the int filter the vectorized state
is paired with the broadcast entry and never updated (inside `nnx.scan` the Param kept `'layers'`) -/
theorem orig_state_axes_scan_misroutes :
    updateStatesScanOrig (fun k (s : Names) => addAxis k (some "layers") s)
        [.bcast, .ax 1] (vectorizedStates [(.bcast, [some "cn"]), (.ax 1, [some "in", some "out"])])
      = [[some "in", some "out"]] ∧
    updateStatesScan (fun k (s : Names) => addAxis k (some "layers") s)
        [.bcast, .ax 1] (vectorizedStates [(.bcast, [some "cn"]), (.ax 1, [some "in", some "out"])])
      = [[some "in", some "layers", some "out"]] := by decide

example : updateStatesScan (fun k (s : Names) => addAxis k (some "L") s) [.carry, .ax 0, .bcast, .ax (-1)]
    (vectorizedStates [(.carry, [some "h"]), (.ax 0, [some "a"]), (.bcast, [some "c"]), (.ax (-1), [some "b"])])
    = [[some "L", some "a"], [some "b", some "L"]] := by decide

/-! ## logical axis rules → mesh axes -/

private theorem stepRule_length (names : Names) (res : List Slot) (r : Rule) :
    (stepRule names res r).length = res.length := by
  unfold stepRule
  split
  · rfl
  · split <;> simp

private theorem runRules_length (names : Names) (rules : List Rule) (res : List Slot) :
    (runRules names res rules).length = res.length := by
  induction rules generalizing res with
  | nil => rfl
  | cons r rs ih => simp only [runRules, List.foldl_cons] at ih ⊢; rw [ih, stepRule_length]

/-- one entry per dimension: the result has exactly as many entries as there are names -/
theorem mesh_axes_length (names : Names) (rules : List Rule) (res : List MeshVal)
    (h : logicalToMesh names rules = .ok res) : res.length = names.length := by
  unfold logicalToMesh logicalToMeshRaw at h
  split at h
  · simp [Except.map] at h
  · simp only [Except.map, Except.ok.injEq] at h
    subst h
    simp [runRules_length, initSlots]

/-- duplicate logical names are rejected rather than resolved arbitrarily -/
theorem mesh_axes_duplicate_names_rejected (names : Names) (rules : List Rule)
    (h : ¬ (names.filterMap id).Nodup) : logicalToMesh names rules = .error .valueError := by
  simp [logicalToMesh, logicalToMeshRaw, hasDupName, h, Except.map]

/-- leaves of the slot at position `p` (nothing when out of range) -/
def slotLeaves (res : List Slot) (p : Nat) : List String :=
  match res[p]? with
  | some s => s.leaves
  | none => []

/-- no mesh axis is used by two different positions -/
def Disjoint (res : List Slot) : Prop :=
  ∀ p q a, p ≠ q → a ∈ slotLeaves res p → a ∉ slotLeaves res q

private theorem mem_used_of_slot (res : List Slot) (q : Nat) (a : String) (h : a ∈ slotLeaves res q) :
    a ∈ usedAxes res := by
  unfold slotLeaves at h
  cases hq : res[q]? with
  | none => simp [hq] at h
  | some s =>
    simp only [hq] at h
    unfold usedAxes
    rw [List.mem_flatMap]
    exact ⟨s, List.mem_of_getElem? hq, h⟩

private theorem slotLeaves_set (res : List Slot) (pos p : Nat) (s : Slot) :
    slotLeaves (res.set pos s) p
      = if p = pos ∧ pos < res.length then s.leaves else slotLeaves res p := by
  unfold slotLeaves
  rw [List.getElem?_set]
  by_cases h1 : pos = p
  · subst h1
    by_cases h2 : pos < res.length
    · simp [h2]
    · simp [h2]
  · have : ¬ (p = pos ∧ pos < res.length) := by intro h; exact h1 h.1.symm
    simp [h1, this]

private theorem stepRule_disjoint (names : Names) (res : List Slot) (r : Rule) (h : Disjoint res) :
    Disjoint (stepRule names res r) := by
  unfold stepRule
  split
  · exact h
  · rename_i pos _
    split
    · rename_i hc
      simp only [Bool.and_eq_true, decide_eq_true_eq] at hc
      obtain ⟨hfree, hun⟩ := hc
      have hfree' : ∀ a ∈ r.mesh.leaves, a ∉ usedAxes res := by
        simpa [meshFree, List.all_eq_true] using hfree
      intro p q a hpq hp hq
      rw [slotLeaves_set] at hp hq
      by_cases hp' : p = pos ∧ pos < res.length
      · have hq' : ¬ (q = pos ∧ pos < res.length) := by intro hq'; exact hpq (hp'.1.trans hq'.1.symm)
        simp only [hp', and_self, ↓reduceIte, Slot.leaves] at hp
        simp only [hq', ↓reduceIte] at hq
        exact hfree' a hp (mem_used_of_slot res q a hq)
      · simp only [hp', ↓reduceIte] at hp
        by_cases hq' : q = pos ∧ pos < res.length
        · simp only [hq', and_self, ↓reduceIte, Slot.leaves] at hq
          exact hfree' a hq (mem_used_of_slot res p a hp)
        · simp only [hq', ↓reduceIte] at hq
          exact h p q a hpq hp hq
    · exact h

private theorem runRules_disjoint (names : Names) (rules : List Rule) (res : List Slot)
    (h : Disjoint res) : Disjoint (runRules names res rules) := by
  induction rules generalizing res with
  | nil => exact h
  | cons r rs ih =>
    simp only [runRules, List.foldl_cons] at ih ⊢
    exact ih _ (stepRule_disjoint names res r h)

private theorem initSlots_disjoint (names : Names) : Disjoint (initSlots names) := by
  intro p q a _ hp _
  unfold slotLeaves initSlots at hp
  rw [List.getElem?_map] at hp
  cases hn : names[p]? with
  | none => simp [hn] at hp
  | some n => cases n <;> simp [hn, Slot.leaves, MeshVal.leaves] at hp

/-- **No mesh axis is ever used for two dimensions of the same array** — for every names tuple and
every ordered rule list (no side condition on the rules: tuples of mesh axes, repeated rules,
`None` rules, rules for absent names are all allowed). -/
theorem mesh_axes_no_duplicate (names : Names) (rules : List Rule) (res : List MeshVal)
    (h : logicalToMesh names rules = .ok res) (p q : Nat) (hpq : p ≠ q) (mp mq : MeshVal)
    (hp : res[p]? = some mp) (hq : res[q]? = some mq) (a : String) :
    ¬ (a ∈ mp.leaves ∧ a ∈ mq.leaves) := by
  unfold logicalToMesh logicalToMeshRaw at h
  split at h
  · simp [Except.map] at h
  · simp only [Except.map, Except.ok.injEq] at h
    subst h
    have hd := runRules_disjoint names rules _ (initSlots_disjoint names)
    rw [List.getElem?_map] at hp hq
    rintro ⟨ha, hb⟩
    cases hsp : (runRules names (initSlots names) rules)[p]? with
    | none => simp [hsp] at hp
    | some sp =>
      cases hsq : (runRules names (initSlots names) rules)[q]? with
      | none => simp [hsq] at hq
      | some sq =>
        simp only [hsp, hsq, Option.map_some, Option.some.injEq] at hp hq
        refine hd p q a hpq ?_ ?_
        · simp only [slotLeaves, hsp]
          cases sp with
          | unassigned => subst hp; simp [MeshVal.leaves] at ha
          | val m => subst hp; simpa [Slot.leaves] using ha
        · simp only [slotLeaves, hsq]
          cases sq with
          | unassigned => subst hq; simp [MeshVal.leaves] at hb
          | val m => subst hq; simpa [Slot.leaves] using hb

/-! ### rule priority -/

private theorem firstIdx_some {names : Names} {x : Name} {p : Nat} (h : firstIdx names x = some p) :
    names[p]? = some x := by
  induction names generalizing p with
  | nil => simp [firstIdx] at h
  | cons n ns ih =>
    simp only [firstIdx] at h
    split at h
    · simp at h; subst h; simp [*]
    · cases hf : firstIdx ns x with
      | none => simp [hf] at h
      | some p' => simp [hf] at h; subst h; simpa using ih hf

/-- a rule changes at most the position of its own logical name, and only if that position is
still unassigned -/
private theorem stepRule_get (names : Names) (res : List Slot) (r : Rule) (p : Nat) (s : Name)
    (hp : firstIdx names s = some p) (hlen : res.length = names.length) :
    (stepRule names res r)[p]? =
      if r.name = s ∧ meshFree r.mesh res = true ∧ res[p]? = some Slot.unassigned
      then some (.val r.mesh) else res[p]? := by
  have hps := firstIdx_some hp
  have hplt : p < res.length := by
    rw [hlen]; exact (List.getElem?_eq_some_iff.mp hps).1
  unfold stepRule
  cases hf : firstIdx names r.name with
  | none =>
    have : r.name ≠ s := by intro he; rw [he, hp] at hf; simp at hf
    simp [this]
  | some pos =>
    simp only
    by_cases hrs : r.name = s
    · rw [hrs, hp] at hf
      simp only [Option.some.injEq] at hf
      subst hf
      by_cases hc : meshFree r.mesh res = true ∧ res[p]? = some Slot.unassigned
      · have hb : (meshFree r.mesh res && decide (res[p]? = some Slot.unassigned)) = true := by
          simp [hc.1, hc.2]
        rw [if_pos hb, if_pos ⟨hrs, hc⟩, List.getElem?_set]
        simp [hplt]
      · have : ¬ (meshFree r.mesh res && decide (res[p]? = some Slot.unassigned)) = true := by
          simpa using hc
        simp only [this]
        have : ¬ (r.name = s ∧ meshFree r.mesh res = true ∧ res[p]? = some Slot.unassigned) := by
          intro h; exact hc h.2
        simp [this]
    · have hne : pos ≠ p := by
        intro he; subst he
        have := firstIdx_some hf
        rw [hps] at this
        exact hrs (Option.some.inj this).symm
      have : ¬ (r.name = s ∧ meshFree r.mesh res = true ∧ res[p]? = some Slot.unassigned) := by
        intro h; exact hrs h.1
      simp only [this, ↓reduceIte]
      split
      · rw [List.getElem?_set]; simp [hne]
      · rfl

/-- once a position holds a value it keeps it -/
private theorem runRules_stable (names : Names) (rules : List Rule) (res : List Slot) (p : Nat) (s : Name)
    (hp : firstIdx names s = some p) (hlen : res.length = names.length) (m : MeshVal)
    (h : res[p]? = some (.val m)) : (runRules names res rules)[p]? = some (.val m) := by
  induction rules generalizing res with
  | nil => exact h
  | cons r rs ih =>
    simp only [runRules, List.foldl_cons] at ih ⊢
    apply ih _ (by rw [stepRule_length, hlen])
    rw [stepRule_get names res r p s hp hlen]
    simp [h]

/-- the state `result` is in when rule number `i` is about to be processed -/
def stateBefore (names : Names) (res : List Slot) (rules : List Rule) (i : Nat) : List Slot :=
  runRules names res (rules.take i)

private theorem priority_aux (names : Names) (rules : List Rule) (res : List Slot) (p : Nat) (s : Name)
    (hp : firstIdx names s = some p) (hlen : res.length = names.length)
    (hun : res[p]? = some Slot.unassigned) (m : MeshVal) :
    (runRules names res rules)[p]? = some (.val m) ↔
      ∃ i r, rules[i]? = some r ∧ r.name = s ∧ r.mesh = m ∧
        meshFree m (stateBefore names res rules i) = true ∧
        ∀ j r', j < i → rules[j]? = some r' → r'.name = s →
          meshFree r'.mesh (stateBefore names res rules j) = false := by
  induction rules generalizing res with
  | nil => simp [runRules, hun]
  | cons r rs ih =>
    have hstep := stepRule_get names res r p s hp hlen
    by_cases hc : r.name = s ∧ meshFree r.mesh res = true
    · -- this rule fires
      have hset : (stepRule names res r)[p]? = some (.val r.mesh) := by
        rw [hstep]; simp [hc, hun]
      have hfin := runRules_stable names rs (stepRule names res r) p s hp
        (by rw [stepRule_length, hlen]) r.mesh hset
      simp only [runRules, List.foldl_cons] at hfin ⊢
      rw [hfin]
      constructor
      · intro hm
        simp only [Option.some.injEq, Slot.val.injEq] at hm
        refine ⟨0, r, by simp, hc.1, hm, ?_, ?_⟩
        · rw [← hm]; simpa [stateBefore, runRules] using hc.2
        · intro j r' hj; omega
      · rintro ⟨i, r0, hi, hn, hmm, hfree, hprev⟩
        cases i with
        | zero =>
          simp only [List.getElem?_cons_zero, Option.some.injEq] at hi
          subst hi; rw [hmm]
        | succ i =>
          have := hprev 0 r (by omega) (by simp) hc.1
          simp [stateBefore, runRules, hc.2] at this
    · -- this rule does not touch position p
      have hkeep : (stepRule names res r)[p]? = some Slot.unassigned := by
        rw [hstep]
        have : ¬ (r.name = s ∧ meshFree r.mesh res = true ∧ res[p]? = some Slot.unassigned) := by
          intro h; exact hc ⟨h.1, h.2.1⟩
        rw [if_neg this, hun]
      have ih' := ih (stepRule names res r) (by rw [stepRule_length, hlen]) hkeep
      simp only [runRules, List.foldl_cons] at ih' ⊢
      rw [ih']
      have hshift : ∀ i, stateBefore names res (r :: rs) (i + 1)
          = stateBefore names (stepRule names res r) rs i := by
        intro i; simp [stateBefore, runRules]
      constructor
      · rintro ⟨i, r0, hi, hn, hmm, hfree, hprev⟩
        refine ⟨i + 1, r0, by simpa using hi, hn, hmm, by rw [hshift]; exact hfree, ?_⟩
        intro j r' hj hr' hn'
        cases j with
        | zero =>
          simp only [List.getElem?_cons_zero, Option.some.injEq] at hr'
          rw [← hr'] at hn' ⊢
          have : meshFree r.mesh res ≠ true := fun h => hc ⟨hn', h⟩
          simpa [stateBefore, runRules] using this
        | succ j =>
          rw [hshift]
          exact hprev j r' (by omega) (by simpa using hr') hn'
      · rintro ⟨i, r0, hi, hn, hmm, hfree, hprev⟩
        cases i with
        | zero =>
          simp only [List.getElem?_cons_zero, Option.some.injEq] at hi
          subst hi
          exact absurd ⟨hn, by rw [hmm]; simpa [stateBefore, runRules] using hfree⟩ hc
        | succ i =>
          refine ⟨i, r0, by simpa using hi, hn, hmm, by rw [← hshift]; exact hfree, ?_⟩
          intro j r' hj hr' hn'
          rw [← hshift]
          exact hprev (j + 1) r' (by omega) (by simpa using hr') hn'

private theorem initSlots_get (names : Names) (p : Nat) (s : String) (h : names[p]? = some (some s)) :
    (initSlots names)[p]? = some Slot.unassigned := by
  simp [initSlots, List.getElem?_map, h]

/-- **Rule priority.** For a names tuple without duplicates, the dimension named `s` receives mesh
value `m` exactly when `m` belongs to the *first* rule for `s` (in list order) whose mesh axes were all
still unused at the moment that rule was processed; every earlier rule for `s` was blocked by a mesh
axis already in use. (`stateBefore … i` is `result` after the first `i` rules; a `None` rule has no
mesh axes, is never blocked, and pins the dimension to `None`.) -/
theorem mesh_axes_priority (names : Names) (rules : List Rule) (res : List Slot) (p : Nat) (s : String)
    (h : logicalToMeshRaw names rules = .ok res) (hp : firstIdx names (some s) = some p) (m : MeshVal) :
    res[p]? = some (.val m) ↔
      ∃ i r, rules[i]? = some r ∧ r.name = some s ∧ r.mesh = m ∧
        meshFree m (stateBefore names (initSlots names) rules i) = true ∧
        ∀ j r', j < i → rules[j]? = some r' → r'.name = some s →
          meshFree r'.mesh (stateBefore names (initSlots names) rules j) = false := by
  unfold logicalToMeshRaw at h
  split at h
  · simp at h
  · simp only [Except.ok.injEq] at h
    subst h
    exact priority_aux names rules (initSlots names) p (some s) hp (by simp [initSlots])
      (initSlots_get names p s (firstIdx_some hp)) m

private theorem unassigned_aux (names : Names) (rules : List Rule) (res : List Slot) (p : Nat) (s : Name)
    (hp : firstIdx names s = some p) (hlen : res.length = names.length)
    (hun : res[p]? = some Slot.unassigned) :
    (runRules names res rules)[p]? = some Slot.unassigned ↔
      ∀ i r, rules[i]? = some r → r.name = s →
        meshFree r.mesh (stateBefore names res rules i) = false := by
  induction rules generalizing res with
  | nil => simp [runRules, hun]
  | cons r rs ih =>
    have hstep := stepRule_get names res r p s hp hlen
    by_cases hc : r.name = s ∧ meshFree r.mesh res = true
    · have hset : (stepRule names res r)[p]? = some (.val r.mesh) := by
        rw [hstep]; simp [hc, hun]
      have hfin := runRules_stable names rs (stepRule names res r) p s hp
        (by rw [stepRule_length, hlen]) r.mesh hset
      simp only [runRules, List.foldl_cons] at hfin ⊢
      rw [hfin]
      constructor
      · intro h; simp at h
      · intro h
        have := h 0 r (by simp) hc.1
        simp [stateBefore, runRules, hc.2] at this
    · have hkeep : (stepRule names res r)[p]? = some Slot.unassigned := by
        rw [hstep]
        have : ¬ (r.name = s ∧ meshFree r.mesh res = true ∧ res[p]? = some Slot.unassigned) := by
          intro h; exact hc ⟨h.1, h.2.1⟩
        rw [if_neg this, hun]
      have ih' := ih (stepRule names res r) (by rw [stepRule_length, hlen]) hkeep
      simp only [runRules, List.foldl_cons] at ih' ⊢
      rw [ih']
      have hshift : ∀ i, stateBefore names res (r :: rs) (i + 1)
          = stateBefore names (stepRule names res r) rs i := by
        intro i; simp [stateBefore, runRules]
      constructor
      · intro h i r' hi hn
        cases i with
        | zero =>
          simp only [List.getElem?_cons_zero, Option.some.injEq] at hi
          rw [← hi] at hn ⊢
          have : meshFree r.mesh res ≠ true := fun h => hc ⟨hn, h⟩
          simpa [stateBefore, runRules] using this
        | succ i => rw [hshift]; exact h i r' (by simpa using hi) hn
      · intro h i r' hi hn
        rw [← hshift]
        exact h (i + 1) r' (by simpa using hi) hn

/-- … and the dimension named `s` stays unassigned (`None` in the final spec) exactly when *every*
rule for `s` was blocked by a mesh axis already in use at the moment it was processed (in
particular when there is no rule for `s`). -/
theorem mesh_axes_unassigned_iff (names : Names) (rules : List Rule) (res : List Slot) (p : Nat) (s : String)
    (h : logicalToMeshRaw names rules = .ok res) (hp : firstIdx names (some s) = some p) :
    res[p]? = some Slot.unassigned ↔
      ∀ i r, rules[i]? = some r → r.name = some s →
        meshFree r.mesh (stateBefore names (initSlots names) rules i) = false := by
  unfold logicalToMeshRaw at h
  split at h
  · simp at h
  · simp only [Except.ok.injEq] at h
    subst h
    exact unassigned_aux names rules (initSlots names) p (some s) hp (by simp [initSlots])
      (initSlots_get names p s (firstIdx_some hp))

/-- without duplicate names, `firstIdx` finds every named dimension at its own position, so
`mesh_axes_priority` speaks about every named dimension -/
theorem firstIdx_of_nodup (names : Names) (p : Nat) (s : String) (hnd : (names.filterMap id).Nodup)
    (h : names[p]? = some (some s)) : firstIdx names (some s) = some p := by
  induction names generalizing p with
  | nil => simp at h
  | cons n ns ih =>
    cases p with
    | zero => simp at h; simp [firstIdx, h]
    | succ p =>
      simp only [List.getElem?_cons_succ] at h
      have hmem : s ∈ ns.filterMap id := by
        rw [List.mem_filterMap]; exact ⟨some s, List.mem_of_getElem? h, rfl⟩
      cases n with
      | none =>
        simp only [List.filterMap_cons, id] at hnd
        simp [firstIdx, ih p hnd h]
      | some t =>
        simp only [List.filterMap_cons, id, List.nodup_cons] at hnd
        have hne : t ≠ s := by intro he; subst he; exact hnd.1 hmem
        simp [firstIdx, hne, ih p hnd.2 h]

/-- dimensions whose name is `None` stay `None`, and a dimension that received a value received it
from a rule for its own name -/
theorem mesh_axes_sound (names : Names) (rules : List Rule) (res : List Slot)
    (h : logicalToMeshRaw names rules = .ok res) (p : Nat) :
    (names[p]? = some none → res[p]? = some (.val .none)) ∧
    (∀ s m, firstIdx names (some s) = some p → res[p]? = some (.val m) →
        ∃ r ∈ rules, r.name = some s ∧ r.mesh = m) := by
  constructor
  · intro hn
    unfold logicalToMeshRaw at h
    split at h
    · simp at h
    · simp only [Except.ok.injEq] at h
      subst h
      have hinit : (initSlots names)[p]? = some (.val .none) := by
        simp [initSlots, List.getElem?_map, hn]
      -- a `None` position is never `unassigned`, so no rule can overwrite it
      generalize initSlots names = st at hinit
      induction rules generalizing st with
      | nil => exact hinit
      | cons r rs ih =>
        simp only [runRules, List.foldl_cons] at ih ⊢
        apply ih
        unfold stepRule
        split
        · exact hinit
        · rename_i pos _
          split
          · rename_i hc
            simp only [Bool.and_eq_true, decide_eq_true_eq] at hc
            rw [List.getElem?_set]
            by_cases hpp : pos = p
            · subst hpp; rw [hinit] at hc; simp at hc
            · simp [hpp, hinit]
          · exact hinit
  · intro s m hp hm
    obtain ⟨i, r, hi, hn, hmm, _, _⟩ := (mesh_axes_priority names rules res p s h hp m).mp hm
    exact ⟨r, List.mem_of_getElem? hi, hn, hmm⟩

-- the docstring example of `logical_to_mesh_axes`
example : logicalToMesh [some "batch", some "length", some "heads", some "features"]
    [⟨some "batch", .one "X"⟩, ⟨some "features", .one "X"⟩, ⟨some "heads", .one "Y"⟩, ⟨some "batch", .one "Z"⟩]
    = .ok [.one "X", .none, .one "Y", .none] := by decide
-- a tuple rule blocked by an earlier assignment, then a `None` rule pinning the dimension
example : logicalToMesh [some "a", some "b", none]
    [⟨some "a", .one "X"⟩, ⟨some "b", .many ["X", "Y"]⟩, ⟨some "b", .none⟩, ⟨some "b", .one "Z"⟩]
    = .ok [.one "X", .none, .none] := by decide
example : firstIdx [some "a", none, some "b"] (some "b") = some 2 := by decide

/-- **End to end**: stack an aligned boxed variable through any nesting of transforms, read its
partition spec, resolve it with any rule list — the mesh spec has exactly one entry per dimension of
the stacked array (and, by `mesh_axes_no_duplicate`, never the same mesh axis twice). -/
theorem end_to_end_mesh_spec {δ : Type} (ls : List (Level δ)) (ns : Names) (inner : VarBox δ) (b' : VarBox δ)
    (rules : List Rule) (hal : ns.length = inner.unbox.length)
    (h : initThrough ls (.boxed ns inner) = .ok b') :
    ∃ spec, b'.partitionSpec (fun _ => true) = some spec ∧
      ∀ res, logicalToMesh spec rules = .ok res → res.length = b'.unbox.length := by
  obtain ⟨spec, hs, hl, _⟩ := partition_spec_after_init ls ns inner b' hal h
  exact ⟨spec, hs, fun res hr => by rw [mesh_axes_length spec rules res hr, hl]⟩

example : logicalToMesh [some "in", some "layers", some "out"]
    [⟨some "layers", .none⟩, ⟨some "in", .one "X"⟩, ⟨some "out", .many ["Y", "Z"]⟩]
    = .ok [.one "X", .none, .many ["Y", "Z"]] := by decide

/-! ## the Linen → NNX metadata bridge (finding F4) -/

/-- `to_nnx_metadata` (repaired) leaves the source box exactly as it was and hands the names over
under the key `sharding` -/
theorem to_nnx_source_intact (self : PyDict) (c : Call) (h : toNnxMetadata self = some c) :
    c.self = self ∧ (∃ v, self.lookup "names" = some v ∧ fromNnxNames c.ret = some v) := by
  unfold toNnxMetadata dictPop at h
  cases hl : self.lookup "names" with
  | none => simp [hl] at h
  | some v =>
    simp only [hl, Option.map_some, Option.some.injEq] at h
    subst h
    refine ⟨rfl, v, rfl, ?_⟩
    unfold fromNnxNames dictSet
    split
    · rename_i hs
      generalize List.filter (fun kv => !decide (kv.fst = "names")) self = d at hs ⊢
      induction d with
      | nil => simp at hs
      | cons kv d ih =>
        by_cases hk : kv.1 = "sharding"
        · simp [hk]
        · have hk' : ("sharding" == kv.1) = false := by simpa using fun h => hk h.symm
          simp only [List.lookup, hk', List.map_cons, hk, ↓reduceIte] at hs ⊢
          exact ih hs
    · rename_i hs
      generalize List.filter (fun kv => !decide (kv.fst = "names")) self = d at hs ⊢
      induction d with
      | nil => simp
      | cons kv d ih =>
        by_cases hk : kv.1 = "sharding"
        · simp [List.lookup, hk] at hs
        · have hk' : ("sharding" == kv.1) = false := by simpa using fun h => hk h.symm
          simp only [List.lookup, hk', List.cons_append] at hs ⊢
          exact ih hs

/-- the shipped `to_nnx_metadata` (`metadata = vars(self)`) strips `names` from the box it converts -/
theorem orig_to_nnx_mutates_source :
    ∃ c, toNnxMetadataOrig [("value", .other "array"), ("names", .names [some "in", some "out"]), ("mesh", .other "None")] = some c ∧
      c.self.lookup "names" = none ∧
      (toNnxMetadata [("value", .other "array"), ("names", .names [some "in", some "out"]), ("mesh", .other "None")]).map
        (fun c => c.self.lookup "names") = some (some (.names [some "in", some "out"])) := by
  refine ⟨_, rfl, by decide, by decide⟩


/-! ## non-vacuity: concrete instances of the hypotheses used above -/

-- remove_add_inverse / aligned_after_slice: a successful removal at a negative index
example : removeAxis (-2) (some "S") [some "in", some "S", some "out"] = .ok [some "in", some "out"] ∧
    sliceAt (-2) [3, 4, 5] = some [3, 5] := by decide
-- remove_axis_spec: the two error branches are reachable
example : removeAxis 3 (some "S") [some "in", some "S", some "out"] = .error .indexError ∧
    removeAxis 0 (some "S") [some "in", some "S", some "out"] = .error .assertion := by decide
-- stack_accepts_iff: both sides of the range
example : stackAt (-4) 9 [3, 5] = none ∧ stackAt 3 9 [3, 5] = none ∧ stackAt (-3) 9 [3, 5] = some [9, 3, 5] ∧
    stackAt 2 9 [3, 5] = some [3, 5, 9] := by decide
-- Aligned / levelsInRange / init succeeding for a three-level nesting with mixed signs
example : initThrough [⟨-1, some "A", 2⟩, ⟨0, some "B", 4⟩, ⟨-3, some "C", 6⟩] (.boxed [some "in"] (.raw [3]))
    = .ok (.boxed [some "B", some "C", some "in", some "A"] (.raw [4, 6, 3, 2])) := by decide
-- an out-of-range level is rejected by the array side, whatever the names
example : initThrough [⟨3, some "A", 2⟩] (.boxed [some "in", some "out"] (.raw [3, 5])) = .error .axisError := by decide
-- nested boxes: only the outermost names move, the value is replaced at the bottom
example : initThrough [⟨0, some "L", 2⟩] (.boxed [some "a"] (.boxed [some "x"] (.raw [3])))
    = .ok (.boxed [some "L", some "a"] (.boxed [some "x"] (.raw [2, 3]))) := by decide
-- init_pairs on the same instance as `two_level_aligned`'s example
example : initPairs [(⟨1, some "S", 4⟩ : Level Nat), ⟨-1, some "V", 2⟩] [(some "in", 3), (some "out", 5)]
    = some [(some "in", 3), (some "S", 4), (some "out", 5), (some "V", 2)] := by decide
-- setValue on a nested box and on a raw value
example : (Box.boxed [some "a"] (.boxed [some "x"] (.raw [3]))).setValue [7]
    = .boxed [some "a"] (.boxed [some "x"] (.raw [7])) ∧ (Box.raw [3]).setValue [7] = .raw [7] := by decide
-- nnx_add_remove_inverse hypotheses
example : nnxRemoveAxis (-1) (some "L") (nnxAddAxis (-1) (some "L") (some [some "in", some "out"]))
    = .ok (some [some "in", some "out"]) ∧ nnxAddAxis (-1) (some "L") none = none := by decide
-- firstIdx_of_nodup / mesh_axes_priority hypotheses
example : ([some "a", none, some "b", none] : Names).filterMap id = ["a", "b"] ∧
    firstIdx [some "a", none, some "b", none] (some "b") = some 2 := by decide
-- duplicate names are an error
example : logicalToMesh [some "a", some "a"] [] = .error .valueError := by decide
-- to_nnx_source_intact hypothesis
example : (toNnxMetadata [("value", .other "array"), ("names", .names [some "in"]), ("mesh", .other "None")]).isSome = true := by
  decide

-- apply_restack_names / inBox_aligned / applyIn_aligned: slice, assign, stack back
example : applyIn [(⟨1, some "S", 4⟩ : Level Nat)] (.boxed [some "in", some "S", some "out"] (.raw [3, 4, 5]))
      = .ok (.boxed [some "in", some "out"] (.raw [3, 5])) ∧
    initThrough [(⟨1, some "S", 4⟩ : Level Nat)] ((Box.boxed [some "in", some "out"] (.raw [3, 5])).setValue [3, 5])
      = .ok (.boxed [some "in", some "S", some "out"] (.raw [3, 4, 5])) := by decide
-- a misaligned input is caught on the way in instead of being sliced at the wrong place
example : applyIn [(⟨-1, some "S", 4⟩ : Level Nat)] (.boxed [some "in", some "S", some "out"] (.raw [3, 5, 4]))
      = .error .assertion := by decide

end Flax.C19
