/-
C02 — The variable tree mirrors the module tree; init, apply and shape-only init agree.

Theorems over `Flax.Model.Scope` / `Flax.Model.ModuleTree`, for every module program (`SProg`: any
nesting depth, explicit and automatic names, children called several times), every naming style,
every `mutable` filter and every amount of evaluator fuel.  Helper lemmas live in
`Flax/Proofs/ScopeLemmas.lean`, `Flax/Proofs/Stable.lean`, `Flax/Proofs/PathSim.lean`,
`Flax/Proofs/ShapeSim.lean`, `Flax/Proofs/KeysSim.lean`.
-/
import Flax.Proofs.ScopeLemmas
import Flax.Proofs.Stable
import Flax.Proofs.PathSim
import Flax.Proofs.ShapeSim
import Flax.Proofs.KeysSim
import Flax.Proofs.ArgFree
import Flax.Proofs.CloneCache

namespace Flax.C02
open Flax.Filter (LFilter inFilter)
open Flax.Scope Flax.ModuleTree Flax.ScopeLemmas

/-! ## clause: each submodule's variables sit under the submodule's name -/

/-- `q` lies inside the subtree of the scope at `π`: `q = col :: π ++ rest` -/
def inScope (π : Path) (q : Path) : Prop := ∃ c rest, q = c :: (π ++ rest)

private def PLocal (π : Path) (s s' : Store) : Prop :=
  ∀ q, ¬ inScope π q → lookupP q s'.vars = lookupP q s.vars

private theorem plocal_step : StepRel PLocal where
  refl := fun _ _ _ _ => rfl
  trans := fun _ _ _ _ h1 h2 q hq => by rw [h2 q hq, h1 q hq]
  put := by
    intro π col n v s q hq
    unfold putVar
    split
    · rfl
    · split
      · rfl
      · apply lookupP_upsert_ne
        intro heq
        exact hq ⟨col, [n], heq⟩
  bump := fun _ _ _ _ _ => rfl
  child := by
    intro π nm s s' h q hq
    apply h q
    intro ⟨c, rest, hh⟩
    exact hq ⟨c, nm :: rest, by rw [hh]; simp⟩

/-- **Paths mirror the module tree.**  Whatever a module body does when it runs at module path `π`
— declaring, writing, sowing, calling children any number of times, returning or raising — it only
touches variables at paths `col :: π ++ rest`: every other path of every collection reads exactly
as before.  In particular two sibling submodules can never see or overwrite each other's state. -/
theorem paths_mirror (cfg : Cfg) (fuel : Nat) (p : SProg) (π : Path) (x : Int) (l : Local) (s : Store)
    (q : Path) (hq : ¬ inScope π q) :
    lookupP q (eval cfg fuel p π x l s).2.vars = lookupP q s.vars :=
  eval_rel plocal_step cfg fuel p π x l s q hq

/-- **A child's variables sit under the child's name**: calling child slot `k` of a module at `π`
changes nothing outside `col :: π ++ [name of k] ++ rest`. -/
theorem child_writes_under_its_name (cfg : Cfg) (fuel : Nat) (π : Path) (x : Int) (l : Local) (s : Store)
    (slot : Nat) (a : Expr) (w : Option Nat) (k : Kid) (hk : l.kids[slot]? = some k) (q : Path)
    (hq : ¬ inScope (π ++ [k.name]) q) :
    lookupP q (eval cfg (fuel + 1) (.call slot a w) π x l s).2.vars = lookupP q s.vars := by
  simp only [eval, hk]
  split
  · rfl
  · rename_i av _
    have h1 := paths_mirror cfg fuel (bindArg w k.body) (π ++ [k.name]) av {} s q hq
    split
    · rename_i heq; rw [heq] at h1; exact h1
    · rename_i lk s1 heq
      rw [heq] at h1
      have h2 := finishCall_rel plocal_step cfg (π ++ [k.name]) lk s1 q hq
      split
      · rename_i heq2; rw [heq2] at h2; simp only at h2 ⊢; rw [h2, h1]
      · rename_i heq2; rw [heq2] at h2; simp only at h2 ⊢; rw [h2, h1]

/-- **A parameter is stored exactly at `params :: π ++ [n]`** (and read back from there). -/
theorem param_stored_at_its_path (π : Path) (n : String) (shape : List Nat) (init : Int) (r r1 : Res)
    (s s1 : Store) (v : Val) (h : scopeParam π n shape init r s = (.ok (v, r1), s1)) :
    lookupP ("params" :: (π ++ [n])) s1.vars = some v := by
  unfold scopeParam at h
  split at h
  · simp at h
  · split at h
    · rename_i v0 hg
      have : lookupP ("params" :: (π ++ [n])) s.vars = some v0 := hg
      split at h
      · simp only [Prod.mk.injEq, Except.ok.injEq] at h; rw [← h.2, ← h.1.1]; exact this
      · split at h
        · simp only [Prod.mk.injEq, Except.ok.injEq] at h; rw [← h.2, ← h.1.1]; exact this
        · simp at h
    · split at h
      · split at h <;> simp at h
      · split at h
        · simp at h
        · split at h
          · rename_i s' heq
            simp only [Prod.mk.injEq, Except.ok.injEq] at h
            rw [← h.2, ← h.1.1]
            unfold putVar at heq
            split at heq
            · simp at heq
            · split at heq
              · simp at heq
              · simp only [Prod.mk.injEq, Except.ok.injEq, true_and] at heq
                rw [← heq]
                exact lookupP_upsert_self _ _ _
          · simp at h

/-- **A declared variable is stored exactly at `col :: π ++ [n]`.** -/
theorem variable_stored_at_its_path (π : Path) (col n : String) (iv : Val) (r r1 : Res) (s s1 : Store)
    (h : scopeVariable π col n iv r s = (.ok r1, s1)) : (lookupP (col :: (π ++ [n])) s1.vars).isSome = true := by
  unfold scopeVariable at h
  split at h
  · simp at h
  · split at h
    · rename_i hv
      simp only [Prod.mk.injEq, Except.ok.injEq] at h
      rw [← h.2]; exact hv
    · split at h
      · split at h <;> simp at h
      · split at h
        · rename_i s' heq
          simp only [Prod.mk.injEq, Except.ok.injEq] at h
          rw [← h.2]
          unfold putVar at heq
          split at heq
          · simp at heq
          · split at heq
            · simp at heq
            · simp only [Prod.mk.injEq, Except.ok.injEq, true_and] at heq
              rw [← heq]
              simp only [fullPath, lookupP_upsert_self, Option.isSome_some]
        · simp at h

/-! ## clause: never creates, drops or renames a variable -/

/-- **No variable is ever dropped**: every path that holds a variable when `apply` starts still
holds one in the scope's final store (for every program, filter and outcome). -/
theorem apply_never_drops (cfg : Cfg) (fuel : Nat) (p : SProg) (m : LFilter) (V : Vars) (rngs : List String)
    (x : Int) (q : Path) (hq : (lookupP q V.vars).isSome = true) :
    (lookupP q (ModuleTree.apply cfg fuel p m V rngs x).final.vars).isSome = true := by
  unfold ModuleTree.apply Scope.apply
  split
  · exact hq
  · have h := runTop_rel keyskept_step cfg fuel p x (Scope.bind (effMutable cfg m) V rngs) q hq
    split
    · rename_i heq; rw [heq] at h; exact h
    · rename_i heq; rw [heq] at h; exact h

/-! ## clause: a missing or wrongly-shaped parameter raises instead of being re-initialised -/

/-- the error a missing parameter produces, depending on whether the whole collection is missing -/
def missingParamErr (s : Store) : Err := if colEmpty s "params" then .collectionNotFound else .paramNotFound

/-- **Missing parameter.**  With `'params'` not mutable, asking for a parameter that is not in the
variables raises `ScopeParamNotFoundError` (`ScopeCollectionNotFound` when the collection is empty);
nothing is initialised or written.  (A name clash is detected first.) -/
theorem missing_param_raises (π : Path) (n : String) (shape : List Nat) (init : Int) (r : Res) (s : Store)
    (himm : inFilter s.mutable "params" = false) (habs : getVar s π "params" n = none)
    (hfree : nameReserved r n (some "params") = false) :
    scopeParam π n shape init r s = (.error (missingParamErr s), s) := by
  unfold scopeParam reserve missingParamErr
  simp only [hfree, Bool.false_eq_true, if_false, habs, isMutable, himm, Bool.not_false, if_true]
  split <;> rfl

/-- **Wrongly-shaped parameter.**  A stored value whose (first) leaf has another shape than the one
the module declares raises `ScopeParamShapeError` — whether or not `'params'` is mutable — and the
stored value is left alone. -/
theorem misshaped_param_raises (π : Path) (n : String) (shape sh : List Nat) (d : List Int) (init : Int)
    (r : Res) (s : Store) (hv : getVar s π "params" n = some (.tensor sh d)) (hsh : sh ≠ shape)
    (hfree : nameReserved r n (some "params") = false) :
    scopeParam π n shape init r s = (.error .paramShape, s) := by
  unfold scopeParam reserve
  simp [hfree, hv, Val.leafShapes, hsh]

/-- **Never a silent re-initialisation.**  While `'params'` is immutable (the default of `apply`),
no program, however it is nested, performs a single parameter initialisation: the counter of
`make_rng('params')` draws made through `param` is the same when the call ends — returning or raising. -/
theorem immutable_never_initialises (cfg : Cfg) (fuel : Nat) (p : SProg) (m : LFilter) (V : Vars)
    (rngs : List String) (x : Int) (himm : inFilter (effMutable cfg m) "params" = false) :
    (ModuleTree.apply cfg fuel p m V rngs x).final.inits = 0 := by
  unfold ModuleTree.apply Scope.apply
  split
  · rfl
  · have f := runTop_frame cfg fuel p x (Scope.bind (effMutable cfg m) V rngs)
    have h0 : (Scope.bind (effMutable cfg m) V rngs).inits = 0 := rfl
    split
    · rename_i heq; rw [heq] at f; rw [← h0]; exact f.inits_imm himm
    · rename_i heq; rw [heq] at f; rw [← h0]; exact f.inits_imm himm

/-- **Program level**: a `param` statement for a parameter that is absent, under immutable
`'params'`, makes the body raise exactly the missing-parameter error, with the store untouched. -/
theorem missing_or_misshaped_raises (cfg : Cfg) (fuel : Nat) (π : Path) (x : Int) (l : Local) (s : Store)
    (n : String) (shape : List Dim) (init : Int)
    (hfree : nameReserved l.res n (some "params") = false) :
    (inFilter s.mutable "params" = false → getVar s π "params" n = none →
      eval cfg (fuel + 1) (.param n shape init) π x l s = (.error (missingParamErr s), s)) ∧
    (∀ sh d, getVar s π "params" n = some (.tensor sh d) → sh ≠ resolveDims shape →
      eval cfg (fuel + 1) (.param n shape init) π x l s = (.error .paramShape, s)) := by
  constructor
  · intro himm habs
    simp only [eval, missing_param_raises π n (resolveDims shape) init l.res s himm habs hfree]
  · intro sh d hv hsh
    simp only [eval, misshaped_param_raises π n (resolveDims shape) sh d init l.res s hv hsh hfree]

/-! ## clause: a name clash raises instead of silently sharing or overwriting state -/

/-- what a declaration statement reserves: `(name, None)` for a submodule, `(name, col)` for a variable -/
def declares : SProg → String → Option String → Prop
  | .child _ (some nm) _, n, co => nm = n ∧ co = none
  | .var c nm _ _, n, co => nm = n ∧ co = some c
  | .param nm _ _, n, co => nm = n ∧ co = some "params"
  | _, _, _ => False

/-- two reservations of one name clash unless they are variables of different collections -/
def clashes (co co' : Option String) : Prop := co = none ∨ co' = none ∨ co = co'

private theorem nameReserved_of_mem {r : Res} {n : String} {co co' : Option String} (hm : (n, co) ∈ r)
    (hc : clashes co co') : nameReserved r n co' = true := by
  unfold nameReserved
  rw [List.any_eq_true]
  refine ⟨(n, co), hm, ?_⟩
  rcases hc with h | h | h
  · simp [h]
  · simp [h]
  · simp [h]

private theorem declares_reserves (cfg : Cfg) (fuel : Nat) (A : SProg) (n : String) (co : Option String)
    (hA : declares A n co) (π : Path) (x : Int) (l l1 : Local) (s s1 : Store)
    (h : eval cfg fuel A π x l s = (.ok l1, s1)) : (n, co) ∈ l1.res := by
  cases fuel with
  | zero => simp [eval] at h
  | succ fuel =>
    cases A with
    | child cls name body =>
      cases name with
      | none => exact absurd hA (by simp [declares])
      | some nm =>
        obtain ⟨rfl, rfl⟩ := hA
        simp only [eval, childName] at h
        split at h
        · simp at h
        · rename_i r hr
          simp only [Prod.mk.injEq, Except.ok.injEq] at h
          rw [← h.1, reserve_mono hr]
          exact List.mem_cons_self
    | var c nm shape init =>
      obtain ⟨rfl, rfl⟩ := hA
      simp only [eval] at h
      split at h
      · simp at h
      · split at h
        · simp at h
        · rename_i r s2 heq
          split at h
          · simp only [Prod.mk.injEq, Except.ok.injEq] at h
            rw [← h.1]
            simp only [push, scopeVariable_res heq]
            exact List.mem_cons_self
          · simp at h
    | param nm shape init =>
      obtain ⟨rfl, rfl⟩ := hA
      simp only [eval] at h
      split at h
      · rename_i v r s2 heq
        simp only [Prod.mk.injEq, Except.ok.injEq] at h
        rw [← h.1]
        simp only [scopeParam_res heq]
        exact List.mem_cons_self
      · simp at h
    | skip => exact absurd hA (by simp [declares])
    | seq a b => exact absurd hA (by simp [declares])
    | bind e => exact absurd hA (by simp [declares])
    | ret e => exact absurd hA (by simp [declares])
    | get c nm => exact absurd hA (by simp [declares])
    | put c rl nm e => exact absurd hA (by simp [declares])
    | sow c nm e => exact absurd hA (by simp [declares])
    | perturb c nm e => exact absurd hA (by simp [declares])
    | call slot a w => exact absurd hA (by simp [declares])
    | nested b m V a => exact absurd hA (by simp [declares])

private theorem declares_blocked (cfg : Cfg) (fuel : Nat) (B : SProg) (n : String) (co' : Option String)
    (hB : declares B n co') (π : Path) (x : Int) (l l1 : Local) (s s1 : Store)
    (hres : nameReserved l.res n co' = true) : eval cfg fuel B π x l s ≠ (.ok l1, s1) := by
  intro h
  cases fuel with
  | zero => simp [eval] at h
  | succ fuel =>
    cases B with
    | child cls name body =>
      cases name with
      | none => exact absurd hB (by simp [declares])
      | some nm =>
        obtain ⟨rfl, rfl⟩ := hB
        simp [eval, childName, reserve, hres] at h
    | var c nm shape init =>
      obtain ⟨rfl, rfl⟩ := hB
      simp only [eval] at h
      split at h
      · simp at h
      · simp [scopeVariable, reserve, hres] at h
    | param nm shape init =>
      obtain ⟨rfl, rfl⟩ := hB
      simp [eval, scopeParam, reserve, hres] at h
    | skip => exact absurd hB (by simp [declares])
    | seq a b => exact absurd hB (by simp [declares])
    | bind e => exact absurd hB (by simp [declares])
    | ret e => exact absurd hB (by simp [declares])
    | get c nm => exact absurd hB (by simp [declares])
    | put c rl nm e => exact absurd hB (by simp [declares])
    | sow c nm e => exact absurd hB (by simp [declares])
    | perturb c nm e => exact absurd hB (by simp [declares])
    | call slot a w => exact absurd hB (by simp [declares])
    | nested b m V a => exact absurd hB (by simp [declares])

/-- **Name clashes raise.**  In one module body, after a declaration `A` of name `n` (a submodule, a
variable or a parameter) and any statements `Q` in between, a second declaration `B` of the same
name that clashes with it — submodule/submodule, submodule/variable, variable/submodule, or two
variables of one collection — can never complete: the body does not return (it raises
`NameInUseError`, unless `A` or `Q` already raised). -/
theorem name_clash_raises (cfg : Cfg) (fuel : Nat) (A Q B : SProg) (n : String) (co co' : Option String)
    (hA : declares A n co) (hB : declares B n co') (hc : clashes co co')
    (π : Path) (x : Int) (l l1 : Local) (s s1 : Store) :
    eval cfg fuel (.seq A (.seq Q B)) π x l s ≠ (.ok l1, s1) := by
  intro h
  cases fuel with
  | zero => simp [eval] at h
  | succ f1 =>
    simp only [eval] at h
    cases hA1 : eval cfg f1 A π x l s with
    | mk res sA =>
      rw [hA1] at h
      cases res with
      | error e => simp at h
      | ok lA =>
        simp only at h
        have hmem := declares_reserves cfg f1 A n co hA π x l lA s sA hA1
        cases f1 with
        | zero => simp [eval] at h
        | succ f2 =>
          simp only [eval] at h
          cases hQ1 : eval cfg f2 Q π x lA sA with
          | mk res2 sQ =>
            rw [hQ1] at h
            cases res2 with
            | error e => simp at h
            | ok lQ =>
              simp only at h
              have hmem2 := eval_res_mono cfg f2 Q π x lA lQ sA sQ hQ1 _ hmem
              exact declares_blocked cfg f2 B n co' hB π x lQ l1 sQ s1 (nameReserved_of_mem hmem2 hc) h

/-- the error is `NameInUseError` when the clash is reached -/
theorem name_clash_error (cfg : Cfg) (fuel : Nat) (cls : String) (nm : String) (body : SProg) (π : Path) (x : Int)
    (l : Local) (s : Store) (co : Option String) (hm : (nm, co) ∈ l.res) :
    eval cfg (fuel + 1) (.child cls (some nm) body) π x l s = (.error .nameInUse, s) := by
  have := nameReserved_of_mem (co' := none) hm (Or.inr (Or.inl rfl))
  simp [eval, childName, reserve, this]

/-- **Two variables of different collections may share a name**: a reservation `(n, col)` does not
block `(n, col')` for `col' ≠ col`. -/
theorem different_collections_share_name (r : Res) (n col col' : String) (hne : col' ≠ col)
    (hr : ∀ e ∈ r, e.1 = n → e.2 = some col) : nameReserved r n (some col') = false := by
  unfold nameReserved
  rw [Bool.eq_false_iff]
  intro h
  rw [List.any_eq_true] at h
  obtain ⟨e, he, hp⟩ := h
  simp only [Bool.and_eq_true, Bool.or_eq_true, decide_eq_true_eq] at hp
  have := hr e he hp.1
  rcases hp.2 with (h1 | h1) | h1
  · rw [this] at h1; exact absurd h1 (by simp)
  · exact absurd h1 (by simp)
  · rw [this] at h1; injection h1 with h1; exact hne h1.symm

/-! ## clause: init's variables are exactly what apply consumes -/

open Flax.Stable in
/-- **Init and apply agree.**  For a program that declares parameters and variables and calls
submodules (no `put`/`sow`/`perturb`, and no `get_variable` that could observe a not-yet-created
variable — `declOnly`), without `capture_intermediates`: if `init` returns `(y, V)` then `apply` on
`V`, with *any* `mutable` filter and any RNGs (none needed), returns the same `y`; it performs no
initialisation; and the scope's final store is exactly the one bound from `V` — nothing created,
dropped or renamed.  (`V` must pass `apply`'s `{'params': {'params': …}}` guard, see
`toplevel_params_name_rejected`.) -/
theorem init_apply_agree (cfg : Cfg) (hcap : cfg.capture = false) (fuel : Nat) (p : SProg)
    (hp : declOnly p = true) (m : LFilter) (rngs : List String) (x y : Int) (V : Vars)
    (hinit : (ModuleTree.init cfg fuel p m rngs x).result = .ok (y, V))
    (hbs : badStructure V = false) (m2 : LFilter) (rngs2 : List String) :
    (ModuleTree.apply cfg fuel p m2 V rngs2 x).result = .ok (y, mutableVariables (Scope.bind m2 V rngs2)) ∧
    (ModuleTree.apply cfg fuel p m2 V rngs2 x).final = Scope.bind m2 V rngs2 :=
  init_apply_agree_aux cfg hcap fuel p hp m rngs x y V hinit hbs m2 rngs2

/-- **Apply never creates, drops or renames a variable** — for *every* program, stateful ones
included (counters, running statistics, sow, perturb, children called repeatedly), in the Linen
styles.  If `init` (with filter `m`) returned `V`, then applying on `V` with any argument, any RNGs
and any filter `m2` that selects no collection `m` did not select, the scope's final store — whether
the call returns or raises — has a variable at exactly the paths where `V` has one.  (`m := True`
makes the side condition vacuous; with Linen's default `DenyList('intermediates')` for `init`, an
`apply(mutable=True)` may of course create the `'intermediates'` collection that `init` was told to
leave out.) -/
theorem apply_keeps_tree (cfg : Cfg) (hst : cfg.style ≠ .core) (fuel : Nat) (p : SProg) (m : LFilter)
    (rngs : List String) (x y : Int) (V : Vars)
    (hinit : (ModuleTree.init cfg fuel p m rngs x).result = .ok (y, V))
    (m2 : LFilter) (rngs2 : List String) (x2 : Int)
    (hle : ∀ c, inFilter (effMutable cfg m2) c = true → inFilter (effMutable cfg m) c = true) (q : Path) :
    (lookupP q (ModuleTree.apply cfg fuel p m2 V rngs2 x2).final.vars).isSome = (lookupP q V.vars).isSome :=
  Flax.KeysSim.apply_keeps_tree_aux cfg hst fuel p m rngs x y V hinit m2 rngs2 x2 hle q

/-- the side condition of `apply_keeps_tree` is needed: `init` with the default filter leaves a sown
`'intermediates'` value out, `apply(mutable=True)` creates it -/
theorem keeps_tree_filter_needed :
    ∃ y V, (ModuleTree.init {} 5 (.seq (.sow "intermediates" "h" .arg) (.ret .arg)) initDefault ["params"] 1).result
        = .ok (y, V) ∧ lookupP ["intermediates", "h"] V.vars = none ∧
      (lookupP ["intermediates", "h"]
        (ModuleTree.apply {} 5 (.seq (.sow "intermediates" "h" .arg) (.ret .arg)) .tt V [] 1).final.vars).isSome = true := by
  refine ⟨1, ⟨[], []⟩, ?_, ?_, ?_⟩ <;> decide +kernel

/-- the guard is needed: a top-level parameter called `'params'` initialises fine and is then
rejected by `apply` (`ApplyScopeInvalidVariablesStructureError`) -/
theorem toplevel_params_name_rejected :
    ∃ y V, (ModuleTree.init {} 5 (.seq (.param "params" [] 3) (.ret (.loc 0))) initDefault ["params"] 0).result
        = .ok (y, V) ∧
      (ModuleTree.apply {} 5 (.seq (.param "params" [] 3) (.ret (.loc 0))) .ff V [] 0).result
        = .error .invalidStructure := by
  refine ⟨3, ⟨["params"], [(["params", "params"], .tensor [] [3])]⟩, ?_, ?_⟩ <;> decide +kernel

/-! ## clause: a submodule applied on its own subtree computes what it computes inside its parent -/

open Flax.PathSim in
/-- **Submodules are compositional.**  Let a module body run at path `π'` inside a parent, from
store `s`, and return.  Run the *same* body as a top-level module from any store `t` that is `s`'s
subtree at `π'` re-rooted (`Reroot π' s t`: same filter and RNG streams, and `t` reads at
`col :: rest` what `s` reads at `col :: π' ++ rest`).  Then the standalone run returns the same
locals — in particular the same output — and ends in the re-rooted subtree of the parent's final
store. -/
theorem submodule_compositional (cfg : Cfg) (fuel : Nat) (body : SProg) (π' : Path) (x : Int) (l l1 : Local)
    (s s1 t : Store) (hrel : Reroot π' s t)
    (h : eval cfg fuel body π' x l s = (.ok l1, s1)) :
    ∃ t1, eval cfg fuel body [] x l t = (.ok l1, t1) ∧ Reroot π' s1 t1 := by
  have := eval_reroot cfg π' fuel body [] x l l1 s t s1 hrel (by simpa using h)
  simpa using this

open Flax.PathSim in
/-- the variables a user extracts for a submodule (`{col: V[col][n₁]…[nₖ]}`) are a re-rooting -/
theorem restrict_is_reroot (π' : Path) (m : LFilter) (V : Vars) (hV : HeadsIn V) (rngs : List String) :
    Reroot π' (Scope.bind m V rngs) (Scope.bind m (restrict π' V) rngs) :=
  reroot_bind π' m V hV rngs

/-! ## clause: bind / unbind of any submodule -/

open Flax.PathSim in
/-- **`unbind(bind(m, V))` gives back `m` and `V`.**  Binding a module to variables and unbinding it
returns the same module (same body; unbound; name reset to `None`, which for a top-level module it already
was) and variables with the same collections that read, at every path, exactly like `V`. -/
theorem unbind_bind (m : Mod) (V : Vars) (rngs : List String) :
    ∃ V', (m.bind V rngs).unbind = some ({ body := m.body, name := none, bound := none }, V') ∧
      V'.cols = V.cols ∧ ∀ c rest, lookupP (c :: rest) V'.vars = lookupP (c :: rest) V.vars := by
  refine ⟨scopeVariables [] (Scope.bind .ff V rngs), rfl, ?_, ?_⟩
  · simp [scopeVariables, restrict, Scope.bind, List.map_map, Function.comp_def]
  · intro c rest
    have := lookupP_restrict [] c rest V.vars
    simpa [scopeVariables, restrict, Scope.bind] using this

open Flax.PathSim in
/-- **A bound submodule's variables are exactly `V↾path`.**  For a module bound at path `π` over store `s`
and its child `k`: unbinding the child returns the child's body (names reset) and variables that read at
`col :: rest` what the parent's store reads at `col :: π ++ [k.name] ++ rest`; the collections handed out
are those in which the child has a variable. -/
theorem bound_submodule_variables (m : Mod) (π : Path) (s : Store) (hb : m.bound = some (π, s)) (k : Kid) :
    ∃ Vk, (m.child k).unbind = some ({ body := k.body, name := none, bound := none }, Vk) ∧
      (∀ c rest, lookupP (c :: rest) Vk.vars = lookupP (c :: ((π ++ [k.name]) ++ rest)) s.vars) ∧
      (∀ c ∈ Vk.cols, ∃ kv ∈ Vk.vars, kv.1.head? = some c) := by
  refine ⟨scopeVariables (π ++ [k.name]) s, by simp [Mod.child, Mod.unbind, hb], ?_, ?_⟩
  · intro c rest
    exact lookupP_restrict (π ++ [k.name]) c rest s.vars
  · intro c hc
    unfold scopeVariables at hc ⊢
    simp only at hc ⊢
    have hne : (π ++ [k.name] = []) = False := by simp
    simp only [hne, if_false, List.mem_filter, List.any_eq_true, decide_eq_true_eq] at hc
    exact hc.2

open Flax.PathSim in
/-- **Unbind, then apply = the bound call.**  If the body of a submodule, run at its path `π'` inside
the parent's store `s` (every leaf of which sits in a collection of `s`), returns locals `l1`, then
the same body run as a top-level module over the variables `unbind()` hands out for that submodule — bound
with the same filter and RNG streams — returns the same locals (same output) and ends in the re-rooted
subtree of the parent's final store. -/
theorem unbind_then_apply (cfg : Cfg) (fuel : Nat) (body : SProg) (π' : Path) (x : Int) (l l1 : Local)
    (s s1 : Store) (hs : StoreHeadsIn s) (h : eval cfg fuel body π' x l s = (.ok l1, s1)) :
    ∃ t1, eval cfg fuel body [] x l (Scope.bind s.mutable (scopeVariables π' s) s.rngs) = (.ok l1, t1) ∧
      Reroot π' s1 t1 :=
  submodule_compositional cfg fuel body π' x l l1 s s1 _ (reroot_scopeVariables π' s hs) h

/-! ## clause: submodules shared between parents stay shared (the deep clone `init`/`apply`/`bind` run on) -/

open Flax.CloneCache in
/-- **`clone_preserves_sharing`.**  `Module.clone(_deep_clone=True)` visits the module-valued positions of
all dataclass fields (at any depth, in lists and dicts) with one id-keyed cache.  For any number of fields,
in any order, with the references anywhere: after the clone two positions hold the same instance exactly
when they did before, and every instance is a new object (`_id ≥ fresh`), so adoption — which recognises a
shared instance by the `_id` of its clone — gives one instance one subtree, under the path that adopts it
first. -/
theorem clone_preserves_sharing (fields : List (List Nat)) (fresh : Nat) :
    (deepClone fields fresh).map List.length = fields.map List.length ∧
    (deepClone fields fresh).flatten.length = fields.flatten.length ∧
    (∀ a b (ha : a < fields.flatten.length) (hb : b < fields.flatten.length)
        (ha' : a < (deepClone fields fresh).flatten.length) (hb' : b < (deepClone fields fresh).flatten.length),
      ((deepClone fields fresh).flatten[a] = (deepClone fields fresh).flatten[b] ↔
        fields.flatten[a] = fields.flatten[b])) ∧
    (∀ a (ha' : a < (deepClone fields fresh).flatten.length), fresh ≤ (deepClone fields fresh).flatten[a]) :=
  ⟨(cloneFields_flatten fields [] fresh).2, deepClone_positions fields fresh⟩

open Flax.CloneCache in
/-- what goes wrong when the cache is not the one shared object: cloning the first field with a private
cache (the rest with another) turns one table referenced from two sibling fields into two instances -/
theorem private_cache_breaks_sharing :
    deepClone [[7], [7]] 100 = [[100], [100]] ∧
    ((cloneRefs [7] [] 100).1, (cloneRefs [7] [] (cloneRefs [7] [] 100).2.2).1) = ([100], [101]) := by
  decide

/-! ## clause: shape-only initialisation (tied to `lazy_init`/`eval_shape`/`jit` by correspondence only) -/

open Flax.ShapeSim in
/-- **Shapes do not depend on values** (`lazy_init_shapes_partial`).  Full statement wanted:
`Module.lazy_init`, `jax.eval_shape(init)` and `jax.jit(init)` return the tree structure, shapes and
dtypes of concrete `init`.  Those three run the module under JAX tracing, which this model does not
contain; what is proved is the part that is flax's own: the control flow of a module program —
which variables it creates, under which names, with which shapes, and whether it raises — does not
depend on the *values* of the argument or of the stored arrays.  Two inits with different arguments
succeed together and return trees that are equal once every array entry is replaced by 0.  The
agreement of the real shape-only entry points with concrete `init` is checked by the harness. -/
theorem lazy_init_shapes_partial (cfg : Cfg) (fuel : Nat) (p : SProg) (m : LFilter) (rngs : List String)
    (x x' y : Int) (V : Vars) (h : (ModuleTree.init cfg fuel p m rngs x).result = .ok (y, V)) :
    ∃ y' V', (ModuleTree.init cfg fuel p m rngs x').result = .ok (y', V') ∧ Vars.abstract V' = Vars.abstract V :=
  init_shapes cfg fuel p m rngs x x' y V h

/-- **What `lazy_init` needs, as far as flax decides it.**  `partial_eval.lazy_init` marks every
`ShapeDtypeStruct` argument *unknown*, partially evaluates `init`, and raises `LazyInitError` unless every
returned variable is *known*, i.e. computed without the unknown arguments; the known values are returned
as they are.  For a program in which nothing that is stored depends on the call argument (`argFree`:
constant variable initialisers / `put` / `sow` / `perturb` values — parameters always are), the variables
`init` returns are literally the same for every argument: the returned tree is a function of the program,
the filter and the RNG streams alone, which is exactly the condition under which `lazy_init` returns and
what it then returns.  (That JAX's partial evaluator classifies such outputs as known is JAX; checked on the
implementation: `lazy_init` returns concrete `init`'s values on these programs.) -/
theorem lazy_init_values (cfg : Cfg) (hcap : cfg.capture = false) (fuel : Nat) (p : SProg) (hp : argFree p = true)
    (m : LFilter) (rngs : List String) (x x' y : Int) (V : Vars)
    (h : (ModuleTree.init cfg fuel p m rngs x).result = .ok (y, V)) :
    ∃ y', (ModuleTree.init cfg fuel p m rngs x').result = .ok (y', V) :=
  Flax.ArgFree.init_argfree cfg hcap fuel p hp m rngs x x' y V h

/-- **`lazy_init_eq_init_shape`, for every filter.**  The model's `init` takes the caller's `mutable` filter; with
the *same* filter `m`, an init whose argument is abstract (any other argument value `x'`) succeeds exactly like the
concrete one and returns the same collections, paths and shapes — and, when nothing stored depends on the argument,
literally the same variables.  So the shape-only entry points called with the caller's filter agree with concrete
`init` called with that filter, whichever collections the filter selects (the default
`DenyList('intermediates')`, `True`, a list of names, a `DenyList` that also excludes `'losses'`, …). -/
theorem lazy_init_eq_init_shape (cfg : Cfg) (fuel : Nat) (p : SProg) (m : LFilter) (rngs : List String)
    (x x' y : Int) (V : Vars) (h : (ModuleTree.init cfg fuel p m rngs x).result = .ok (y, V)) :
    (∃ y' V', (ModuleTree.init cfg fuel p m rngs x').result = .ok (y', V') ∧ Vars.abstract V' = Vars.abstract V) ∧
    (cfg.capture = false → argFree p = true → ∃ y', (ModuleTree.init cfg fuel p m rngs x').result = .ok (y', V)) :=
  ⟨lazy_init_shapes_partial cfg fuel p m rngs x x' y V h,
   fun hcap hp => lazy_init_values cfg hcap fuel p hp m rngs x x' y V h⟩

/-- a filter that leaves a collection out makes the model's `init` skip the sow into it: the returned tree differs
between filters, which is why the shape-only entry points must be given the caller's filter -/
theorem init_depends_on_filter :
    ((ModuleTree.init {} 5 (.seq (.sow "losses" "l" (.const 2)) (.ret .arg)) (.deny (.names ["intermediates", "losses"])) ["params"] 1).result.toOption.map (·.2.cols)) = some [] ∧
    ((ModuleTree.init {} 5 (.seq (.sow "losses" "l" (.const 2)) (.ret .arg)) initDefault ["params"] 1).result.toOption.map (·.2.cols)) = some ["losses"] := by
  decide +kernel

/-- `argFree` is needed: a variable initialised from the argument differs between arguments -/
theorem arg_free_needed :
    argFree (.var "stats" "v" [] .arg) = false ∧
    (ModuleTree.init {} 5 (.var "stats" "v" [] .arg) .tt [] 1).result.toOption.map (·.2.vars)
      ≠ (ModuleTree.init {} 5 (.var "stats" "v" [] .arg) .tt [] 2).result.toOption.map (·.2.vars) := by
  decide +kernel

/-! ## non-vacuity -/

/-- a nested program: auto-named and explicitly named children, a child called twice -/
def demo : SProg :=
  .seq (.param "w" [.lit 2] 3) <|
  .seq (.child "A" none (.seq (.param "k" [.lit 3] 1) (.seq (.var "stats" "m" [2] (.const 2)) (.ret (.add (.loc 0) (.mul .arg (.loc 1))))))) <|
  .seq (.child "A" none (.seq (.child "B" (some "inner") (.seq (.param "b" [] 4) (.ret (.loc 0)))) (.seq (.call 0 .arg none) (.ret (.loc 0))))) <|
  .seq (.call 0 (.loc 0) none) <|
  .seq (.call 0 (.loc 1) none) <|
  .seq (.call 1 (.loc 2) none) <|
  .ret (.add (.loc 2) (.loc 3))

def demoV : Vars :=
  { cols := ["params", "stats"],
    vars := [(["params", "w"], .tensor [2] [3, 3]), (["params", "A_0", "k"], .tensor [3] [1, 1, 1]),
             (["stats", "A_0", "m"], .tensor [2] [2, 2]), (["params", "A_1", "inner", "b"], .tensor [] [4])] }

example : declOnly demo = true := by decide

example : argFree demo = true := by decide

example : (ModuleTree.init {} 50 demo initDefault ["params"] 1).result = .ok (115, demoV) := by decide +kernel

/-- `init_apply_agree` instance: apply with `mutable=False`, no RNGs -/
example : (ModuleTree.apply {} 50 demo .ff demoV [] 1).result = .ok (115, ⟨[], []⟩) := by decide +kernel

/-- a per-feature scale whose parameter shape follows the argument's last axis, used on two widths -/
def scaleTwice (w1 w2 : Nat) : SProg :=
  .seq (.child "Scale" none (.seq (.param "scale" [.argLast] 1) (.ret (.mul .arg (.loc 0))))) <|
  .seq (.call 0 .arg (some w1)) <| .seq (.call 0 .arg (some w2)) <| .ret (.add (.loc 0) (.loc 1))

/-- same width twice: plain sharing; init and apply agree -/
example : (ModuleTree.init {} 20 (scaleTwice 4 4) .tt ["params"] 2).result
    = .ok (16, ⟨["params"], [(["params", "Scale_0", "scale"], .tensor [4] [1, 1, 1, 1])]⟩) := by decide +kernel

/-- **A wrongly-shaped parameter raises during `init` too**: the second use asks for shape `(1,)` of a
parameter created with shape `(4,)` a moment ago (instance of `misshaped_param_raises`, which holds
whatever the filter and flags) -/
theorem init_rejects_second_shape :
    (ModuleTree.init {} 20 (scaleTwice 4 1) .tt ["params"] 2).result = .error .paramShape := by decide +kernel

/-- a stateful program (counter, sow, child called twice) for `apply_keeps_tree` -/
def statefulDemo : SProg :=
  .seq (.child "A" none
    (.seq (.var "stats" "cnt" [] (.const 0)) <|
     .seq (.put "stats" [] "cnt" (.add (.loc 0) (.const 1))) <|
     .seq (.sow "inter" "h" .arg) <|
     .ret (.add .arg (.loc 0)))) <|
  .seq (.call 0 .arg none) <| .seq (.call 0 (.loc 0) none) <| .ret (.loc 1)

def statefulV : Vars :=
  { cols := ["stats", "inter"],
    vars := [(["stats", "A_0", "cnt"], .tensor [] [2]), (["inter", "A_0", "h"], .tup [([], [3]), ([], [3])])] }

/-- hypothesis of `apply_keeps_tree`: init with `mutable=True` returns the whole tree … -/
example : (ModuleTree.init {} 50 statefulDemo .tt ["params"] 3).result = .ok (4, statefulV) := by decide +kernel

/-- … and an apply that changes the counter and extends the sown tuple has the same two paths -/
example : ((ModuleTree.apply {} 50 statefulDemo .tt statefulV [] 3).final.vars.map (·.1)) =
    [["stats", "A_0", "cnt"], ["inter", "A_0", "h"]] := by decide +kernel

/-- `bound_submodule_variables` instance: unbinding child `A_0` of `demo` bound to `demoV` -/
example : ((Mod.bind { body := demo } demoV []).child ⟨"A_0", .skip⟩).unbind.map (·.2) =
    some ⟨["params", "stats"], [(["params", "k"], .tensor [3] [1, 1, 1]), (["stats", "m"], .tensor [2] [2, 2])]⟩ := by
  decide +kernel

/-- hypothesis of `unbind_then_apply`: stores bound from a dict-of-dicts have every leaf in a collection -/
example : Flax.PathSim.StoreHeadsIn (Scope.bind .ff demoV []) :=
  Flax.PathSim.storeHeadsIn_bind .ff demoV (by
    intro kv hkv c r hc
    simp only [demoV, List.mem_cons, List.not_mem_nil, or_false] at hkv
    rcases hkv with rfl | rfl | rfl | rfl <;> (simp only [List.cons.injEq] at hc; simp [demoV, ← hc.1])) []

/-- hypotheses of `name_clash_raises`: two children named `foo` with something in between -/
example : (eval {} 10 (.seq (.child "A" (some "foo") .skip) (.seq (.bind (.const 1)) (.child "B" (some "foo") .skip)))
    [] 0 {} (Scope.bind .tt Vars.empty ["params"])).1 = .error .nameInUse := by decide +kernel

/-- a submodule and a variable of the same name clash -/
example : (eval {} 10 (.seq (.child "A" (some "foo") .skip) (.seq .skip (.var "stats" "foo" [] (.const 0))))
    [] 0 {} (Scope.bind .tt Vars.empty ["params"])).1 = .error .nameInUse := by decide +kernel

/-- three steps: a name used in collection A, then (legally) in B, then again in B — the reservations keep the
whole set of collections of a name, so the third declaration raises -/
example : (eval {} 10 (.seq (.var "stats" "v" [] (.const 1)) (.seq (.var "cache" "v" [] (.const 2)) (.var "cache" "v" [3] (.const 5))))
    [] 0 {} (Scope.bind .tt Vars.empty ["params"])).1 = .error .nameInUse := by decide +kernel

/-- two variables of different collections with one name do not -/
example : ((eval {} 10 (.seq (.var "cache" "v" [] (.const 1)) (.seq .skip (.var "stats" "v" [] (.const 2))))
    [] 0 {} (Scope.bind .tt Vars.empty ["params"])).1.toOption.map (·.env)) = some [1, 2] := by decide +kernel

/-- hypotheses of `missing_param_raises` / `misshaped_param_raises` -/
example : scopeParam ["A_0"] "nope" [3] 1 [] (Scope.bind .ff demoV []) = (.error .paramNotFound, Scope.bind .ff demoV []) := by
  decide +kernel

example : scopeParam ["A_0"] "k" [4] 1 [] (Scope.bind .tt demoV ["params"])
    = (.error .paramShape, Scope.bind .tt demoV ["params"]) := by decide +kernel

/-- `submodule_compositional` instance: child `A_0` applied on its own subtree returns what it
returns inside the parent (second call, argument 13 → 1·3 + 13·4 = 55) -/
example : ((eval {} 20 (.seq (.param "k" [.lit 3] 1) (.seq (.var "stats" "m" [2] (.const 2)) (.ret (.add (.loc 0) (.mul .arg (.loc 1))))))
      [] 13 {} (Scope.bind .ff (restrict ["A_0"] demoV) [])).1.toOption.map (·.out)) = some 55 ∧
    ((eval {} 20 (.seq (.param "k" [.lit 3] 1) (.seq (.var "stats" "m" [2] (.const 2)) (.ret (.add (.loc 0) (.mul .arg (.loc 1))))))
      ["A_0"] 13 {} (Scope.bind .ff demoV [])).1.toOption.map (·.out)) = some 55 := by decide +kernel

end Flax.C02
