/-
C16 — Flatten/unflatten of nested dicts and NNX State conversions are mutual inverses.
Property theorems (public `theorem`s); helper lemmas are `private` or live in Flax/Proofs/Traverse*.lean.
-/
import Flax.Model.Traverse
import Flax.Proofs.Traverse
import Flax.Proofs.TraverseInv
import Flax.Model.State
import Flax.Proofs.State

set_option linter.unusedSectionVars false

namespace Flax.C16
open Flax.Traverse

variable {κ α : Type} [DecidableEq κ]

/-! ## flatten ∘ unflatten on nested dicts -/

private theorem aux_loop_key {ρ : Type} (key : Path κ → ρ) (unkey : ρ → Except Err (Path κ)) :
    ∀ (E : List (Path κ × FVal κ α)) (acc : List (κ × Tree κ α)),
    (∀ pv ∈ E, unkey (key pv.1) = .ok pv.1) →
    unflattenLoop unkey acc (E.map (fun pv => (key pv.1, pv.2))) = build acc E := by
  intro E
  induction E with
  | nil => intro acc _; rfl
  | cons x rest ih =>
    intro acc h
    obtain ⟨p, v⟩ := x
    have hp : unkey (key p) = .ok p := h (p, v) (by simp)
    simp only [List.map_cons, unflattenLoop, hp, build_cons, bind, Except.bind]
    cases insertPath acc p v.toTree with
    | error e => rfl
    | ok a => exact ih a (fun pv hpv => h pv (by simp [hpv]))

/-- **Round trip, general form.** For every well-formed nested dict, every `is_leaf` predicate that does not hold at
the root, both settings of `keep_empty_nodes`, and every key encoding `key` (`_key`) that the decoding `unkey`
inverts on the paths that occur: `unflatten (flatten t)` is the normal form `normKvs` of `t` — `t` itself with
`keep_empty_nodes` (`norm_keep`), `t` without its leaf-less sub-dicts otherwise (`prune`). -/
theorem unflattenWith_flattenWith {ρ : Type} [DecidableEq ρ] (key : Path κ → ρ) (unkey : ρ → Except Err (Path κ))
    (keep : Bool) (isLeaf : Path κ → Tree κ α → Bool) (kvs : List (κ × Tree κ α))
    (hwf : WF (.dict kvs)) (hroot : isLeaf [] (.dict kvs) = false)
    (hinv : ∀ pv ∈ flatT keep isLeaf (.dict kvs) [], unkey (key pv.1) = .ok pv.1) :
    (flattenWith key keep isLeaf (.dict kvs) >>= unflattenWith unkey) = .ok (.dict (normKvs keep isLeaf kvs)) := by
  rw [flatT_root keep isLeaf kvs hroot] at hinv
  have hwf' : WFKvs kvs := by simpa [WF] using hwf
  have hpf := relKvs_prefixFree keep kvs isLeaf hwf'
  have hnd : ((relKvs keep isLeaf kvs).map (fun pv => (key pv.1, pv.2))).map Prod.fst |>.Nodup := by
    rw [List.map_map, List.Nodup, List.pairwise_map]
    refine List.Pairwise.imp_of_mem ?_ hpf
    intro a b ha hb hi heq
    have h1 := hinv a ha
    have h2 := hinv b hb
    simp only [Function.comp] at heq
    rw [heq, h2] at h1
    exact hi.ne (Except.ok.inj h1).symm
  simp only [flattenWith, flatT_root keep isLeaf kvs hroot, Dict.ofList_of_nodup _ hnd, bind, Except.bind,
    unflattenWith]
  rw [aux_loop_key key unkey _ _ hinv, build_kvs keep kvs isLeaf [] hwf' (by intro kv _; simp [Dict.get])]
  simp [Except.map]

/-- tuple keys (`sep=None`): the round trip for every `keep_empty_nodes` and `is_leaf` -/
theorem unflatten_flatten_norm (keep : Bool) (isLeaf : Path κ → Tree κ α → Bool) (kvs : List (κ × Tree κ α))
    (hwf : WF (.dict kvs)) (hroot : isLeaf [] (.dict kvs) = false) :
    (flatten keep isLeaf (.dict kvs) >>= unflatten) = .ok (.dict (normKvs keep isLeaf kvs)) :=
  unflattenWith_flattenWith id (fun p => .ok p) keep isLeaf kvs hwf hroot (fun _ _ => rfl)

private theorem aux_norm_keep : ∀ (n : Nat) (isLeaf : Path κ → Tree κ α → Bool),
    (∀ c : Tree κ α, sizeOf c ≤ n → normT true isLeaf c = some c) ∧
    (∀ kvs : List (κ × Tree κ α), sizeOf kvs ≤ n → normKvs true isLeaf kvs = kvs) := by
  intro n
  induction n with
  | zero =>
    intro isLeaf
    refine ⟨fun c h => ?_, fun kvs h => ?_⟩
    · cases c <;> simp at h
    · cases kvs with
      | nil => simp [normKvs]
      | cons x r => simp at h
  | succ n ih =>
    intro isLeaf
    refine ⟨fun c h => ?_, fun kvs h => ?_⟩
    · cases c with
      | leaf v => simp [normT]
      | dict kvs =>
        have hk := (ih isLeaf).2 kvs (by simp at h; omega)
        simp only [normT, hk]
        by_cases h1 : isLeaf [] (.dict kvs) = true
        · simp [h1]
        · cases kvs with
          | nil => simp [h1]
          | cons x r => simp [h1]
    · cases kvs with
      | nil => simp [normKvs]
      | cons x r =>
        obtain ⟨k, c⟩ := x
        have h1 := (ih (fun p => isLeaf (k :: p))).1 c (by simp at h; omega)
        have h2 := (ih isLeaf).2 r (by simp at h; omega)
        simp [normKvs, h1, h2]

/-- with `keep_empty_nodes=True` the normal form is the tree itself -/
theorem norm_keep (isLeaf : Path κ → Tree κ α → Bool) (kvs : List (κ × Tree κ α)) :
    normKvs true isLeaf kvs = kvs :=
  (aux_norm_keep (sizeOf kvs) isLeaf).2 kvs (Nat.le_refl _)

/-- **`unflatten_dict(flatten_dict(t, keep_empty_nodes=True, is_leaf)) == t`, exactly** (same keys, same order,
same leaves, empty dicts included), for every nested dict and every `is_leaf` that is false at the root. -/
theorem unflatten_flatten_keep (isLeaf : Path κ → Tree κ α → Bool) (kvs : List (κ × Tree κ α))
    (hwf : WF (.dict kvs)) (hroot : isLeaf [] (.dict kvs) = false) :
    (flatten true isLeaf (.dict kvs) >>= unflatten) = .ok (.dict kvs) := by
  rw [unflatten_flatten_norm true isLeaf kvs hwf hroot, norm_keep]

/-- **without `keep_empty_nodes` the round trip is `prune`**: the tree without its leaf-less sub-dicts -/
theorem unflatten_flatten_prune (kvs : List (κ × Tree κ α)) (hwf : WF (.dict kvs)) :
    (flatten false noLeaf (.dict kvs) >>= unflatten) = .ok (prune (.dict kvs)) :=
  unflatten_flatten_norm false noLeaf kvs hwf rfl

/-! ### what `prune` removes: nothing but leaf-less sub-dicts -/

mutual
  /-- every dict below this node is non-empty -/
  def NoEmptyT : Tree κ α → Prop
    | .leaf _ => True
    | .dict kvs => kvs ≠ [] ∧ NoEmptyKvs kvs
  def NoEmptyKvs : List (κ × Tree κ α) → Prop
    | [] => True
    | (_, c) :: rest => NoEmptyT c ∧ NoEmptyKvs rest
end

private theorem aux_prune_self : ∀ (n : Nat),
    (∀ c : Tree κ α, sizeOf c ≤ n → NoEmptyT c → normT false noLeaf c = some c) ∧
    (∀ kvs : List (κ × Tree κ α), sizeOf kvs ≤ n → NoEmptyKvs kvs → normKvs false noLeaf kvs = kvs) := by
  intro n
  induction n with
  | zero =>
    refine ⟨fun c h _ => ?_, fun kvs h _ => ?_⟩
    · cases c <;> simp at h
    · cases kvs with
      | nil => simp [normKvs]
      | cons x r => simp at h
  | succ n ih =>
    refine ⟨fun c h hne => ?_, fun kvs h hne => ?_⟩
    · cases c with
      | leaf v => simp [normT]
      | dict kvs =>
        simp only [NoEmptyT] at hne
        have hk := ih.2 kvs (by simp at h; omega) hne.2
        simp only [normT, noLeaf, Bool.false_eq_true, ↓reduceIte, Bool.false_and]
        rw [hk]
        cases kvs with
        | nil => exact absurd rfl hne.1
        | cons x r => rfl
    · cases kvs with
      | nil => simp [normKvs]
      | cons x r =>
        obtain ⟨k, c⟩ := x
        simp only [NoEmptyKvs] at hne
        have h1 := ih.1 c (by simp at h; omega) hne.1
        have h2 := ih.2 r (by simp at h; omega) hne.2
        have e : (fun p => noLeaf (k :: p)) = (noLeaf : Path κ → Tree κ α → Bool) := rfl
        simp [normKvs, e, h1, h2]

/-- a tree without empty sub-dicts is its own `prune`: there the round trip is exact even without
`keep_empty_nodes` -/
theorem prune_eq_self (kvs : List (κ × Tree κ α)) (h : NoEmptyKvs kvs) : prune (.dict kvs) = .dict kvs := by
  simp only [prune]
  rw [(aux_prune_self (sizeOf kvs)).2 kvs (Nat.le_refl _) h]

private theorem aux_prune_leaves : ∀ (n : Nat),
    (∀ c : Tree κ α, sizeOf c ≤ n →
      leavesT c = match normT false noLeaf c with | some c' => leavesT c' | none => []) ∧
    (∀ kvs : List (κ × Tree κ α), sizeOf kvs ≤ n → leavesKvs (normKvs false noLeaf kvs) = leavesKvs kvs) := by
  intro n
  induction n with
  | zero =>
    refine ⟨fun c h => ?_, fun kvs h => ?_⟩
    · cases c <;> simp at h
    · cases kvs with
      | nil => simp [normKvs]
      | cons x r => simp at h
  | succ n ih =>
    refine ⟨fun c h => ?_, fun kvs h => ?_⟩
    · cases c with
      | leaf v => simp [normT]
      | dict kvs =>
        have hk := ih.2 kvs (by simp at h; omega)
        simp only [normT, noLeaf, Bool.false_eq_true, ↓reduceIte, Bool.false_and]
        cases hn : normKvs false noLeaf kvs with
        | nil => rw [hn] at hk; simp [leavesT, ← hk, leavesKvs]
        | cons x r => rw [hn] at hk; simp [leavesT, hk]
    · cases kvs with
      | nil => simp [normKvs]
      | cons x r =>
        obtain ⟨k, c⟩ := x
        have h1 := ih.1 c (by simp at h; omega)
        have h2 := ih.2 r (by simp at h; omega)
        have e : (fun p => noLeaf (k :: p)) = (noLeaf : Path κ → Tree κ α → Bool) := rfl
        simp only [normKvs, e, leavesKvs]
        cases hn : normT false noLeaf c with
        | none => rw [hn] at h1; simp [h1, h2]
        | some c' => rw [hn] at h1; simp [leavesKvs, h1, h2]

/-- `prune` loses no leaf and moves none: the leaves of `prune t`, with their paths and in the same order, are
the leaves of `t` -/
theorem prune_leaves (kvs : List (κ × Tree κ α)) : leavesT (prune (.dict kvs)) = leavesT (.dict kvs) := by
  simp only [prune, leavesT]
  exact (aux_prune_leaves (sizeOf kvs)).2 kvs (Nat.le_refl _)

example : NoEmptyKvs ([("a", .dict [("b", .leaf 1)]), ("c", .leaf 2)] : List (String × Tree String Nat)) := by
  simp [NoEmptyKvs, NoEmptyT]

/-! ## separator-joined keys -/

/-- **`unflatten_dict(flatten_dict(t, keep, is_leaf, sep), sep)` is the same normal form** for every non-empty
separator that does not overlap any key of the tree (`NoOverlap`: `sep` does not occur in `key ++ sep[:-1]`). -/
theorem unflatten_flatten_sep (sep : String) (hsep : sep ≠ "") (keep : Bool)
    (isLeaf : Path String → Tree String α → Bool) (kvs : List (String × Tree String α))
    (hwf : WF (.dict kvs)) (hroot : isLeaf [] (.dict kvs) = false)
    (hkeys : ∀ k ∈ keysKvs kvs, NoOverlap sep.toList k.toList) :
    (flattenSep sep keep isLeaf (.dict kvs) >>= unflattenSep sep) = .ok (.dict (normKvs keep isLeaf kvs)) := by
  refine unflattenWith_flattenWith (joinS sep) (splitS sep) keep isLeaf kvs hwf hroot ?_
  rw [flatT_root keep isLeaf kvs hroot]
  intro pv hpv
  exact splitS_joinS sep hsep pv.1 (relKvs_paths_ne_nil keep isLeaf kvs pv hpv)
    (fun k hk => hkeys k (relKvs_keys keep kvs isLeaf pv hpv k hk))

/-- one-character separator: "not occurring in any key" is exactly the hypothesis needed -/
theorem unflatten_flatten_sep_char (c : Char) (keep : Bool)
    (isLeaf : Path String → Tree String α → Bool) (kvs : List (String × Tree String α))
    (hwf : WF (.dict kvs)) (hroot : isLeaf [] (.dict kvs) = false)
    (hkeys : ∀ k ∈ keysKvs kvs, c ∉ k.toList) :
    (flattenSep (String.singleton c) keep isLeaf (.dict kvs) >>= unflattenSep (String.singleton c))
      = .ok (.dict (normKvs keep isLeaf kvs)) := by
  refine unflatten_flatten_sep (String.singleton c) ?_ keep isLeaf kvs hwf hroot ?_
  · intro e
    have := congrArg String.toList e
    simp at this
  · intro k hk
    have : (String.singleton c).toList = [c] := by simp
    rw [this, noOverlap_singleton]
    exact hkeys k hk

/-- the hypothesis cannot be weakened to "the separator occurs in no key" for longer separators:
`'aa'.join(['xa', 'y']) == 'xaaay'` and `'xaaay'.split('aa') == ['x', 'ay']` (reproduced on the real code:
`unflatten_dict(flatten_dict({'xa': {'y': 1}}, sep='aa'), sep='aa') == {'x': {'ay': 1}}`). -/
theorem sep_overlap_counterexample :
    ¬ ['a', 'a'] <:+: ['x', 'a'] ∧ ¬ ['a', 'a'] <:+: ['y'] ∧
    splitAux ['a', 'a'] (joinL ['a', 'a'] [['x', 'a'], ['y']]) [] 0 = [['x'], ['a', 'y']] ∧
    ¬ NoOverlap ['a', 'a'] ['x', 'a'] := by
  refine ⟨by decide, by decide, by decide, ?_⟩
  simp only [NoOverlap, Classical.not_not]
  exact ⟨['x'], [], by decide⟩

example : NoOverlap "::".toList "a:".toList → False := by
  intro h; apply h; exact ⟨['a'], [], by decide⟩

example : NoOverlap "/".toList "params_0".toList := by
  have : "/".toList = ['/'] := by decide
  rw [this, noOverlap_singleton]; decide

/-! ## the excluded point: `is_leaf` true at the root (finding F7) -/

/-- when `is_leaf((), root)` holds, `flatten_dict` returns `{(): root}` and `unflatten_dict` of that raises
(`path[-1]` on the empty tuple: IndexError) -/
theorem root_leaf_guard (keep : Bool) (isLeaf : Path κ → Tree κ α → Bool) (kvs : List (κ × Tree κ α))
    (hroot : isLeaf [] (.dict kvs) = true) :
    flatten keep isLeaf (.dict kvs) = .ok [([], .val (.dict kvs))] ∧
    (flatten keep isLeaf (.dict kvs) >>= unflatten) = .error .emptyPath := by
  have h : flatten keep isLeaf (.dict kvs) = .ok [([], .val (.dict kvs))] := by
    simp [flatten, flattenWith, flatT, hroot, Dict.ofList, Dict.set]
  refine ⟨h, ?_⟩
  rw [h]
  simp [unflatten, unflattenWith, unflattenLoop, insertPath, bind, Except.bind, Except.map]

/-- with a separator the same input comes back wrapped under the key `''` -/
theorem root_leaf_guard_sep (sep : String) (hsep : sep ≠ "") (keep : Bool)
    (isLeaf : Path String → Tree String α → Bool) (kvs : List (String × Tree String α))
    (hroot : isLeaf [] (.dict kvs) = true) :
    (flattenSep sep keep isLeaf (.dict kvs) >>= unflattenSep sep) = .ok (.dict [("", .dict kvs)]) := by
  have hs : sep.toList.isEmpty = false := by
    cases h : sep.toList with
    | nil =>
      exfalso; apply hsep
      have := congrArg String.ofList h
      simpa using this
    | cons a l => rfl
  have hj : joinS sep [] = "" := by simp [joinS, joinL]
  have hsp : splitS sep "" = .ok [""] := by
    simp [splitS, splitL, hs, splitAux, Except.map]
  simp [flattenSep, flattenWith, flatT, hroot, Dict.ofList, Dict.set, hj, bind, Except.bind, unflattenSep,
    unflattenWith, unflattenLoop, hsp, insertPath, FVal.toTree, Except.map]

/-! ## the other direction: flatten ∘ unflatten -/

private theorem aux_flatten_root (b : Bool) (kvs : List (κ × Tree κ α))
    (hnd : ((relKvs b noLeaf kvs).map Prod.fst).Nodup) :
    flatten b noLeaf (.dict kvs) = .ok (relKvs b noLeaf kvs) := by
  simp only [flatten, flattenWith, flatT_root b noLeaf kvs rfl]
  have : (relKvs b noLeaf kvs).map (fun pv => (id pv.1, pv.2)) = relKvs b noLeaf kvs := by simp
  rw [this, Dict.ofList_of_nodup _ hnd]

/-- **`flatten_dict(unflatten_dict(m)) == m`** (as dicts: same entries, possibly in another order) for every flat
map `m` whose paths are non-empty and pairwise prefix-incomparable and whose values are leaves (or `empty_node`
when `keep_empty_nodes` is on). In particular `unflatten_dict` does not raise on such maps. -/
theorem flatten_unflatten (b : Bool) (m : List (Path κ × FVal κ α)) (hpf : PrefixFree m)
    (hok : ∀ e ∈ m, e.1 ≠ [] ∧ OkVal b e.2) :
    ∃ t fl, unflatten m = .ok t ∧ flatten b noLeaf t = .ok fl ∧ fl.Perm m := by
  obtain ⟨kvs, h1, h2⟩ := build_flat b m [] (by simpa [relKvs] using hpf) hok
  simp only [relKvs, List.nil_append] at h2
  have hpf' : PrefixFree (relKvs b noLeaf kvs) := (List.Perm.pairwise_iff (fun h => Incomp.symm h) h2).mpr hpf
  refine ⟨.dict kvs, relKvs b noLeaf kvs, ?_, aux_flatten_root b kvs hpf'.nodup_paths, h2⟩
  simp only [unflatten, unflattenWith]
  have : unflattenLoop (fun p => Except.ok p) [] m = build [] m := rfl
  rw [this, h1]; rfl

/-- the hypothesis is satisfiable by a non-trivial map, and is exactly what the flattened form of a well-formed
tree satisfies (`relKvs_prefixFree`) -/
example : PrefixFree [((["a", "b"] : Path String), (FVal.val (.leaf 1) : FVal String Nat)), (["a", "c"], .emptyNode),
    (["d"], .val (.leaf 2))] := by
  simp [PrefixFree, Incomp, List.cons_prefix_cons]

/-- prefix-freeness is needed: `{('a',): 1, ('a','b'): 2}` makes `unflatten_dict` raise (TypeError) -/
theorem unflatten_prefix_conflict :
    unflatten [((["a"] : Path String), (FVal.val (.leaf 1) : FVal String Nat)), (["a", "b"], .val (.leaf 2))]
      = .error .notDict := by
  rfl

/-! ## path_aware_map -/

/-- **`path_aware_map(f, t)` is `t` with `f(path, leaf)` in place of every leaf**: same keys in the same order,
empty dicts included, `f` given the full path. For every well-formed nested dict and every `f`. -/
theorem path_aware_map_spec (f : Path κ → Tree κ α → Tree κ α) (kvs : List (κ × Tree κ α))
    (hwf : WF (.dict kvs)) : pathAwareMap f (.dict kvs) = .ok (mapWithPath f (.dict kvs)) := by
  have hwf' : WFKvs kvs := by simpa [WF] using hwf
  have hnd := (relKvs_prefixFree true kvs noLeaf hwf').nodup_paths
  simp only [pathAwareMap, aux_flatten_root true kvs hnd, bind, Except.bind, unflatten, unflattenWith]
  have h := build_kvs_map kvs f [] hwf' (by intro kv _; simp [Dict.get])
  show Except.map Tree.dict (build [] ((relKvs true noLeaf kvs).map (appF f))) = _
  rw [h]
  simp [Except.map, mapWithPath]

/-- **every leaf is visited exactly once, with its full path**: the list of calls `f(path, value)` made by
`path_aware_map` is the list of leaves of the tree in depth-first order, and the paths are pairwise distinct. -/
theorem path_aware_map_visits (kvs : List (κ × Tree κ α)) (hwf : WF (.dict kvs)) :
    pathAwareCalls (.dict kvs) = .ok ((leavesT (.dict kvs)).map (fun pa => (pa.1, Tree.leaf pa.2))) ∧
    ((leavesT (.dict kvs)).map Prod.fst).Nodup := by
  have hwf' : WFKvs kvs := by simpa [WF] using hwf
  have hnd := (relKvs_prefixFree true kvs noLeaf hwf').nodup_paths
  refine ⟨?_, ?_⟩
  · simp only [pathAwareCalls, aux_flatten_root true kvs hnd, bind, Except.bind, leavesT]
    exact congrArg Except.ok (relKvs_true_calls kvs)
  · have h := (relKvs_prefixFree false kvs noLeaf hwf').nodup_paths
    rw [relKvs_false_leaves, List.map_map] at h
    have e : (Prod.fst ∘ (leafEntry : Path κ × α → Path κ × FVal κ α)) = Prod.fst := by funext pa; rfl
    rw [e] at h
    simpa [leavesT] using h

/-- `mapWithPath` keeps the key structure: same keys, same order, at every level (stated one level at a time) -/
theorem mapWithPath_keys (f : Path κ → Tree κ α → Tree κ α) (kvs : List (κ × Tree κ α)) :
    (mapWithPathKvs f kvs).map Prod.fst = kvs.map Prod.fst := by
  induction kvs generalizing f with
  | nil => rfl
  | cons x rest ih => obtain ⟨k, c⟩ := x; simp [mapWithPathKvs, ih]

example : pathAwareMap (fun p _ => .leaf p.length)
    (.dict [("a", .dict [("x", .leaf 10), ("e", .dict [])]), ("b", .leaf 20)] : Tree String Nat)
    = .ok (.dict [("a", .dict [("x", .leaf 2), ("e", .dict [])]), ("b", .leaf 1)]) := by
  rfl

/-! ## NNX State: flat state and nested state -/

section StateLaws
open Flax.State
variable {β : Type}

/-- **State → FlatState → State is lossless**: `from_flat_state(to_flat_state(s))` succeeds, holds exactly the
leaves of `s` at the same paths, and nothing else (`Content`: no empty sub-dict survives — that is the only
difference to `s`, cf. `unflatten_flatten_prune`). For every well-formed state over any key set. -/
theorem state_flat_roundtrip (s : SMap α) (hwf : WFKvs s) :
    ∃ s', fromFlat (toFlat s) = .ok s' ∧ (Content s').Perm ((leaves s).map leafEntry) ∧
      (leaves s').Perm (leaves s) := by
  have hp := toFlat_perm s
  obtain ⟨s', h1, h2, h3⟩ := fromFlat_spec (toFlat s) (PrefixFree.perm hp.symm (leaves_prefixFree s hwf))
    (fun e he => leaves_paths_ne_nil s e (hp.mem_iff.mp he))
  exact ⟨s', h1, h2.trans (hp.map _), h3.trans hp⟩

/-- **FlatState → State → FlatState is lossless** for every flat state with non-empty, pairwise
prefix-incomparable paths (what `to_flat_state` produces, `leaves_prefixFree`) -/
theorem flat_state_roundtrip (m : Flat α) (hpf : PrefixFree m) (hne : ∀ e ∈ m, e.1 ≠ []) :
    ∃ s', fromFlat m = .ok s' ∧ (toFlat s').Perm m := by
  obtain ⟨s', h1, _, h3⟩ := fromFlat_spec m hpf hne
  exact ⟨s', h1, (toFlat_perm s').trans h3⟩

/-! ### split / filter: first-match partition -/

theorem firstIdx_le (preds : List (SPath → α → Bool)) (p : SPath) (a : α) :
    firstIdx preds p a ≤ preds.length := by
  induction preds with
  | nil => simp [firstIdx]
  | cons f fs ih => simp only [firstIdx]; split <;> simp <;> omega

/-- `firstIdx` is the first predicate that holds: it holds there and no earlier predicate holds -/
theorem firstIdx_spec (preds : List (SPath → α → Bool)) (p : SPath) (a : α) :
    (∀ j, j < firstIdx preds p a → ∀ f, preds[j]? = some f → f p a = false) ∧
    (∀ f, preds[firstIdx preds p a]? = some f → f p a = true) := by
  induction preds with
  | nil => simp [firstIdx]
  | cons g gs ih =>
    by_cases hg : g p a = true
    · simp [firstIdx, hg]
    · simp only [firstIdx, hg, Bool.false_eq_true, ↓reduceIte]
      refine ⟨?_, ?_⟩
      · intro j hj f hf
        cases j with
        | zero => simp at hf; subst hf; simpa using hg
        | succ j => exact ih.1 j (by omega) f (by simpa using hf)
      · intro f hf; exact ih.2 f (by simpa using hf)

/-- the leaves whose first matching predicate is number `i` -/
def bucket (preds : List (SPath → α → Bool)) (i : Nat) (m : Flat α) : Flat α :=
  m.filter (fun e => firstIdx preds e.1 e.2 == i)

private theorem aux_split (preds : List (SPath → α → Bool)) (s : SMap α) (hwf : WFKvs s) (idxs : List Nat) :
    ∃ states, (idxs.map (fun i => (toFlat s).filter (fun e => firstIdx preds e.1 e.2 == i))).mapM fromFlat
        = .ok states ∧
      Forall2 (fun i st => (Content st).Perm ((bucket preds i (leaves s)).map leafEntry) ∧
        (leaves st).Perm (bucket preds i (leaves s))) idxs states := by
  have hp := toFlat_perm s
  have hpf : PrefixFree (toFlat s) := PrefixFree.perm hp.symm (leaves_prefixFree s hwf)
  obtain ⟨states, h1, h2⟩ := mapM_forall2 fromFlat
    (fun b st => ∃ i, b = (toFlat s).filter (fun e => firstIdx preds e.1 e.2 == i) ∧
      (Content st).Perm (b.map leafEntry) ∧ (leaves st).Perm b)
    (idxs.map (fun i => (toFlat s).filter (fun e => firstIdx preds e.1 e.2 == i))) (by
      intro b hb
      simp only [List.mem_map] at hb
      obtain ⟨i, _, rfl⟩ := hb
      obtain ⟨st, e1, e2, e3⟩ := fromFlat_spec ((toFlat s).filter (fun e => firstIdx preds e.1 e.2 == i))
        (PrefixFree.sublist List.filter_sublist hpf)
        (fun e he => leaves_paths_ne_nil s e (hp.mem_iff.mp (List.mem_filter.mp he).1))
      exact ⟨st, e1, i, rfl, e2, e3⟩)
  refine ⟨states, h1, ?_⟩
  have h3 := Forall2.of_map_left _ h2
  -- the index in the existential is the list index: recover it from the bucket equation is not needed,
  -- the relation is re-established directly
  clear h2 h1
  induction h3 with
  | nil => exact .nil
  | @cons i st is sts hr _ ih =>
    refine .cons ?_ ih
    obtain ⟨j, _, e2, e3⟩ := hr
    have hb : ((toFlat s).filter (fun e => firstIdx preds e.1 e.2 == i)).Perm (bucket preds i (leaves s)) :=
      hp.filter _
    exact ⟨e2.trans (hb.map _), e3.trans hb⟩

private theorem aux_content_nil (st : SMap α) (b : Flat α) (h : (Content st).Perm (b.map leafEntry)) :
    st = [] ↔ b = [] := by
  constructor
  · intro e; subst e
    have := h.length_eq
    simpa [relKvs] using this.symm
  · intro e; subst e
    cases st with
    | nil => rfl
    | cons x r =>
      have h1 := relKvs_true_ne_nil (x :: r) (by simp)
      have h2 := h.length_eq
      simp only [List.map_nil, List.length_nil, List.length_eq_zero_iff] at h2
      exact absurd h2 h1

/-- **`filter_state` partitions by first match**: one state per filter, and the `i`-th state holds exactly the
leaves of `s` whose first matching filter is `i` (and no empty sub-dict); unmatched leaves are dropped. -/
theorem filter_first_match (preds : List (SPath → α → Bool)) (s : SMap α) (hwf : WFKvs s) :
    ∃ states, filterState preds s = .ok states ∧
      Forall2 (fun i st => (Content st).Perm ((bucket preds i (leaves s)).map leafEntry) ∧
        (leaves st).Perm (bucket preds i (leaves s))) (List.range preds.length) states := by
  obtain ⟨states, h1, h2⟩ := aux_split preds s hwf (List.range preds.length)
  refine ⟨states, ?_, h2⟩
  simp only [filterState, splitFlat, ← List.map_take]
  have : (List.range (preds.length + 1)).take preds.length = List.range preds.length := by
    rw [List.range_succ, List.take_left' (by simp)]
  rw [this]
  exact h1

/-- **`split_state` partitions by first match and loses nothing**: when every leaf matches some filter, the result
is one state per filter holding exactly the leaves whose first match it is; -/
theorem split_first_match (preds : List (SPath → α → Bool)) (s : SMap α) (hwf : WFKvs s)
    (hex : ∀ e ∈ leaves s, firstIdx preds e.1 e.2 < preds.length) :
    ∃ states, splitState preds s = .ok states ∧
      Forall2 (fun i st => (Content st).Perm ((bucket preds i (leaves s)).map leafEntry) ∧
        (leaves st).Perm (bucket preds i (leaves s))) (List.range preds.length) states := by
  obtain ⟨all, h1, h2⟩ := aux_split preds s hwf (List.range (preds.length + 1))
  rw [List.range_succ] at h2
  obtain ⟨ys1, y, e, h3, h4⟩ := h2.snoc_left
  refine ⟨ys1, ?_, h3⟩
  have hlen : ys1.length = preds.length := by simpa using h3.length_eq.symm
  have hy : y = [] := by
    rw [aux_content_nil y _ h4.1]
    simp only [bucket, List.filter_eq_nil_iff, beq_iff_eq]
    intro x hx hn
    have := hex x hx
    omega
  simp only [splitState, splitFlat, h1, bind, Except.bind, e, hy, List.getLast?_append, List.getLast?_singleton,
    Option.some_or]
  rw [List.take_left' hlen]

/-- …and when some leaf matches no filter, `split_state` raises instead of dropping it. -/
theorem split_non_exhaustive (preds : List (SPath → α → Bool)) (s : SMap α) (hwf : WFKvs s)
    (hex : ∃ e ∈ leaves s, firstIdx preds e.1 e.2 = preds.length) :
    splitState preds s = .error .nonExhaustive := by
  obtain ⟨all, h1, h2⟩ := aux_split preds s hwf (List.range (preds.length + 1))
  rw [List.range_succ] at h2
  obtain ⟨ys1, y, e, h3, h4⟩ := h2.snoc_left
  have hy : y ≠ [] := by
    rw [Ne, aux_content_nil y _ h4.1]
    obtain ⟨x, hx, hn⟩ := hex
    intro hb
    have : x ∈ bucket preds preds.length (leaves s) := by
      simp [bucket, List.mem_filter, hx, hn]
    rw [hb] at this
    simp at this
  simp only [splitState, splitFlat, h1, bind, Except.bind, e, List.getLast?_append, List.getLast?_singleton,
    Option.some_or]
  cases y with
  | nil => exact absurd rfl hy
  | cons a b => rfl

/-! ### merge -/

private theorem aux_merge_unfold (s : SMap α) (rest : List (SMap α)) (hrest : rest ≠ []) :
    mergeState s rest = fromFlat (Dict.ofList ((s :: rest).flatMap leaves)) := by
  cases rest with
  | nil => exact absurd rfl hrest
  | cons r rs => simp only [mergeState, flatSeq_eq_leaves]

private theorem aux_fromFlat_ofList (l : Flat α)
    (hcompat : ∀ e1 ∈ l, ∀ e2 ∈ l, e1.1 = e2.1 ∨ Incomp e1.1 e2.1) (hne : ∀ e ∈ l, e.1 ≠ []) :
    ∃ s', fromFlat (Dict.ofList l) = .ok s' ∧ (Content s').Perm ((Dict.ofList l).map leafEntry) ∧
      ∀ p a, (p, a) ∈ leaves s' ↔ lastVal l p = some a := by
  have hmem : ∀ e ∈ Dict.ofList l, e ∈ l := by
    intro e he
    obtain ⟨p, a⟩ := e
    exact lastVal_some_mem l p a ((Dict.mem_ofList l p a).mp he)
  have hnd := Dict.ofList_nodup l
  have hpf : PrefixFree (Dict.ofList l) := by
    rw [List.Nodup, List.pairwise_map] at hnd
    refine List.Pairwise.imp_of_mem ?_ hnd
    intro x y hx hy hxy
    rcases hcompat x (hmem x hx) y (hmem y hy) with h | h
    · exact absurd h hxy
    · exact h
  obtain ⟨s', h1, h2, h3⟩ := fromFlat_spec (Dict.ofList l) hpf (fun e he => hne e (hmem e he))
  refine ⟨s', h1, h2, ?_⟩
  intro p a
  rw [h3.mem_iff, Dict.mem_ofList]

/-- **`merge_state`: later states win.** For two or more states whose paths are pairwise equal or
prefix-incomparable, the merge succeeds and the leaf at every path is the one of the *last* state that has the
path; no path is lost and none is invented. -/
theorem merge_later_wins (s : SMap α) (rest : List (SMap α)) (hrest : rest ≠ [])
    (hcompat : ∀ e1 ∈ (s :: rest).flatMap leaves, ∀ e2 ∈ (s :: rest).flatMap leaves,
      e1.1 = e2.1 ∨ Incomp e1.1 e2.1) :
    ∃ s', mergeState s rest = .ok s' ∧
      ∀ p a, (p, a) ∈ leaves s' ↔ lastVal ((s :: rest).flatMap leaves) p = some a := by
  rw [aux_merge_unfold s rest hrest]
  obtain ⟨s', h1, _, h3⟩ := aux_fromFlat_ofList ((s :: rest).flatMap leaves) hcompat (by
    intro e he
    simp only [List.mem_flatMap] at he
    obtain ⟨st, _, hst⟩ := he
    exact leaves_paths_ne_nil st e hst)
  exact ⟨s', h1, h3⟩

/-- `State.__or__`: `a | b` is `a` when `b` is empty, the merge otherwise -/
theorem or_spec (a b : SMap α) :
    stateOr a b = if b.isEmpty then .ok a else mergeState a [b] := rfl

/-- **`merge_state` is the inverse of `split_state`**: merging the states returned by a split gives back exactly
the leaves of the original state at their paths (and no empty sub-dict). For every state and every filter list. -/
theorem merge_inverse_of_split (preds : List (SPath → α → Bool)) (s : SMap α) (hwf : WFKvs s)
    (s0 : SMap α) (srest : List (SMap α)) (h : splitState preds s = .ok (s0 :: srest)) :
    ∃ s', mergeState s0 srest = .ok s' ∧ (Content s').Perm ((leaves s).map leafEntry) ∧
      (leaves s').Perm (leaves s) := by
  have hex : ∀ e ∈ leaves s, firstIdx preds e.1 e.2 < preds.length := by
    intro e he
    have hle := firstIdx_le preds e.1 e.2
    rcases Nat.lt_or_ge (firstIdx preds e.1 e.2) preds.length with hlt | hge
    · exact hlt
    · have := split_non_exhaustive preds s hwf ⟨e, he, by omega⟩
      rw [this] at h
      cases h
  obtain ⟨states, h1, h2⟩ := split_first_match preds s hwf hex
  rw [h1] at h
  have hs : states = s0 :: srest := Except.ok.inj h
  subst hs
  have hall : ((s0 :: srest).flatMap leaves).Perm (leaves s) := by
    have h3 := Forall2.flatMap_perm (f := fun i => bucket preds i (leaves s)) (g := leaves)
      (fun i st hr => hr.2) h2
    have hb := buckets_perm (fun (e : SPath × α) => firstIdx preds e.1 e.2) (leaves s) preds.length
    refine h3.trans (hb.trans ?_)
    rw [List.filter_eq_self.mpr]
    intro e he
    simpa using hex e he
  cases hsr : srest with
  | nil =>
    subst hsr
    have hlen := h2.length_eq
    have hr := h2.get 0 (by simp at hlen ⊢; omega) (by simp)
    simp only [List.getElem_cons_zero] at hr
    have hl : (leaves s0).Perm (leaves s) := by simpa using hall
    exact ⟨s0, rfl, hr.1.trans ((hr.2.symm.trans hl).map _), hl⟩
  | cons r rs =>
    rw [← hsr, aux_merge_unfold s0 srest (by rw [hsr]; simp)]
    have hpf : PrefixFree ((s0 :: srest).flatMap leaves) := PrefixFree.perm hall.symm (leaves_prefixFree s hwf)
    rw [Dict.ofList_of_nodup _ hpf.nodup_paths]
    obtain ⟨s', e1, e2, e3⟩ := fromFlat_spec _ hpf (fun e he => leaves_paths_ne_nil s e (hall.mem_iff.mp he))
    exact ⟨s', e1, e2.trans (hall.map _), e3.trans hall⟩

/-! ### diff -/

/-- **`a - b` keeps exactly the paths of `a` that are absent from `b`, with `a`'s leaves** (repaired `diff`,
finding F2), for every well-formed `a` and every non-empty `b` -/
theorem diff_spec (a b : SMap α) (hwf : WFKvs a) (hb : b ≠ []) :
    ∃ s', diff a b = .ok s' ∧
      (Content s').Perm (((leaves a).filter (fun e => !decide (e.1 ∈ (leaves b).map Prod.fst))).map leafEntry) ∧
      ∀ p x, (p, x) ∈ leaves s' ↔ ((p, x) ∈ leaves a ∧ p ∉ (leaves b).map Prod.fst) := by
  have hbe : b.isEmpty = false := by cases b with
    | nil => exact absurd rfl hb
    | cons _ _ => rfl
  have hpa := toFlat_perm a
  have hpb := toFlat_perm b
  have hfun : (fun e : SPath × α => !decide (e.1 ∈ (toFlat b).map Prod.fst))
      = (fun e => !decide (e.1 ∈ (leaves b).map Prod.fst)) := by
    funext e
    have : e.1 ∈ (toFlat b).map Prod.fst ↔ e.1 ∈ (leaves b).map Prod.fst := (hpb.map _).mem_iff
    simp [this]
  have hpf : PrefixFree ((toFlat a).filter (fun e => !decide (e.1 ∈ (leaves b).map Prod.fst))) :=
    PrefixFree.sublist List.filter_sublist (PrefixFree.perm hpa.symm (leaves_prefixFree a hwf))
  simp only [diff, hbe, Bool.false_eq_true, ↓reduceIte, hfun, Dict.ofList_of_nodup _ hpf.nodup_paths]
  obtain ⟨s', e1, e2, e3⟩ := fromFlat_spec _ hpf
    (fun e he => leaves_paths_ne_nil a e (hpa.mem_iff.mp (List.mem_filter.mp he).1))
  have hperm := hpa.filter (fun e => !decide (e.1 ∈ (leaves b).map Prod.fst))
  refine ⟨s', e1, e2.trans (hperm.map _), ?_⟩
  intro p x
  rw [(e3.trans hperm).mem_iff, List.mem_filter]
  simp

/-- subtracting the empty state returns the state itself -/
theorem diff_empty (a : SMap α) : diff a [] = .ok a := rfl

/-- the definition shipped before the `fix:` commit raised for **every** non-empty `b` (finding F2) -/
theorem diffOrig_raises (a b : SMap α) (hb : b ≠ []) : diffOrig a b = .error .attributeError := by
  cases b with
  | nil => exact absurd rfl hb
  | cons _ _ => rfl

/-! ### pure dicts -/

/-- **`to_pure_dict` is lossless**: the pure dict has a value `extract(leaf)` at exactly the paths of the state's
leaves, and no empty sub-dict -/
theorem to_pure_spec (ex : α → β) (s : SMap α) (hwf : WFKvs s) :
    ∃ pd, toPure ex s = .ok pd ∧
      (Content pd).Perm (((leaves s).map (fun e => (e.1, ex e.2))).map leafEntry) ∧
      (leaves pd).Perm ((leaves s).map (fun e => (e.1, ex e.2))) := by
  have hp := toFlat_perm s
  have hpf : PrefixFree ((toFlat s).map (fun e => (e.1, ex e.2))) := by
    have := PrefixFree.perm hp.symm (leaves_prefixFree s hwf)
    simpa [PrefixFree, List.pairwise_map] using this
  simp only [toPure, Dict.ofList_of_nodup _ hpf.nodup_paths]
  obtain ⟨pd, h1, h2, h3⟩ := fromFlat_spec _ hpf (by
    intro e he
    simp only [List.mem_map] at he
    obtain ⟨x, hx, rfl⟩ := he
    exact leaves_paths_ne_nil s x (hp.mem_iff.mp hx))
  have hm := hp.map (fun e => (e.1, ex e.2))
  exact ⟨pd, h1, h2.trans (hm.map _), h3.trans hm⟩

private theorem aux_replaceLoop_id (conv : Key → Key) (repl : α → β → α) : ∀ (items : Flat β) (cur : Flat α),
    (∀ e ∈ items, ∃ a, Dict.get cur e.1 = some a ∧ repl a e.2 = a) →
    replaceLoop conv repl cur items = .ok cur := by
  intro items
  induction items with
  | nil => intro cur _; rfl
  | cons x rest ih =>
    intro cur h
    obtain ⟨kp, v⟩ := x
    obtain ⟨a, h1, h2⟩ := h (kp, v) (by simp)
    simp only [replaceLoop, h1, Option.isSome_some, ↓reduceIte, h2, Dict.set_of_get_some _ _ _ h1]
    exact ih cur (fun e he => h e (by simp [he]))

private theorem aux_wf_nodup : ∀ (s : SMap α), WFKvs s → (s.map Prod.fst).Nodup
  | [], _ => by simp
  | (k, c) :: rest, h => by
    simp only [WFKvs] at h
    simp only [List.map_cons, List.nodup_cons, List.mem_map, not_exists, not_and]
    exact ⟨fun kv hkv e => h.1 kv hkv e, aux_wf_nodup rest h.2.2⟩

/-- **`replace_by_pure_dict(s, to_pure_dict(s))` succeeds and changes no leaf, for every key set** (digit-string keys
included: this is the repaired definition, finding F14), whatever `try_convert_int` does, provided putting a
leaf's own extracted value back gives the same leaf -/
theorem pure_dict_roundtrip (conv : Key → Key) (ex : α → β) (repl : α → β → α) (hrepl : ∀ a, repl a (ex a) = a)
    (s : SMap α) (hwf : WFKvs s) :
    ∃ pd s', toPure ex s = .ok pd ∧ replaceByPure conv repl s pd = .ok s' ∧ (leaves s').Perm (leaves s) := by
  obtain ⟨pd, hpd, _, hl⟩ := to_pure_spec ex s hwf
  have hp := toFlat_perm s
  have hpfs := leaves_prefixFree s hwf
  have hpf : PrefixFree (toFlat s) := PrefixFree.perm hp.symm hpfs
  have hpfpd : PrefixFree (leaves pd) := by
    have : PrefixFree ((leaves s).map (fun e => (e.1, ex e.2))) := by
      simpa [PrefixFree, List.pairwise_map] using hpfs
    exact PrefixFree.perm hl.symm this
  obtain ⟨s2, h1, _, h3⟩ := state_flat_roundtrip s hwf
  have hloop : replaceLoop conv repl (toFlat s) (leaves pd) = .ok (toFlat s) := by
    refine aux_replaceLoop_id conv repl _ _ ?_
    intro e he
    have := hl.mem_iff.mp he
    simp only [List.mem_map] at this
    obtain ⟨x, hx, rfl⟩ := this
    exact ⟨x.2, (Dict.mem_iff_get _ hpf.nodup_paths x.1 x.2).mp (hp.mem_iff.mpr hx), hrepl x.2⟩
  refine ⟨pd, Dict.update s s2, hpd, ?_, ?_⟩
  · simp only [replaceByPure, pureItems, flatSeq_eq_leaves, Dict.ofList_of_nodup _ hpf.nodup_paths,
      Dict.ofList_of_nodup _ hpfpd.nodup_paths, hloop, h1, bind, Except.bind]
  · have hnd2 := fromFlat_nodup _ _ h1
    refine leaves_update_perm s2 s (aux_wf_nodup s hwf) hnd2 ?_
    intro kc hkc
    have hf := h3.filter (headIs kc.1)
    rw [leavesKvs_filter_head kc.1 s2 hnd2, (Dict.mem_iff_get s2 hnd2 kc.1 kc.2).mp hkc] at hf
    exact hf

/-- the loop shipped before the `fix:` commit fails on its own output when a string key looks like an integer:
`replace_by_pure_dict(s, to_pure_dict(s))` with `s = {'layers': {'0': 1, 'x': 2}}` raised ValueError (finding
F14), while the repaired definition returns the state -/
theorem replace_orig_counterexample :
    let s : SMap Int := [(.str "layers", .dict [(.str "0", .leaf 1), (.str "x", .leaf 2)])]
    toPure (fun a => a) s = .ok s ∧
    replaceByPureOrig tryConvertInt (fun _ v => v) s s = .error .keyNotInState ∧
    replaceByPure tryConvertInt (fun _ v => v) s s = .ok s := by
  refine ⟨rfl, rfl, rfl⟩

/-- `try_convert_int` on the keys involved -/
example : tryConvertInt (.str "0") = .int 0 ∧ tryConvertInt (.str "layers") = .str "layers" ∧
    tryConvertInt (.str "-12") = .int (-12) ∧ tryConvertInt (.str "") = .str "" := by decide

/-- the documented use keeps working after the repair: int keys of the State addressed by the stringified keys of a
restored pure dict -/
example : replaceByPure tryConvertInt (fun _ v => v)
    ([(.str "layers", .dict [(.int 0, .leaf 1), (.int 1, .leaf 2)])] : SMap Int)
    [(.str "layers", .dict [(.str "0", .leaf 10), (.str "1", .leaf 20)])]
    = .ok [(.str "layers", .dict [(.int 0, .leaf 10), (.int 1, .leaf 20)])] := by rfl

end StateLaws

/-! ## the hypotheses are satisfiable by non-trivial instances -/

section Examples
open Flax.State

/-- a nested dict with an empty sub-dict, an empty-string key and a digit-string key -/
private def tEx : List (String × Tree String Nat) :=
  [("a", .dict [("b", .leaf 1), ("", .dict []), ("0", .dict [("c", .leaf 2)])]), ("d", .leaf 3)]

example : WF (.dict tEx) := by simp [tEx, WF, WFKvs]

example : (fun (p : Path String) (_ : Tree String Nat) => decide (p.length = 2)) [] (.dict tEx) = false := by decide

example : ∀ k ∈ keysKvs tEx, NoOverlap "/".toList k.toList := by
  have : "/".toList = ['/'] := by decide
  simp only [this, noOverlap_singleton]
  decide

example : (flatten true noLeaf (.dict tEx) >>= unflatten) = .ok (.dict tEx) := by rfl

example : (flatten false noLeaf (.dict tEx) >>= unflatten)
    = .ok (.dict [("a", .dict [("b", .leaf 1), ("0", .dict [("c", .leaf 2)])]), ("d", .leaf 3)]) := by rfl

example : ∀ e ∈ [((["a", "b"] : Path String), (FVal.val (.leaf 1) : FVal String Nat)), (["a", "c"], .emptyNode)],
    e.1 ≠ [] ∧ OkVal true e.2 := by
  intro e he
  simp only [List.mem_cons, List.not_mem_nil, or_false] at he
  rcases he with rfl | rfl
  · exact ⟨by simp, Or.inl ⟨1, rfl⟩⟩
  · exact ⟨by simp, Or.inr ⟨rfl, rfl⟩⟩

/-- a State with `str` and `int` keys, a digit-string key and an empty sub-dict -/
private def sEx : SMap Int :=
  [(.str "layers", .dict [(.int 0, .dict [(.str "w", .leaf 1), (.str "b", .leaf 2)]), (.int 1, .dict [(.str "w", .leaf 3)])]),
   (.str "0", .leaf 4), (.str "e", .dict [])]

private def predsEx : List (SPath → Int → Bool) :=
  [fun p _ => decide (Key.str "w" ∈ p), fun _ a => decide (a < 3), fun _ _ => true]

example : WFKvs sEx := by simp [sEx, WFKvs, WF]

example : ∀ e ∈ leaves sEx, firstIdx predsEx e.1 e.2 < predsEx.length := by decide

example : ∃ e ∈ leaves sEx, firstIdx (predsEx.take 1) e.1 e.2 = (predsEx.take 1).length := by decide

example : splitState predsEx sEx = .ok
    [[(.str "layers", .dict [(.int 0, .dict [(.str "w", .leaf 1)]), (.int 1, .dict [(.str "w", .leaf 3)])])],
     [(.str "layers", .dict [(.int 0, .dict [(.str "b", .leaf 2)])])],
     [(.str "0", .leaf 4)]] := by rfl

private def bEx : SMap Int := [(.str "layers", .dict [(.int 1, .dict [(.str "w", .leaf 30)])]), (.str "new", .leaf 5)]

example : ∀ e1 ∈ [sEx, bEx].flatMap leaves, ∀ e2 ∈ [sEx, bEx].flatMap leaves, e1.1 = e2.1 ∨ Incomp e1.1 e2.1 := by
  simp only [Incomp]
  decide

example : mergeState sEx [bEx] = .ok
    [(.str "layers", .dict [(.int 0, .dict [(.str "w", .leaf 1), (.str "b", .leaf 2)]), (.int 1, .dict [(.str "w", .leaf 30)])]),
     (.str "0", .leaf 4), (.str "new", .leaf 5)] := by rfl

example : diff sEx bEx = .ok
    [(.str "0", .leaf 4), (.str "layers", .dict [(.int 0, .dict [(.str "b", .leaf 2), (.str "w", .leaf 1)])])] := by rfl

end Examples

end Flax.C16
