/-
C16 — Flatten/unflatten of nested dicts and NNX State conversions are mutual inverses.
Property theorems (public `theorem`s); helper lemmas are `private` or live in Flax/Proofs/Traverse*.lean.
-/
import Flax.Model.Traverse
import Flax.Proofs.Traverse
import Flax.Proofs.TraverseInv
import Flax.Model.State
import Flax.Proofs.State
import Flax.Proofs.DictEq

set_option linter.unusedSectionVars false

namespace Flax.C16
open Flax.Traverse

variable {κ α : Type} [DecidableEq κ]

/-! ## flatten ∘ unflatten on nested dicts -/

private theorem aux_loop_key {ρ : Type} (key : Path κ → ρ) (unkey : ρ → Except Err (Path κ)) :
    ∀ (E : List (Path κ × FVal κ α)) (acc : List (κ × Tree κ α)),
    (∀ pv ∈ E, unkey (key pv.1) = .ok pv.1) →
    unflattenLoop unkey acc (E.map (fun pv => (key pv.1, pv.2))) = build acc E := by
  intro E
  induction E with
  | nil => intro acc _; rfl
  | cons x rest ih =>
    intro acc h
    obtain ⟨p, v⟩ := x
    have hp : unkey (key p) = .ok p := h (p, v) (by simp)
    simp only [List.map_cons, unflattenLoop, hp, build_cons, bind, Except.bind]
    cases insertPath acc p v.toTree with
    | error e => rfl
    | ok a => exact ih a (fun pv hpv => h pv (by simp [hpv]))

/-- **Round trip, general form.** For every well-formed nested dict, every `is_leaf` predicate that does not hold at
the root, both settings of `keep_empty_nodes`, and every key encoding `key` (`_key`) that the decoding `unkey`
inverts on the paths that occur: `unflatten (flatten t)` is the normal form `normKvs` of `t` — `t` itself with
`keep_empty_nodes` (`norm_keep`), `t` without its leaf-less sub-dicts otherwise (`prune`). -/
theorem unflattenWith_flattenWith {ρ : Type} [DecidableEq ρ] (key : Path κ → ρ) (unkey : ρ → Except Err (Path κ))
    (keep : Bool) (isLeaf : Path κ → Tree κ α → Bool) (kvs : List (κ × Tree κ α))
    (hwf : WF (.dict kvs)) (hroot : isLeaf [] (.dict kvs) = false)
    (hinv : ∀ pv ∈ flatT keep isLeaf (.dict kvs) [], unkey (key pv.1) = .ok pv.1) :
    (flattenWith key keep isLeaf (.dict kvs) >>= unflattenWith unkey) = .ok (.dict (normKvs keep isLeaf kvs)) := by
  rw [flatT_root keep isLeaf kvs hroot] at hinv
  have hwf' : WFKvs kvs := by simpa [WF] using hwf
  have hpf := relKvs_prefixFree keep kvs isLeaf hwf'
  have hnd : ((relKvs keep isLeaf kvs).map (fun pv => (key pv.1, pv.2))).map Prod.fst |>.Nodup := by
    rw [List.map_map, List.Nodup, List.pairwise_map]
    refine List.Pairwise.imp_of_mem ?_ hpf
    intro a b ha hb hi heq
    have h1 := hinv a ha
    have h2 := hinv b hb
    simp only [Function.comp] at heq
    rw [heq, h2] at h1
    exact hi.ne (Except.ok.inj h1).symm
  simp only [flattenWith, flatT_root keep isLeaf kvs hroot, Dict.ofList_of_nodup _ hnd, bind, Except.bind,
    unflattenWith]
  rw [aux_loop_key key unkey _ _ hinv, build_kvs keep kvs isLeaf [] hwf' (by intro kv _; simp [Dict.get])]
  simp [Except.map]

/-- tuple keys (`sep=None`): the round trip for every `keep_empty_nodes` and `is_leaf` -/
theorem unflatten_flatten_norm (keep : Bool) (isLeaf : Path κ → Tree κ α → Bool) (kvs : List (κ × Tree κ α))
    (hwf : WF (.dict kvs)) (hroot : isLeaf [] (.dict kvs) = false) :
    (flatten keep isLeaf (.dict kvs) >>= unflatten) = .ok (.dict (normKvs keep isLeaf kvs)) :=
  unflattenWith_flattenWith id (fun p => .ok p) keep isLeaf kvs hwf hroot (fun _ _ => rfl)

private theorem aux_norm_keep : ∀ (n : Nat) (isLeaf : Path κ → Tree κ α → Bool),
    (∀ c : Tree κ α, sizeOf c ≤ n → normT true isLeaf c = some c) ∧
    (∀ kvs : List (κ × Tree κ α), sizeOf kvs ≤ n → normKvs true isLeaf kvs = kvs) := by
  intro n
  induction n with
  | zero =>
    intro isLeaf
    refine ⟨fun c h => ?_, fun kvs h => ?_⟩
    · cases c <;> simp at h
    · cases kvs with
      | nil => simp [normKvs]
      | cons x r => simp at h
  | succ n ih =>
    intro isLeaf
    refine ⟨fun c h => ?_, fun kvs h => ?_⟩
    · cases c with
      | leaf v => simp [normT]
      | dict kvs =>
        have hk := (ih isLeaf).2 kvs (by simp at h; omega)
        simp only [normT, hk]
        by_cases h1 : isLeaf [] (.dict kvs) = true
        · simp [h1]
        · cases kvs with
          | nil => simp [h1]
          | cons x r => simp [h1]
    · cases kvs with
      | nil => simp [normKvs]
      | cons x r =>
        obtain ⟨k, c⟩ := x
        have h1 := (ih (fun p => isLeaf (k :: p))).1 c (by simp at h; omega)
        have h2 := (ih isLeaf).2 r (by simp at h; omega)
        simp [normKvs, h1, h2]

/-- with `keep_empty_nodes=True` the normal form is the tree itself -/
theorem norm_keep (isLeaf : Path κ → Tree κ α → Bool) (kvs : List (κ × Tree κ α)) :
    normKvs true isLeaf kvs = kvs :=
  (aux_norm_keep (sizeOf kvs) isLeaf).2 kvs (Nat.le_refl _)

/-- **`unflatten_dict(flatten_dict(t, keep_empty_nodes=True, is_leaf)) == t`, exactly** (same keys, same order,
same leaves, empty dicts included), for every nested dict and every `is_leaf` that is false at the root. -/
theorem unflatten_flatten_keep (isLeaf : Path κ → Tree κ α → Bool) (kvs : List (κ × Tree κ α))
    (hwf : WF (.dict kvs)) (hroot : isLeaf [] (.dict kvs) = false) :
    (flatten true isLeaf (.dict kvs) >>= unflatten) = .ok (.dict kvs) := by
  rw [unflatten_flatten_norm true isLeaf kvs hwf hroot, norm_keep]

/-- **without `keep_empty_nodes` the round trip is `prune`**: the tree without its leaf-less sub-dicts -/
theorem unflatten_flatten_prune (kvs : List (κ × Tree κ α)) (hwf : WF (.dict kvs)) :
    (flatten false noLeaf (.dict kvs) >>= unflatten) = .ok (prune (.dict kvs)) :=
  unflatten_flatten_norm false noLeaf kvs hwf rfl

/-! ### what `prune` removes: nothing but leaf-less sub-dicts -/

mutual
  /-- every dict below this node is non-empty -/
  def NoEmptyT : Tree κ α → Prop
    | .leaf _ => True
    | .dict kvs => kvs ≠ [] ∧ NoEmptyKvs kvs
  def NoEmptyKvs : List (κ × Tree κ α) → Prop
    | [] => True
    | (_, c) :: rest => NoEmptyT c ∧ NoEmptyKvs rest
end

private theorem aux_prune_self : ∀ (n : Nat),
    (∀ c : Tree κ α, sizeOf c ≤ n → NoEmptyT c → normT false noLeaf c = some c) ∧
    (∀ kvs : List (κ × Tree κ α), sizeOf kvs ≤ n → NoEmptyKvs kvs → normKvs false noLeaf kvs = kvs) := by
  intro n
  induction n with
  | zero =>
    refine ⟨fun c h _ => ?_, fun kvs h _ => ?_⟩
    · cases c <;> simp at h
    · cases kvs with
      | nil => simp [normKvs]
      | cons x r => simp at h
  | succ n ih =>
    refine ⟨fun c h hne => ?_, fun kvs h hne => ?_⟩
    · cases c with
      | leaf v => simp [normT]
      | dict kvs =>
        simp only [NoEmptyT] at hne
        have hk := ih.2 kvs (by simp at h; omega) hne.2
        simp only [normT, noLeaf, Bool.false_eq_true, ↓reduceIte, Bool.false_and]
        rw [hk]
        cases kvs with
        | nil => exact absurd rfl hne.1
        | cons x r => rfl
    · cases kvs with
      | nil => simp [normKvs]
      | cons x r =>
        obtain ⟨k, c⟩ := x
        simp only [NoEmptyKvs] at hne
        have h1 := ih.1 c (by simp at h; omega) hne.1
        have h2 := ih.2 r (by simp at h; omega) hne.2
        have e : (fun p => noLeaf (k :: p)) = (noLeaf : Path κ → Tree κ α → Bool) := rfl
        simp [normKvs, e, h1, h2]

/-- a tree without empty sub-dicts is its own `prune`: there the round trip is exact even without
`keep_empty_nodes` -/
theorem prune_eq_self (kvs : List (κ × Tree κ α)) (h : NoEmptyKvs kvs) : prune (.dict kvs) = .dict kvs := by
  simp only [prune]
  rw [(aux_prune_self (sizeOf kvs)).2 kvs (Nat.le_refl _) h]

private theorem aux_prune_leaves : ∀ (n : Nat),
    (∀ c : Tree κ α, sizeOf c ≤ n →
      leavesT c = match normT false noLeaf c with | some c' => leavesT c' | none => []) ∧
    (∀ kvs : List (κ × Tree κ α), sizeOf kvs ≤ n → leavesKvs (normKvs false noLeaf kvs) = leavesKvs kvs) := by
  intro n
  induction n with
  | zero =>
    refine ⟨fun c h => ?_, fun kvs h => ?_⟩
    · cases c <;> simp at h
    · cases kvs with
      | nil => simp [normKvs]
      | cons x r => simp at h
  | succ n ih =>
    refine ⟨fun c h => ?_, fun kvs h => ?_⟩
    · cases c with
      | leaf v => simp [normT]
      | dict kvs =>
        have hk := ih.2 kvs (by simp at h; omega)
        simp only [normT, noLeaf, Bool.false_eq_true, ↓reduceIte, Bool.false_and]
        cases hn : normKvs false noLeaf kvs with
        | nil => rw [hn] at hk; simp [leavesT, ← hk, leavesKvs]
        | cons x r => rw [hn] at hk; simp [leavesT, hk]
    · cases kvs with
      | nil => simp [normKvs]
      | cons x r =>
        obtain ⟨k, c⟩ := x
        have h1 := ih.1 c (by simp at h; omega)
        have h2 := ih.2 r (by simp at h; omega)
        have e : (fun p => noLeaf (k :: p)) = (noLeaf : Path κ → Tree κ α → Bool) := rfl
        simp only [normKvs, e, leavesKvs]
        cases hn : normT false noLeaf c with
        | none => rw [hn] at h1; simp [h1, h2]
        | some c' => rw [hn] at h1; simp [leavesKvs, h1, h2]

/-- `prune` loses no leaf and moves none: the leaves of `prune t`, with their paths and in the same order, are
the leaves of `t` -/
theorem prune_leaves (kvs : List (κ × Tree κ α)) : leavesT (prune (.dict kvs)) = leavesT (.dict kvs) := by
  simp only [prune, leavesT]
  exact (aux_prune_leaves (sizeOf kvs)).2 kvs (Nat.le_refl _)

example : NoEmptyKvs ([("a", .dict [("b", .leaf 1)]), ("c", .leaf 2)] : List (String × Tree String Nat)) := by
  simp [NoEmptyKvs, NoEmptyT]

/-! ## separator-joined keys -/

/-- **`unflatten_dict(flatten_dict(t, keep, is_leaf, sep), sep)` is the same normal form** for every non-empty
separator that does not overlap any key of the tree (`NoOverlap`: `sep` does not occur in `key ++ sep[:-1]`). -/
theorem unflatten_flatten_sep (sep : String) (hsep : sep ≠ "") (keep : Bool)
    (isLeaf : Path String → Tree String α → Bool) (kvs : List (String × Tree String α))
    (hwf : WF (.dict kvs)) (hroot : isLeaf [] (.dict kvs) = false)
    (hkeys : ∀ k ∈ keysKvs kvs, NoOverlap sep.toList k.toList) :
    (flattenSep sep keep isLeaf (.dict kvs) >>= unflattenSep sep) = .ok (.dict (normKvs keep isLeaf kvs)) := by
  refine unflattenWith_flattenWith (joinS sep) (splitS sep) keep isLeaf kvs hwf hroot ?_
  rw [flatT_root keep isLeaf kvs hroot]
  intro pv hpv
  exact splitS_joinS sep hsep pv.1 (relKvs_paths_ne_nil keep isLeaf kvs pv hpv)
    (fun k hk => hkeys k (relKvs_keys keep kvs isLeaf pv hpv k hk))

/-- one-character separator: "not occurring in any key" is exactly the hypothesis needed -/
theorem unflatten_flatten_sep_char (c : Char) (keep : Bool)
    (isLeaf : Path String → Tree String α → Bool) (kvs : List (String × Tree String α))
    (hwf : WF (.dict kvs)) (hroot : isLeaf [] (.dict kvs) = false)
    (hkeys : ∀ k ∈ keysKvs kvs, c ∉ k.toList) :
    (flattenSep (String.singleton c) keep isLeaf (.dict kvs) >>= unflattenSep (String.singleton c))
      = .ok (.dict (normKvs keep isLeaf kvs)) := by
  refine unflatten_flatten_sep (String.singleton c) ?_ keep isLeaf kvs hwf hroot ?_
  · intro e
    have := congrArg String.toList e
    simp at this
  · intro k hk
    have : (String.singleton c).toList = [c] := by simp
    rw [this, noOverlap_singleton]
    exact hkeys k hk

/-- the hypothesis cannot be weakened to "the separator occurs in no key" for longer separators:
`'aa'.join(['xa', 'y']) == 'xaaay'` and `'xaaay'.split('aa') == ['x', 'ay']` (reproduced on the real code:
`unflatten_dict(flatten_dict({'xa': {'y': 1}}, sep='aa'), sep='aa') == {'x': {'ay': 1}}`). -/
theorem sep_overlap_counterexample :
    ¬ ['a', 'a'] <:+: ['x', 'a'] ∧ ¬ ['a', 'a'] <:+: ['y'] ∧
    splitAux ['a', 'a'] (joinL ['a', 'a'] [['x', 'a'], ['y']]) [] 0 = [['x'], ['a', 'y']] ∧
    ¬ NoOverlap ['a', 'a'] ['x', 'a'] := by
  refine ⟨by decide, by decide, by decide, ?_⟩
  simp only [NoOverlap, Classical.not_not]
  exact ⟨['x'], [], by decide⟩

example : NoOverlap "::".toList "a:".toList → False := by
  intro h; apply h; exact ⟨['a'], [], by decide⟩

example : NoOverlap "/".toList "params_0".toList := by
  have : "/".toList = ['/'] := by decide
  rw [this, noOverlap_singleton]; decide

/-! ## the excluded point: `is_leaf` true at the root (finding F7) -/

/-- when `is_leaf((), root)` holds, `flatten_dict` returns `{(): root}` and `unflatten_dict` of that raises
(`path[-1]` on the empty tuple: IndexError) -/
theorem root_leaf_guard (keep : Bool) (isLeaf : Path κ → Tree κ α → Bool) (kvs : List (κ × Tree κ α))
    (hroot : isLeaf [] (.dict kvs) = true) :
    flatten keep isLeaf (.dict kvs) = .ok [([], .val (.dict kvs))] ∧
    (flatten keep isLeaf (.dict kvs) >>= unflatten) = .error .emptyPath := by
  have h : flatten keep isLeaf (.dict kvs) = .ok [([], .val (.dict kvs))] := by
    simp [flatten, flattenWith, flatT, hroot, Dict.ofList, Dict.set]
  refine ⟨h, ?_⟩
  rw [h]
  simp [unflatten, unflattenWith, unflattenLoop, insertPath, bind, Except.bind, Except.map]

/-- with a separator the same input comes back wrapped under the key `''` -/
theorem root_leaf_guard_sep (sep : String) (hsep : sep ≠ "") (keep : Bool)
    (isLeaf : Path String → Tree String α → Bool) (kvs : List (String × Tree String α))
    (hroot : isLeaf [] (.dict kvs) = true) :
    (flattenSep sep keep isLeaf (.dict kvs) >>= unflattenSep sep) = .ok (.dict [("", .dict kvs)]) := by
  have hs : sep.toList.isEmpty = false := by
    cases h : sep.toList with
    | nil =>
      exfalso; apply hsep
      have := congrArg String.ofList h
      simpa using this
    | cons a l => rfl
  have hj : joinS sep [] = "" := by simp [joinS, joinL]
  have hsp : splitS sep "" = .ok [""] := by
    simp [splitS, splitL, hs, splitAux, Except.map]
  simp [flattenSep, flattenWith, flatT, hroot, Dict.ofList, Dict.set, hj, bind, Except.bind, unflattenSep,
    unflattenWith, unflattenLoop, hsp, insertPath, FVal.toTree, Except.map]

/-! ## the other direction: flatten ∘ unflatten -/

private theorem aux_flatten_root (b : Bool) (kvs : List (κ × Tree κ α))
    (hnd : ((relKvs b noLeaf kvs).map Prod.fst).Nodup) :
    flatten b noLeaf (.dict kvs) = .ok (relKvs b noLeaf kvs) := by
  simp only [flatten, flattenWith, flatT_root b noLeaf kvs rfl]
  have : (relKvs b noLeaf kvs).map (fun pv => (id pv.1, pv.2)) = relKvs b noLeaf kvs := by simp
  rw [this, Dict.ofList_of_nodup _ hnd]

/-- **`flatten_dict(unflatten_dict(m)) == m`** (as dicts: same entries, possibly in another order) for every flat
map `m` whose paths are non-empty and pairwise prefix-incomparable and whose values are leaves (or `empty_node`
when `keep_empty_nodes` is on). In particular `unflatten_dict` does not raise on such maps. -/
theorem flatten_unflatten (b : Bool) (m : List (Path κ × FVal κ α)) (hpf : PrefixFree m)
    (hok : ∀ e ∈ m, e.1 ≠ [] ∧ OkVal b e.2) :
    ∃ t fl, unflatten m = .ok t ∧ flatten b noLeaf t = .ok fl ∧ fl.Perm m := by
  obtain ⟨kvs, h1, h2⟩ := build_flat b m [] (by simpa [relKvs] using hpf) hok
  simp only [relKvs, List.nil_append] at h2
  have hpf' : PrefixFree (relKvs b noLeaf kvs) := (List.Perm.pairwise_iff (fun h => Incomp.symm h) h2).mpr hpf
  refine ⟨.dict kvs, relKvs b noLeaf kvs, ?_, aux_flatten_root b kvs hpf'.nodup_paths, h2⟩
  simp only [unflatten, unflattenWith]
  have : unflattenLoop (fun p => Except.ok p) [] m = build [] m := rfl
  rw [this, h1]; rfl

/-- the hypothesis is satisfiable by a non-trivial map, and is exactly what the flattened form of a well-formed
tree satisfies (`relKvs_prefixFree`) -/
example : PrefixFree [((["a", "b"] : Path String), (FVal.val (.leaf 1) : FVal String Nat)), (["a", "c"], .emptyNode),
    (["d"], .val (.leaf 2))] := by
  simp [PrefixFree, Incomp, List.cons_prefix_cons]

/-- prefix-freeness is needed: `{('a',): 1, ('a','b'): 2}` makes `unflatten_dict` raise (TypeError) -/
theorem unflatten_prefix_conflict :
    unflatten [((["a"] : Path String), (FVal.val (.leaf 1) : FVal String Nat)), (["a", "b"], .val (.leaf 2))]
      = .error .notDict := by
  rfl

/-! ## path_aware_map -/

/-- **`path_aware_map(f, t)` is `t` with `f(path, leaf)` in place of every leaf**: same keys in the same order,
empty dicts included, `f` given the full path. For every well-formed nested dict and every `f`. -/
theorem path_aware_map_spec (f : Path κ → Tree κ α → Tree κ α) (kvs : List (κ × Tree κ α))
    (hwf : WF (.dict kvs)) : pathAwareMap f (.dict kvs) = .ok (mapWithPath f (.dict kvs)) := by
  have hwf' : WFKvs kvs := by simpa [WF] using hwf
  have hnd := (relKvs_prefixFree true kvs noLeaf hwf').nodup_paths
  simp only [pathAwareMap, aux_flatten_root true kvs hnd, bind, Except.bind, unflatten, unflattenWith]
  have h := build_kvs_map kvs f [] hwf' (by intro kv _; simp [Dict.get])
  show Except.map Tree.dict (build [] ((relKvs true noLeaf kvs).map (appF f))) = _
  rw [h]
  simp [Except.map, mapWithPath]

/-- **every leaf is visited exactly once, with its full path**: the list of calls `f(path, value)` made by
`path_aware_map` is the list of leaves of the tree in depth-first order, and the paths are pairwise distinct. -/
theorem path_aware_map_visits (kvs : List (κ × Tree κ α)) (hwf : WF (.dict kvs)) :
    pathAwareCalls (.dict kvs) = .ok ((leavesT (.dict kvs)).map (fun pa => (pa.1, Tree.leaf pa.2))) ∧
    ((leavesT (.dict kvs)).map Prod.fst).Nodup := by
  have hwf' : WFKvs kvs := by simpa [WF] using hwf
  have hnd := (relKvs_prefixFree true kvs noLeaf hwf').nodup_paths
  refine ⟨?_, ?_⟩
  · simp only [pathAwareCalls, aux_flatten_root true kvs hnd, bind, Except.bind, leavesT]
    exact congrArg Except.ok (relKvs_true_calls kvs)
  · have h := (relKvs_prefixFree false kvs noLeaf hwf').nodup_paths
    rw [relKvs_false_leaves, List.map_map] at h
    have e : (Prod.fst ∘ (leafEntry : Path κ × α → Path κ × FVal κ α)) = Prod.fst := by funext pa; rfl
    rw [e] at h
    simpa [leavesT] using h

/-- `mapWithPath` keeps the key structure: same keys, same order, at every level (stated one level at a time) -/
theorem mapWithPath_keys (f : Path κ → Tree κ α → Tree κ α) (kvs : List (κ × Tree κ α)) :
    (mapWithPathKvs f kvs).map Prod.fst = kvs.map Prod.fst := by
  induction kvs generalizing f with
  | nil => rfl
  | cons x rest ih => obtain ⟨k, c⟩ := x; simp [mapWithPathKvs, ih]

example : pathAwareMap (fun p _ => .leaf p.length)
    (.dict [("a", .dict [("x", .leaf 10), ("e", .dict [])]), ("b", .leaf 20)] : Tree String Nat)
    = .ok (.dict [("a", .dict [("x", .leaf 2), ("e", .dict [])]), ("b", .leaf 1)]) := by
  rfl

/-! ## NNX State: flat state and nested state -/

section StateLaws
open Flax.State
variable {β : Type}

/-- **State → FlatState → State is lossless**: `from_flat_state(to_flat_state(s))` succeeds, holds exactly the
leaves of `s` at the same paths, and nothing else (`Content`: no empty sub-dict survives — that is the only
difference to `s`, cf. `unflatten_flatten_prune`). For every well-formed state over any key set. -/
theorem state_flat_roundtrip (s : SMap α) (hwf : WFKvs s) :
    ∃ s', fromFlat (toFlat s) = .ok s' ∧ (Content s').Perm ((leaves s).map leafEntry) ∧
      (leaves s').Perm (leaves s) := by
  have hp := toFlat_perm s
  obtain ⟨s', h1, h2, h3⟩ := fromFlat_spec (toFlat s) (PrefixFree.perm hp.symm (leaves_prefixFree s hwf))
    (fun e he => leaves_paths_ne_nil s e (hp.mem_iff.mp he))
  exact ⟨s', h1, h2.trans (hp.map _), h3.trans hp⟩

/-- **FlatState → State → FlatState is lossless** for every flat state with non-empty, pairwise
prefix-incomparable paths (what `to_flat_state` produces, `leaves_prefixFree`) -/
theorem flat_state_roundtrip (m : Flat α) (hpf : PrefixFree m) (hne : ∀ e ∈ m, e.1 ≠ []) :
    ∃ s', fromFlat m = .ok s' ∧ (toFlat s').Perm m := by
  obtain ⟨s', h1, _, h3⟩ := fromFlat_spec m hpf hne
  exact ⟨s', h1, (toFlat_perm s').trans h3⟩

/-! ### split / filter: first-match partition -/

theorem firstIdx_le (preds : List (SPath → α → Bool)) (p : SPath) (a : α) :
    firstIdx preds p a ≤ preds.length := by
  induction preds with
  | nil => simp [firstIdx]
  | cons f fs ih => simp only [firstIdx]; split <;> simp <;> omega

/-- `firstIdx` is the first predicate that holds: it holds there and no earlier predicate holds -/
theorem firstIdx_spec (preds : List (SPath → α → Bool)) (p : SPath) (a : α) :
    (∀ j, j < firstIdx preds p a → ∀ f, preds[j]? = some f → f p a = false) ∧
    (∀ f, preds[firstIdx preds p a]? = some f → f p a = true) := by
  induction preds with
  | nil => simp [firstIdx]
  | cons g gs ih =>
    by_cases hg : g p a = true
    · simp [firstIdx, hg]
    · simp only [firstIdx, hg, Bool.false_eq_true, ↓reduceIte]
      refine ⟨?_, ?_⟩
      · intro j hj f hf
        cases j with
        | zero => simp at hf; subst hf; simpa using hg
        | succ j => exact ih.1 j (by omega) f (by simpa using hf)
      · intro f hf; exact ih.2 f (by simpa using hf)

/-- the leaves whose first matching predicate is number `i` -/
def bucket (preds : List (SPath → α → Bool)) (i : Nat) (m : Flat α) : Flat α :=
  m.filter (fun e => firstIdx preds e.1 e.2 == i)

private theorem aux_split (preds : List (SPath → α → Bool)) (s : SMap α) (hwf : WFKvs s) (idxs : List Nat) :
    ∃ states, (idxs.map (fun i => (toFlat s).filter (fun e => firstIdx preds e.1 e.2 == i))).mapM fromFlat
        = .ok states ∧
      Forall2 (fun i st => (Content st).Perm ((bucket preds i (leaves s)).map leafEntry) ∧
        (leaves st).Perm (bucket preds i (leaves s))) idxs states := by
  have hp := toFlat_perm s
  have hpf : PrefixFree (toFlat s) := PrefixFree.perm hp.symm (leaves_prefixFree s hwf)
  obtain ⟨states, h1, h2⟩ := mapM_forall2 fromFlat
    (fun b st => ∃ i, b = (toFlat s).filter (fun e => firstIdx preds e.1 e.2 == i) ∧
      (Content st).Perm (b.map leafEntry) ∧ (leaves st).Perm b)
    (idxs.map (fun i => (toFlat s).filter (fun e => firstIdx preds e.1 e.2 == i))) (by
      intro b hb
      simp only [List.mem_map] at hb
      obtain ⟨i, _, rfl⟩ := hb
      obtain ⟨st, e1, e2, e3⟩ := fromFlat_spec ((toFlat s).filter (fun e => firstIdx preds e.1 e.2 == i))
        (PrefixFree.sublist List.filter_sublist hpf)
        (fun e he => leaves_paths_ne_nil s e (hp.mem_iff.mp (List.mem_filter.mp he).1))
      exact ⟨st, e1, i, rfl, e2, e3⟩)
  refine ⟨states, h1, ?_⟩
  have h3 := Forall2.of_map_left _ h2
  -- the index in the existential is the list index: recover it from the bucket equation is not needed,
  -- the relation is re-established directly
  clear h2 h1
  induction h3 with
  | nil => exact .nil
  | @cons i st is sts hr _ ih =>
    refine .cons ?_ ih
    obtain ⟨j, _, e2, e3⟩ := hr
    have hb : ((toFlat s).filter (fun e => firstIdx preds e.1 e.2 == i)).Perm (bucket preds i (leaves s)) :=
      hp.filter _
    exact ⟨e2.trans (hb.map _), e3.trans hb⟩

private theorem aux_content_nil (st : SMap α) (b : Flat α) (h : (Content st).Perm (b.map leafEntry)) :
    st = [] ↔ b = [] := by
  constructor
  · intro e; subst e
    have := h.length_eq
    simpa [relKvs] using this.symm
  · intro e; subst e
    cases st with
    | nil => rfl
    | cons x r =>
      have h1 := relKvs_true_ne_nil (x :: r) (by simp)
      have h2 := h.length_eq
      simp only [List.map_nil, List.length_nil, List.length_eq_zero_iff] at h2
      exact absurd h2 h1

/-- **`filter_state` partitions by first match**: one state per filter, and the `i`-th state holds exactly the
leaves of `s` whose first matching filter is `i` (and no empty sub-dict); unmatched leaves are dropped. -/
theorem filter_first_match (preds : List (SPath → α → Bool)) (s : SMap α) (hwf : WFKvs s) :
    ∃ states, filterState preds s = .ok states ∧
      Forall2 (fun i st => (Content st).Perm ((bucket preds i (leaves s)).map leafEntry) ∧
        (leaves st).Perm (bucket preds i (leaves s))) (List.range preds.length) states := by
  obtain ⟨states, h1, h2⟩ := aux_split preds s hwf (List.range preds.length)
  refine ⟨states, ?_, h2⟩
  simp only [filterState, splitFlat, ← List.map_take]
  have : (List.range (preds.length + 1)).take preds.length = List.range preds.length := by
    rw [List.range_succ, List.take_left' (by simp)]
  rw [this]
  exact h1

/-- **`split_state` partitions by first match and loses nothing**: when every leaf matches some filter, the result
is one state per filter holding exactly the leaves whose first match it is; -/
theorem split_first_match (preds : List (SPath → α → Bool)) (s : SMap α) (hwf : WFKvs s)
    (hex : ∀ e ∈ leaves s, firstIdx preds e.1 e.2 < preds.length) :
    ∃ states, splitState preds s = .ok states ∧
      Forall2 (fun i st => (Content st).Perm ((bucket preds i (leaves s)).map leafEntry) ∧
        (leaves st).Perm (bucket preds i (leaves s))) (List.range preds.length) states := by
  obtain ⟨all, h1, h2⟩ := aux_split preds s hwf (List.range (preds.length + 1))
  rw [List.range_succ] at h2
  obtain ⟨ys1, y, e, h3, h4⟩ := h2.snoc_left
  refine ⟨ys1, ?_, h3⟩
  have hlen : ys1.length = preds.length := by simpa using h3.length_eq.symm
  have hy : y = [] := by
    rw [aux_content_nil y _ h4.1]
    simp only [bucket, List.filter_eq_nil_iff, beq_iff_eq]
    intro x hx hn
    have := hex x hx
    omega
  simp only [splitState, splitFlat, h1, bind, Except.bind, e, hy, List.getLast?_append, List.getLast?_singleton,
    Option.some_or]
  rw [List.take_left' hlen]

/-! #### type filters overlap (`Variable ⊇ Param ⊇ LoRAParam`): first match still decides

`split_first_match` / `filter_first_match` are stated for arbitrary predicates, so they cover plain type filters
(`ofType`), which are *not* disjoint: a leaf of type `Param` also matches `Variable`. The next three theorems spell
out what first-match means for overlapping type filters. -/

/-- a type filter at position `i` that matches the leaf caps the bucket index: the leaf cannot land later -/
theorem firstIdx_le_of_holds (preds : List (SPath → α → Bool)) (p : SPath) (a : α) (i : Nat)
    (f : SPath → α → Bool) (hf : preds[i]? = some f) (hh : f p a = true) : firstIdx preds p a ≤ i := by
  rcases Nat.lt_or_ge i (firstIdx preds p a) with hlt | hge
  · have := (firstIdx_spec preds p a).1 i hlt f hf
    rw [hh] at this; cases this
  · exact hge

/-- **broad type first, narrower type later: the narrower filter's state is empty.** If every leaf that matches the
filter at position `j` also matches the (broader) filter at an earlier position `i`, then no leaf lands in bucket
`j` — e.g. `split(Variable, Param, ...)` and `split(Param, LoRAParam, ...)`: everything goes to the first one. -/
theorem shadowed_filter_bucket_empty (preds : List (SPath → α → Bool)) (i j : Nat) (hij : i < j)
    (fi fj : SPath → α → Bool) (hi : preds[i]? = some fi) (hj : preds[j]? = some fj)
    (hsub : ∀ p a, fj p a = true → fi p a = true) (m : Flat α) : bucket preds j m = [] := by
  simp only [bucket, List.filter_eq_nil_iff, beq_iff_eq]
  intro e _ he
  have h1 := (firstIdx_spec preds e.1 e.2).2 fj (by rw [he]; exact hj)
  have h2 := firstIdx_le_of_holds preds e.1 e.2 i fi hi (hsub e.1 e.2 h1)
  omega

/-- the instance for type filters: `t₂`'s MRO contains `t₁` (`t₂` is a subclass of `t₁`) -/
theorem subclass_after_baseclass_empty (typesOf : α → List String) (t1 t2 : String)
    (hsub : ∀ a, t2 ∈ typesOf a → t1 ∈ typesOf a)
    (preds : List (SPath → α → Bool)) (i j : Nat) (hij : i < j)
    (hi : preds[i]? = some (ofType typesOf t1)) (hj : preds[j]? = some (ofType typesOf t2)) (m : Flat α) :
    bucket preds j m = [] :=
  shadowed_filter_bucket_empty preds i j hij _ _ hi hj
    (fun _ a h => by simp only [ofType, decide_eq_true_eq] at h ⊢; exact hsub a h) m

/-- a concrete hierarchy: leaves of types Param, LoRAParam (a Param), BatchStat; `split(Param, LoRAParam, ...)` puts
the LoRAParam leaf into the *first* state, `split(LoRAParam, Param, ...)` into its own -/
example :
    let typesOf : Int → List String := fun a =>
      if a = 1 then ["Param", "Variable"] else if a = 2 then ["LoRAParam", "Param", "Variable"]
      else ["BatchStat", "Variable"]
    let s : SMap Int := [(.str "enc", .dict [(.str "kernel", .leaf 1), (.str "lora_a", .leaf 2), (.str "mean", .leaf 3)])]
    splitState [ofType typesOf "Param", ofType typesOf "LoRAParam", fun _ _ => true] s
      = .ok [[(.str "enc", .dict [(.str "kernel", .leaf 1), (.str "lora_a", .leaf 2)])], [],
             [(.str "enc", .dict [(.str "mean", .leaf 3)])]] ∧
    splitState [ofType typesOf "LoRAParam", ofType typesOf "Param", fun _ _ => true] s
      = .ok [[(.str "enc", .dict [(.str "lora_a", .leaf 2)])], [(.str "enc", .dict [(.str "kernel", .leaf 1)])],
             [(.str "enc", .dict [(.str "mean", .leaf 3)])]] := by
  refine ⟨rfl, rfl⟩

/-- …and when some leaf matches no filter, `split_state` raises instead of dropping it. -/
theorem split_non_exhaustive (preds : List (SPath → α → Bool)) (s : SMap α) (hwf : WFKvs s)
    (hex : ∃ e ∈ leaves s, firstIdx preds e.1 e.2 = preds.length) :
    splitState preds s = .error .nonExhaustive := by
  obtain ⟨all, h1, h2⟩ := aux_split preds s hwf (List.range (preds.length + 1))
  rw [List.range_succ] at h2
  obtain ⟨ys1, y, e, h3, h4⟩ := h2.snoc_left
  have hy : y ≠ [] := by
    rw [Ne, aux_content_nil y _ h4.1]
    obtain ⟨x, hx, hn⟩ := hex
    intro hb
    have : x ∈ bucket preds preds.length (leaves s) := by
      simp [bucket, List.mem_filter, hx, hn]
    rw [hb] at this
    simp at this
  simp only [splitState, splitFlat, h1, bind, Except.bind, e, List.getLast?_append, List.getLast?_singleton,
    Option.some_or]
  cases y with
  | nil => exact absurd rfl hy
  | cons a b => rfl

/-! ### merge -/

private theorem aux_merge_unfold (s : SMap α) (rest : List (SMap α)) (hrest : rest ≠ []) :
    mergeState s rest = fromFlat (Dict.ofList ((s :: rest).flatMap leaves)) := by
  cases rest with
  | nil => exact absurd rfl hrest
  | cons r rs => simp only [mergeState, flatSeq_eq_leaves]

private theorem aux_fromFlat_ofList (l : Flat α)
    (hcompat : ∀ e1 ∈ l, ∀ e2 ∈ l, e1.1 = e2.1 ∨ Incomp e1.1 e2.1) (hne : ∀ e ∈ l, e.1 ≠ []) :
    ∃ s', fromFlat (Dict.ofList l) = .ok s' ∧ (Content s').Perm ((Dict.ofList l).map leafEntry) ∧
      ∀ p a, (p, a) ∈ leaves s' ↔ lastVal l p = some a := by
  have hmem : ∀ e ∈ Dict.ofList l, e ∈ l := by
    intro e he
    obtain ⟨p, a⟩ := e
    exact lastVal_some_mem l p a ((Dict.mem_ofList l p a).mp he)
  have hnd := Dict.ofList_nodup l
  have hpf : PrefixFree (Dict.ofList l) := by
    rw [List.Nodup, List.pairwise_map] at hnd
    refine List.Pairwise.imp_of_mem ?_ hnd
    intro x y hx hy hxy
    rcases hcompat x (hmem x hx) y (hmem y hy) with h | h
    · exact absurd h hxy
    · exact h
  obtain ⟨s', h1, h2, h3⟩ := fromFlat_spec (Dict.ofList l) hpf (fun e he => hne e (hmem e he))
  refine ⟨s', h1, h2, ?_⟩
  intro p a
  rw [h3.mem_iff, Dict.mem_ofList]

/-- **`merge_state`: later states win.** For two or more states whose paths are pairwise equal or
prefix-incomparable, the merge succeeds and the leaf at every path is the one of the *last* state that has the
path; no path is lost and none is invented. -/
theorem merge_later_wins (s : SMap α) (rest : List (SMap α)) (hrest : rest ≠ [])
    (hcompat : ∀ e1 ∈ (s :: rest).flatMap leaves, ∀ e2 ∈ (s :: rest).flatMap leaves,
      e1.1 = e2.1 ∨ Incomp e1.1 e2.1) :
    ∃ s', mergeState s rest = .ok s' ∧
      ∀ p a, (p, a) ∈ leaves s' ↔ lastVal ((s :: rest).flatMap leaves) p = some a := by
  rw [aux_merge_unfold s rest hrest]
  obtain ⟨s', h1, _, h3⟩ := aux_fromFlat_ofList ((s :: rest).flatMap leaves) hcompat (by
    intro e he
    simp only [List.mem_flatMap] at he
    obtain ⟨st, _, hst⟩ := he
    exact leaves_paths_ne_nil st e hst)
  exact ⟨s', h1, h3⟩

/-- `State.__or__`: `a | b` is `a` when `b` is empty, the merge otherwise -/
theorem or_spec (a b : SMap α) :
    stateOr a b = if b.isEmpty then .ok a else mergeState a [b] := rfl

/-- **`merge_state` is the inverse of `split_state`**: merging the states returned by a split gives back exactly
the leaves of the original state at their paths (and no empty sub-dict). For every state and every filter list. -/
theorem merge_inverse_of_split (preds : List (SPath → α → Bool)) (s : SMap α) (hwf : WFKvs s)
    (s0 : SMap α) (srest : List (SMap α)) (h : splitState preds s = .ok (s0 :: srest)) :
    ∃ s', mergeState s0 srest = .ok s' ∧ (Content s').Perm ((leaves s).map leafEntry) ∧
      (leaves s').Perm (leaves s) := by
  have hex : ∀ e ∈ leaves s, firstIdx preds e.1 e.2 < preds.length := by
    intro e he
    have hle := firstIdx_le preds e.1 e.2
    rcases Nat.lt_or_ge (firstIdx preds e.1 e.2) preds.length with hlt | hge
    · exact hlt
    · have := split_non_exhaustive preds s hwf ⟨e, he, by omega⟩
      rw [this] at h
      cases h
  obtain ⟨states, h1, h2⟩ := split_first_match preds s hwf hex
  rw [h1] at h
  have hs : states = s0 :: srest := Except.ok.inj h
  subst hs
  have hall : ((s0 :: srest).flatMap leaves).Perm (leaves s) := by
    have h3 := Forall2.flatMap_perm (f := fun i => bucket preds i (leaves s)) (g := leaves)
      (fun i st hr => hr.2) h2
    have hb := buckets_perm (fun (e : SPath × α) => firstIdx preds e.1 e.2) (leaves s) preds.length
    refine h3.trans (hb.trans ?_)
    rw [List.filter_eq_self.mpr]
    intro e he
    simpa using hex e he
  cases hsr : srest with
  | nil =>
    subst hsr
    have hlen := h2.length_eq
    have hr := h2.get 0 (by simp at hlen ⊢; omega) (by simp)
    simp only [List.getElem_cons_zero] at hr
    have hl : (leaves s0).Perm (leaves s) := by simpa using hall
    exact ⟨s0, rfl, hr.1.trans ((hr.2.symm.trans hl).map _), hl⟩
  | cons r rs =>
    rw [← hsr, aux_merge_unfold s0 srest (by rw [hsr]; simp)]
    have hpf : PrefixFree ((s0 :: srest).flatMap leaves) := PrefixFree.perm hall.symm (leaves_prefixFree s hwf)
    rw [Dict.ofList_of_nodup _ hpf.nodup_paths]
    obtain ⟨s', e1, e2, e3⟩ := fromFlat_spec _ hpf (fun e he => leaves_paths_ne_nil s e (hall.mem_iff.mp he))
    exact ⟨s', e1, e2.trans (hall.map _), e3.trans hall⟩

/-! ### diff -/

/-- **`a - b` keeps exactly the paths of `a` that are absent from `b`, with `a`'s leaves** (repaired `diff`,
finding F2), for every well-formed `a` and every non-empty `b` -/
theorem diff_spec (a b : SMap α) (hwf : WFKvs a) (hb : b ≠ []) :
    ∃ s', diff a b = .ok s' ∧
      (Content s').Perm (((leaves a).filter (fun e => !decide (e.1 ∈ (leaves b).map Prod.fst))).map leafEntry) ∧
      ∀ p x, (p, x) ∈ leaves s' ↔ ((p, x) ∈ leaves a ∧ p ∉ (leaves b).map Prod.fst) := by
  have hbe : b.isEmpty = false := by cases b with
    | nil => exact absurd rfl hb
    | cons _ _ => rfl
  have hpa := toFlat_perm a
  have hpb := toFlat_perm b
  have hfun : (fun e : SPath × α => !decide (e.1 ∈ (toFlat b).map Prod.fst))
      = (fun e => !decide (e.1 ∈ (leaves b).map Prod.fst)) := by
    funext e
    have : e.1 ∈ (toFlat b).map Prod.fst ↔ e.1 ∈ (leaves b).map Prod.fst := (hpb.map _).mem_iff
    simp [this]
  have hpf : PrefixFree ((toFlat a).filter (fun e => !decide (e.1 ∈ (leaves b).map Prod.fst))) :=
    PrefixFree.sublist List.filter_sublist (PrefixFree.perm hpa.symm (leaves_prefixFree a hwf))
  simp only [diff, hbe, Bool.false_eq_true, ↓reduceIte, hfun, Dict.ofList_of_nodup _ hpf.nodup_paths]
  obtain ⟨s', e1, e2, e3⟩ := fromFlat_spec _ hpf
    (fun e he => leaves_paths_ne_nil a e (hpa.mem_iff.mp (List.mem_filter.mp he).1))
  have hperm := hpa.filter (fun e => !decide (e.1 ∈ (leaves b).map Prod.fst))
  refine ⟨s', e1, e2.trans (hperm.map _), ?_⟩
  intro p x
  rw [(e3.trans hperm).mem_iff, List.mem_filter]
  simp

/-- subtracting the empty state returns the state itself -/
theorem diff_empty (a : SMap α) : diff a [] = .ok a := rfl

/-- the definition shipped before the `fix:` commit raised for **every** non-empty `b` (finding F2) -/
theorem diffOrig_raises (a b : SMap α) (hb : b ≠ []) : diffOrig a b = .error .attributeError := by
  cases b with
  | nil => exact absurd rfl hb
  | cons _ _ => rfl

/-! ### pure dicts -/

/-- **`to_pure_dict` is lossless**: the pure dict has a value `extract(leaf)` at exactly the paths of the state's
leaves, and no empty sub-dict -/
theorem to_pure_spec (ex : α → β) (s : SMap α) (hwf : WFKvs s) :
    ∃ pd, toPure ex s = .ok pd ∧
      (Content pd).Perm (((leaves s).map (fun e => (e.1, ex e.2))).map leafEntry) ∧
      (leaves pd).Perm ((leaves s).map (fun e => (e.1, ex e.2))) := by
  have hp := toFlat_perm s
  have hpf : PrefixFree ((toFlat s).map (fun e => (e.1, ex e.2))) := by
    have := PrefixFree.perm hp.symm (leaves_prefixFree s hwf)
    simpa [PrefixFree, List.pairwise_map] using this
  simp only [toPure, Dict.ofList_of_nodup _ hpf.nodup_paths]
  obtain ⟨pd, h1, h2, h3⟩ := fromFlat_spec _ hpf (by
    intro e he
    simp only [List.mem_map] at he
    obtain ⟨x, hx, rfl⟩ := he
    exact leaves_paths_ne_nil s x (hp.mem_iff.mp hx))
  have hm := hp.map (fun e => (e.1, ex e.2))
  exact ⟨pd, h1, h2.trans (hm.map _), h3.trans hm⟩

private theorem aux_replaceLoop_id (conv : Key → Key) (repl : α → β → α) : ∀ (items : Flat β) (cur : Flat α),
    (∀ e ∈ items, ∃ a, Dict.get cur e.1 = some a ∧ repl a e.2 = a) →
    replaceLoop conv repl cur items = .ok cur := by
  intro items
  induction items with
  | nil => intro cur _; rfl
  | cons x rest ih =>
    intro cur h
    obtain ⟨kp, v⟩ := x
    obtain ⟨a, h1, h2⟩ := h (kp, v) (by simp)
    simp only [replaceLoop, h1, Option.isSome_some, ↓reduceIte, h2, Dict.set_of_get_some _ _ _ h1]
    exact ih cur (fun e he => h e (by simp [he]))

private theorem aux_wf_nodup : ∀ (s : SMap α), WFKvs s → (s.map Prod.fst).Nodup
  | [], _ => by simp
  | (k, c) :: rest, h => by
    simp only [WFKvs] at h
    simp only [List.map_cons, List.nodup_cons, List.mem_map, not_exists, not_and]
    exact ⟨fun kv hkv e => h.1 kv hkv e, aux_wf_nodup rest h.2.2⟩

/-- **`replace_by_pure_dict(s, to_pure_dict(s))` succeeds and changes no leaf, for every key set** (digit-string keys
included: this is the repaired definition, finding F14), whatever `try_convert_int` does, provided putting a
leaf's own extracted value back gives the same leaf -/
theorem pure_dict_roundtrip (conv : Key → Key) (ex : α → β) (repl : α → β → α) (hrepl : ∀ a, repl a (ex a) = a)
    (s : SMap α) (hwf : WFKvs s) :
    ∃ pd s', toPure ex s = .ok pd ∧ replaceByPure conv repl s pd = .ok s' ∧ (leaves s').Perm (leaves s) := by
  obtain ⟨pd, hpd, _, hl⟩ := to_pure_spec ex s hwf
  have hp := toFlat_perm s
  have hpfs := leaves_prefixFree s hwf
  have hpf : PrefixFree (toFlat s) := PrefixFree.perm hp.symm hpfs
  have hpfpd : PrefixFree (leaves pd) := by
    have : PrefixFree ((leaves s).map (fun e => (e.1, ex e.2))) := by
      simpa [PrefixFree, List.pairwise_map] using hpfs
    exact PrefixFree.perm hl.symm this
  obtain ⟨s2, h1, _, h3⟩ := state_flat_roundtrip s hwf
  have hloop : replaceLoop conv repl (toFlat s) (leaves pd) = .ok (toFlat s) := by
    refine aux_replaceLoop_id conv repl _ _ ?_
    intro e he
    have := hl.mem_iff.mp he
    simp only [List.mem_map] at this
    obtain ⟨x, hx, rfl⟩ := this
    exact ⟨x.2, (Dict.mem_iff_get _ hpf.nodup_paths x.1 x.2).mp (hp.mem_iff.mpr hx), hrepl x.2⟩
  refine ⟨pd, Dict.update s s2, hpd, ?_, ?_⟩
  · simp only [replaceByPure, pureItems, flatSeq_eq_leaves, Dict.ofList_of_nodup _ hpf.nodup_paths,
      Dict.ofList_of_nodup _ hpfpd.nodup_paths, hloop, h1, bind, Except.bind]
  · have hnd2 := fromFlat_nodup _ _ h1
    refine leaves_update_perm s2 s (aux_wf_nodup s hwf) hnd2 ?_
    intro kc hkc
    have hf := h3.filter (headIs kc.1)
    rw [leavesKvs_filter_head kc.1 s2 hnd2, (Dict.mem_iff_get s2 hnd2 kc.1 kc.2).mp hkc] at hf
    exact hf

/-- the loop shipped before the `fix:` commit fails on its own output when a string key looks like an integer:
`replace_by_pure_dict(s, to_pure_dict(s))` with `s = {'layers': {'0': 1, 'x': 2}}` raised ValueError (finding
F14), while the repaired definition returns the state -/
theorem replace_orig_counterexample :
    let s : SMap Int := [(.str "layers", .dict [(.str "0", .leaf 1), (.str "x", .leaf 2)])]
    toPure (fun a => a) s = .ok s ∧
    replaceByPureOrig tryConvertInt (fun _ v => v) s s = .error .keyNotInState ∧
    replaceByPure tryConvertInt (fun _ v => v) s s = .ok s := by
  refine ⟨rfl, rfl, rfl⟩

/-- `try_convert_int` on the keys involved -/
example : tryConvertInt (.str "0") = .int 0 ∧ tryConvertInt (.str "layers") = .str "layers" ∧
    tryConvertInt (.str "-12") = .int (-12) ∧ tryConvertInt (.str "") = .str "" := by decide

/-- the documented use keeps working after the repair: int keys of the State addressed by the stringified keys of a
restored pure dict -/
example : replaceByPure tryConvertInt (fun _ v => v)
    ([(.str "layers", .dict [(.int 0, .leaf 1), (.int 1, .leaf 2)])] : SMap Int)
    [(.str "layers", .dict [(.str "0", .leaf 10), (.str "1", .leaf 20)])]
    = .ok [(.str "layers", .dict [(.int 0, .leaf 10), (.int 1, .leaf 20)])] := by rfl

end StateLaws

/-! ## Python dict equality (`DictEq`): the round trips restated as the property reads

`DictEq` (Flax/Model/Traverse.lean) is `==` on nested dicts: equal leaves; same key set and `DictEq` values under
every key, whatever the insertion order. On well-formed trees it coincides with "same complete content
(`flatten(keep_empty_nodes=True)`) up to order", which is what the theorems above establish. -/

/-- **bridging lemma**: on well-formed trees `DictEq` ⇔ the keep-empty flattened forms are permutations of each other -/
theorem dictEq_iff_content_perm (t u : Tree κ α) (ht : WF t) (hu : WF u) :
    DictEq t u ↔ (relT true noLeaf t).Perm (relT true noLeaf u) :=
  dictEq_iff_content t u ht hu

/-- the same for two dicts, in terms of `Content` -/
theorem dictEq_dict_iff_content_perm (xs ys : List (κ × Tree κ α)) (hx : WFKvs xs) (hy : WFKvs ys) :
    DictEq (.dict xs) (.dict ys) ↔ (relKvs true noLeaf xs).Perm (relKvs true noLeaf ys) :=
  dictEq_dict_iff xs ys hx hy

/-- `DictEq` is an equivalence relation on well-formed trees -/
theorem dictEq_refl (t : Tree κ α) (ht : WF t) : DictEq t t :=
  (dictEq_iff_content t t ht ht).mpr (List.Perm.refl _)

theorem dictEq_symm (t u : Tree κ α) (ht : WF t) (hu : WF u) (h : DictEq t u) : DictEq u t :=
  (dictEq_iff_content u t hu ht).mpr ((dictEq_iff_content t u ht hu).mp h).symm

theorem dictEq_trans (t u w : Tree κ α) (ht : WF t) (hu : WF u) (hw : WF w) (h1 : DictEq t u) (h2 : DictEq u w) :
    DictEq t w :=
  (dictEq_iff_content t w ht hw).mpr
    (((dictEq_iff_content t u ht hu).mp h1).trans ((dictEq_iff_content u w hu hw).mp h2))

/-- insertion order is irrelevant, at any depth -/
example : DictEq (.dict [("a", .leaf 1), ("b", .dict [("c", .leaf 2), ("d", .dict [])])] : Tree String Nat)
    (.dict [("b", .dict [("d", .dict []), ("c", .leaf 2)]), ("a", .leaf 1)]) := by
  simp only [DictEq, EntriesIn, Dict.get]
  refine ⟨_, rfl, ?_, ⟨_, rfl, rfl⟩, ⟨_, rfl, _, rfl, ?_, ⟨_, rfl, rfl⟩, ⟨_, rfl, _, rfl, ?_, trivial⟩, trivial⟩, trivial⟩
  all_goals (intro k; repeat' split) <;> simp_all [Dict.get]

/-- …but an extra empty dict is a difference -/
example : ¬ DictEq (.dict [("a", .leaf 1)] : Tree String Nat) (.dict [("a", .leaf 1), ("e", .dict [])]) := by
  simp only [DictEq, EntriesIn, Dict.get]
  rintro ⟨ys, hys, hk, _⟩
  cases hys
  have := hk "e" (by decide)
  revert this
  decide

/-- **`unflatten_dict(m) == t` for every dict `m` equal to `flatten_dict(t, keep_empty_nodes=True)`**, i.e. for any
insertion order of the flat dict: the result is `t` as a Python dict. (With the flattened order itself the
result is `t` literally: `unflatten_flatten_keep`.) -/
theorem unflatten_flatten_keep_dictEq (kvs : List (κ × Tree κ α)) (hwf : WF (.dict kvs))
    (fl m : List (Path κ × FVal κ α)) (hfl : flatten true noLeaf (.dict kvs) = .ok fl) (hm : m.Perm fl) :
    ∃ t', unflatten m = .ok t' ∧ WF t' ∧ DictEq t' (.dict kvs) := by
  have hwf' : WFKvs kvs := by simpa [WF] using hwf
  have hpf := relKvs_prefixFree true kvs noLeaf hwf'
  rw [aux_flatten_root true kvs hpf.nodup_paths] at hfl
  have hfl' : fl = relKvs true noLeaf kvs := (Except.ok.inj hfl).symm
  subst hfl'
  have hok : ∀ e ∈ m, e.1 ≠ [] ∧ OkVal true e.2 := fun e he =>
    ⟨relKvs_paths_ne_nil true noLeaf kvs e (hm.mem_iff.mp he), relKvs_true_okval kvs e (hm.mem_iff.mp he)⟩
  obtain ⟨kvs', h1, h2⟩ := build_flat true m [] (by
    simp only [relKvs, List.nil_append]
    exact (List.Perm.pairwise_iff (fun h => Incomp.symm h) hm).mpr hpf) hok
  simp only [relKvs, List.nil_append] at h2
  have hwf2 : WFKvs kvs' := build_wf m [] kvs' (by simp [WFKvs]) (fun e he => okval_wf true e.2 (hok e he).2) h1
  refine ⟨.dict kvs', ?_, by simpa [WF] using hwf2, ?_⟩
  · show Except.map Tree.dict (build [] m) = _
    rw [h1]; rfl
  · exact (dictEq_dict_iff kvs' kvs hwf2 hwf').mpr (h2.trans hm)

section StateEq
open Flax.State
variable {β : Type}

private theorem aux_fromFlat_wf (m : Flat α) (s' : SMap α) (h : fromFlat m = .ok s') : WFKvs s' := by
  simp only [fromFlat] at h
  cases hb : unflattenLoop (fun p => Except.ok p) ([] : SMap α)
      ((Dict.ofList m).map (fun pa => (pa.1, FVal.val (.leaf pa.2)))) with
  | error e => simp [hb, liftE] at h
  | ok a =>
    simp only [hb, liftE, Except.ok.injEq] at h
    subst h
    refine build_wf _ [] a (by simp [WFKvs]) ?_ hb
    intro e he
    simp only [List.mem_map] at he
    obtain ⟨x, _, rfl⟩ := he
    simp [FVal.toTree, WF]

private theorem aux_content_leaves (s : SMap α) : (leaves s).map leafEntry = relKvs false noLeaf s :=
  (relKvs_false_leaves s).symm

/-- two well-formed states with the same leaves are equal as Python dicts once their leaf-less sub-dicts are removed -/
theorem dictEq_prune_of_leaves_perm (a b : SMap α) (ha : WFKvs a) (hb : WFKvs b)
    (h : (leaves a).Perm (leaves b)) : DictEq (prune (.dict a)) (prune (.dict b)) := by
  simp only [prune]
  rw [dictEq_dict_iff _ _ (wf_normKvs a ha).1 (wf_normKvs b hb).1, relKvs_true_norm, relKvs_true_norm,
    ← aux_content_leaves, ← aux_content_leaves]
  exact h.map _

/-- **`from_flat_state(to_flat_state(s)) == prune(s)`** as Python dicts: State → FlatState → State loses nothing but
leaf-less sub-dicts (and nothing at all when `s` has none: `prune_eq_self`) -/
theorem state_flat_roundtrip_eq (s : SMap α) (hwf : WFKvs s) :
    ∃ s', fromFlat (toFlat s) = .ok s' ∧ WFKvs s' ∧ DictEq (.dict s') (prune (.dict s)) := by
  obtain ⟨s', h1, h2, _⟩ := state_flat_roundtrip s hwf
  have hw := aux_fromFlat_wf _ _ h1
  exact ⟨s', h1, hw, dictEq_prune_of_content s' s hw hwf (by rw [← aux_content_leaves]; exact h2)⟩

/-- **`to_pure_dict(s) == prune(s with extract applied to every leaf)`** -/
theorem to_pure_eq (ex : α → α) (s : SMap α) (hwf : WFKvs s) :
    ∃ pd, toPure ex s = .ok pd ∧ WFKvs pd ∧
      (Content pd).Perm (((leaves s).map (fun e => (e.1, ex e.2))).map leafEntry) := by
  obtain ⟨pd, h1, h2, _⟩ := to_pure_spec ex s hwf
  exact ⟨pd, h1, aux_fromFlat_wf _ _ h1, h2⟩

private theorem aux_wf_update : ∀ (new acc : SMap α), WFKvs acc → WFKvs new → WFKvs (Dict.update acc new) := by
  intro new
  induction new with
  | nil => intro acc h _; simpa [Dict.update] using h
  | cons x rest ih =>
    intro acc h hn
    simp only [WFKvs] at hn
    simp only [Dict.update, List.foldl_cons]
    exact ih (Dict.set acc x.1 x.2) (wf_set acc h x.1 x.2 hn.2.1) hn.2.2

/-- **`replace_by_pure_dict(s, to_pure_dict(s))` leaves `s` equal to itself** as a Python dict, up to leaf-less
sub-dicts (exactly, when `s` has none), for every key set (repaired definition, finding F14) -/
theorem pure_dict_roundtrip_eq (conv : Key → Key) (ex : α → β) (repl : α → β → α) (hrepl : ∀ a, repl a (ex a) = a)
    (s : SMap α) (hwf : WFKvs s) :
    ∃ pd s', toPure ex s = .ok pd ∧ replaceByPure conv repl s pd = .ok s' ∧ WFKvs s' ∧
      DictEq (prune (.dict s')) (prune (.dict s)) := by
  obtain ⟨pd, hpd, _, hl⟩ := to_pure_spec ex s hwf
  obtain ⟨pd', s', hpd', hr, hls⟩ := pure_dict_roundtrip conv ex repl hrepl s hwf
  rw [hpd] at hpd'
  have e : pd = pd' := Except.ok.inj hpd'
  subst e
  have hw : WFKvs s' := by
    -- s' = Dict.update s (from_flat_state …)
    simp only [replaceByPure, bind, Except.bind] at hr
    split at hr
    · cases hr
    · rename_i cur hcur
      split at hr
      · cases hr
      · rename_i new hnew
        have := Except.ok.inj hr
        subst this
        exact aux_wf_update new s hwf (aux_fromFlat_wf _ _ hnew)
  exact ⟨pd, s', hpd, hr, hw, dictEq_prune_of_leaves_perm s' s hw hwf hls⟩

/-- **`merge_state(*split_state(s, filters)) == prune(s)`** as Python dicts -/
theorem merge_inverse_of_split_eq (preds : List (SPath → α → Bool)) (s : SMap α) (hwf : WFKvs s)
    (s0 : SMap α) (srest : List (SMap α)) (h : splitState preds s = .ok (s0 :: srest)) :
    ∃ s', mergeState s0 srest = .ok s' ∧ DictEq (prune (.dict s')) (prune (.dict s)) ∧
      (srest ≠ [] → DictEq (.dict s') (prune (.dict s))) := by
  obtain ⟨s', h1, h2, h3⟩ := merge_inverse_of_split preds s hwf s0 srest h
  have hw : WFKvs s' := by
    cases srest with
    | nil =>
      simp only [mergeState, Except.ok.injEq] at h1
      subst h1
      -- s0 is one of the states produced by from_flat_state
      simp only [splitState, bind, Except.bind] at h
      split at h
      · cases h
      · rename_i states hst
        split at h
        · cases h
        · have hs := Except.ok.inj h
          have hmem : s0 ∈ states := by
            have : s0 ∈ states.take preds.length := by rw [hs]; simp
            exact List.mem_of_mem_take this
          -- every element of a successful mapM fromFlat is well-formed
          have : ∀ (l : List (Flat α)) (ys : List (SMap α)), l.mapM fromFlat = .ok ys → ∀ y ∈ ys, WFKvs y := by
            intro l
            induction l with
            | nil => intro ys hy y hyy; simp [pure, Except.pure] at hy; subst hy; simp at hyy
            | cons x r ih =>
              intro ys hy y hyy
              simp only [List.mapM_cons, bind, Except.bind] at hy
              cases hx : fromFlat x with
              | error e => simp [hx] at hy
              | ok sx =>
                simp only [hx] at hy
                cases hr : r.mapM fromFlat with
                | error e => simp [hr] at hy
                | ok sr =>
                  simp only [hr, pure, Except.pure, Except.ok.injEq] at hy
                  subst hy
                  simp only [List.mem_cons] at hyy
                  rcases hyy with rfl | hyy
                  · exact aux_fromFlat_wf _ _ hx
                  · exact ih sr hr y hyy
          exact this _ states hst s0 hmem
    | cons r rs =>
      rw [aux_merge_unfold s0 (r :: rs) (by simp)] at h1
      exact aux_fromFlat_wf _ _ h1
  refine ⟨s', h1, dictEq_prune_of_leaves_perm s' s hw hwf h3, ?_⟩
  intro _
  exact dictEq_prune_of_content s' s hw hwf (by rw [← aux_content_leaves]; exact h2)

/-- **`a - b == prune(a restricted to the paths absent from b)`** as Python dicts (repaired `diff`, finding F2) -/
theorem diff_spec_eq (a b : SMap α) (hwf : WFKvs a) (hb : b ≠ []) :
    ∃ s', diff a b = .ok s' ∧ WFKvs s' ∧
      DictEq (.dict s')
        (prune (.dict (keepPathsKvs (fun p => !decide (p ∈ (leaves b).map Prod.fst)) a))) := by
  obtain ⟨s', h1, h2, _⟩ := diff_spec a b hwf hb
  have hw : WFKvs s' := by
    have hbe : b.isEmpty = false := by
      cases b with
      | nil => exact absurd rfl hb
      | cons _ _ => rfl
    simp only [diff, hbe, Bool.false_eq_true, ↓reduceIte] at h1
    exact aux_fromFlat_wf _ _ h1
  refine ⟨s', h1, hw, ?_⟩
  refine dictEq_prune_of_content s' _ hw (wf_keepPathsKvs a _ hwf).1 ?_
  rw [← aux_content_leaves]
  show (relKvs true noLeaf s').Perm ((leavesKvs (keepPathsKvs _ a)).map leafEntry)
  rw [leaves_keepPathsKvs]
  exact h2

/-! ### State set laws as algebra -/

private theorem aux_leaves_of_content (s' : SMap α) (l : Flat α) (h : (Content s').Perm (l.map leafEntry)) :
    (leaves s').Perm l := by
  have := leafItems_perm h
  rwa [leafItems_relKvs_true, leafItems_map_leafEntry] at this

private theorem aux_mapM_wf : ∀ (l : List (Flat α)) (ys : List (SMap α)), l.mapM fromFlat = .ok ys →
    ∀ y ∈ ys, WFKvs y := by
  intro l
  induction l with
  | nil => intro ys hy y hyy; simp [pure, Except.pure] at hy; subst hy; simp at hyy
  | cons x r ih =>
    intro ys hy y hyy
    simp only [List.mapM_cons, bind, Except.bind] at hy
    cases hx : fromFlat x with
    | error e => simp [hx] at hy
    | ok sx =>
      simp only [hx] at hy
      cases hr : r.mapM fromFlat with
      | error e => simp [hr] at hy
      | ok sr =>
        simp only [hr, pure, Except.pure, Except.ok.injEq] at hy
        subst hy
        simp only [List.mem_cons] at hyy
        rcases hyy with rfl | hyy
        · exact aux_fromFlat_wf _ _ hx
        · exact ih sr hr y hyy

private theorem aux_split_parts (preds : List (SPath → α → Bool)) (s : SMap α) (hwf : WFKvs s)
    (states : List (SMap α)) (h : splitState preds s = .ok states) :
    (states.flatMap leaves).Perm (leaves s) ∧ (∀ st ∈ states, WFKvs st) ∧
    (∀ st ∈ states, (Content st).Perm ((leaves st).map leafEntry)) := by
  have hex : ∀ e ∈ leaves s, firstIdx preds e.1 e.2 < preds.length := by
    intro e he
    have hle := firstIdx_le preds e.1 e.2
    rcases Nat.lt_or_ge (firstIdx preds e.1 e.2) preds.length with hlt | hge
    · exact hlt
    · have := split_non_exhaustive preds s hwf ⟨e, he, by omega⟩
      rw [this] at h
      cases h
  obtain ⟨states', h1, h2⟩ := split_first_match preds s hwf hex
  rw [h1] at h
  have hs : states' = states := Except.ok.inj h
  subst hs
  refine ⟨?_, ?_, ?_⟩
  · have h3 := Forall2.flatMap_perm (f := fun i => bucket preds i (leaves s)) (g := leaves)
      (fun i st hr => hr.2) h2
    have hb := buckets_perm (fun (e : SPath × α) => firstIdx preds e.1 e.2) (leaves s) preds.length
    refine h3.trans (hb.trans ?_)
    rw [List.filter_eq_self.mpr]
    intro e he
    simpa using hex e he
  · intro st hst
    simp only [splitState, bind, Except.bind] at h1
    split at h1
    · cases h1
    · rename_i all hall
      split at h1
      · cases h1
      · have hs := Except.ok.inj h1
        have : st ∈ all := List.mem_of_mem_take (by rw [hs]; exact hst)
        exact aux_mapM_wf _ all hall st this
  · intro st hst
    obtain ⟨i, hi⟩ := List.getElem_of_mem hst
    obtain ⟨hi1, hi2⟩ := hi
    have hlen := h2.length_eq
    have hr := h2.get i (by omega) hi1
    rw [hi2] at hr
    exact hr.1.trans (hr.2.symm.map _)

/-- **split, then merge in ANY argument order** (the parts have pairwise disjoint path sets): the result holds
exactly the leaves of `s`, i.e. it is `prune s` as a Python dict -/
theorem split_merge_any_order (preds : List (SPath → α → Bool)) (s : SMap α) (hwf : WFKvs s)
    (states : List (SMap α)) (h : splitState preds s = .ok states)
    (s0 : SMap α) (srest : List (SMap α)) (hperm : (s0 :: srest).Perm states) :
    ∃ s', mergeState s0 srest = .ok s' ∧ (leaves s').Perm (leaves s) ∧
      DictEq (prune (.dict s')) (prune (.dict s)) := by
  obtain ⟨hall, hwfs, hcont⟩ := aux_split_parts preds s hwf states h
  have hall' : ((s0 :: srest).flatMap leaves).Perm (leaves s) := (hperm.flatMap_right leaves).trans hall
  cases hsr : srest with
  | nil =>
    subst hsr
    have hl : (leaves s0).Perm (leaves s) := by simpa using hall'
    have hw0 : WFKvs s0 := hwfs s0 (hperm.mem_iff.mp (by simp))
    exact ⟨s0, rfl, hl, dictEq_prune_of_leaves_perm s0 s hw0 hwf hl⟩
  | cons r rs =>
    rw [← hsr, aux_merge_unfold s0 srest (by rw [hsr]; simp)]
    have hpf : PrefixFree ((s0 :: srest).flatMap leaves) := PrefixFree.perm hall'.symm (leaves_prefixFree s hwf)
    rw [Dict.ofList_of_nodup _ hpf.nodup_paths]
    obtain ⟨s', e1, _, e3⟩ := fromFlat_spec _ hpf (fun e he => leaves_paths_ne_nil s e (hall'.mem_iff.mp he))
    have hw := aux_fromFlat_wf _ _ e1
    exact ⟨s', e1, e3.trans hall', dictEq_prune_of_leaves_perm s' s hw hwf (e3.trans hall')⟩

/-- **`filter_state` is idempotent**: filtering the `i`-th part again with the same filters returns that part at
position `i` and empty states everywhere else -/
theorem filter_idempotent (preds : List (SPath → α → Bool)) (s : SMap α) (hwf : WFKvs s)
    (states : List (SMap α)) (h : filterState preds s = .ok states) (i : Nat) (hi : i < states.length) :
    ∃ states2, filterState preds states[i] = .ok states2 ∧
      Forall2 (fun j st2 => (leaves st2).Perm (if j = i then leaves states[i] else [])) (List.range preds.length)
        states2 := by
  obtain ⟨states', h1, h2⟩ := filter_first_match preds s hwf
  rw [h1] at h
  have hs : states' = states := Except.ok.inj h
  subst hs
  have hlen := h2.length_eq
  have hr := h2.get i (by omega) hi
  simp only [List.getElem_range] at hr
  have hwi : WFKvs states'[i] := by
    simp only [filterState] at h1
    exact aux_mapM_wf _ states' h1 _ (List.getElem_mem hi)
  obtain ⟨states2, h3, h4⟩ := filter_first_match preds states'[i] hwi
  refine ⟨states2, h3, h4.imp ?_⟩
  intro j st2 hj
  refine hj.2.trans ?_
  have hb : (bucket preds j (leaves states'[i])).Perm (bucket preds j (bucket preds i (leaves s))) :=
    hr.2.filter _
  refine hb.trans ?_
  by_cases hji : j = i
  · subst hji
    simp only [↓reduceIte]
    have : bucket preds j (bucket preds j (leaves s)) = bucket preds j (leaves s) := by
      simp only [bucket, List.filter_filter, Bool.and_self]
    rw [this]
    exact hr.2.symm
  · simp only [hji, ↓reduceIte]
    have : bucket preds j (bucket preds i (leaves s)) = [] := by
      simp only [bucket, List.filter_filter, List.filter_eq_nil_iff, Bool.and_eq_true, beq_iff_eq, not_and]
      intro e _ h1 h2
      exact hji (h1.symm.trans h2)
    rw [this]

private theorem aux_diff_leaves (a b : SMap α) (hwf : WFKvs a) :
    ∃ s', diff a b = .ok s' ∧ WFKvs s' ∧
      (leaves s').Perm ((leaves a).filter (fun e => !decide (e.1 ∈ (leaves b).map Prod.fst))) := by
  cases b with
  | nil =>
    refine ⟨a, rfl, hwf, ?_⟩
    simp only [leavesKvs, List.map_nil, List.not_mem_nil, decide_false, Bool.not_false]
    rw [List.filter_eq_self.mpr (fun _ _ => rfl)]
  | cons x r =>
    obtain ⟨s', h1, hw, _⟩ := diff_spec_eq a (x :: r) hwf (by simp)
    obtain ⟨s'', h1', h2, _⟩ := diff_spec a (x :: r) hwf (by simp)
    rw [h1] at h1'
    have e : s' = s'' := Except.ok.inj h1'
    subst e
    exact ⟨s', h1, hw, aux_leaves_of_content s' _ h2⟩

private theorem aux_lastVal_isSome {γ : Type} (l : List (SPath × γ)) (k : SPath) :
    (∃ v, lastVal l k = some v) ↔ k ∈ l.map Prod.fst := by
  induction l with
  | nil => simp [lastVal]
  | cons x rest ih =>
    simp only [lastVal, List.map_cons, List.mem_cons]
    cases hr : lastVal rest k with
    | some w =>
      have : k ∈ rest.map Prod.fst := ih.mp ⟨w, hr⟩
      simp [this]
    | none =>
      have hn : ¬ k ∈ rest.map Prod.fst := fun hm => by
        obtain ⟨v, hv⟩ := ih.mpr hm
        rw [hr] at hv; cases hv
      by_cases hx : x.1 = k
      · simp [hx]
      · have hx' : ¬ k = x.1 := fun e => hx e.symm
        simp [hx, hx', hn]

private theorem aux_lastVal_append {γ : Type} (l1 l2 : List (SPath × γ)) (k : SPath) :
    lastVal (l1 ++ l2) k = match lastVal l2 k with
      | some v => some v
      | none => lastVal l1 k := by
  induction l1 with
  | nil => simp [lastVal]; cases lastVal l2 k <;> rfl
  | cons x rest ih =>
    simp only [List.cons_append, lastVal, ih]
    cases lastVal l2 k <;> rfl

private theorem aux_or (b c : SMap α) (hwb : WFKvs b)
    (hcompat : ∀ e1 ∈ [b, c].flatMap leaves, ∀ e2 ∈ [b, c].flatMap leaves, e1.1 = e2.1 ∨ Incomp e1.1 e2.1) :
    ∃ u, stateOr b c = .ok u ∧ WFKvs u ∧
      (∀ p x, (p, x) ∈ leaves u ↔ lastVal (leaves b ++ leaves c) p = some x) := by
  cases c with
  | nil =>
    refine ⟨b, rfl, hwb, ?_⟩
    intro p x
    have hnd := (leaves_prefixFree b hwb).nodup_paths
    simp only [leavesKvs, List.append_nil]
    rw [← Dict.mem_ofList, Dict.ofList_of_nodup _ hnd]
  | cons y r =>
    obtain ⟨u, h1, h2⟩ := merge_later_wins b [y :: r] (by simp) hcompat
    have hw : WFKvs u := by
      rw [aux_merge_unfold b [y :: r] (by simp)] at h1
      exact aux_fromFlat_wf _ _ h1
    refine ⟨u, h1, hw, ?_⟩
    intro p x
    rw [h2]
    simp

/-- **`a - b - c = a - (b | c)`**: both sides hold exactly the leaves of `a` whose path is neither in `b` nor in `c`;
as Python dicts they are equal up to leaf-less sub-dicts (`diff` returns `a` itself, unpruned, when the subtrahend is
empty) -/
theorem diff_diff_eq_diff_or (a b c : SMap α) (hwa : WFKvs a) (hwb : WFKvs b)
    (hcompat : ∀ e1 ∈ [b, c].flatMap leaves, ∀ e2 ∈ [b, c].flatMap leaves, e1.1 = e2.1 ∨ Incomp e1.1 e2.1) :
    ∃ d1 d2 u d3, diff a b = .ok d1 ∧ diff d1 c = .ok d2 ∧ stateOr b c = .ok u ∧ diff a u = .ok d3 ∧
      (leaves d2).Perm (leaves d3) ∧ DictEq (prune (.dict d2)) (prune (.dict d3)) := by
  obtain ⟨d1, h1, hw1, hl1⟩ := aux_diff_leaves a b hwa
  obtain ⟨d2, h2, hw2, hl2⟩ := aux_diff_leaves d1 c hw1
  obtain ⟨u, h3, _, hu⟩ := aux_or b c hwb hcompat
  obtain ⟨d3, h4, hw3, hl3⟩ := aux_diff_leaves a u hwa
  have hpu : ∀ p, p ∈ (leaves u).map Prod.fst ↔ (p ∈ (leaves b).map Prod.fst ∨ p ∈ (leaves c).map Prod.fst) := by
    intro p
    constructor
    · intro hp
      simp only [List.mem_map] at hp
      obtain ⟨⟨q, x⟩, hx, rfl⟩ := hp
      have := (aux_lastVal_isSome _ q).mp ⟨x, (hu q x).mp hx⟩
      simpa [List.map_append] using this
    · intro hp
      have : p ∈ (leaves b ++ leaves c).map Prod.fst := by simpa [List.map_append] using hp
      obtain ⟨x, hx⟩ := (aux_lastVal_isSome _ p).mpr this
      exact List.mem_map_of_mem (f := Prod.fst) ((hu p x).mpr hx)
  have hperm : (leaves d2).Perm (leaves d3) := by
    refine hl2.trans (((hl1.filter _).trans ?_).trans hl3.symm)
    rw [List.filter_filter]
    have : (fun (e : SPath × α) => (!decide (e.1 ∈ (leaves c).map Prod.fst)) && !decide (e.1 ∈ (leaves b).map Prod.fst))
        = (fun e => !decide (e.1 ∈ (leaves u).map Prod.fst)) := by
      funext e
      have := hpu e.1
      by_cases hb : e.1 ∈ (leaves b).map Prod.fst <;> by_cases hc : e.1 ∈ (leaves c).map Prod.fst <;>
        simp_all
    rw [this]
  exact ⟨d1, d2, u, d3, h1, h2, h3, h4, hperm, dictEq_prune_of_leaves_perm d2 d3 hw2 hw3 hperm⟩

/-- **`(a | b) - b ⊆ a`**, precisely: `(a | b) - b` holds exactly the leaves of `a` whose path is not in `b`
(it is `a - b`); in particular every one of its leaves is a leaf of `a` at the same path -/
theorem or_diff_subset (a b : SMap α) (hwa : WFKvs a)
    (hcompat : ∀ e1 ∈ [a, b].flatMap leaves, ∀ e2 ∈ [a, b].flatMap leaves, e1.1 = e2.1 ∨ Incomp e1.1 e2.1) :
    ∃ u d, stateOr a b = .ok u ∧ diff u b = .ok d ∧
      ∀ p x, (p, x) ∈ leaves d ↔ ((p, x) ∈ leaves a ∧ p ∉ (leaves b).map Prod.fst) := by
  obtain ⟨u, h1, hwu, hu⟩ := aux_or a b hwa hcompat
  obtain ⟨d, h2, _, hl⟩ := aux_diff_leaves u b hwu
  refine ⟨u, d, h1, h2, ?_⟩
  intro p x
  rw [hl.mem_iff, List.mem_filter, hu p x, aux_lastVal_append]
  have hnd := (leaves_prefixFree a hwa).nodup_paths
  have ha : lastVal (leaves a) p = some x ↔ (p, x) ∈ leaves a := by
    rw [← Dict.mem_ofList, Dict.ofList_of_nodup _ hnd]
  constructor
  · rintro ⟨h3, h4⟩
    have hnb : p ∉ (leaves b).map Prod.fst := by simpa using h4
    have : lastVal (leaves b) p = none := by
      cases hv : lastVal (leaves b) p with
      | none => rfl
      | some v => exact absurd ((aux_lastVal_isSome _ p).mp ⟨v, hv⟩) hnb
    rw [this] at h3
    exact ⟨ha.mp h3, hnb⟩
  · rintro ⟨h3, h4⟩
    have : lastVal (leaves b) p = none := by
      cases hv : lastVal (leaves b) p with
      | none => rfl
      | some v => exact absurd ((aux_lastVal_isSome _ p).mp ⟨v, hv⟩) h4
    rw [this]
    exact ⟨ha.mpr h3, by simpa using h4⟩

end StateEq

/-! ## `nnx.traversals`: the twins

`flatten_mapping` / `unflatten_mapping` are line for line the algorithm of `flatten_dict` / `unflatten_dict` (the only
differences are the accepted container types: any `Mapping`, and any iterable of pairs for `unflatten_mapping`); both
are modelled by the single definitions `flattenWith` / `unflattenWith`, so every theorem above is about both, and the
correspondence run drives both libraries against that one model. `flatten_to_sequence` is the one function with a
different shape (a list, no `keep_empty_nodes`, no `sep`); it is `flattenToSeq`. -/

/-- `flatten_to_sequence(t, is_leaf)` lists exactly the items of `flatten_mapping(t, is_leaf=is_leaf)`, in the same order -/
theorem flattenToSeq_eq_flatten (isLeaf : Path κ → Tree κ α → Bool) (kvs : List (κ × Tree κ α))
    (hwf : WF (.dict kvs)) : flattenToSeq isLeaf (.dict kvs) = flatten false isLeaf (.dict kvs) := by
  have hwf' : WFKvs kvs := by simpa [WF] using hwf
  simp only [flattenToSeq, flatten, flattenWith]
  have hnd : ((flatT false isLeaf (.dict kvs) []).map Prod.fst).Nodup := by
    cases hr : isLeaf [] (.dict kvs) with
    | true => simp [flatT, hr]
    | false =>
      rw [flatT_root false isLeaf kvs hr]
      exact (relKvs_prefixFree false kvs isLeaf hwf').nodup_paths
  have : (flatT false isLeaf (.dict kvs) []).map (fun pv => (id pv.1, pv.2)) = flatT false isLeaf (.dict kvs) [] := by
    simp
  rw [this, Dict.ofList_of_nodup _ hnd]

/-- `unflatten_mapping(flatten_to_sequence(t, is_leaf))` (a list of pairs is accepted) is the same normal form -/
theorem unflatten_flattenToSeq (isLeaf : Path κ → Tree κ α → Bool) (kvs : List (κ × Tree κ α))
    (hwf : WF (.dict kvs)) (hroot : isLeaf [] (.dict kvs) = false) :
    (flattenToSeq isLeaf (.dict kvs) >>= unflatten) = .ok (.dict (normKvs false isLeaf kvs)) := by
  rw [flattenToSeq_eq_flatten isLeaf kvs hwf]
  exact unflatten_flatten_norm false isLeaf kvs hwf hroot

/-- the empty root: `flatten_dict({}, …)` / `flatten_mapping({}, …)` is `{}` for every `keep_empty_nodes`, every
`is_leaf` that is false at the root and every key encoding — with a separator too (no `'' ↦ empty_node` entry) -/
theorem flatten_root_empty {ρ : Type} [DecidableEq ρ] (key : Path κ → ρ) (keep : Bool)
    (isLeaf : Path κ → Tree κ α → Bool) (hroot : isLeaf [] (.dict []) = false) :
    flattenWith key keep isLeaf (.dict ([] : List (κ × Tree κ α))) = .ok [] := by
  simp [flattenWith, flatT_root keep isLeaf [] hroot, relKvs, Dict.ofList]

/-- …and an empty dict below the top level is kept as `empty_node` under its joined key, the empty-string key
included: `flatten_dict({'': {}}, keep_empty_nodes=True, sep='/') == {'': empty_node}` -/
theorem flatten_sep_empty_key_kept :
    flattenSep "/" true noLeaf (.dict [("", .dict [])] : Tree String Nat) = .ok [("", .emptyNode)] ∧
    (flattenSep "/" true noLeaf (.dict [("", .dict [])] : Tree String Nat) >>= unflattenSep "/")
      = .ok (.dict [("", .dict [])]) := by
  refine ⟨rfl, rfl⟩

/-! ## the hypotheses are satisfiable by non-trivial instances -/

section Examples
open Flax.State

/-- a nested dict with an empty sub-dict, an empty-string key and a digit-string key -/
private def tEx : List (String × Tree String Nat) :=
  [("a", .dict [("b", .leaf 1), ("", .dict []), ("0", .dict [("c", .leaf 2)])]), ("d", .leaf 3)]

example : WF (.dict tEx) := by simp [tEx, WF, WFKvs]

example : (fun (p : Path String) (_ : Tree String Nat) => decide (p.length = 2)) [] (.dict tEx) = false := by decide

example : ∀ k ∈ keysKvs tEx, NoOverlap "/".toList k.toList := by
  have : "/".toList = ['/'] := by decide
  simp only [this, noOverlap_singleton]
  decide

example : (flatten true noLeaf (.dict tEx) >>= unflatten) = .ok (.dict tEx) := by rfl

example : (flatten false noLeaf (.dict tEx) >>= unflatten)
    = .ok (.dict [("a", .dict [("b", .leaf 1), ("0", .dict [("c", .leaf 2)])]), ("d", .leaf 3)]) := by rfl

example : ∀ e ∈ [((["a", "b"] : Path String), (FVal.val (.leaf 1) : FVal String Nat)), (["a", "c"], .emptyNode)],
    e.1 ≠ [] ∧ OkVal true e.2 := by
  intro e he
  simp only [List.mem_cons, List.not_mem_nil, or_false] at he
  rcases he with rfl | rfl
  · exact ⟨by simp, Or.inl ⟨1, rfl⟩⟩
  · exact ⟨by simp, Or.inr ⟨rfl, rfl⟩⟩

/-- a State with `str` and `int` keys, a digit-string key and an empty sub-dict -/
private def sEx : SMap Int :=
  [(.str "layers", .dict [(.int 0, .dict [(.str "w", .leaf 1), (.str "b", .leaf 2)]), (.int 1, .dict [(.str "w", .leaf 3)])]),
   (.str "0", .leaf 4), (.str "e", .dict [])]

private def predsEx : List (SPath → Int → Bool) :=
  [fun p _ => decide (Key.str "w" ∈ p), fun _ a => decide (a < 3), fun _ _ => true]

example : WFKvs sEx := by simp [sEx, WFKvs, WF]

example : ∀ e ∈ leaves sEx, firstIdx predsEx e.1 e.2 < predsEx.length := by decide

example : ∃ e ∈ leaves sEx, firstIdx (predsEx.take 1) e.1 e.2 = (predsEx.take 1).length := by decide

example : splitState predsEx sEx = .ok
    [[(.str "layers", .dict [(.int 0, .dict [(.str "w", .leaf 1)]), (.int 1, .dict [(.str "w", .leaf 3)])])],
     [(.str "layers", .dict [(.int 0, .dict [(.str "b", .leaf 2)])])],
     [(.str "0", .leaf 4)]] := by rfl

private def bEx : SMap Int := [(.str "layers", .dict [(.int 1, .dict [(.str "w", .leaf 30)])]), (.str "new", .leaf 5)]

example : ∀ e1 ∈ [sEx, bEx].flatMap leaves, ∀ e2 ∈ [sEx, bEx].flatMap leaves, e1.1 = e2.1 ∨ Incomp e1.1 e2.1 := by
  simp only [Incomp]
  decide

example : mergeState sEx [bEx] = .ok
    [(.str "layers", .dict [(.int 0, .dict [(.str "w", .leaf 1), (.str "b", .leaf 2)]), (.int 1, .dict [(.str "w", .leaf 30)])]),
     (.str "0", .leaf 4), (.str "new", .leaf 5)] := by rfl

example : diff sEx bEx = .ok
    [(.str "0", .leaf 4), (.str "layers", .dict [(.int 0, .dict [(.str "b", .leaf 2), (.str "w", .leaf 1)])])] := by rfl

end Examples

end Flax.C16
